#!/bin/bash
# usage: tools/mut.sh <Cxx[,Cyy]> <file-relative-to-repo> <python-regex> <replacement>   (first match only)
# Applies a one-off mutation to /repo, verifies it builds, runs the check(s), restores /repo.
props=$1; file=$2; pat=$3; rep=$4
cd /repo || exit 2
if [ -n "$(git -C /repo status --porcelain)" ]; then echo 'REFUSING: /repo has uncommitted changes (they would be lost)'; exit 5; fi
trap 'git -C /repo checkout -- . 2>/dev/null' EXIT
python3 - "$file" "$pat" "$rep" <<'PY' || { echo "MUTATION DID NOT APPLY"; exit 3; }
import re,sys
f,pat,rep=sys.argv[1:4]
s=open(f).read()
n,c=re.subn(pat,rep,s,count=1,flags=re.S)
if c==0: sys.exit(1)
open(f,'w').write(n)
PY
git -C /repo diff --stat | tail -1
if ! (cd /repo && GOFLAGS=-mod=mod GOPROXY=off go build ./... 2>&1 | head -5 | (! grep .)); then echo "MUTANT DOES NOT BUILD"; exit 4; fi
for p in ${props//,/ }; do
  out=$(cd /verif && ./check $p quick 2>&1); code=$?
  echo "$out" | grep -E "^(VIOLATION:|UNDECIDED:|UNRESOLVED:|C[0-9]+ quick)" | cut -c1-400
  echo "exit=$code"
done
