#!/usr/bin/env python3
"""Self-validation of one property's check (thorough tier): on scratch copies of /repo's current
working tree, every seeded change known to break this property must make the check fire, and every
behaviour-preserving variant touching the files the check analyses must leave its verdict unchanged.
Verdicts are taken relative to the base run on the current tree. Patches that no longer apply are
skipped and listed. Prints a summary, merges a 'corpus' section into evidence/<prop>.json and exits
0 (validated), or 3 (self-validation failed: the checker is not to be believed)."""
import glob, hashlib, json, os, shutil, subprocess, sys, tempfile, time
from concurrent.futures import ThreadPoolExecutor
prop = sys.argv[1]
REPO = os.environ.get('VERIF_REPO', '/repo')
VERIF = os.path.dirname(os.path.dirname(os.path.abspath(__file__)))
BASE = os.path.join(VERIF, 'corpus', 'BASE.json')
def fingerprint(repo):
    """content hash of the non-test Go sources: identifies the tree the corpus patches were made for"""
    h = hashlib.sha256()
    for root, dirs, files in os.walk(repo):
        dirs[:] = sorted(d for d in dirs if d != '.git')
        for f in sorted(files):
            if f.endswith('.go') and not f.endswith('_test.go'):
                p = os.path.join(root, f)
                h.update(os.path.relpath(p, repo).encode() + b'\0' + hashlib.sha256(open(p, 'rb').read()).digest())
    return h.hexdigest()
if prop == '--record-base':
    c = subprocess.run(['git', '-C', REPO, 'rev-parse', '--short', 'HEAD'], stdout=subprocess.PIPE, text=True).stdout.strip()
    json.dump({'commit': c, 'fingerprint': fingerprint(REPO), 'note': 'the tree the seeded changes, variants and fix reverts of this corpus were made for and validated on; on any other tree a corpus mismatch is reported but does not change the exit code (tools/corpus.py)'}, open(BASE, 'w'), indent=1)
    print('corpus base recorded:', c)
    sys.exit(0)
LINT = os.path.join(VERIF, 'bin', 'coerlint')
ENV = dict(os.environ, PATH='/opt/veriftools/go1.26.8/bin:' + os.environ.get('PATH', ''), GOTOOLCHAIN='local', GOFLAGS='-mod=mod', GOPROXY='off', GOWORK='off')
ENV.pop('GOSUMDB', None)
t0 = time.time()
def findings(repo, out):
    p = subprocess.run([LINT, '-repo', repo, '-prop', prop, '-tier', 'quick', '-out', out, '-known', os.path.join(VERIF, 'known_findings.json')],
                       env=ENV, stdout=subprocess.PIPE, stderr=subprocess.STDOUT, text=True)
    fs = set()
    for l in p.stdout.splitlines():
        if l.startswith(('VIOLATION:', 'UNDECIDED:', 'UNRESOLVED:')):
            rule = l.split('[', 1)[1].split(']', 1)[0]; key = l.split('key="', 1)[1].split('"', 1)[0]
            fs.add(rule + ' ' + key)
        if l.startswith('ERROR'):
            fs.add('ERROR ' + l[:120])
    return fs
def broken(fs):
    return any(f.startswith('ERROR') for f in fs)
tmp = tempfile.mkdtemp(prefix='coerlint-corpus-')
try:
    base = findings(REPO, os.path.join(tmp, 'base-out'))
    ev_path = os.path.join(VERIF, 'evidence', prop + '.json')
    files = set(json.load(open(ev_path))['coverage'].get('files_analysed', []))
    variants = []
    for d in sorted(glob.glob(os.path.join(VERIF, 'seeded', 'C*-*'))):
        meta = json.load(open(os.path.join(d, 'meta.json')))
        if prop in (meta.get('detected_by') or {}):
            variants.append(('M', os.path.basename(d), os.path.join(d, 'patch.diff')))
        elif meta.get('neutralised_by') and meta.get('property') == prop:
            # a later fix: commit repaired what this seed relied on: on the current tree it must be silent,
            # on the tree without that fix the check must fail
            variants.append(('E', os.path.basename(d) + '@current', os.path.join(d, 'patch.diff')))
            variants.append(('N', os.path.basename(d) + '@without-' + meta['neutralised_by'], os.path.join(d, 'patch.diff'), meta['neutralised_by']))
    # every repaired defect of this property: with its fix: commit reversed the check must report the construct again
    fixed = {}
    for f in json.load(open(os.path.join(VERIF, 'known_findings.json')))['findings']:
        if f.get('status') == 'fixed' and f['property'] == prop:
            fixed.setdefault(f['commit'], []).append(f['rule'] + ' ' + f['key'])
    for c in sorted(fixed):
        variants.append(('R', 'revert-' + c, None, c, fixed[c]))
    for f in sorted(glob.glob(os.path.join(VERIF, 'corpus', 'equiv', '*.diff'))):
        touched = {l[6:].strip() for l in open(f) if l.startswith('+++ b/')}
        if touched & files:
            variants.append(('E', os.path.basename(f)[:-5], f))
    def run(v):
        kind, name, patch = v[:3]
        work = os.path.join(tmp, name)
        shutil.copytree(REPO, os.path.join(work, 'repo'), ignore=shutil.ignore_patterns('.git'))
        if kind in ('N', 'R'):
            d = subprocess.run(['git', '-C', REPO, 'show', v[3]], stdout=subprocess.PIPE, text=True).stdout
            open(os.path.join(work, 'fix.diff'), 'w').write(d)
            a = subprocess.run(['patch', '-R', '-p1', '-s', '-f', '-i', os.path.join(work, 'fix.diff')], cwd=os.path.join(work, 'repo'), stdout=subprocess.PIPE, stderr=subprocess.STDOUT, text=True)
            if a.returncode != 0 or not d:
                shutil.rmtree(work, ignore_errors=True)
                return (kind, name, 'skipped', 'the fix commit cannot be reversed on the current tree')
        if kind == 'R':
            got = findings(os.path.join(work, 'repo'), os.path.join(work, 'out'))
            shutil.rmtree(work, ignore_errors=True)
            if broken(got):
                return (kind, name, 'skipped', 'the tree with the fix reversed does not type-check (the current tree has moved on)')
            missing = [k for k in v[4] if k not in got]
            return (kind, name, 'ok' if not missing else 'FAILED', 'the repaired construct is reported again: ' + '; '.join(v[4])[:200] if not missing else 'with the fix reversed the check does not report ' + '; '.join(missing)[:200])
        a = subprocess.run(['git', 'apply', '--unsafe-paths', '--directory=' + os.path.join(work, 'repo'), patch], cwd='/', stdout=subprocess.PIPE, stderr=subprocess.STDOUT, text=True)
        if a.returncode != 0:
            a = subprocess.run(['patch', '-p1', '-s', '-f', '-i', patch], cwd=os.path.join(work, 'repo'), stdout=subprocess.PIPE, stderr=subprocess.STDOUT, text=True)
        if a.returncode != 0:
            shutil.rmtree(work, ignore_errors=True)
            return (kind, name, 'skipped', 'patch does not apply to the current tree')
        got = findings(os.path.join(work, 'repo'), os.path.join(work, 'out'))
        shutil.rmtree(work, ignore_errors=True)
        new, gone = got - base, base - got
        if broken(new):
            # the patch applied textually but the result is not a program (the current tree was edited since the patch was made)
            return (kind, name, 'skipped', 'patched tree does not type-check on the current tree')
        if kind == 'M':
            return (kind, name, 'ok' if new else 'FAILED', 'fires: ' + '; '.join(sorted(new))[:200] if new else 'seeded break not reported')
        if kind == 'N':
            return (kind, name, 'ok' if got else 'FAILED', 'fails without the fix: ' + '; '.join(sorted(got))[:200] if got else 'seeded break not reported on the tree without the fix')
        return (kind, name, 'ok' if not new and not gone else 'FAILED', 'verdict unchanged' if not new and not gone else 'verdict changed: +' + '; '.join(sorted(new))[:300] + ' -' + '; '.join(sorted(gone))[:100])
    with ThreadPoolExecutor(max_workers=6) as ex:
        results = list(ex.map(run, variants))
finally:
    shutil.rmtree(tmp, ignore_errors=True)
failed = [r for r in results if r[2] == 'FAILED']
skipped = [r for r in results if r[2] == 'skipped']
for r in results:
    print('CORPUS %s %-28s %-7s %s' % r)
ev = json.load(open(ev_path))
ev['coverage']['corpus'] = {
    'seeded_breaks_run': len([r for r in results if r[0] in ('M', 'N') and r[2] != 'skipped']),
    'fix_reverts_run': len([r for r in results if r[0] == 'R' and r[2] != 'skipped']),
    'equivalent_variants_run': len([r for r in results if r[0] == 'E' and r[2] != 'skipped']),
    'failed': [list(r) for r in failed], 'skipped': [r[1] for r in skipped],
    'tree_is_corpus_base': (not os.path.exists(BASE)) or json.load(open(BASE)).get('fingerprint') == fingerprint(REPO),
    'samples': [list(r) for r in results[:6]],
    'rule': 'verdicts relative to the base run on the current tree: a seeded break must add a finding of this property, an equivalent variant must leave the finding set unchanged, and the tree with a fix: commit reversed must report every construct that commit repaired',
}
ev['wall_s'] = round(ev.get('wall_s', 0) + time.time() - t0, 1)
json.dump(ev, open(ev_path, 'w'), indent=1)
print('CORPUS %s: %d seeded breaks, %d fix reverts, %d equivalents, %d failed, %d skipped (%.0fs)' % (prop, ev['coverage']['corpus']['seeded_breaks_run'], ev['coverage']['corpus']['fix_reverts_run'], ev['coverage']['corpus']['equivalent_variants_run'], len(failed), len(skipped), time.time() - t0))
base_rec = json.load(open(BASE)) if os.path.exists(BASE) else None
on_base = base_rec is None or base_rec.get('fingerprint') == fingerprint(REPO)
if failed and not on_base:
    # The patches were made for another tree. Applied (with fuzz) to an edited tree they may no longer mean what
    # they meant: a mismatch then says nothing about the property on this tree nor about the rules, so it is
    # reported and recorded, and the verdict of the rules stands.
    print('CORPUS NOTE: /repo differs from the tree this corpus was made for (%s); %d variant(s) behaved differently on it — informational, the exit code is that of the rules' % (base_rec.get('commit'), len(failed)))
    sys.exit(0)
sys.exit(3 if failed else 0)
