#!/usr/bin/env python3
"""Generates /verif/MANIFEST.json from the table below (run after adding a property's rules)."""
import json, subprocess
BUILT = "C01 C02 C03 C04 C05 C06 C07 C08 C09 C10 C11 C12 C13 C14 C15 C16 C17 C18 C19 C20".split()
NA = {}  # property -> reason (genuinely not applicable)
TECH = {
 "C01": "state-graph dominance (K1) + CFG path rules on gate routing/order (K2,K3) + exact caller sets (K4) over go/types+go/cfg + context-origin def-use of the run context (K11) + join pairing and Wait-result propagation in the check-group runners (K3,K2), state-graph spawn/join of the continuous checks (K1)",
 "C02": "def-use of limiter/pool size (K11) + acquire/release pairing on CFG paths (K3) + comparison shape (K5) + who-may-write lint on the shared engine value (K4) + context plumbing to the plugin (K11) + lock-scope check-then-act pairing of Start (K3)",
 "C03": "comparison-shape lint on failures vs tolerance (K5) + CFG path rules on counting, launch guards and outcome routing (K2,K3) + assume-and-refute per loop iteration on repair-then-classify (K2) + loop-exhaustion rule on the stored-failure count (K2), package-wide guarded-comparison lint on ToleratedFailures (K5), failed-group assume-and-refute (K2)",
 "C04": "CFG must-pass/pairing (K3), state-graph spawn/join (K1), switch exhaustiveness and table agreement (K7), path routing (K2) + assume-and-refute scan completeness (K7), end-stamp pairing on every terminal assignment (K3) + no-item-skipped rule on the final writer's walk loop (K7)",
 "C05": "comparison shape + dominance of the retry guard (K5,K3), defer-order/pairing on CFG paths (K3), outcome mapping on paths (K2), runner state graph (K1) + freshness def-use of the result channel (K11), recovery verdict by assume-and-refute (K2), exact-type-comparison lint on isType (K5)",
 "C06": "gate routing on CFG paths (K2), state graph (K1), call-graph unreachability of plugin invocation (K4) + assume-and-refute on gate evaluation and on recovery of failed gates (K2) + Wait-result propagation of the group verdict (K2), recovery dispatch routing (K2)",
 "C07": "send/close pairing on CFG paths (K3), drain/poll routing (K2), state-graph predecessor sets and spawn/join (K1) + blocking/non-blocking send classification (K3), sticky failure verdict on paths (K2) + emptied-Attempts-before-run rule on the inlined paths of runChecksOnce (K3), reason-scan completeness (K7)",
 "C08": "persist-before-act ordering on CFG paths (K3), storage error discipline at every Update* site (K6), state graph (K1), who-may-call (K4) + mark-Running-before-act and write-after-mark on CFG paths (K3), write-on-every-exit pairing in runAction (K3)",
 "C10": "wiring by def-use and call graph (K4,K11), state graphs of the recovery and plan machines (K1), join pairing (K3) — structural necessary conditions only + write-order lint of whole-plan writers (K3), stream-loop call-graph reach (K4), assume-and-refute on failed groups (K2) + recovered-gate and durable-verdict assume-and-refute rules (K2)",
 "C11": "literal/def-use checks of the start-up filter (K11), comparison shape of the staleness test (K5), path rules on agedOut persistence (K2,K6), who-may-call (K4) + write-order lint of the stale-close writer (K3), loop-exhaustion rule on lastUpdate (K2), no-item-skipped rule on the close-out writer (K7)",
 "C12": "lock-scope pairing on CFG paths (K3), guard dominance in validators (K5,K2), enumeration of non-returning call sites (K4), nil-guard and positive-argument dominance (K10,K5) + nil-then-dereference contradiction rule and index-past-end lint over the API-reachable packages (K10), no-mutation-on-refusal call-graph reach (K4), error-companion nil facts for vault reads, function literals included (K10)",
 "C13": "schema/statement agreement over the constant SQL and entry structs (K8): INSERT/UPDATE/SELECT closure, per-column writer-source = reader-destination, storage classes; field coverage from go/types (K7); not-found path rule (K2) + transaction-variable def-use (K11,K3), decode-target freshness (K11)",
 "C14": "transaction-scope pairing (K3,K11), error discipline at every call site of the create/delete scope (K6), delete traversal coverage from go/types and DELETE statement lint (K7,K8) + batch-per-attempt capture lint on retry literals (K3)",
 "C15": "SQL predicate lint (K8), symbolic expansion of the query builder's CFG paths into templates (K2,K8), stream close/connection ownership pairing (K3), sibling-literal agreement (K7) + retry-context capture lint (K11), constructor copy-order lint (K7) + send-has-a-way-out lint on stream producers (K3), one-statement-per-stream path rule (K3)",
 "C16": "pipeline ordering on CFG paths (K3), required-field guard table on every accepting path (K2), child coverage from go/types (K7), def-use of the shared key set (K11), comparison shape (K5), error discipline (K6) + call-order on CFG paths for defaults vs validation, refusal of preset registers (K3,K2)",
 "C17": "reflect.Kind dispatch coverage and callee-assertion contradiction check (K9), scrub-before-return dominance (K3), aliasing lint (K7), call-order and recursion discipline (K4,K6) + assume-and-refute on embedded-struct skipping, exemption-predicate lint (K9) + assume-and-refute on skipped fields of the registry's type descent (K9), who-may-write lint on package-level state in the scrubber's call-graph reach (K4)",
 "C18": "field coverage and aliasing lint from go/types (K7), branch-scoped assignment of engine-owned fields and nil-result guards (K2) + append-destination freshness (K7), exemption-predicate lint (K9)",
 "C19": "source-order visit table against the field list from go/types (K7), chain def-use (K11), visitor-result discipline at every yield/walk call (K6), walker-answer def-use on CFG paths (K6)",
 "C20": "prologue guard order on CFG paths (K10), nil-guard dominance (K10), truncate/re-root pairing (K3), type-switch placement table and sibling-case field agreement (K2,K7) + sticky-error return discipline on CFG paths (K6), no-plan-write lint on Up and its private helpers (K3)",
 "C09": "terminal-status guard dominance on CFG paths (K2), fix* prologue guards (K10), exact caller sets (K4) + assume-and-refute iff-rules on skip guards and repair-then-classify (K2) + assume-and-refute: durable group verdicts are not run again at plan level (K2)",
}
def text(p):
    return ("Static, all-paths decision of the structural clauses listed for %s in DESIGN.md section 4: every rule instance is evaluated on the type-checked source of /repo's current tree (go/packages + go/types + go/cfg path enumeration), for every path rather than for sampled executions. Each clause is a necessary condition of the property (breaking it breaks observable behaviour for some input/schedule); the behaviour as a whole, which quantifies over runtime values and schedules, is not decided — hence level 'other', not 'proof'." % p)
checks = []
for p in BUILT:
    checks.append({
        "property_id": p,
        "quick_cmd": "./check %s quick" % p,
        "thorough_cmd": "./check %s thorough" % p,
        "evidence_file": "evidence/%s.json" % p,
        "replay_cmd_template": "./check --explain {path}",
        "engine": "coerlint",
        "level_claimed": {"category": "other", "text": text(p), "design_ref": "DESIGN.md section 4, " + p},
        "level_note": "Trusted base: go/types, go/cfg, go/packages (x/tools v0.50.0, go1.26.8); the rule tables of coerlint; the read (not analysed) semantics of statemachine.Run, exponential.Backoff.Retry, worker Pool/Group, sqlitex. Undecided constructs and unresolved anchors fail the check.",
        "technique": TECH.get(p, "repository-specific static rules over go/types + go/cfg"),
    })
props = [json.loads(l)["id"] for l in open("/verif/properties.jsonl")]
na = []
for p in props:
    if p in BUILT: continue
    na.append({"property_id": p, "reason": NA.get(p, "check not built yet (static rules designed in DESIGN.md section 4; to be claimed once coerlint implements them)")})
fix_commits = subprocess.check_output(["git", "-C", "/repo", "log", "--format=%h %s", "f379e7e..HEAD"]).decode().strip().splitlines()
m = {
 "version": 1,
 "setup_cmd": "./check --build",
 "hooks": {"guard": "verif", "enable": "none: static analysis needs no instrumentation in /repo (guard name reserved, unused)",
           "baseline_off_cmd": "cd /repo && GOFLAGS=-mod=mod GOPROXY=off go test -vet=off -count=1 -timeout 25m ./...",
           "source_commits": [], "add_only": True},
 "engines": [{"name": "coerlint", "path": "checker", "serves_properties": BUILT, "kind_free_text": "repository-specific static analyser (go/packages, go/types, go/cfg path enumeration, state-graph and call-graph extraction, SQL/schema agreement)"}],
 "checks": checks,
 "notes": "All claims are level 'other': structural necessary conditions decided on all paths. Genuine defects found are in known_findings.json; repairs in /repo: " + "; ".join(fix_commits),
 "not_applicable": na,
}
json.dump(m, open("/verif/MANIFEST.json", "w"), indent=1)
print("claimed", len(checks), "pending/na", len(na))
