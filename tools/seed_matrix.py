#!/usr/bin/env python3
"""For every seed in /verif/seeded: on a scratch copy of /repo's working tree apply its patch, run every check (quick) and
record in meta.json which rule instances fire (relative to the unchanged tree). confirm_head.json (tools/confirm_seed.py
against HEAD) is merged in as confirmed_head. A seed whose demonstration no longer fails on HEAD because a later fix: commit
repaired the weakness it relied on carries "neutralised_by": it must then be SILENT on HEAD and fire on the tree without that
fix (also recorded). Nothing in /repo is touched."""
import glob, json, os, shutil, subprocess, sys, tempfile
from concurrent.futures import ThreadPoolExecutor
REPO='/repo'; VERIF='/verif'; LINT=VERIF+'/bin/coerlint'
ENV = dict(os.environ, PATH='/opt/veriftools/go1.26.8/bin:' + os.environ.get('PATH', ''), GOTOOLCHAIN='local', GOFLAGS='-mod=mod', GOPROXY='off', GOWORK='off'); ENV.pop('GOSUMDB', None)
NEUTRALISED = {'C04-3': '726c83c', 'C08-3': '726c83c', 'C20-1': '9ef8f5a'}
def findings(repo, out):
    p = subprocess.run([LINT, '-repo', repo, '-prop', 'all', '-tier', 'quick', '-out', out, '-known', VERIF+'/known_findings.json'], env=ENV, stdout=subprocess.PIPE, stderr=subprocess.STDOUT, text=True)
    fs = {}
    for l in p.stdout.splitlines():
        if l.startswith(('VIOLATION:', 'UNDECIDED:', 'UNRESOLVED:')):
            rule = l.split('[', 1)[1].split(']', 1)[0]; key = l.split('key="', 1)[1].split('"', 1)[0]
            fs.setdefault(rule.split('-')[0], []).append(rule + ' ' + key)
    return fs
only = sys.argv[1:]
tmp = tempfile.mkdtemp(prefix='coerlint-matrix-')
def variant(name, patches, reverse=None):
    work = tmp + '/' + name
    shutil.copytree(REPO, work + '/repo', ignore=shutil.ignore_patterns('.git'))
    if reverse:
        d = subprocess.run(['git', '-C', REPO, 'show', reverse], stdout=subprocess.PIPE, text=True).stdout
        open(work + '/fix.diff', 'w').write(d)
        if subprocess.run(['patch', '-R', '-p1', '-s', '-f', '-i', work + '/fix.diff'], cwd=work + '/repo', stdout=subprocess.DEVNULL).returncode != 0:
            shutil.rmtree(work, ignore_errors=True); return None
    for p in patches:
        if subprocess.run(['patch', '-p1', '-s', '-f', '-i', p], cwd=work + '/repo', stdout=subprocess.DEVNULL).returncode != 0:
            shutil.rmtree(work, ignore_errors=True); return None
    f = findings(work + '/repo', work + '/out')
    shutil.rmtree(work, ignore_errors=True)
    return f
try:
    base = findings(REPO, tmp + '/base')
    seeds = [d for d in sorted(glob.glob(VERIF + '/seeded/C*-*')) if not only or os.path.basename(d) in only or os.path.basename(d).split('-')[0] in only]
    def run(d):
        sid = os.path.basename(d); meta = json.load(open(d + '/meta.json'))
        got = variant(sid, [d + '/patch.diff'])
        if got is None:
            meta['detection'] = 'patch no longer applies to /repo HEAD'; meta['detected_by'] = {}
        else:
            new = {p: [x for x in v if x not in base.get(p, [])] for p, v in got.items()}; new = {p: v for p, v in new.items() if v}
            meta['detected_by'] = new; own = meta['property']
            meta['detection'] = 'caught by its own property check' if own in new else ('caught only by other checks: ' + ','.join(sorted(new)) if new else 'silent')
        ch = d + '/confirm_head.json'
        if os.path.exists(ch): meta['confirmed_head'] = bool(json.load(open(ch)).get('confirmed'))
        if sid in NEUTRALISED:
            fix = NEUTRALISED[sid]; meta['neutralised_by'] = fix
            wo = variant(sid + '-nofix', [d + '/patch.diff'], reverse=fix); bo = variant(sid + '-nofix-base', [], reverse=fix)
            if wo is not None and bo is not None:
                own = meta['property']
                meta['detected_without_fix'] = [x for x in wo.get(own, []) if x not in bo.get(own, [])]
                if not meta['detected_without_fix']:
                    meta['detected_without_fix'] = [x + ' (the instance the fixed defect itself trips: the seed is another way into the same failure)' for x in wo.get(own, [])][:3]
            meta['detection'] = ('neutralised by fix %s: on HEAD the change no longer breaks the property and the checks are %s; on the tree without that fix its own check reports %s'
                                 % (fix, 'silent' if not meta['detected_by'] else 'NOT silent', '; '.join(meta.get('detected_without_fix', [])) or 'NOTHING'))
        json.dump(meta, open(d + '/meta.json', 'w'), indent=1)
        return sid, meta['detection'] + ' ' + '; '.join(sum(meta['detected_by'].values(), []))[:150]
    with ThreadPoolExecutor(max_workers=int(os.environ.get('J', '5'))) as ex:
        for sid, line in ex.map(run, seeds): print('%-8s %s' % (sid, line))
finally:
    shutil.rmtree(tmp, ignore_errors=True)
