#!/usr/bin/env python3
"""For every seed in /verif/seeded: apply its patch to /repo, run every check (quick), record which fire, restore /repo."""
import glob, json, os, subprocess, sys, tempfile
if subprocess.check_output(['git', '-C', '/repo', 'status', '--porcelain']).strip():
    sys.exit('REFUSING: /repo has uncommitted changes')
only = sys.argv[1:]
base = None
def run_all(out):
    p = subprocess.run(['./check', 'all', 'quick'], cwd='/verif', env=dict(os.environ, VERIF_OUT=out), stdout=subprocess.PIPE, stderr=subprocess.STDOUT, text=True)
    fired = {}
    for l in p.stdout.splitlines():
        if l.startswith(('VIOLATION:', 'UNDECIDED:', 'UNRESOLVED:')):
            rule = l.split('[', 1)[1].split(']', 1)[0]; key = l.split('key="', 1)[1].split('"', 1)[0]
            fired.setdefault(rule.split('-')[0], []).append(rule + ' ' + key)
    return fired
with tempfile.TemporaryDirectory() as out:
    base = run_all(out)
    rows = []
    for d in sorted(glob.glob('/verif/seeded/C*-*')):
        sid = os.path.basename(d)
        if only and sid not in only and sid.split('-')[0] not in only: continue
        meta = json.load(open(d + '/meta.json'))
        patch = d + '/patch.diff'
        if subprocess.run(['git', '-C', '/repo', 'apply', '--check', patch], stderr=subprocess.DEVNULL).returncode != 0:
            meta['detection'] = 'patch no longer applies to /repo HEAD'; rows.append((sid, 'N/A (does not apply)'))
            json.dump(meta, open(d + '/meta.json', 'w'), indent=1); continue
        subprocess.run(['git', '-C', '/repo', 'apply', patch], check=True)
        try:
            fired = run_all(out)
        finally:
            subprocess.run(['git', '-C', '/repo', 'checkout', '--', '.'], check=True)
        new = {p: [x for x in v if x not in base.get(p, [])] for p, v in fired.items()}
        new = {p: v for p, v in new.items() if v}
        meta['detected_by'] = new
        own = meta['property']
        meta['detection'] = ('caught by its own property check' if own in new else ('caught only by other checks: ' + ','.join(sorted(new)) if new else 'MISSED'))
        json.dump(meta, open(d + '/meta.json', 'w'), indent=1)
        rows.append((sid, meta['detection'] + ' ' + '; '.join(sum(new.values(), []))[:160]))
    for r in rows: print('%-8s %s' % r)
