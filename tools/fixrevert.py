#!/usr/bin/env python3
"""usage: tools/fixrevert.py [commit...] — for every `fixed` entry of known_findings.json: reverse its fix commit on a
scratch copy of /repo's working tree and require that the check of the entry's property reports the entry's
construct key again ("a fixed entry suppresses nothing"). Commits that cannot be reversed on the current tree
(later commits rewrote the same lines) are listed as skipped. Never touches /repo."""
import json, os, shutil, subprocess, sys, tempfile
from concurrent.futures import ThreadPoolExecutor
VERIF = os.path.dirname(os.path.dirname(os.path.abspath(__file__)))
known = json.load(open(os.path.join(VERIF, 'known_findings.json')))['findings']
by_commit = {}
for f in known:
    if f.get('status') == 'fixed':
        by_commit.setdefault(f['commit'], []).append(f)
want = sys.argv[1:] or sorted(by_commit)
def run(commit):
    tmp = tempfile.mkdtemp(prefix='fixrev-')
    out = []
    try:
        shutil.copytree('/repo', tmp + '/r', ignore=shutil.ignore_patterns('.git'))
        d = subprocess.run(['git', '-C', '/repo', 'show', commit], stdout=subprocess.PIPE, text=True).stdout
        open(tmp + '/fix.diff', 'w').write(d)
        a = subprocess.run(['patch', '-R', '-p1', '-s', '-f', '-i', tmp + '/fix.diff'], cwd=tmp + '/r', stdout=subprocess.PIPE, stderr=subprocess.STDOUT, text=True)
        if a.returncode != 0 or not d:
            return [(commit, f['property'], f['key'], 'skipped', 'fix cannot be reversed on the current tree') for f in by_commit[commit]]
        b = subprocess.run('GOFLAGS=-mod=mod GOPROXY=off go build ./... 2>&1 | head -3', shell=True, cwd=tmp + '/r', stdout=subprocess.PIPE, text=True)
        if b.stdout.strip():
            return [(commit, f['property'], f['key'], 'skipped', 'reversed tree does not build: ' + b.stdout.strip()[:100]) for f in by_commit[commit]]
        for prop in sorted({f['property'] for f in by_commit[commit]}):
            o = subprocess.run([os.path.join(VERIF, 'check'), prop, 'quick'], env=dict(os.environ, VERIF_REPO=tmp + '/r', VERIF_OUT=tmp + '/out'), stdout=subprocess.PIPE, stderr=subprocess.STDOUT, text=True).stdout
            viol = [l for l in o.splitlines() if l.startswith('VIOLATION:')]
            for f in by_commit[commit]:
                if f['property'] != prop:
                    continue
                hit = [l for l in viol if 'key="' + f['key'] + '"' in l and '[' + f['rule'] + ']' in l]
                other = [l for l in viol if 'key="' + f['key'] + '"' not in l]
                if hit:
                    out.append((commit, prop, f['key'], 'ok', 'reported again'))
                else:
                    out.append((commit, prop, f['key'], 'MISSED', 'not reported; the check says: ' + ' | '.join(l[:160] for l in (viol or o.splitlines()[-2:]))))
        return out
    finally:
        shutil.rmtree(tmp, ignore_errors=True)
with ThreadPoolExecutor(max_workers=5) as ex:
    res = [r for rs in ex.map(run, want) for r in rs]
bad = 0
for r in res:
    print('FIXREVERT %s %s %-60s %-7s %s' % r)
    bad += r[3] == 'MISSED'
print('fixed entries: %d, reported again: %d, skipped: %d, missed: %d' % (len(res), sum(r[3] == 'ok' for r in res), sum(r[3] == 'skipped' for r in res), bad))
sys.exit(1 if bad else 0)
