#!/usr/bin/env python3
"""usage: tools/seedsweep.py  — run every check (quick) against every kept seed on scratch copies; report seeds whose own property no longer fires."""
import glob, json, os, shutil, subprocess, sys, tempfile
from concurrent.futures import ThreadPoolExecutor
sys.path.insert(0, os.path.dirname(__file__))
REPO='/repo'; VERIF='/verif'; LINT=VERIF+'/bin/coerlint'
ENV = dict(os.environ, PATH='/opt/veriftools/go1.26.8/bin:' + os.environ.get('PATH', ''), GOTOOLCHAIN='local', GOFLAGS='-mod=mod', GOPROXY='off', GOWORK='off'); ENV.pop('GOSUMDB', None)
def findings(repo, out):
    p = subprocess.run([LINT, '-repo', repo, '-prop', 'all', '-tier', 'quick', '-out', out, '-known', VERIF+'/known_findings.json'], env=ENV, stdout=subprocess.PIPE, stderr=subprocess.STDOUT, text=True)
    fs = set()
    for l in p.stdout.splitlines():
        if l.startswith(('VIOLATION:', 'UNDECIDED:', 'UNRESOLVED:')):
            rule = l.split('[', 1)[1].split(']', 1)[0]; key = l.split('key="', 1)[1].split('"', 1)[0]
            fs.add(rule + ' ' + key)
        if l.startswith('ERROR') or 'panic' in l: fs.add('ERROR ' + l[:100])
    return fs
tmp = tempfile.mkdtemp(prefix='coerlint-sweep-')
try:
    base = findings(REPO, tmp+'/base')
    seeds = sorted(glob.glob(VERIF+'/seeded/C*-*')) if len(sys.argv) < 2 else [VERIF+'/seeded/'+a for a in sys.argv[1:]]
    def run(d):
        name = os.path.basename(d); work = tmp+'/'+name
        shutil.copytree(REPO, work+'/repo', ignore=shutil.ignore_patterns('.git'))
        a = subprocess.run(['patch','-p1','-s','-f','-i',d+'/patch.diff'], cwd=work+'/repo', stdout=subprocess.PIPE, stderr=subprocess.STDOUT, text=True)
        if a.returncode != 0:
            shutil.rmtree(work, ignore_errors=True); return name, None
        got = findings(work+'/repo', work+'/out') - base
        shutil.rmtree(work, ignore_errors=True)
        return name, got
    bad = 0
    with ThreadPoolExecutor(max_workers=int(os.environ.get('J','5'))) as ex:
        for name, got in ex.map(run, seeds):
            prop = name.split('-')[0]
            if got is None: print(name, 'PATCH DOES NOT APPLY'); bad += 1; continue
            own = sorted(g for g in got if g.startswith(prop+'-'))
            other = sorted({g.split('-')[0] for g in got if not g.startswith(prop+'-')})
            status = 'ok  ' if own else ('OTHER' if got else 'MISSED')
            if not own: bad += 1
            print('%-6s %-6s own=%s other=%s' % (name, status, '; '.join(own)[:150], ','.join(other)))
    print('seeds not caught by their own property:', bad)
finally:
    shutil.rmtree(tmp, ignore_errors=True)
