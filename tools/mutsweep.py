#!/usr/bin/env python3
"""Mutation sweep — a measuring instrument for the checker, not part of any check.

usage: tools/mutsweep.py <outdir> <J> <file>...      (files relative to the repository root)

For every generic mutant tools/mutgen lists for the given files (statement deletions, negated
conditions, flipped operators, swapped status constants, dropped returns, ...): apply it to a scratch
copy of /repo, run coerlint (all properties, quick tier) and record which rule instances newly fire
(relative to the base run). Output: <outdir>/results.jsonl, one line per mutant:
  {id, file, line, func, op, orig, repl, status: uncompilable|caught|silent, findings: [...]}
Silent mutants are then triaged by hand/by unit tests (tools/muttriage.py): a silent mutant that keeps
the test suite green and breaks a property is a blind spot of the rules; one that changes no behaviour
is an equivalent mutant."""
import json, os, shutil, subprocess, sys, tempfile, threading
from concurrent.futures import ThreadPoolExecutor
outdir, J, files = sys.argv[1], int(sys.argv[2]), sys.argv[3:]
REPO = os.environ.get('VERIF_REPO', '/repo'); VERIF = os.path.dirname(os.path.dirname(os.path.abspath(__file__)))
ENV = dict(os.environ, PATH='/opt/veriftools/go1.26.8/bin:' + os.environ.get('PATH', ''), GOTOOLCHAIN='local', GOFLAGS='-mod=mod', GOPROXY='off', GOWORK='off'); ENV.pop('GOSUMDB', None)
os.makedirs(outdir, exist_ok=True)
LINT = os.path.join(outdir, 'coerlint'); MUTGEN = os.path.join(outdir, 'mutgen')
subprocess.run(['go', 'build', '-o', LINT, '.'], cwd=VERIF + '/checker', env=ENV, check=True)
subprocess.run(['go', 'build', '-o', MUTGEN, '.'], cwd=VERIF + '/tools/mutgen', env=ENV, check=True)
muts = [json.loads(l) for l in subprocess.run([MUTGEN, REPO] + files, stdout=subprocess.PIPE, text=True, check=True).stdout.splitlines()]
done = set()
res_path = os.path.join(outdir, 'results.jsonl')
if os.path.exists(res_path):
    for l in open(res_path):
        r = json.loads(l); done.add((r['file'], r['start'], r['end'], r['repl']))
def findings(repo, out):
    p = subprocess.run([LINT, '-repo', repo, '-prop', 'all', '-tier', 'quick', '-out', out, '-known', VERIF + '/known_findings.json'], env=ENV, stdout=subprocess.PIPE, stderr=subprocess.STDOUT, text=True)
    fs = set()
    for l in p.stdout.splitlines():
        if l.startswith(('VIOLATION:', 'UNDECIDED:', 'UNRESOLVED:')):
            rule = l.split('[', 1)[1].split(']', 1)[0]; key = l.split('key="', 1)[1].split('"', 1)[0]
            fs.add(l.split(':', 1)[0] + ' ' + rule + ' ' + key)
        if l.startswith('ERROR'):
            fs.add('ERROR ' + l[:200])
    return fs
tmp = tempfile.mkdtemp(prefix='mutsweep-')
lock = threading.Lock(); local = threading.local(); nworker = [0]
try:
    base = findings(REPO, tmp + '/base-out')
    print('base findings:', sorted(base), flush=True)
    out = open(res_path, 'a')
    def run(m):
        if (m['file'], m['start'], m['end'], m['repl']) in done: return
        if not hasattr(local, 'repo'):
            with lock: nworker[0] += 1; k = nworker[0]
            local.repo = '%s/w%d/repo' % (tmp, k); local.out = '%s/w%d/out' % (tmp, k)
            shutil.copytree(REPO, local.repo, ignore=shutil.ignore_patterns('.git'))
        f = os.path.join(local.repo, m['file']); orig = open(os.path.join(REPO, m['file']), 'rb').read()
        try:
            open(f, 'wb').write(orig[:m['start']] + m['repl'].encode() + orig[m['end']:])
            got = findings(local.repo, local.out) - base
        finally:
            open(f, 'wb').write(orig)
        if any(g.startswith('ERROR') and 'load/type errors' in g for g in got): status = 'uncompilable'
        elif got: status = 'caught'
        else: status = 'silent'
        r = dict(m, status=status, findings=sorted(got) if status == 'caught' else [])
        with lock:
            out.write(json.dumps(r) + '\n'); out.flush()
    with ThreadPoolExecutor(max_workers=J) as ex:
        list(ex.map(run, muts))
finally:
    shutil.rmtree(tmp, ignore_errors=True)
rs = [json.loads(l) for l in open(res_path)]
c = {}
for r in rs: c[r['status']] = c.get(r['status'], 0) + 1
print('mutants:', len(rs), c)
