#!/usr/bin/env python3
"""usage: tools/muttriage.py <results.jsonl> <J> [file-substr]  — for every SILENT mutant of a sweep (tools/mutsweep.py): apply it to a
scratch copy of /repo and run the unit tests of the mutated package (not the 2-minute end-to-end package). Adds
"tests": "pass" | "fail" | "build-fail" to the record and rewrites the file. A silent mutant that the package's own
tests kill is not what the properties are about (ordinary use exposes it); a silent mutant that survives them is either
equivalent or a blind spot of the rules, and is what has to be read. Measuring instrument, not part of any check."""
import json, os, shutil, subprocess, sys, tempfile, threading
from concurrent.futures import ThreadPoolExecutor
path, J = sys.argv[1], int(sys.argv[2]); sub = sys.argv[3] if len(sys.argv) > 3 else ''
REPO = '/repo'
ENV = dict(os.environ, GOFLAGS='-mod=mod', GOPROXY='off')
for k in ('GOSUMDB', 'GOTOOLCHAIN', 'GOWORK'): ENV.pop(k, None)
rs = [json.loads(l) for l in open(path)]
tmp = tempfile.mkdtemp(prefix='muttriage-')
local = threading.local(); lock = threading.Lock(); nw = [0]
def run(r):
    if r['status'] != 'silent' or 'tests' in r or sub not in r['file'] or 'start' not in r: return
    if not hasattr(local, 'repo'):
        with lock: nw[0] += 1; k = nw[0]
        local.repo = '%s/w%d' % (tmp, k)
        shutil.copytree(REPO, local.repo, ignore=shutil.ignore_patterns('.git'))
    f = os.path.join(local.repo, r['file']); orig = open(os.path.join(REPO, r['file']), 'rb').read()
    pkg = './' + os.path.dirname(r['file']) + '/' if os.path.dirname(r['file']) else '.'
    try:
        open(f, 'wb').write(orig[:r['start']] + r['repl'].encode() + orig[r['end']:])
        p = subprocess.run(['go', 'test', '-vet=off', '-count=1', '-timeout', '120s', pkg], cwd=local.repo, env=ENV, stdout=subprocess.PIPE, stderr=subprocess.STDOUT, text=True)
        out = p.stdout
        r['tests'] = 'pass' if p.returncode == 0 else ('build-fail' if '[build failed]' in out or 'cannot use' in out else 'fail')
    except Exception as e:
        r['tests'] = 'error: %s' % e
    finally:
        open(f, 'wb').write(orig)
try:
    with ThreadPoolExecutor(max_workers=J) as ex: list(ex.map(run, rs))
finally:
    shutil.rmtree(tmp, ignore_errors=True)
with open(path, 'w') as out:
    for r in rs: out.write(json.dumps(r) + '\n')
c = {}
for r in rs:
    if r['status'] == 'silent' and sub in r['file']: c[r.get('tests', 'untested')] = c.get(r.get('tests', 'untested'), 0) + 1
print('silent mutants by unit-test outcome:', c)
