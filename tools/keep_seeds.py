#!/usr/bin/env python3
"""Copy confirmed seeds from /tmp/seed-out into /verif/seeded/<id>/ (patch.diff, demo, meta.json with the confirmation)."""
import glob, json, os, shutil
for d in sorted(glob.glob('/tmp/seed-out/C*/C*-*')):
    cf = os.path.join(d, 'confirm.json')
    if not os.path.exists(cf): continue
    c = json.load(open(cf))
    if not c.get('confirmed'): continue
    sid = os.path.basename(d)
    out = '/verif/seeded/' + sid
    os.makedirs(out, exist_ok=True)
    meta = json.load(open(os.path.join(d, 'meta.json')))
    meta['confirmed_by_me'] = {k: c[k] for k in ('base', 'at', 'applies', 'builds', 'suite_green_with_mutant', 'demo_fails_with_mutant', 'demo_passes_without', 'demo_cmd_used')}
    meta['confirmed_by_me']['ran'] = "tools/confirm_seed.py in a scratch worktree of /repo at %s: git apply; go build ./...; full go test ./... green with the mutant; demo fails with the mutant and passes after git apply -R" % c['base']
    old = {}
    if os.path.exists(os.path.join(out, 'meta.json')):
        old = json.load(open(os.path.join(out, 'meta.json')))
    for k in ('detected_by', 'detection', 'rebased'):
        if k in old: meta[k] = old[k]
    json.dump(meta, open(os.path.join(out, 'meta.json'), 'w'), indent=1)
    for f in os.listdir(d):
        if f in ('meta.json', 'confirm.json') or f.endswith('.log'): continue
        if os.path.isfile(os.path.join(d, f)) and not os.path.exists(os.path.join(out, f)):
            shutil.copy(os.path.join(d, f), os.path.join(out, f))
    print('kept', sid)
