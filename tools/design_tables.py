#!/usr/bin/env python3
"""Regenerates the machine-derived tables of DESIGN.md (between the AUTOGEN markers) from
known_findings.json, seeded/*/meta.json and corpus/equiv/*.json."""
import glob, json, os, re, subprocess
V = '/verif'
def seeds_table():
    rows = ['| seed | property | what was changed | needs to manifest | caught by (rule instances) | status on HEAD |', '|---|---|---|---|---|---|']
    for d in sorted(glob.glob(V + '/seeded/C*-*')):
        m = json.load(open(d + '/meta.json'))
        det = m.get('detected_by') or {}
        own = m['property']
        caught = '; '.join(sorted({x.split(' ')[0] + ' `' + x.split(' ', 1)[1][:60] + '`' for p in det for x in det[p]}))[:260]
        ch = m.get('confirmed_head')
        if m.get('neutralised_by'):
            ch = None
        status = ('neutralised by fix ' + m['neutralised_by'] + ': silent on HEAD (correctly), reported on the tree without that fix: ' + '; '.join(x.split(' (')[0] for x in m.get('detected_without_fix', []))[:160]) if m.get('neutralised_by') else 'confirmed on HEAD' if ch is True else ('neutralised by a later fix (demo passes with the change on HEAD): kept for its base ' + m.get('confirmed_by_me', {}).get('base', '') if ch is False else 'confirmed on base ' + m.get('confirmed_by_me', {}).get('base', ''))
        if os.path.exists(d + '/patch.orig.diff'):
            status += '; patch rebased onto HEAD'
        rows.append('| %s | %s | %s | %s | %s | %s |' % (os.path.basename(d), own, m.get('summary', '').replace('|', '/')[:170], m.get('needs_to_manifest', '').replace('|', '/')[:150], caught or m.get('detection', ''), status))
    return '\n'.join(rows)
def findings_table():
    kf = json.load(open(V + '/known_findings.json'))['findings']
    rows = ['| property | rule | construct key | status | commit | what |', '|---|---|---|---|---|---|']
    for f in kf:
        rows.append('| %s | %s | `%s` | %s | %s | %s |' % (f['property'], f['rule'], f['key'], f['status'], f.get('commit', ''), re.sub(r'^fixed: property=\S+ \S+ ', '', f['what']).replace('|', '/')[:200]))
    return '\n'.join(rows)
def equiv_table():
    rows = ['| variant | kind | summary | result |', '|---|---|---|---|']
    for f in sorted(glob.glob(V + '/corpus/equiv/*.diff')):
        j = f[:-5] + '.json'
        m = json.load(open(j)) if os.path.exists(j) else {}
        rows.append('| %s | %s | %s | %s |' % (os.path.basename(f)[:-5], (m.get('kind') or 'hand-made'), m.get('summary', '').replace('|', '/')[:160], m.get('result', 'silent')))
    return '\n'.join(rows)
s = open(V + '/DESIGN.md').read()
for name, fn in (('SEEDS', seeds_table), ('FINDINGS', findings_table), ('EQUIV', equiv_table)):
    s = re.sub(r'(<!-- AUTOGEN:%s -->\n).*?(<!-- /AUTOGEN:%s -->)' % (name, name), lambda m: m.group(1) + fn() + '\n' + m.group(2), s, flags=re.S)
open(V + '/DESIGN.md', 'w').write(s)
print('tables regenerated')
