#!/bin/bash
# Re-confirm every seed in /verif/seeded against /repo HEAD (3 workers). Results: seeded/<id>/confirm_head.json
HEAD=$(git -C /repo log --format=%h -1)
ls -d /verif/seeded/C*-* | xargs -P 3 -I{} python3 /verif/tools/confirm_seed.py {} $HEAD confirm_head.json
