#!/bin/bash
# usage: tools/alltest.sh <patch.diff>  — apply a patch to /repo, run every check (quick) into a scratch evidence dir, restore. Prints anything that is not OK.
patch=$1
cd /repo || exit 2
if [ -n "$(git -C /repo status --porcelain)" ]; then echo 'REFUSING: /repo has uncommitted changes'; exit 5; fi
trap 'git -C /repo checkout -- . 2>/dev/null; git -C /repo clean -fdq 2>/dev/null' EXIT
git -C /repo apply "$patch" || { echo "PATCH DOES NOT APPLY"; exit 3; }
if ! (cd /repo && GOFLAGS=-mod=mod GOPROXY=off go build ./... 2>&1 | head -3 | (! grep .)); then echo "DOES NOT BUILD"; exit 4; fi
out=$(mktemp -d)
(cd /verif && VERIF_OUT=$out ./check all quick 2>&1) | grep -E "^(VIOLATION:|UNDECIDED:|UNRESOLVED:|ERROR)" | cut -c1-330
rm -rf "$out"
echo "done"
