#!/usr/bin/env python3
"""usage: tools/seedtry.py <seed-dir>...  — first contact: apply <seed-dir>/patch.diff to a scratch copy of /repo, run every check (quick), print the new findings."""
import json, os, shutil, subprocess, sys, tempfile
REPO='/repo'; VERIF='/verif'; LINT=VERIF+'/bin/coerlint'
ENV = dict(os.environ, PATH='/opt/veriftools/go1.26.8/bin:' + os.environ.get('PATH', ''), GOTOOLCHAIN='local', GOFLAGS='-mod=mod', GOPROXY='off', GOWORK='off'); ENV.pop('GOSUMDB', None)
def findings(repo, out):
    p = subprocess.run([LINT, '-repo', repo, '-prop', 'all', '-tier', 'quick', '-out', out, '-known', VERIF+'/known_findings.json'], env=ENV, stdout=subprocess.PIPE, stderr=subprocess.STDOUT, text=True)
    fs = {}
    for l in p.stdout.splitlines():
        if l.startswith(('VIOLATION:', 'UNDECIDED:', 'UNRESOLVED:')):
            rule = l.split('[', 1)[1].split(']', 1)[0]; key = l.split('key="', 1)[1].split('"', 1)[0]
            fs[rule + ' ' + key] = l
        if l.startswith('ERROR') or 'panic' in l: fs['ERROR ' + l[:100]] = l
    return fs
tmp = tempfile.mkdtemp(prefix='seedtry-')
try:
    base = findings(REPO, tmp+'/base')
    for d in sys.argv[1:]:
        d = os.path.abspath(d); name = os.path.basename(d); prop = name.split('-')[0]
        work = tmp+'/'+name
        shutil.copytree(REPO, work, ignore=shutil.ignore_patterns('.git'))
        a = subprocess.run(['patch','-p1','-s','-f','-i',d+'/patch.diff'], cwd=work, stdout=subprocess.PIPE, stderr=subprocess.STDOUT, text=True)
        if a.returncode != 0: print(name, 'PATCH DOES NOT APPLY', a.stdout[:200]); continue
        got = findings(work, work+'-out')
        new = {k: v for k, v in got.items() if k not in base}
        own = [k for k in new if k.startswith(prop+'-')]
        print('==', name, 'CAUGHT by own property' if own else ('caught by OTHER only' if new else 'MISSED'))
        for k in sorted(new): print('   ', new[k][:300] if k.startswith(prop+'-') else '(other) '+k)
        shutil.rmtree(work, ignore_errors=True)
finally:
    shutil.rmtree(tmp, ignore_errors=True)
