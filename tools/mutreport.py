#!/usr/bin/env python3
"""usage: tools/mutreport.py <results.jsonl> [silent|caught|all] [file-substr] — list mutants of a sweep"""
import json, sys, collections
rs = [json.loads(l) for l in open(sys.argv[1])]
what = sys.argv[2] if len(sys.argv) > 2 else 'silent'
sub = sys.argv[3] if len(sys.argv) > 3 else ''
c = collections.Counter(r['status'] for r in rs)
print('total', len(rs), dict(c))
rs.sort(key=lambda r: (r['file'], r['line'], r['start']))
for r in rs:
    if what != 'all' and r['status'] != what: continue
    if sub not in r['file'] and sub not in r['func']: continue
    print('%s:%d %-28s %-14s %-7s | %s  =>  %s' % (r['file'].split('/')[-1], r['line'], r['func'][:28], r['op'], r['status'][:6], r['orig'][:70].replace('\n', '⏎'), r['repl'][:40].replace('\n', '⏎')), (' ## ' + '; '.join(r['findings'])[:120]) if r['findings'] else '')
