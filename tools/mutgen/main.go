// mutgen lists generic source mutations (one JSON object per line) for the non-test Go files given
// on the command line. It is a measuring instrument for the checker (tools/mutsweep.py), not part of
// any check: every mutant is a byte-range replacement in one file.
package main

import (
	"encoding/json"
	"fmt"
	"go/ast"
	"go/parser"
	"go/token"
	"os"
	"strings"
)

type Mut struct {
	ID    string `json:"id"`
	File  string `json:"file"`
	Line  int    `json:"line"`
	Func  string `json:"func"`
	Op    string `json:"op"`
	Start int    `json:"start"`
	End   int    `json:"end"`
	Repl  string `json:"repl"`
	Orig  string `json:"orig"`
}

var statusSwap = map[string]string{
	"Completed": "Failed", "Failed": "Completed", "Running": "NotStarted", "NotStarted": "Running", "Stopped": "Running",
}

var binSwap = map[token.Token]string{
	token.EQL: "!=", token.NEQ: "==", token.LSS: "<=", token.LEQ: "<", token.GTR: ">=", token.GEQ: ">",
	token.LAND: "||", token.LOR: "&&", token.ADD: "-", token.SUB: "+",
}

func isLogCall(e ast.Expr) bool {
	c, ok := e.(*ast.CallExpr)
	if !ok {
		return false
	}
	s := exprText(c.Fun)
	for _, p := range []string{"log.", "context.Log", "slog.", "fmt.Print", "span.", "metrics.", "logger."} {
		if strings.Contains(s, p) && !strings.Contains(s, "Fatal") {
			return true
		}
	}
	return false
}

var src []byte
var fset *token.FileSet

func exprText(n ast.Node) string {
	return string(src[fset.Position(n.Pos()).Offset:fset.Position(n.End()).Offset])
}

func main() {
	root := os.Args[1]
	enc := json.NewEncoder(os.Stdout)
	n := 0
	for _, rel := range os.Args[2:] {
		var err error
		src, err = os.ReadFile(root + "/" + rel)
		if err != nil {
			fmt.Fprintln(os.Stderr, err)
			os.Exit(2)
		}
		fset = token.NewFileSet()
		f, err := parser.ParseFile(fset, rel, src, parser.ParseComments)
		if err != nil {
			fmt.Fprintln(os.Stderr, err)
			os.Exit(2)
		}
		emit := func(fn string, node ast.Node, op string, start, end token.Pos, repl string) {
			n++
			s, e := fset.Position(start).Offset, fset.Position(end).Offset
			o := string(src[s:e])
			if len(o) > 160 {
				o = o[:160]
			}
			enc.Encode(Mut{ID: fmt.Sprintf("m%05d", n), File: rel, Line: fset.Position(node.Pos()).Line, Func: fn, Op: op, Start: s, End: e, Repl: repl, Orig: o})
		}
		for _, d := range f.Decls {
			fd, ok := d.(*ast.FuncDecl)
			if !ok || fd.Body == nil {
				continue
			}
			name := fd.Name.Name
			if fd.Recv != nil && len(fd.Recv.List) > 0 {
				name = strings.TrimPrefix(exprText(fd.Recv.List[0].Type), "*") + "." + name
			}
			hasResults := fd.Type.Results != nil && len(fd.Type.Results.List) > 0
			var lastStmt ast.Stmt
			if len(fd.Body.List) > 0 {
				lastStmt = fd.Body.List[len(fd.Body.List)-1]
			}
			inLog := map[ast.Node]bool{}
			ast.Inspect(fd.Body, func(x ast.Node) bool {
				if x == nil {
					return true
				}
				switch s := x.(type) {
				case *ast.ExprStmt:
					if isLogCall(s.X) {
						inLog[s] = true
						return false
					}
					if _, ok := s.X.(*ast.CallExpr); ok {
						emit(name, s, "del-call", s.Pos(), s.End(), "")
					}
				case *ast.AssignStmt:
					if s.Tok != token.DEFINE {
						emit(name, s, "del-assign", s.Pos(), s.End(), "")
					}
				case *ast.IncDecStmt:
					emit(name, s, "del-incdec", s.Pos(), s.End(), "")
				case *ast.SendStmt:
					emit(name, s, "del-send", s.Pos(), s.End(), "")
				case *ast.DeferStmt:
					emit(name, s, "del-defer", s.Pos(), s.End(), "")
				case *ast.GoStmt:
					emit(name, s, "go-to-sync", s.Pos(), s.Call.Pos(), "")
				case *ast.IfStmt:
					emit(name, s, "neg-cond", s.Cond.Pos(), s.Cond.End(), "!("+exprText(s.Cond)+")")
				case *ast.ForStmt:
					if s.Cond != nil {
						emit(name, s, "neg-loopcond", s.Cond.Pos(), s.Cond.End(), "!("+exprText(s.Cond)+")")
					}
				case *ast.ReturnStmt:
					if s != lastStmt {
						if !hasResults {
							emit(name, s, "del-return", s.Pos(), s.End(), "")
						} else {
							// fall through instead of returning (compiles when something follows)
							emit(name, s, "del-return", s.Pos(), s.End(), "")
						}
					}
					if len(s.Results) == 1 {
						if id, ok := s.Results[0].(*ast.Ident); ok && (id.Name == "true" || id.Name == "false") {
							r := "true"
							if id.Name == "true" {
								r = "false"
							}
							emit(name, s, "ret-bool", id.Pos(), id.End(), r)
						}
					}
					if len(s.Results) >= 1 {
						last := s.Results[len(s.Results)-1]
						if id, ok := last.(*ast.Ident); ok && id.Name == "err" {
							emit(name, s, "ret-nil-err", id.Pos(), id.End(), "nil")
						}
					}
				case *ast.BranchStmt:
					switch s.Tok {
					case token.BREAK:
						if s.Label == nil {
							emit(name, s, "break-to-continue", s.Pos(), s.End(), "continue")
						}
					case token.CONTINUE:
						if s.Label == nil {
							emit(name, s, "continue-to-break", s.Pos(), s.End(), "break")
						}
					}
				case *ast.BinaryExpr:
					if r, ok := binSwap[s.Op]; ok {
						if s.Op == token.ADD {
							if bl, ok := s.X.(*ast.BasicLit); ok && bl.Kind == token.STRING {
								return true
							}
							if bl, ok := s.Y.(*ast.BasicLit); ok && bl.Kind == token.STRING {
								return true
							}
						}
						emit(name, s, "binop", s.OpPos, s.OpPos+token.Pos(len(s.Op.String())), r)
					}
				case *ast.SelectorExpr:
					if id, ok := s.X.(*ast.Ident); ok && id.Name == "workflow" {
						if r, ok := statusSwap[s.Sel.Name]; ok {
							emit(name, s, "status-swap", s.Sel.Pos(), s.Sel.End(), r)
						}
					}
				case *ast.Ident:
					// bare status constants inside package workflow
					if f.Name.Name == "workflow" {
						if r, ok := statusSwap[s.Name]; ok && s.Obj == nil {
							emit(name, s, "status-swap", s.Pos(), s.End(), r)
						}
					}
				case *ast.BasicLit:
					if s.Kind == token.INT {
						switch s.Value {
						case "0":
							emit(name, s, "int-lit", s.Pos(), s.End(), "1")
						case "1":
							emit(name, s, "int-lit", s.Pos(), s.End(), "0")
						}
					}
				case *ast.UnaryExpr:
					if s.Op == token.NOT {
						emit(name, s, "del-not", s.OpPos, s.OpPos+1, "")
					}
				case *ast.CaseClause:
					if len(s.Body) > 0 && len(s.List) > 0 {
						emit(name, s, "empty-case", s.Body[0].Pos(), s.Body[len(s.Body)-1].End(), "")
					}
				}
				return true
			})
		}
	}
}
