module mutgen

go 1.23
