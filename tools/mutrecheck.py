#!/usr/bin/env python3
"""usage: tools/mutrecheck.py <results.jsonl> <J> [file-substr] — re-run the CURRENT checker on the silent mutants that survive the
package's unit tests (tools/muttriage.py) and record "now": caught|silent (+ findings). Measuring instrument."""
import json, os, shutil, subprocess, sys, tempfile, threading
from concurrent.futures import ThreadPoolExecutor
path, J = sys.argv[1], int(sys.argv[2]); sub = sys.argv[3] if len(sys.argv) > 3 else ''
REPO='/repo'; VERIF='/verif'; LINT=VERIF+'/bin/coerlint'
ENV = dict(os.environ, PATH='/opt/veriftools/go1.26.8/bin:' + os.environ.get('PATH', ''), GOTOOLCHAIN='local', GOFLAGS='-mod=mod', GOPROXY='off', GOWORK='off'); ENV.pop('GOSUMDB', None)
def findings(repo, out):
    p = subprocess.run([LINT, '-repo', repo, '-prop', 'all', '-tier', 'quick', '-out', out, '-known', VERIF+'/known_findings.json'], env=ENV, stdout=subprocess.PIPE, stderr=subprocess.STDOUT, text=True)
    fs = set()
    for l in p.stdout.splitlines():
        if l.startswith(('VIOLATION:', 'UNDECIDED:', 'UNRESOLVED:')):
            fs.add(l.split('[', 1)[1].split(']', 1)[0] + ' ' + l.split('key="', 1)[1].split('"', 1)[0])
        if l.startswith('ERROR'): fs.add('ERROR ' + l[:150])
    return fs
rs = [json.loads(l) for l in open(path)]
tmp = tempfile.mkdtemp(prefix='mutrecheck-'); local = threading.local(); lock = threading.Lock(); nw = [0]
base = findings(REPO, tmp + '/base')
def run(r):
    if r['status'] != 'silent' or r.get('tests') != 'pass' or sub not in r['file']: return
    if not hasattr(local, 'repo'):
        with lock: nw[0] += 1; k = nw[0]
        local.repo = '%s/w%d/repo' % (tmp, k); local.out = '%s/w%d/out' % (tmp, k)
        shutil.copytree(REPO, local.repo, ignore=shutil.ignore_patterns('.git'))
    f = os.path.join(local.repo, r['file']); orig = open(os.path.join(REPO, r['file']), 'rb').read()
    try:
        open(f, 'wb').write(orig[:r['start']] + r['repl'].encode() + orig[r['end']:])
        got = findings(local.repo, local.out) - base
    finally:
        open(f, 'wb').write(orig)
    r['now'] = 'caught' if got else 'silent'; r['now_findings'] = sorted(got)[:6]
try:
    with ThreadPoolExecutor(max_workers=J) as ex: list(ex.map(run, rs))
finally:
    shutil.rmtree(tmp, ignore_errors=True)
with open(path, 'w') as out:
    for r in rs: out.write(json.dumps(r) + '\n')
c = {}
for r in rs:
    if 'now' in r and sub in r['file']: c[r['now']] = c.get(r['now'], 0) + 1
print('unit-test survivors under the current checker:', c)
