#!/usr/bin/env python3
"""Confirm a seeded mutant in a scratch worktree of /repo (pinned at the commit the seed was made against):
build, full suite green with the mutant, demo fails with it and passes without it.
usage: confirm_seed.py <seed-dir> [<base-commit>]   -> writes <seed-dir>/confirm.json"""
import json, os, re, shutil, subprocess, sys, time
seed = os.path.abspath(sys.argv[1]); base = sys.argv[2] if len(sys.argv) > 2 else 'f379e7e'
outname = sys.argv[3] if len(sys.argv) > 3 else 'confirm.json'
meta = json.load(open(os.path.join(seed, 'meta.json')))
wt = '/tmp/cf-' + os.path.basename(seed)
env = dict(os.environ, GOFLAGS='-mod=mod', GOPROXY='off')
for k in ('GOSUMDB', 'GOTOOLCHAIN', 'GOWORK'): env.pop(k, None)
def sh(cmd, cwd=wt, timeout=1500):
    p = subprocess.run(cmd, shell=True, cwd=cwd, env=env, stdout=subprocess.PIPE, stderr=subprocess.STDOUT, text=True, timeout=timeout)
    return p.returncode, p.stdout
res = {'seed': os.path.basename(seed), 'base': base, 'at': time.strftime('%Y-%m-%dT%H:%M:%S')}
subprocess.run(['git', '-C', '/repo', 'worktree', 'remove', '--force', wt], stderr=subprocess.DEVNULL)
subprocess.run(['git', '-C', '/repo', 'worktree', 'add', '--detach', wt, base], check=True, stdout=subprocess.DEVNULL, stderr=subprocess.DEVNULL)
try:
    rc, out = sh('git apply ' + os.path.join(seed, 'patch.diff')); res['applies'] = rc == 0
    rc, out = sh('go build ./...'); res['builds'] = rc == 0
    rc, out = sh('go test -vet=off -count=1 -timeout 25m ./... 2>&1 | tail -40'); res['suite_green_with_mutant'] = ('FAIL' not in out) and rc == 0
    if not res['suite_green_with_mutant']: res['suite_tail'] = out[-1500:]
    ddir = meta.get('demo_dir', '').strip('/') or '.'
    os.makedirs(os.path.join(wt, ddir), exist_ok=True)
    for f in os.listdir(seed):
        if f.endswith('.go'):
            shutil.copy(os.path.join(seed, f), os.path.join(wt, ddir, f))
    extra = os.path.join(seed, 'extra')  # optional extra tree to copy into the worktree
    if os.path.isdir(extra): shutil.copytree(extra, wt, dirs_exist_ok=True)
    m = re.search(r'-run[ =]+(\S+)', meta.get('demo_cmd', ''))
    run = ('-run ' + m.group(1)) if m else ''
    cmd = f"go test -vet=off -count=1 -timeout 10m {run} ./{ddir}/ 2>&1 | tail -25"
    rc, out = sh(cmd); res['demo_fails_with_mutant'] = ('FAIL' in out) or ('panic' in out); res['demo_out_mutant'] = out[-800:]
    sh('git apply -R ' + os.path.join(seed, 'patch.diff'))
    rc, out = sh(cmd); res['demo_passes_without'] = ('FAIL' not in out) and ('ok' in out); res['demo_out_pristine'] = out[-400:]
    res['demo_cmd_used'] = cmd
    res['confirmed'] = all(res.get(k) for k in ('applies', 'builds', 'suite_green_with_mutant', 'demo_fails_with_mutant', 'demo_passes_without'))
finally:
    subprocess.run(['git', '-C', '/repo', 'worktree', 'remove', '--force', wt])
json.dump(res, open(os.path.join(seed, outname), 'w'), indent=1)
print(os.path.basename(seed), 'confirmed' if res.get('confirmed') else 'NOT CONFIRMED', {k: v for k, v in res.items() if isinstance(v, bool)})
