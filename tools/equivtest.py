#!/usr/bin/env python3
"""usage: tools/equivtest.py <patch.diff>...  — for each patch: scratch copy of /repo's working tree, apply,
run every check (quick, one process) and print the findings that differ from the base run. Nothing in /repo is touched."""
import os, shutil, subprocess, sys, tempfile
from concurrent.futures import ThreadPoolExecutor
REPO = os.environ.get('VERIF_REPO', '/repo')
VERIF = os.path.dirname(os.path.dirname(os.path.abspath(__file__)))
LINT = os.path.join(VERIF, 'bin', 'coerlint')
ENV = dict(os.environ, PATH='/opt/veriftools/go1.26.8/bin:' + os.environ.get('PATH', ''), GOTOOLCHAIN='local', GOFLAGS='-mod=mod', GOPROXY='off', GOWORK='off')
ENV.pop('GOSUMDB', None)
def findings(repo, out):
    p = subprocess.run([LINT, '-repo', repo, '-prop', 'all', '-tier', 'quick', '-out', out, '-known', os.path.join(VERIF, 'known_findings.json')],
                       env=ENV, stdout=subprocess.PIPE, stderr=subprocess.STDOUT, text=True)
    fs = {}
    for l in p.stdout.splitlines():
        if l.startswith(('VIOLATION:', 'UNDECIDED:', 'UNRESOLVED:')):
            rule = l.split('[', 1)[1].split(']', 1)[0]; key = l.split('key="', 1)[1].split('"', 1)[0]
            fs[rule + ' ' + key] = l[:400]
        if l.startswith('ERROR') or 'panic' in l:
            fs['ERROR ' + l[:120]] = l[:400]
    return fs
tmp = tempfile.mkdtemp(prefix='coerlint-equiv-')
try:
    base = findings(REPO, os.path.join(tmp, 'base-out'))
    def run(patch):
        name = os.path.basename(os.path.dirname(patch)) if os.path.basename(patch) == 'patch.diff' else os.path.basename(patch)
        work = os.path.join(tmp, name)
        shutil.copytree(REPO, os.path.join(work, 'repo'), ignore=shutil.ignore_patterns('.git'))
        a = subprocess.run(['patch', '-p1', '-s', '-f', '-i', os.path.abspath(patch)], cwd=os.path.join(work, 'repo'), stdout=subprocess.PIPE, stderr=subprocess.STDOUT, text=True)
        if a.returncode != 0:
            shutil.rmtree(work, ignore_errors=True)
            return name, None, None, a.stdout[:200]
        got = findings(os.path.join(work, 'repo'), os.path.join(work, 'out'))
        shutil.rmtree(work, ignore_errors=True)
        return name, {k: got[k] for k in got if k not in base}, [k for k in base if k not in got], ''
    with ThreadPoolExecutor(max_workers=int(os.environ.get('J', '5'))) as ex:
        for name, new, gone, err in ex.map(run, sys.argv[1:]):
            if new is None:
                print('%-10s DOES NOT APPLY %s' % (name, err)); continue
            print('%-10s %s' % (name, 'silent' if not new and not gone else 'CHANGED +%d -%d' % (len(new), len(gone))))
            for k in sorted(new): print('     + ' + new[k])
            for k in gone: print('     - ' + k)
finally:
    shutil.rmtree(tmp, ignore_errors=True)
