#!/bin/bash
# usage: tools/seedtest.sh <patch.diff> <Cxx[,Cyy...]>  — apply a patch to /repo, run the quick checks, restore.
patch=$1; props=$2
cd /repo || exit 2
if [ -n "$(git -C /repo status --porcelain)" ]; then echo 'REFUSING: /repo has uncommitted changes (they would be lost)'; exit 5; fi
trap 'git -C /repo checkout -- . 2>/dev/null' EXIT
git -C /repo apply "$patch" || { echo "PATCH DOES NOT APPLY"; exit 3; }
for p in ${props//,/ }; do
  out=$(cd /verif && ./check $p quick 2>&1); code=$?
  echo "$out" | grep -E "^(VIOLATION:|UNDECIDED:|UNRESOLVED:|KNOWN|C[0-9]+ quick)" | cut -c1-330
  echo "exit=$code"
done
