#!/usr/bin/env python3
"""usage: tools/qmut.py <relfile> <regex> <replacement> <props...> — one-off mutation on a scratch copy of /repo: substitute (first match, DOTALL), go build, run the given checks; prints new findings."""
import os, re, shutil, subprocess, sys, tempfile
rel, pat, rep, props = sys.argv[1], sys.argv[2], sys.argv[3], sys.argv[4:]
tmp = tempfile.mkdtemp(prefix='qmut-')
try:
    shutil.copytree('/repo', tmp+'/r', ignore=shutil.ignore_patterns('.git'))
    f = tmp+'/r/'+rel; s = open(f).read()
    s2, n = re.subn(pat, rep, s, count=1, flags=re.S)
    if n == 0: print('PATTERN NOT FOUND'); sys.exit(2)
    open(f, 'w').write(s2)
    b = subprocess.run('GOFLAGS=-mod=mod GOPROXY=off go build ./... 2>&1 | head -5', shell=True, cwd=tmp+'/r', stdout=subprocess.PIPE, text=True)
    if b.stdout.strip(): print('DOES NOT BUILD:', b.stdout); sys.exit(3)
    for p in props:
        o = subprocess.run(['/verif/check', p, 'quick'], env=dict(os.environ, VERIF_REPO=tmp+'/r', VERIF_OUT=tmp+'/out'), stdout=subprocess.PIPE, stderr=subprocess.STDOUT, text=True)
        for l in o.stdout.splitlines():
            if l.startswith(('VIOLATION:', 'UNDECIDED:', 'UNRESOLVED:', 'ERROR')) or ' quick: ' in l: print(l[:330])
finally:
    shutil.rmtree(tmp, ignore_errors=True)
