package main

import (
	"fmt"
	"go/ast"
	"go/token"
	"go/types"
	"sort"
	"strings"
)

// Terminal is the pseudo state reached when a state leaves Next nil or sets Err.
const Terminal = "∅"

// Edge is one transition of a state machine, witnessed by a path of the state function.
type Edge struct {
	From, To string // short method names; To may be Terminal or "?" (undecidable)
	Assigned string // what Next was last assigned (differs from To when pre-empted by Err)
	ErrSet   bool   // req.Err assigned a non-nil value on the path (pre-empts Next)
	Site     token.Pos
	Path     *Path
}

// Machine is the extracted transition relation of one statemachine.
type Machine struct {
	Name   string
	States map[string]*Func
	Edges  []Edge
	recv   string
	pkg    string
}

func isRequestType(t types.Type) bool {
	return TypeKey(t) == "github.com/gostdlib/base/statemachine.Request"
}

// reqField matches `X.<name>` where X has type statemachine.Request[...].
func reqField(info *types.Info, e ast.Expr, name string) bool {
	sel, ok := ast.Unparen(e).(*ast.SelectorExpr)
	if !ok || sel.Sel.Name != name {
		return false
	}
	tv, ok := info.Types[sel.X]
	return ok && isRequestType(tv.Type)
}

// PathNext computes, for one path of a state function, the value Next holds at
// the return ("nil", "method:<key>", or "?"), and whether Err was set non-nil.
func PathNext(fl *Flow, p *Path) (next string, errSet bool, site token.Pos) {
	next = "nil" // statemachine.Run clears Next before calling a state
	// locals that hold a state (a method value or nil) on this path: `next := s.A; …; next = s.B; req.Next = next`
	held := map[types.Object]string{}
	valueOf := func(rhs ast.Expr) string {
		if rhs == nil {
			return ""
		}
		if v := ValueKey(fl.Info, rhs); v == "nil" || strings.HasPrefix(v, "method:") {
			return v
		}
		if o := ObjOf(fl.Info, rhs); o != nil {
			return held[o]
		}
		return ""
	}
	for ei, e := range p.Ev {
		if e.Kind != EvAssign || e.Deferred {
			continue
		}
		for i, l := range e.Lhs {
			var rhs ast.Expr
			if res := e.Results(); len(res) == len(e.Lhs) {
				rhs = res[i]
			}
			if id, ok := ast.Unparen(l).(*ast.Ident); ok {
				if o := fl.Info.ObjectOf(id); o != nil && !isRequestType(o.Type()) {
					if v := valueOf(rhs); v != "" {
						held[o] = v
					} else {
						delete(held, o)
					}
				}
			}
			switch {
			case reqField(fl.Info, l, "Next"):
				site = e.Pos
				if v := valueOf(rhs); v != "" {
					next = v
				} else {
					next = "?"
				}
			case reqField(fl.Info, l, "Err"):
				// Err pre-empts Next only when it is non-nil: a value the path itself established to be nil
				// (`if err == nil { … req.Err = err }`) does not stop the machine
				if rhs != nil && NilnessAt(fl.Info, p, ei, rhs) == "nil" {
					errSet = false
				} else {
					errSet = true
				}
			default:
				// whole-request assignment (req = ..., req, err = Run(...))
				if id, ok := ast.Unparen(l).(*ast.Ident); ok {
					if o := fl.Info.ObjectOf(id); o != nil && isRequestType(o.Type()) && e.Tok != token.DEFINE {
						next = "?"
						site = e.Pos
					}
				}
			}
		}
	}
	return
}

// ExtractMachine walks the state functions reachable from the entries.
func (r *Run) ExtractMachine(rule, name, pkg, recv string, entries ...string) *Machine {
	m := &Machine{Name: name, States: map[string]*Func{}, recv: recv, pkg: pkg}
	work := append([]string{}, entries...)
	for len(work) > 0 {
		st := work[0]
		work = work[1:]
		if _, seen := m.States[st]; seen {
			continue
		}
		fn := r.Fn(rule, pkg, recv, st)
		if fn == nil {
			m.States[st] = nil
			continue
		}
		m.States[st] = fn
		fl := r.P.FlowOf(fn)
		paths, ok := fl.Paths()
		if !ok {
			r.Undecided(rule, "paths:"+fn.Key, fn.Decl.Pos(), "more than %d paths in state function", PathLimit)
			continue
		}
		r.Paths += len(paths)
		for i := range paths {
			p := &paths[i]
			if p.Exit != ExitReturn {
				continue
			}
			next, errSet, site := PathNext(fl, p)
			e := Edge{From: st, ErrSet: errSet, Site: site, Path: p}
			switch {
			case next == "nil":
				e.Assigned = Terminal
			case next == "?":
				e.Assigned = "?"
			default:
				key := strings.TrimPrefix(next, "method:")
				prefix := pkg + "." + recv + "."
				if strings.HasPrefix(key, prefix) {
					e.Assigned = strings.TrimPrefix(key, prefix)
					work = append(work, e.Assigned)
				} else {
					e.Assigned = "ext:" + key
				}
			}
			e.To = e.Assigned
			if errSet {
				e.To = Terminal
			}
			if !site.IsValid() {
				e.Site = fn.Decl.Pos()
			}
			m.Edges = append(m.Edges, e)
		}
	}
	return m
}

// Succs returns the distinct effective successors of a state.
func (m *Machine) Succs(from string) []string {
	set := map[string]bool{}
	for _, e := range m.Edges {
		if e.From == from {
			set[e.To] = true
		}
	}
	return sortedKeys(set)
}

// Preds returns the distinct effective predecessors of a state.
func (m *Machine) Preds(to string) []string {
	set := map[string]bool{}
	for _, e := range m.Edges {
		if e.To == to {
			set[e.From] = true
		}
	}
	return sortedKeys(set)
}

func sortedKeys(set map[string]bool) []string {
	var out []string
	for k := range set {
		out = append(out, k)
	}
	sort.Strings(out)
	return out
}

// reach returns the states reachable from 'from' without entering any state in 'avoid'
// (from itself is expanded even if listed in avoid).
func (m *Machine) reach(from string, avoid map[string]bool) map[string]bool {
	seen := map[string]bool{from: true}
	work := []string{from}
	for len(work) > 0 {
		s := work[0]
		work = work[1:]
		for _, t := range m.Succs(s) {
			if seen[t] || avoid[t] {
				continue
			}
			seen[t] = true
			work = append(work, t)
		}
	}
	return seen
}

// Dominates: every path from entry to node passes through dom.
func (m *Machine) Dominates(entry, dom, node string) bool {
	if entry == dom || dom == node {
		return true
	}
	return !m.reach(entry, map[string]bool{dom: true})[node]
}

// MustPass: every path from 'from' to 'to' passes through 'via' (after leaving 'from').
func (m *Machine) MustPass(from, via, to string) bool {
	if via == to {
		return true
	}
	return !m.reach(from, map[string]bool{via: true})[to]
}

// Witness returns a path of states from 'from' to 'to' avoiding 'via' (for messages).
func (m *Machine) Witness(from, via, to string) string {
	prev := map[string]string{from: ""}
	work := []string{from}
	for len(work) > 0 {
		s := work[0]
		work = work[1:]
		for _, t := range m.Succs(s) {
			if _, seen := prev[t]; seen || t == via {
				continue
			}
			prev[t] = s
			if t == to {
				var chain []string
				for x := t; x != ""; x = prev[x] {
					chain = append([]string{x}, chain...)
				}
				return strings.Join(chain, "→")
			}
			work = append(work, t)
		}
	}
	return ""
}

// Dump renders the relation for notes/evidence.
func (m *Machine) Dump() string {
	var names []string
	for s := range m.States {
		names = append(names, s)
	}
	sort.Strings(names)
	var sb strings.Builder
	for _, s := range names {
		fmt.Fprintf(&sb, "%s→{%s} ", s, strings.Join(m.Succs(s), ","))
	}
	return strings.TrimSpace(sb.String())
}

// astInspectAssignNext reports the abstract value of every `X.Next = v` assignment in fn
// (X of type statemachine.Request), path-insensitively, including composite literals `Next: v`.
func astInspectAssignNext(fn *Func, report func(string), info *types.Info) {
	ast.Inspect(fn.Decl.Body, func(n ast.Node) bool {
		switch x := n.(type) {
		case *ast.FuncLit:
			return false
		case *ast.AssignStmt:
			for i, l := range x.Lhs {
				if reqField(info, l, "Next") && len(x.Rhs) == len(x.Lhs) {
					v := ValueKey(info, x.Rhs[i])
					if v == "" {
						if o := ObjOf(info, x.Rhs[i]); o != nil {
							// a local holding the state: every state value assigned to it anywhere in the function
							n := 0
							ast.Inspect(fn.Decl.Body, func(m ast.Node) bool {
								if as, ok := m.(*ast.AssignStmt); ok && len(as.Lhs) == len(as.Rhs) {
									for k, ll := range as.Lhs {
										if ObjOf(info, ll) == o {
											if vv := ValueKey(info, as.Rhs[k]); vv != "" {
												report(vv)
												n++
											}
										}
									}
								}
								return true
							})
							if n > 0 {
								continue
							}
						}
						v = ExprStr(x.Rhs[i])
					}
					report(v)
				}
			}
		}
		return true
	})
}
