module coerlint

go 1.26.8

require golang.org/x/tools v0.50.0

require (
	golang.org/x/mod v0.41.0 // indirect
	golang.org/x/sync v0.23.0 // indirect
)
