package main

import (
	"go/ast"
	"go/token"
	"go/types"
	"reflect"
	"sort"
	"strings"
)

const pkgCosmos = "workflow/storage/cosmosdb"

func cosKey(name string) string { return pkgCosmos + "." + name }

var cosmosEntries = []struct{ entry, typ string }{
	{"plansEntry", "workflow.Plan"}, {"blocksEntry", "workflow.Block"}, {"checksEntry", "workflow.Checks"},
	{"sequencesEntry", "workflow.Sequence"}, {"actionsEntry", "workflow.Action"},
}

// cosmosMaps extracts, for one entry type, entry field → workflow source field (writer)
// and entry field → workflow destination field (reader).
type cosmosMaps struct {
	w, r   map[string]string
	wpos   token.Pos
	rpos   token.Pos
	wfn    string
	rfn    string
	tags   map[string]string // entry field → json tag name
}

// wfField names the field of a workflow object an expression selects (State.X flattened).
func wfField(info *types.Info, e ast.Expr, own string) string {
	found := ""
	type cand struct{ base, field string }
	var cands []cand
	ast.Inspect(e, func(n ast.Node) bool {
		sel, ok := n.(*ast.SelectorExpr)
		if !ok {
			return true
		}
		if tv, ok := info.Types[sel.X]; ok && workflowObjTypes[ShortType(tv.Type)] {
			if s := info.Selections[sel]; s != nil && s.Kind() == types.FieldVal {
				f := sel.Sel.Name
				if f == "State" {
					if parent := selectorParent(e, sel); parent != nil {
						f = "State." + parent.Sel.Name
					}
				}
				cands = append(cands, cand{ShortType(tv.Type), f})
			}
		}
		return true
	})
	for _, c := range cands {
		if c.base == own {
			found = c.field
		}
	}
	if found == "" && len(cands) > 0 {
		found = cands[len(cands)-1].field
	}
	return found
}

// localDef follows a local variable to its single defining expression.
func localDef(info *types.Info, body ast.Node, e ast.Expr) ast.Expr {
	obj := ObjOf(info, e)
	if obj == nil {
		return nil
	}
	var def ast.Expr
	ast.Inspect(body, func(n ast.Node) bool {
		as, ok := n.(*ast.AssignStmt)
		if !ok {
			return true
		}
		for i, l := range as.Lhs {
			if ObjOf(info, l) == obj && def == nil {
				if len(as.Rhs) == len(as.Lhs) {
					def = as.Rhs[i]
				} else if len(as.Rhs) == 1 {
					def = as.Rhs[0]
				}
			}
		}
		return true
	})
	return def
}

func buildCosmosMaps(r *Run, rule, entry, typ string) *cosmosMaps {
	pkg := r.P.Pkgs[pkgCosmos]
	if pkg == nil {
		r.Unresolved(rule, pkgCosmos)
		return nil
	}
	info := pkg.TypesInfo
	m := &cosmosMaps{w: map[string]string{}, r: map[string]string{}, tags: map[string]string{}}
	st, _ := r.P.StructOf(pkgCosmos, entry)
	if st == nil {
		r.Unresolved(rule, cosKey(entry))
		return nil
	}
	for i := 0; i < st.NumFields(); i++ {
		tag := reflect.StructTag(st.Tag(i)).Get("json")
		m.tags[st.Field(i).Name()] = strings.Split(tag, ",")[0]
	}
	isEntry := func(t types.Type) bool { return ShortType(t) == "cosmosdb."+entry }
	for _, fn := range r.P.sortedFuncs() {
		if fn.Pkg != pkg || fn.Decl.Body == nil || strings.HasSuffix(r.P.Fset.Position(fn.Decl.Pos()).Filename, "fake_storage.go") || strings.HasSuffix(r.P.Fset.Position(fn.Decl.Pos()).Filename, "testing.go") {
			continue
		}
		parents := parentMap(fn.Decl.Body)
		ast.Inspect(fn.Decl.Body, func(n ast.Node) bool {
			switch x := n.(type) {
			case *ast.CompositeLit:
				if tv, ok := info.Types[x]; ok && isEntry(tv.Type) && len(x.Elts) > 0 {
					m.wpos, m.wfn = x.Pos(), fn.Key
					for _, el := range x.Elts {
						kv, ok := el.(*ast.KeyValueExpr)
						if !ok {
							continue
						}
						k := kv.Key.(*ast.Ident).Name
						src := wfField(info, kv.Value, typ)
						if src == "" {
							if def := localDef(info, fn.Decl.Body, kv.Value); def != nil {
								src = wfField(info, def, typ)
							}
						}
						m.w[k] = src
					}
				}
			case *ast.AssignStmt:
				for i, l := range x.Lhs {
					sel, ok := ast.Unparen(l).(*ast.SelectorExpr)
					if !ok {
						continue
					}
					if tv, ok := info.Types[sel.X]; ok && isEntry(tv.Type) && len(x.Rhs) == len(x.Lhs) {
						m.w[sel.Sel.Name] = wfField(info, x.Rhs[i], typ)
					}
				}
			case *ast.SelectorExpr:
				// a read of resp.F
				tv, ok := info.Types[x.X]
				if !ok || !isEntry(tv.Type) {
					return true
				}
				if s := info.Selections[x]; s == nil || s.Kind() != types.FieldVal {
					return true
				}
				// skip writes (LHS of assignment)
				if as, ok := parents[x].(*ast.AssignStmt); ok {
					for _, l := range as.Lhs {
						if ast.Unparen(l) == ast.Expr(x) {
							return true
						}
					}
				}
				dest := cosmosDest(info, parents, x)
				if dest != "" {
					if m.rpos == 0 {
						m.rpos, m.rfn = x.Pos(), fn.Key
					}
					if old, ok := m.r[x.Sel.Name]; !ok || old == "" {
						m.r[x.Sel.Name] = dest
					}
				} else if _, ok := m.r[x.Sel.Name]; !ok && strings.HasPrefix(fn.Obj.Name(), "docTo") {
					m.r[x.Sel.Name] = ""
				}
			}
			return true
		})
	}
	return m
}

// cosmosDest: the workflow field a read of an entry field flows into.
func cosmosDest(info *types.Info, parents map[ast.Node]ast.Node, x ast.Node) string {
	for n := parents[x]; n != nil; n = parents[n] {
		switch p := n.(type) {
		case *ast.KeyValueExpr:
			if id, ok := p.Key.(*ast.Ident); ok {
				if cl, ok := parents[p].(*ast.CompositeLit); ok {
					if tv, ok := info.Types[cl]; ok {
						switch t := ShortType(tv.Type); {
						case t == "workflow.State":
							return "State." + id.Name
						case workflowObjTypes[t]:
							return id.Name
						}
					}
				}
			}
		case *ast.AssignStmt:
			if sel, ok := ast.Unparen(p.Lhs[0]).(*ast.SelectorExpr); ok {
				if tv, ok := info.Types[sel.X]; ok && workflowObjTypes[ShortType(tv.Type)] {
					return sel.Sel.Name
				}
			}
			if obj := ObjOf(info, p.Lhs[0]); obj != nil {
				var body ast.Node = p
				for b := parents[ast.Node(p)]; b != nil; b = parents[b] {
					body = b
				}
				return destViaVar(info, body, obj, p.Pos(), 0)
			}
			return ""
		case *ast.CallExpr:
			if sel, ok := ast.Unparen(p.Fun).(*ast.SelectorExpr); ok && sel.Sel.Name == "SetPlanID" {
				return "planID"
			}
			// the entry field is the source of a decode call: F(entry.f, &dst) / F(entry.f, dst)
			if len(p.Args) == 2 && containsNode(p.Args[0], x) {
				a := ast.Unparen(p.Args[1])
				if u, ok := a.(*ast.UnaryExpr); ok && u.Op == token.AND {
					a = ast.Unparen(u.X)
				}
				if o := ObjOf(info, a); o != nil {
					var body ast.Node = p
					for b := parents[ast.Node(p)]; b != nil; b = parents[b] {
						body = b
					}
					if d := destViaVar(info, body, pointee(info, body, o), p.Pos(), 1); d != "" {
						return d
					}
				}
			}
		case *ast.BlockStmt:
			return ""
		}
	}
	return ""
}

// destViaVar: the workflow field a local variable (live from `from` until its next
// definition) is stored into, directly or after being decoded into another variable.
func destViaVar(info *types.Info, body ast.Node, obj types.Object, from token.Pos, depth int) string {
	until := token.Pos(1 << 40)
	ast.Inspect(body, func(n ast.Node) bool {
		if as, ok := n.(*ast.AssignStmt); ok && as.Pos() > from {
			for _, l := range as.Lhs {
				if ObjOf(info, l) == obj && as.Pos() < until {
					until = as.Pos()
				}
			}
		}
		return true
	})
	dest := ""
	var second types.Object
	var secondPos token.Pos
	ast.Inspect(body, func(n ast.Node) bool {
		if dest != "" || n == nil {
			return false
		}
		if n.Pos() >= until {
			return false
		}
		switch x := n.(type) {
		case *ast.AssignStmt:
			if x.Pos() <= from {
				return true
			}
			for i, l := range x.Lhs {
				sel, ok := ast.Unparen(l).(*ast.SelectorExpr)
				if !ok {
					continue
				}
				tv, ok := info.Types[sel.X]
				if !ok || !workflowObjTypes[ShortType(tv.Type)] {
					continue
				}
				var rhs ast.Expr
				if len(x.Rhs) == len(x.Lhs) {
					rhs = x.Rhs[i]
				} else if len(x.Rhs) == 1 {
					rhs = x.Rhs[0]
				}
				if rhs != nil && mentionsObj(info, rhs, obj) {
					dest = sel.Sel.Name
				}
			}
		case *ast.CallExpr:
			if x.Pos() <= from {
				return true
			}
			if second == nil && len(x.Args) == 2 && mentionsObj(info, x.Args[0], obj) {
				a := ast.Unparen(x.Args[1])
				if u, ok := a.(*ast.UnaryExpr); ok && u.Op == token.AND {
					a = ast.Unparen(u.X)
				}
				if o := ObjOf(info, a); o != nil && o != obj {
					second, secondPos = pointee(info, body, o), x.Pos()
				}
			}
		}
		return true
	})
	if dest == "" && second != nil && depth < 1 {
		return destViaVar(info, body, second, secondPos, depth+1)
	}
	return dest
}

// pointee: when every definition of the local o is `v` or `&v` for one other variable v (a decode
// target chosen between the variable and its address), decoding into o decodes into v.
func pointee(info *types.Info, body ast.Node, o types.Object) types.Object {
	var base types.Object
	ok := true
	note := func(rhs ast.Expr) {
		r := ast.Unparen(rhs)
		if u, isU := r.(*ast.UnaryExpr); isU && u.Op == token.AND {
			r = ast.Unparen(u.X)
		}
		if c, isC := r.(*ast.CallExpr); isC && len(c.Args) == 1 { // conversion any(&v)
			if tv, has := info.Types[c.Fun]; has && tv.IsType() {
				r = ast.Unparen(c.Args[0])
				if u, isU := r.(*ast.UnaryExpr); isU && u.Op == token.AND {
					r = ast.Unparen(u.X)
				}
			}
		}
		b := ObjOf(info, r)
		if b == nil || b == o || (base != nil && b != base) {
			ok = false
			return
		}
		base = b
	}
	ast.Inspect(body, func(n ast.Node) bool {
		switch x := n.(type) {
		case *ast.AssignStmt:
			for i, l := range x.Lhs {
				if ObjOf(info, l) == o {
					if len(x.Rhs) == len(x.Lhs) {
						note(x.Rhs[i])
					} else {
						ok = false
					}
				}
			}
		case *ast.ValueSpec:
			for i, id := range x.Names {
				if info.Defs[id] == o {
					if len(x.Values) == len(x.Names) {
						note(x.Values[i])
					} else {
						ok = false
					}
				}
			}
		}
		return true
	})
	if ok && base != nil {
		return base
	}
	return o
}

var cosmosMeta = map[string]bool{"PartitionKey": true, "Swarm": true, "Type": true, "ETag": true, "Pos": true}

func rulesCosmosRoundTrip(r *Run, rule string) {
	ruleDecodeTargetFresh(r, rule)
	n := 0
	for _, e := range cosmosEntries {
		m := buildCosmosMaps(r, rule, e.entry, e.typ)
		if m == nil {
			continue
		}
		if len(m.w) == 0 || len(m.r) == 0 {
			r.Unresolved(rule, "writer literal / reader selectors of "+e.entry)
			continue
		}
		r.Funcs[m.wfn] = true
		r.Funcs[m.rfn] = true
		fields := persistentFields(r.P, e.typ)
		W := map[string][]string{} // workflow field → entry fields written from it
		R := map[string][]string{}
		for ef, src := range m.w {
			if src != "" {
				W[src] = append(W[src], ef)
			}
		}
		for ef, dst := range m.r {
			if dst != "" {
				R[dst] = append(R[dst], ef)
			}
		}
		var notWritten, notRead, crossed []string
		for _, f := range fields {
			r.Evals++
			if len(W[f]) == 0 {
				notWritten = append(notWritten, f)
			}
			if len(R[f]) == 0 {
				notRead = append(notRead, f)
			}
			for _, ef := range R[f] {
				okSrc := false
				for _, wf := range W[f] {
					if wf == ef {
						okSrc = true
					}
				}
				if !okSrc && m.w[ef] != "" {
					crossed = append(crossed, ef+": written from "+m.w[ef]+", read into "+f)
				}
			}
		}
		sort.Strings(notWritten)
		sort.Strings(notRead)
		sort.Strings(crossed)
		n += 3
		r.Check(rule, "cosmos:"+e.entry+":every-field-written", m.wpos, len(notWritten) == 0, "fields of %s the cosmosdb writer (%s) never stores: %v", e.typ, ShortFn(m.wfn), notWritten)
		r.Check(rule, "cosmos:"+e.entry+":every-field-read", m.rpos, len(notRead) == 0, "fields of %s the cosmosdb reader (%s) never restores: %v (the stored value is lost on every read)", e.typ, ShortFn(m.rfn), notRead)
		r.Check(rule, "cosmos:"+e.entry+":writer-reader-agree", m.rpos, len(crossed) == 0, "entry fields whose writer source and reader destination differ: %v", crossed)
		// patch paths
		ruleCosmosPatch(r, rule, e.entry, e.typ, m)
		n++
	}
	r.Expect(rule, 20)
}

var cosmosUpdaters = map[string]string{
	"plansEntry": "planUpdater.UpdatePlan", "blocksEntry": "blockUpdater.UpdateBlock", "checksEntry": "checksUpdater.UpdateChecks",
	"sequencesEntry": "sequenceUpdater.UpdateSequence", "actionsEntry": "actionUpdater.UpdateAction",
}

func ruleCosmosPatch(r *Run, rule, entry, typ string, m *cosmosMaps) {
	fn := r.fnByKey(rule, cosKey(cosmosUpdaters[entry]))
	if fn == nil {
		return
	}
	info := fn.Pkg.TypesInfo
	tagToField := map[string]string{}
	for f, t := range m.tags {
		tagToField[t] = f
	}
	patched := map[string]bool{}
	bad := ""
	var bpos token.Pos = fn.Decl.Pos()
	ast.Inspect(fn.Decl.Body, func(n ast.Node) bool {
		c, ok := n.(*ast.CallExpr)
		if !ok || len(c.Args) != 2 {
			return true
		}
		sel, ok := ast.Unparen(c.Fun).(*ast.SelectorExpr)
		if !ok || !strings.HasPrefix(sel.Sel.Name, "Append") {
			return true
		}
		path, isC := ConstString(info, c.Args[0])
		if !isC || !strings.HasPrefix(path, "/") {
			return true
		}
		r.Evals++
		ef, known := tagToField[strings.TrimPrefix(path, "/")]
		if !known {
			if bad == "" {
				bad, bpos = "patch path "+path+" is not the JSON name of any field of "+entry+": the update writes a property the reader never looks at and leaves the real one unchanged", c.Pos()
			}
			return true
		}
		src := wfField(info, c.Args[1], typ)
		if src == "" {
			if def := localDef(info, fn.Decl.Body, c.Args[1]); def != nil {
				src = wfField(info, def, typ)
			}
		}
		if want := m.w[ef]; want != "" && src != "" && want != src && bad == "" {
			bad, bpos = "patch path "+path+" ("+entry+"."+ef+", created from "+want+") is updated from "+src, c.Pos()
		}
		patched[src] = true
		return true
	})
	mutable := []string{"State.Status", "State.Start", "State.End"}
	if typ == "workflow.Action" {
		mutable = append(mutable, "Attempts")
	}
	if typ == "workflow.Plan" {
		mutable = append(mutable, "Reason")
	}
	var missing []string
	for _, f := range mutable {
		if !patched[f] {
			missing = append(missing, f)
		}
	}
	if len(missing) > 0 && bad == "" {
		bad = "mutable fields of " + typ + " that " + cosmosUpdaters[entry] + " never patches: " + strings.Join(missing, ", ")
	}
	// every mutable field is patched on every successful path (an unconditional write: a reset to the
	// zero value must reach the store like any other value)
	if fl, paths, ok := r.flowPaths(rule, fn); ok && bad == "" {
		for i := range paths {
			p := &paths[i]
			if p.Exit != ExitReturn {
				continue
			}
			var ret *Event
			for j := range p.Ev {
				if p.Ev[j].Kind == EvReturn {
					ret = &p.Ev[j]
				}
			}
			if ret == nil {
				continue
			}
			if isNil, has := ReturnsNilLast(fl.Info, *ret); !has || !isNil {
				continue
			}
			onPath := map[string]bool{}
			for _, e := range p.Ev {
				if e.Kind == EvCall && len(e.Call.Args) == 2 {
					if sel, ok := ast.Unparen(e.Call.Fun).(*ast.SelectorExpr); ok && strings.HasPrefix(sel.Sel.Name, "Append") {
						src := wfField(fl.Info, e.Call.Args[1], typ)
						if src == "" {
							if def := localDef(fl.Info, fn.Decl.Body, e.Call.Args[1]); def != nil {
								src = wfField(fl.Info, def, typ)
							}
						}
						onPath[src] = true
					}
				}
			}
			for _, f := range mutable {
				if !onPath[f] && bad == "" {
					bad = cosmosUpdaters[entry] + " patches " + f + " only on some paths (guard " + ExitGuardKey(fl, p) + "): when the branch is not taken the stored value stays stale — e.g. a reset to the zero time/empty list never reaches the store"
				}
			}
		}
	}
	r.Check(rule, "cosmos:"+entry+":patch-paths", bpos, bad == "", "%s", orOK(bad, "every patch path is a JSON name of the entry, fed from the field it was created from; mutable fields covered"))
}

// ruleCosmosBatch: all items of a plan go into one transactional batch on the plan's partition key.
func ruleCosmosBatch(r *Run, rule string) {
	fn := r.fnByKey(rule, cosKey("creator.commitPlan"))
	if fn == nil {
		return
	}
	fl, paths, ok := r.flowPaths(rule, fn)
	if !ok {
		return
	}
	info := fl.Info
	bad := ""
	n := 0
	anyCreated := false
	for i := range paths {
		p := &paths[i]
		if p.Exit != ExitReturn {
			continue
		}
		// success path only
		var ret *Event
		for j := range p.Ev {
			if p.Ev[j].Kind == EvReturn {
				ret = &p.Ev[j]
			}
		}
		if ret == nil {
			continue
		}
		if isNil, has := ReturnsNilLast(info, *ret); !has || !isNil {
			continue
		}
		n++
		// first NewTransactionalBatch: key(p); items created in a range over itemContext.items; executed once before the re-read
		bi, xi, ri := -1, -1, -1
		var batchObj types.Object
		created := false
		planKey := false
		for j, e := range p.Ev {
			if e.Kind == EvCall && strings.HasSuffix(CalleeKey(e), ".NewTransactionalBatch") && bi < 0 {
				bi = j
				if len(e.Call.Args) == 1 {
					if c, ok := ast.Unparen(e.Call.Args[0]).(*ast.CallExpr); ok {
						if f, ok := calleeFunc(info, c); ok && FuncKey(f) == cosKey("key") {
							planKey = true
						}
					}
				}
				if as, ok := e.Node.(*ast.AssignStmt); ok {
					batchObj = ObjOf(info, as.Lhs[0])
				}
			}
			if e.Kind == EvCall && strings.HasSuffix(CalleeKey(e), "TransactionalBatch.CreateItem") && bi >= 0 && xi < 0 && recvObj(info, e.Call) == batchObj {
				created = true
			}
			if IsCall(e, cosKey("batchRetryer")) && xi < 0 && bi >= 0 {
				xi = j
			}
			if IsCall(e, cosKey("reader.fetchPlan")) && ri < 0 {
				ri = j
			}
		}
		if created {
			anyCreated = true
		}
		switch {
		case bi < 0 || !planKey:
			bad = orOK(bad, "the plan's items are not put into a transactional batch on the plan's own partition key")
		case xi < 0:
			bad = orOK(bad, "the first batch is not executed")
		}
		// planToItems' error returns before the batch
		pi := -1
		for j, e := range p.Ev {
			if IsCall(e, cosKey("planToItems")) {
				pi = j
			}
		}
		if pi < 0 || pi > bi {
			bad = orOK(bad, "the items are not all encoded (planToItems) before the batch is built: an encoding error midway could leave a partial plan")
		}
	}
	if n == 0 {
		r.Unresolved(rule, "cosmosdb commitPlan success path")
		return
	}
	if !anyCreated {
		bad = orOK(bad, "the plan's items are never added to the first batch")
	}
	r.Check(rule, "cosmos:commitPlan:single-batch", fn.Decl.Pos(), bad == "", "%s", orOK(bad, "planToItems, then one TransactionalBatch on key(plan) with every item, executed once"))
	// planToItems collects every object kind: error discipline inside the encoders
	for _, k := range []string{"planToItems", "checksToItems", "blockToItem", "seqToItems", "actionToItems", "planToEntry", "checkToEntry", "blockToEntry", "sequenceToEntry", "actionToEntry", "encodeAttempts", "objsToIDs"} {
		if f := r.fnByKey(rule, cosKey(k)); f != nil {
			errorDiscipline(r, rule, f)
		}
	}
	r.Expect(rule, 25)
}

// rulesCosmosSearch: searchEntry literals agree and carry the fields the search query filters on;
// the query builder's templates are well formed.
func rulesCosmosSearch(r *Run, rule string) {
	ruleRetryOpUsesOwnContext(r, rule)
	ruleCosmosSwarmWired(r, rule)
	pkg := r.P.Pkgs[pkgCosmos]
	if pkg == nil {
		r.Unresolved(rule, pkgCosmos)
		return
	}
	info := pkg.TypesInfo
	type lit struct {
		fn   string
		keys map[string]bool
		pos  token.Pos
	}
	var lits []lit
	for _, fn := range r.P.sortedFuncs() {
		file := r.P.Fset.Position(fn.Decl.Pos()).Filename
		if fn.Pkg != pkg || fn.Decl.Body == nil || strings.HasSuffix(file, "fake_storage.go") || strings.HasSuffix(file, "testing.go") {
			continue
		}
		ast.Inspect(fn.Decl.Body, func(n ast.Node) bool {
			cl, ok := n.(*ast.CompositeLit)
			if !ok || len(cl.Elts) == 0 {
				return true
			}
			if tv, ok := info.Types[cl]; !ok || ShortType(tv.Type) != "cosmosdb.searchEntry" {
				return true
			}
			l := lit{fn: fn.Key, keys: map[string]bool{}, pos: cl.Pos()}
			for _, el := range cl.Elts {
				if kv, ok := el.(*ast.KeyValueExpr); ok {
					l.keys[kv.Key.(*ast.Ident).Name] = true
				}
			}
			lits = append(lits, l)
			return true
		})
	}
	if len(lits) < 2 {
		r.Unresolved(rule, "two searchEntry literals (create and replace)")
		return
	}
	union := map[string]bool{}
	for _, l := range lits {
		for k := range l.keys {
			union[k] = true
		}
	}
	for _, l := range lits {
		var missing []string
		for k := range union {
			if !l.keys[k] {
				missing = append(missing, k)
			}
		}
		sort.Strings(missing)
		r.Check(rule, "cosmos:searchEntry-literal:"+ShortFn(l.fn), l.pos, len(missing) == 0, "the searchEntry built in %s lacks %v which another writer of the same document sets: after this write the entry no longer matches queries that filter on it (the search query requires c.swarm=@swarm)", ShortFn(l.fn), missing)
	}
	// fields the queries reference must be JSON names of searchEntry and set by every literal
	st, _ := r.P.StructOf(pkgCosmos, "searchEntry")
	tags := map[string]string{}
	for i := 0; st != nil && i < st.NumFields(); i++ {
		tags[strings.Split(reflect.StructTag(st.Tag(i)).Get("json"), ",")[0]] = st.Field(i).Name()
	}
	fn := r.fnByKey(rule, cosKey("reader.buildSearchQuery"))
	if fn == nil {
		return
	}
	fl, paths, ok := r.flowPaths(rule, fn)
	if !ok {
		return
	}
	paths = OwnOnly(paths)
	probs := map[string]bool{}
	nT := 0
	for i := range paths {
		p := &paths[i]
		if p.Exit != ExitReturn {
			continue
		}
		t := evalSearchBuilder(fl, p)
		if t.Infeasible {
			continue
		}
		// parameters appended: QueryParameter{Name: X}
		for _, e := range p.Ev {
			if e.Kind == EvAssign && len(e.Rhs) == 1 {
				ast.Inspect(e.Rhs[0], func(n ast.Node) bool {
					if cl, ok := n.(*ast.CompositeLit); ok {
						if v := keyValue(cl, "Name"); v != nil {
							if s, ok := ConstString(fl.Info, v); ok {
								t.Named[s] = true
							} else if id, ok := ast.Unparen(v).(*ast.Ident); ok && id.Name == "name" {
								t.Named["@status*"] = true
							}
						}
					}
					return true
				})
			}
		}
		if t.Unknown != "" {
			probs["UNDECIDED: "+t.Unknown] = true
			continue
		}
		if t.Text == "" {
			continue
		}
		nT++
		for _, pr := range lintCosmosTemplate(t, tags) {
			probs[pr+" — template: "+strings.TrimSpace(t.Text)] = true
		}
	}
	var ps []string
	for p := range probs {
		ps = append(ps, p)
	}
	sort.Strings(ps)
	if nT == 0 {
		r.Unresolved(rule, "cosmosdb buildSearchQuery templates")
		return
	}
	r.Check(rule, "cosmos:search-templates", fn.Decl.Pos(), len(ps) == 0, "%d templates: %s", nT, orOK(strings.Join(ps, "; "), "well-formed"))
	// every field the query filters on is set by every literal
	for _, l := range lits {
		var missing []string
		for _, f := range []string{"Swarm", "ID", "GroupID", "StateStatus", "SubmitTime"} {
			if !l.keys[f] {
				missing = append(missing, f)
			}
		}
		r.Check(rule, "cosmos:searchEntry-has-filter-fields:"+ShortFn(l.fn), l.pos, len(missing) == 0, "searchEntry written by %s lacks %v, which the search/list queries filter or order on", ShortFn(l.fn), missing)
	}
	r.Expect(rule, 5)
}

func lintCosmosTemplate(t searchTemplate, tags map[string]string) []string {
	var probs []string
	q := t.Text
	low := strings.ToLower(q)
	if !strings.HasSuffix(strings.TrimSpace(strings.TrimSuffix(strings.TrimSpace(low), ";")), "order by c.submittime desc") {
		probs = append(probs, "does not end with ORDER BY c.submitTime DESC")
	}
	depth := 0
	for _, c := range q {
		if c == '(' {
			depth++
		}
		if c == ')' {
			depth--
		}
		if depth < 0 {
			break
		}
	}
	if depth != 0 {
		probs = append(probs, "unbalanced parentheses")
	}
	for _, w := range strings.FieldsFunc(q, func(r rune) bool { return !(r == '@' || r == '_' || r == '.' || (r >= '0' && r <= '9') || (r >= 'a' && r <= 'z') || (r >= 'A' && r <= 'Z')) }) {
		if strings.HasPrefix(w, "@") {
			if !t.Named[w] && !(strings.HasPrefix(w, "@status") && t.Named["@status*"]) {
				probs = append(probs, "parameter "+w+" is used but never bound")
			}
		}
		if strings.HasPrefix(w, "c.") && len(w) > 2 {
			if _, ok := tags[strings.TrimPrefix(w, "c.")]; !ok {
				probs = append(probs, "the query refers to "+w+" which is not a JSON property of searchEntry")
			}
		}
	}
	// a top-level OR next to other AND-ed filters must be parenthesised
	d := 0
	for i := 0; i+4 <= len(low); i++ {
		switch low[i] {
		case '(':
			d++
		case ')':
			d--
		}
		if d == 0 && low[i:i+4] == " or " && strings.Count(low, " and ") > 0 {
			probs = append(probs, "an OR at the top level next to AND-ed filters is not parenthesised (AND binds tighter: the swarm/other filters would apply to the first alternative only)")
			break
		}
	}
	return probs
}

// ruleDecodeTargetFresh (round-3 seed C13-6): a stored document is decoded into a value made for this call. Absent
// JSON fields (every `omitempty` field of an entry that was written empty) are left untouched by Unmarshal, so a
// recycled decode target hands the previous document's values — another plan's Meta — to the plan being read. Per
// Unmarshal call in the docTo* readers of the cosmosdb vault: the target is the address of a local declared in
// the function (`var x T`, `x := T{}`), or a local holding `&T{}` / `new(T)` made in the function.
func ruleDecodeTargetFresh(r *Run, rule string) {
	pkg := r.P.Pkgs[pkgCosmos]
	if pkg == nil {
		r.Unresolved(rule, "package cosmosdb")
		return
	}
	info := pkg.TypesInfo
	n := 0
	for _, fn := range r.P.sortedFuncs() {
		if fn.Pkg != pkg || fn.Decl.Body == nil || !strings.HasPrefix(fn.Obj.Name(), "docTo") {
			continue
		}
		if strings.HasSuffix(r.P.Fset.Position(fn.Decl.Pos()).Filename, "_test.go") {
			continue
		}
		fresh := func(e ast.Expr) (bool, string) {
			e = ast.Unparen(e)
			var obj types.Object
			if u, ok := e.(*ast.UnaryExpr); ok && u.Op == token.AND {
				if _, isLit := ast.Unparen(u.X).(*ast.CompositeLit); isLit {
					return true, ""
				}
				obj = ObjOf(info, u.X)
				if obj == nil {
					return false, ExprStr(e) + " is not the address of a local"
				}
				// a local of struct type declared in this function: fresh by declaration
				if !(fn.Decl.Body.Pos() <= obj.Pos() && obj.Pos() <= fn.Decl.Body.End()) {
					return false, ExprStr(u.X) + " is not declared in " + ShortFn(fn.Key)
				}
				okDecl := true
				why := ""
				ast.Inspect(fn.Decl.Body, func(x ast.Node) bool {
					if as, ok := x.(*ast.AssignStmt); ok && len(as.Lhs) == len(as.Rhs) {
						for i, l := range as.Lhs {
							if ObjOf(info, l) == obj {
								if _, isLit := ast.Unparen(as.Rhs[i]).(*ast.CompositeLit); !isLit {
									okDecl, why = false, ExprStr(u.X)+" is assigned "+ExprStr(as.Rhs[i])
								}
							}
						}
					}
					return true
				})
				return okDecl, why
			}
			obj = ObjOf(info, e)
			if obj == nil || !(fn.Decl.Body.Pos() <= obj.Pos() && obj.Pos() <= fn.Decl.Body.End()) {
				return false, ExprStr(e) + " is not a local made in " + ShortFn(fn.Key)
			}
			okDef, why, nDef := true, "", 0
			ast.Inspect(fn.Decl.Body, func(x ast.Node) bool {
				if as, ok := x.(*ast.AssignStmt); ok && len(as.Lhs) == len(as.Rhs) {
					for i, l := range as.Lhs {
						if ObjOf(info, l) != obj {
							continue
						}
						nDef++
						rhs := ast.Unparen(as.Rhs[i])
						isNew := false
						if u, ok := rhs.(*ast.UnaryExpr); ok && u.Op == token.AND {
							_, isNew = ast.Unparen(u.X).(*ast.CompositeLit)
						}
						if c, ok := rhs.(*ast.CallExpr); ok {
							if id, ok := ast.Unparen(c.Fun).(*ast.Ident); ok {
								if b, ok := info.ObjectOf(id).(*types.Builtin); ok && b.Name() == "new" {
									isNew = true
								}
							}
						}
						if !isNew {
							okDef, why = false, ExprStr(l)+" is defined as "+ExprStr(as.Rhs[i])
						}
					}
				}
				return true
			})
			if nDef == 0 {
				return false, ExprStr(e) + " is not made in " + ShortFn(fn.Key)
			}
			return okDef, why
		}
		ast.Inspect(fn.Decl.Body, func(x ast.Node) bool {
			c, ok := x.(*ast.CallExpr)
			if !ok || len(c.Args) < 2 {
				return true
			}
			f, ok := calleeFunc(info, c)
			if !ok || f.Name() != "Unmarshal" || f.Pkg() == nil || !strings.HasSuffix(f.Pkg().Path(), "json") {
				return true
			}
			tgt := c.Args[1]
			// only the decode of the whole document (an …Entry), not of a field of it
			tv, ok := info.Types[tgt]
			if !ok || !strings.HasSuffix(strings.TrimPrefix(ShortType(tv.Type), "*"), "Entry") {
				return true
			}
			n++
			okF, why := fresh(tgt)
			r.Check(rule, "cosmos:decode-target-fresh:"+ShortFn(fn.Key), c.Pos(), okF,
				"%s decodes the stored document into a value that was not made for this call (%s): fields absent from the document (omitempty) keep what an earlier document left there, and are handed out as the stored plan's", ShortFn(fn.Key), why)
			return true
		})
	}
	if n == 0 {
		r.Unresolved(rule, "docTo* readers decoding an entry")
	}
}

// ruleBatchPerAttempt (round-3 seed C14-6): operations are never added, attempt after attempt, to a transactional batch that
// was made once. Inside a retry operation (a literal of type func(context.Context, exponential.Record) error) a
// batch captured from outside may be executed — by value, as often as needed — but must neither receive operations
// nor be handed on by address to a function that could add some: the second attempt would then hold every operation
// twice, the service refuses the batch as a whole (404 on the second delete of an id, answered with 207 and a nil
// error), and Delete reports success with everything still stored.
func ruleBatchPerAttempt(r *Run, rule string) {
	pkg := r.P.Pkgs[pkgCosmos]
	if pkg == nil {
		r.Unresolved(rule, "package cosmosdb")
		return
	}
	info := pkg.TypesInfo
	isBatch := func(t types.Type) bool {
		return strings.HasSuffix(strings.TrimPrefix(ShortType(t), "*"), "azcosmos.TransactionalBatch")
	}
	n := 0
	ord := map[string]int{}
	for _, fn := range r.P.sortedFuncs() {
		if fn.Pkg != pkg || fn.Decl.Body == nil {
			continue
		}
		file := r.P.Fset.Position(fn.Decl.Pos()).Filename
		if strings.HasSuffix(file, "_test.go") || strings.HasSuffix(file, "fake_storage.go") || strings.HasSuffix(file, "testing.go") {
			continue
		}
		ast.Inspect(fn.Decl.Body, func(x ast.Node) bool {
			lit, ok := x.(*ast.FuncLit)
			if !ok {
				return true
			}
			sig, ok := info.Types[lit].Type.(*types.Signature)
			if !ok || sig.Params().Len() != 2 || !strings.HasSuffix(ShortType(sig.Params().At(1).Type()), "exponential.Record") {
				return true
			}
			n++
			ord[fn.Key]++
			bad := ""
			var bpos token.Pos = lit.Pos()
			captured := func(e ast.Expr) (types.Object, bool) {
				o := ObjOf(info, ast.Unparen(e))
				if o == nil || !isBatch(o.Type()) {
					return nil, false
				}
				return o, o.Pos() < lit.Pos() || o.Pos() > lit.End()
			}
			ast.Inspect(lit.Body, func(y ast.Node) bool {
				c, ok := y.(*ast.CallExpr)
				if !ok || bad != "" {
					return true
				}
				// an operation added to a captured batch
				if sel, ok := ast.Unparen(c.Fun).(*ast.SelectorExpr); ok {
					if o, cap := captured(sel.X); cap && strings.HasSuffix(sel.Sel.Name, "Item") {
						bad, bpos = "the retry operation adds an operation ("+sel.Sel.Name+") to the batch "+o.Name()+", which was made outside it", c.Pos()
					}
				}
				// a captured batch handed on by address (or as a pointer)
				for _, a := range c.Args {
					arg := ast.Unparen(a)
					if u, ok := arg.(*ast.UnaryExpr); ok && u.Op == token.AND {
						if o, cap := captured(u.X); cap && bad == "" {
							bad, bpos = "the retry operation hands the batch "+o.Name()+", made outside it, on by address to "+ExprStr(c.Fun), c.Pos()
						}
					} else if o, cap := captured(arg); cap && bad == "" {
						if _, isPtr := o.Type().Underlying().(*types.Pointer); isPtr {
							bad, bpos = "the retry operation hands the batch pointer "+o.Name()+", made outside it, on to "+ExprStr(c.Fun), c.Pos()
						}
					}
				}
				return true
			})
			if bad != "" {
				bad += ": every further attempt adds the same operations again, the batch is then refused as a whole while the call reports no error"
			}
			r.Check(rule, "cosmos:batch-made-per-attempt:"+ShortFn(fn.Key)+"#"+itoa(ord[fn.Key]), bpos, bad == "", "%s", orOK(bad, "the retry operation only executes batches made outside it"))
			return true
		})
	}
	if n == 0 {
		r.Unresolved(rule, "retry operations in package cosmosdb")
	}
}

// ruleRetryOpUsesOwnContext (round-3 seed C15-5): a retry operation works under the context the retry loop hands it. The
// cosmosdb vault classifies context errors as transient and its backoff has no attempt limit, so the only thing that
// ends a retry loop whose operation keeps failing with "context canceled" is the loop's own context. An operation that
// uses a captured context instead, in a loop run under a different (detached) one, is retried for ever once the
// captured context is done: a Search/List producer stuck there never closes its stream. Per retry-operation literal
// of package cosmosdb: if it uses a context captured from outside, every Retry call of the enclosing function must be
// given that very context.
func ruleRetryOpUsesOwnContext(r *Run, rule string) {
	pkg := r.P.Pkgs[pkgCosmos]
	if pkg == nil {
		r.Unresolved(rule, "package cosmosdb")
		return
	}
	info := pkg.TypesInfo
	isCtx := func(t types.Type) bool { return strings.HasSuffix(ShortType(t), "context.Context") }
	n := 0
	ord := map[string]int{}
	for _, fn := range r.P.sortedFuncs() {
		if fn.Pkg != pkg || fn.Decl.Body == nil {
			continue
		}
		file := r.P.Fset.Position(fn.Decl.Pos()).Filename
		if strings.HasSuffix(file, "_test.go") || strings.HasSuffix(file, "fake_storage.go") || strings.HasSuffix(file, "testing.go") {
			continue
		}
		// the contexts the Retry calls of this function run under
		var retryCtx []ast.Expr
		ast.Inspect(fn.Decl.Body, func(x ast.Node) bool {
			if c, ok := x.(*ast.CallExpr); ok && len(c.Args) == 2 {
				if f, ok := calleeFunc(info, c); ok && f.Name() == "Retry" && strings.Contains(FuncKey(f), "exponential") {
					retryCtx = append(retryCtx, c.Args[0])
				}
			}
			return true
		})
		ast.Inspect(fn.Decl.Body, func(x ast.Node) bool {
			lit, ok := x.(*ast.FuncLit)
			if !ok {
				return true
			}
			sig, ok := info.Types[lit].Type.(*types.Signature)
			if !ok || sig.Params().Len() != 2 || !strings.HasSuffix(ShortType(sig.Params().At(1).Type()), "exponential.Record") {
				return true
			}
			n++
			ord[fn.Key]++
			bad := ""
			var bpos token.Pos = lit.Pos()
			ast.Inspect(lit.Body, func(y ast.Node) bool {
				id, ok := y.(*ast.Ident)
				if !ok || bad != "" {
					return true
				}
				o, isVar := info.ObjectOf(id).(*types.Var)
				if !isVar || !isCtx(o.Type()) || (o.Pos() >= lit.Pos() && o.Pos() <= lit.End()) {
					return true
				}
				for _, rc := range retryCtx {
					if ObjOf(info, rc) != types.Object(o) {
						bad, bpos = "the retry operation uses the captured context "+id.Name+" while the retry loop runs under "+ExprStr(rc)+": once "+id.Name+" is done every attempt fails with a context error, which this vault treats as transient, and nothing ends the loop — a Search/List producer stuck here never closes its stream", id.Pos()
					}
				}
				return true
			})
			r.Check(rule, "cosmos:retry-op-uses-the-loop-context:"+ShortFn(fn.Key)+"#"+itoa(ord[fn.Key]), bpos, bad == "", "%s", orOK(bad, "the operation uses the context it is given (or the loop runs under the captured one)"))
			return true
		})
	}
	if n == 0 {
		r.Unresolved(rule, "retry operations in package cosmosdb")
	}
}

// ruleCosmosSwarmWired (round-3 seed C15-6): every component of the cosmosdb vault that writes or filters on the swarm gets
// the vault's swarm before it is copied anywhere. cosmosdb.New builds its components as struct VALUES and later copies
// some of them into others (the recovery helper holds a copy of the updater); an assignment `r.X.swarm = swarm` made
// after such a copy does not reach the copy, which then rewrites the search entries of every Running plan with an
// empty swarm at start-up — they vanish from Search and List, and crash recovery finds nothing to resume. On every
// path of New: no assignment to a `swarm` field of a component comes after a statement that copies that component
// (reads it as a value on the right-hand side of an assignment or inside a composite literal).
func ruleCosmosSwarmWired(r *Run, rule string) {
	fn := r.fnByKey(rule, pkgCosmos+".New")
	if fn == nil {
		return
	}
	info := fn.Pkg.TypesInfo
	type ev struct {
		pos   token.Pos
		comp  string // r.updater, r.creator, …
		write bool
	}
	var evs []ev
	compOf := func(e ast.Expr) string {
		// the component path of a selector chain that ends in .swarm: everything before the last two selections stays,
		// e.g. r.updater.planUpdater.swarm → r.updater
		s := ExprStr(e)
		parts := strings.Split(s, ".")
		if len(parts) >= 2 {
			return strings.Join(parts[:2], ".")
		}
		return s
	}
	ast.Inspect(fn.Decl.Body, func(x ast.Node) bool {
		as, ok := x.(*ast.AssignStmt)
		if !ok {
			return true
		}
		for _, l := range as.Lhs {
			if sel, ok := ast.Unparen(l).(*ast.SelectorExpr); ok && sel.Sel.Name == "swarm" {
				evs = append(evs, ev{as.Pos(), compOf(sel.X), true})
			}
		}
		for _, rhs := range as.Rhs {
			ast.Inspect(rhs, func(y ast.Node) bool {
				sel, ok := y.(*ast.SelectorExpr)
				if !ok {
					return true
				}
				tv, ok := info.Types[sel]
				if !ok || tv.Type == nil {
					return true
				}
				if _, isStruct := tv.Type.Underlying().(*types.Struct); isStruct && strings.Count(ExprStr(sel), ".") == 1 {
					evs = append(evs, ev{as.Pos(), ExprStr(sel), false})
				}
				return true
			})
		}
		return true
	})
	nW := 0
	bad := ""
	var bpos token.Pos = fn.Decl.Pos()
	for _, w := range evs {
		if !w.write {
			continue
		}
		nW++
		for _, c := range evs {
			if !c.write && c.comp == w.comp && c.pos < w.pos && bad == "" {
				bad, bpos = "New assigns the swarm of "+w.comp+" after "+w.comp+" was copied by value (line "+itoa(r.P.Fset.Position(c.pos).Line)+"): the copy keeps an empty swarm, and what it writes — the search entries of the plans that were Running at a restart — no longer matches the swarm filter of Search and List", w.pos
			}
		}
	}
	if nW == 0 {
		r.Unresolved(rule, "cosmosdb.New assigns the swarm of its components")
		return
	}
	r.Check(rule, "cosmos:swarm-assigned-before-components-are-copied", bpos, bad == "", "%s", orOK(bad, "every swarm assignment precedes the copies of its component"))
}

// ruleBatchResponseExamined (D44): the cosmos client reports a transactional batch that the service refused as a whole —
// an item was changed by somebody else (stale ETag), or is gone — only in the response (HTTP 207, Success == false,
// per-operation status codes), with a nil error. Every ExecuteTransactionalBatch call of the vault therefore binds the
// response and the function reads its Success or OperationResults, in place or through a function of the package it
// passes the response to. Delete threw the response away and reported success with every item still stored.
func ruleBatchResponseExamined(r *Run, rule string) {
	pkg := r.P.Pkgs[pkgCosmos]
	if pkg == nil {
		r.Unresolved(rule, "package cosmosdb")
		return
	}
	info := pkg.TypesInfo
	readsResponse := func(body ast.Node, obj types.Object) bool {
		found := false
		ast.Inspect(body, func(x ast.Node) bool {
			if sel, ok := x.(*ast.SelectorExpr); ok && (sel.Sel.Name == "Success" || sel.Sel.Name == "OperationResults") && ObjOf(info, sel.X) == obj {
				found = true
			}
			return !found
		})
		return found
	}
	// functions of the package that examine a response parameter
	examiners := map[string]bool{}
	for _, fn := range r.P.sortedFuncs() {
		if fn.Pkg != pkg || fn.Decl.Body == nil || fn.Decl.Type.Params == nil {
			continue
		}
		for _, f := range fn.Decl.Type.Params.List {
			for _, nm := range f.Names {
				o := info.ObjectOf(nm)
				if o != nil && strings.HasSuffix(ShortType(o.Type()), "TransactionalBatchResponse") && readsResponse(fn.Decl.Body, o) {
					examiners[fn.Key] = true
				}
			}
		}
	}
	n := 0
	ord := map[string]int{}
	for _, fn := range r.P.sortedFuncs() {
		if fn.Pkg != pkg || fn.Decl.Body == nil {
			continue
		}
		file := r.P.Fset.Position(fn.Decl.Pos()).Filename
		if strings.HasSuffix(file, "_test.go") || strings.HasSuffix(file, "fake_storage.go") || strings.HasSuffix(file, "testing.go") {
			continue
		}
		ast.Inspect(fn.Decl.Body, func(x ast.Node) bool {
			as, ok := x.(*ast.AssignStmt)
			var call *ast.CallExpr
			if ok && len(as.Rhs) == 1 {
				call, _ = ast.Unparen(as.Rhs[0]).(*ast.CallExpr)
			}
			if es, isES := x.(*ast.ExprStmt); isES {
				call, _ = es.X.(*ast.CallExpr)
				as = nil
			}
			if call == nil {
				return true
			}
			sel, isSel := ast.Unparen(call.Fun).(*ast.SelectorExpr)
			if !isSel || sel.Sel.Name != "ExecuteTransactionalBatch" {
				return true
			}
			n++
			ord[fn.Key]++
			okR, why := false, "the response is discarded"
			if as != nil && len(as.Lhs) == 2 {
				if o := ObjOf(info, as.Lhs[0]); o != nil {
					if readsResponse(fn.Decl.Body, o) {
						okR = true
					} else {
						why = "the response is bound to " + o.Name() + " but neither its Success nor its OperationResults are read"
						ast.Inspect(fn.Decl.Body, func(y ast.Node) bool {
							if c, ok := y.(*ast.CallExpr); ok {
								if f, ok := calleeFunc(info, c); ok && examiners[FuncKey(f)] {
									for _, a := range c.Args {
										if ObjOf(info, a) == o {
											okR = true
										}
									}
								}
							}
							return !okR
						})
					}
				}
			}
			r.Check(rule, "cosmos:batch-response-examined:"+ShortFn(fn.Key)+"#"+itoa(ord[fn.Key]), call.Pos(), okR,
				"%s executes a transactional batch and %s: a batch the service refused as a whole comes back with a nil error, so the call reports success although nothing was applied", ShortFn(fn.Key), why)
			return true
		})
	}
	if n == 0 {
		r.Unresolved(rule, "ExecuteTransactionalBatch calls")
	}
}
