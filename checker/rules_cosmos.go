package main

func rulesCosmosRoundTrip(r *Run, rule string) {}
func ruleCosmosBatch(r *Run, rule string)      {}
func rulesCosmosSearch(r *Run, rule string)    {}
