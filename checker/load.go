package main

import (
	"fmt"
	"go/ast"
	"go/token"
	"go/types"
	"os"
	"path/filepath"
	"sort"
	"strings"

	"golang.org/x/tools/go/packages"
)

// ModPath is the module path of the repository under analysis.
const ModPath = "github.com/element-of-surprise/coercion"

// MinPackages is the number of packages confirmed by hand on the pinned tree.
const MinPackages = 28

// Prog is the loaded, type-checked program.
type Prog struct {
	Root  string
	Fset  *token.FileSet
	Pkgs  map[string]*packages.Package // keyed by path relative to the module ("" = root)
	All   []*packages.Package
	Funcs map[string]*Func // key: rel/pkg.Recv.Name or rel/pkg.Name

	declOf map[types.Object]*Func
	// enclosing maps every FuncLit to the declared function that contains it.
	enclosing map[*ast.FuncLit]*Func
	flows     map[ast.Node]*Flow
	cg        *CallGraph
	ssa       *ssaView
	RenameNotes []string
	closures    map[*Func]map[*types.Var]*ast.FuncLit // local closures per function (inline.go)
}

// Func is one declared function of the repository.
type Func struct {
	Key  string
	Pkg  *packages.Package
	Decl *ast.FuncDecl // canonicalised copy (see canon.go); Orig is the declaration as written
	Orig *ast.FuncDecl
	Obj  *types.Func
}

func relPkg(path string) string {
	if path == ModPath {
		return ""
	}
	return strings.TrimPrefix(path, ModPath+"/")
}

// Load loads every package of the repository from its current working tree.
//
// The quick tier type-checks the repository's own packages from source and takes the types of its
// dependencies from the compiler's export data (FastLoad); the thorough tier needs the syntax of the
// dependencies as well (SSA bodies for VTA) and loads everything from source.
var FastLoad bool

func Load(root string) (*Prog, error) {
	mode := packages.NeedName | packages.NeedFiles | packages.NeedCompiledGoFiles | packages.NeedSyntax |
		packages.NeedTypes | packages.NeedTypesInfo | packages.NeedImports | packages.NeedModule
	if !FastLoad {
		mode |= packages.NeedDeps
	}
	cfg := &packages.Config{
		Mode: mode,
		Dir:   root,
		Tests: false,
		Env:   append(os.Environ(), "GOWORK=off"),
	}
	pkgs, err := packages.Load(cfg, "./...")
	if err != nil {
		return nil, fmt.Errorf("packages.Load: %w", err)
	}
	p := &Prog{
		Root:      root,
		Pkgs:      map[string]*packages.Package{},
		Funcs:     map[string]*Func{},
		declOf:    map[types.Object]*Func{},
		enclosing: map[*ast.FuncLit]*Func{},
		flows:     map[ast.Node]*Flow{},
	}
	var errs []string
	for _, pkg := range pkgs {
		for _, e := range pkg.Errors {
			errs = append(errs, fmt.Sprintf("%s: %s", pkg.PkgPath, e))
		}
		if !strings.HasPrefix(pkg.PkgPath, ModPath) {
			continue
		}
		p.Fset = pkg.Fset
		p.Pkgs[relPkg(pkg.PkgPath)] = pkg
		p.All = append(p.All, pkg)
	}
	if len(errs) > 0 {
		return nil, fmt.Errorf("load/type errors (%d): %s", len(errs), strings.Join(errs, "; "))
	}
	if len(p.All) < MinPackages {
		return nil, fmt.Errorf("only %d packages loaded, expected at least %d", len(p.All), MinPackages)
	}
	sort.Slice(p.All, func(i, j int) bool { return p.All[i].PkgPath < p.All[j].PkgPath })
	// rename tolerance (anchors.go): must be settled before any key is computed
	current := map[string]*types.Func{}
	for _, pkg := range p.All {
		for _, f := range pkg.Syntax {
			for _, d := range f.Decls {
				if fd, ok := d.(*ast.FuncDecl); ok {
					if obj, _ := pkg.TypesInfo.Defs[fd.Name].(*types.Func); obj != nil {
						current[FuncKey(obj)] = obj
					}
				}
			}
		}
	}
	if tab := loadAnchorTable(); tab != nil && len(tab.Types) > 0 {
		p.RenameNotes = p.resolveTypeAndFieldRenames(tab)
		// keys computed before the type aliases were known are stale
		current = map[string]*types.Func{}
		for _, pkg := range p.All {
			for _, f := range pkg.Syntax {
				for _, d := range f.Decls {
					if fd, ok := d.(*ast.FuncDecl); ok {
						if obj, _ := pkg.TypesInfo.Defs[fd.Name].(*types.Func); obj != nil {
							current[FuncKey(obj)] = obj
						}
					}
				}
			}
		}
	}
	p.RenameNotes = append(p.RenameNotes, p.resolveRenames(current)...)
	for _, pkg := range p.All {
		for _, f := range pkg.Syntax {
			for _, d := range f.Decls {
				fd, ok := d.(*ast.FuncDecl)
				if !ok {
					continue
				}
				obj, _ := pkg.TypesInfo.Defs[fd.Name].(*types.Func)
				if obj == nil {
					continue
				}
				fn := &Func{Key: FuncKey(obj), Pkg: pkg, Decl: fd, Orig: fd, Obj: obj}
				p.Funcs[fn.Key] = fn
				p.declOf[obj] = fn
			}
		}
	}
	p.canonicaliseAll()
	theProg = p
	for _, fn := range p.Funcs {
		for _, d := range []*ast.FuncDecl{fn.Orig, fn.Decl} {
			if d == nil || d.Body == nil {
				continue
			}
			fn := fn
			ast.Inspect(d.Body, func(n ast.Node) bool {
				if fl, ok := n.(*ast.FuncLit); ok {
					p.enclosing[fl] = fn
				}
				return true
			})
		}
	}
	return p, nil
}

// FuncKey gives the stable key of a function object: "rel/pkg.Recv.Name" for
// repository functions and "full/import/path.Recv.Name" for others.
func FuncKey(obj *types.Func) string {
	if obj == nil {
		return ""
	}
	obj = obj.Origin()
	pkg := ""
	if obj.Pkg() != nil {
		pkg = obj.Pkg().Path()
		if strings.HasPrefix(pkg, ModPath) {
			pkg = relPkg(pkg)
			if pkg == "" {
				pkg = "coercion"
			}
		}
	}
	sig, _ := obj.Type().(*types.Signature)
	if sig != nil && sig.Recv() != nil {
		t := sig.Recv().Type()
		if pt, ok := t.(*types.Pointer); ok {
			t = pt.Elem()
		}
		name := "?"
		switch tt := t.(type) {
		case *types.Named:
			name = typeName(tt.Obj())
		case *types.Alias:
			name = tt.Obj().Name()
		default:
			// interface method declared in an anonymous interface
			name = "iface"
		}
		return aliasKey(pkg + "." + name + "." + obj.Name())
	}
	return aliasKey(pkg + "." + obj.Name())
}

// typeName is the name of a named type as the rules know it.
func typeName(o *types.TypeName) string {
	if a, ok := typeAlias[o]; ok {
		return a
	}
	return o.Name()
}

func aliasKey(k string) string {
	if a, ok := keyAlias[k]; ok {
		return a
	}
	return k
}

// Pos renders a position relative to the repository root.
func (p *Prog) Pos(pos token.Pos) string {
	if !pos.IsValid() {
		return "-"
	}
	pp := p.Fset.Position(pos)
	rel, err := filepath.Rel(p.Root, pp.Filename)
	if err != nil {
		rel = pp.Filename
	}
	return fmt.Sprintf("%s:%d", rel, pp.Line)
}

// FuncOfLit returns the declared function enclosing a literal.
func (p *Prog) FuncOfLit(fl *ast.FuncLit) *Func { return p.enclosing[fl] }

// DeclOf returns the repository declaration of a function object, if any.
func (p *Prog) DeclOf(obj types.Object) *Func {
	if f, ok := obj.(*types.Func); ok {
		return p.declOf[f.Origin()]
	}
	return nil
}

// PkgOfNode returns the package whose syntax contains pos.
func (p *Prog) PkgOfPos(pos token.Pos) *packages.Package {
	for _, pkg := range p.All {
		for _, f := range pkg.Syntax {
			if f.FileStart <= pos && pos <= f.FileEnd {
				return pkg
			}
		}
	}
	return nil
}
