package main

import (
	"go/token"
	"strings"
)

const (
	pkgSM      = "internal/execute/sm"
	pkgActions = "internal/execute/sm/actions"
	pkgExec    = "internal/execute"

	keyGroupGo   = "github.com/gostdlib/base/concurrency/sync.Group.Go"
	keyGroupWait = "github.com/gostdlib/base/concurrency/sync.Group.Wait"
	keySubmit    = "github.com/gostdlib/base/concurrency/worker.Pool.Submit"
	keyLimited   = "github.com/gostdlib/base/concurrency/worker.Pool.Limited"
	keyRun       = "github.com/gostdlib/base/statemachine.Run"
	keyRetry     = "github.com/Azure/retry/exponential.Backoff.Retry"
	keyPluginExe = "plugins.Plugin.Execute"
)

func smKey(name string) string { return pkgSM + ".States." + name }

func init() {
	register(PropInfo{
		ID: "C01",
		Explanation: "All-paths decision of the structural clauses of C01 (DESIGN.md section 4, C01): (R1) dominance relations in the plan state graph extracted from the req.Next assignments of every path of every state function; (R2) routing of the pre-check gate's error branch; (R3) execSeq runs actions sequentially, in declared order, and stops at the first error; (R4) only blocks[0] is ever executed and blocks are popped from the front in BlockEnd/ExecuteBlock only; (R5) every path from a sequence launch to a return of ExecuteSequences passes the group's Wait; (R6) exact caller sets of the only route to Plugin.Execute; (R7) the failure of a plugin invocation reaches execSeq's gate: exec's outcome mapping, Retry's result stored and promoted to the action machine's error, runAction returning it and not re-running terminal actions; (R8) the declared order survives the sqlite vault (positions bound from the declared index into a numeric column, actions read back ORDER BY pos, child lists rebuilt in id-array order). Decides these necessary conditions, not the behaviour as a whole.",
		NotDecided: []string{"that storage returns actions in position order at run time (C13 decides ORDER BY/pos binding)", "happens-before across goroutines beyond join points", "latencies"},
		Assumptions: []string{"statemachine.Run clears Next before each state and stops when Next is nil or Err is set (read in gostdlib/base)", "worker.Group.Wait returns after every function given to Group.Go has returned"},
		Rules:       rulesC01,
	})
}

// planMachine extracts the plan state machine (shared by several properties).
func planMachine(r *Run, rule string) *Machine {
	m := r.ExtractMachine(rule, "plan", pkgSM, "States", "Start", "Recovery")
	for _, e := range m.Edges {
		if e.Assigned == "?" || strings.HasPrefix(e.Assigned, "ext:") {
			r.Undecided(rule, "edge:"+e.From+"→?", e.Site, "successor of state %s cannot be resolved on one path (Next assigned a non-method value or the request was overwritten)", e.From)
		}
	}
	return m
}

func rulesC01(r *Run) {
	// ---- R1: dominance in the plan graph
	r.Kind("R1", "K1")
	m := planMachine(r, "R1")
	r.Note("plan graph: %s", m.Dump())
	gates := []string{"PlanBypassChecks", "PlanPreChecks", "PlanStartContChecks", "ExecuteBlock", "BlockBypassChecks", "BlockPreChecks", "BlockStartContChecks"}
	for _, entry := range []string{"Start", "Recovery"} {
		for _, g := range gates {
			ok := m.Dominates(entry, g, "ExecuteSequences")
			r.Check("R1", "dom:"+entry+":"+g+">ExecuteSequences", posOfState(m, g), ok,
				"every path %s→ExecuteSequences must pass %s; witness avoiding it: %s", entry, g, m.Witness(entry, g, "ExecuteSequences"))
		}
	}
	// round-4 seed C01-8: "blocks one at a time" includes the block's continuous checks — BlockEnd (and PlanPostChecks for the
	// plan's) must have drained the result channel until its producer closed it before the next block, or the plan's
	// post-checks, begin: a single receive returns the buffered result of an earlier run while a run is still in the plugin
	ruleContJoin(r, "R1", m)
	subset := func(key string, got []string, allowed ...string) {
		al := map[string]bool{}
		for _, a := range allowed {
			al[a] = true
		}
		var extra []string
		for _, g := range got {
			if !al[g] {
				extra = append(extra, g)
			}
		}
		r.Check("R1", key, posOfState(m, strings.SplitN(strings.SplitN(key, "(", 2)[1], ")", 2)[0]), len(extra) == 0 && len(got) > 0, "%s = %v, allowed %v, unexpected %v", key, got, allowed, extra)
	}
	subset("preds(PlanPostChecks)", m.Preds("PlanPostChecks"), "ExecuteBlock")
	subset("succs(PlanDeferredChecks)", m.Succs("PlanDeferredChecks"), "End")
	subset("succs(PlanPostChecks)", m.Succs("PlanPostChecks"), "PlanDeferredChecks")
	subset("preds(BlockPostChecks)", m.Preds("BlockPostChecks"), "ExecuteSequences")
	subset("succs(BlockPostChecks)", m.Succs("BlockPostChecks"), "BlockDeferredChecks")
	subset("succs(BlockDeferredChecks)", m.Succs("BlockDeferredChecks"), "BlockEnd")
	subset("preds(ExecuteSequences)", m.Preds("ExecuteSequences"), "BlockStartContChecks")
	subset("succs(End)", m.Succs("End"), Terminal)
	for _, late := range []string{"BlockPostChecks", "BlockDeferredChecks", "BlockEnd"} {
		ok := m.MustPass(late, "ExecuteBlock", "ExecuteSequences")
		r.Check("R1", "after:"+late+"!>ExecuteSequences", posOfState(m, late), ok, "from %s sequences may only run again after ExecuteBlock selected the next block; witness: %s", late, m.Witness(late, "ExecuteBlock", "ExecuteSequences"))
	}
	for _, late := range []string{"PlanPostChecks", "PlanDeferredChecks", "End"} {
		reach := m.reach(late, nil)
		r.Check("R1", "after:"+late+"!>ExecuteSequences", posOfState(m, late), !reach["ExecuteSequences"] && !reach["ExecuteBlock"], "no block or sequence may run after %s", late)
	}
	r.Expect("R1", 20)

	// ---- R2: gate routing
	r.Kind("R2", "K2")
	gateRouting(r, "R2", smKey("PlanPreChecks"), smKey("runPreChecks"), []string{"PlanStartContChecks"}, []string{"PlanDeferredChecks"})
	gateRouting(r, "R2", smKey("BlockPreChecks"), smKey("runPreChecks"), []string{"BlockStartContChecks"}, []string{"BlockDeferredChecks"})
	groupResultReturned(r, "R2", "runPreChecks", 2)
	ruleRunContextDetached(r, "R2")
	ruleGroupsRunWhenPendingAll(r, "R2", "PreChecks") // pending pre-checks are always run (mutation sweep)
	ruleParallelVerdict(r, "R2")
	r.Expect("R2", 11)

	// ---- R3: execSeq sequential, ordered, gated
	r.Kind("R3", "K2")
	ruleExecSeq(r, "R3")
	r.Expect("R3", 4)

	// ---- R4: one block at a time, in order
	r.Kind("R4", "K11")
	ruleBlocksHead(r, "R4")
	r.Expect("R4", 6)

	// ---- R5: join before leaving ExecuteSequences
	r.Kind("R5", "K3")
	ruleJoinJ1(r, "R5", smKey("ExecuteSequences"))
	// "post-checks begin only after …, deferred checks last": a check group's run ends only when all of its actions have (round-4 seed C01-7)
	ruleJoinJ1(r, "R5", smKey("runActionsParallel"), smKey("runPreChecks"), smKey("runBypasses"))
	r.Expect("R5", 4)

	// ---- R6: confinement of plugin invocation
	r.Kind("R6", "K4")
	rulePluginConfinement(r, "R6")
	r.Expect("R6", 7)

	// ---- R7: an action's failure reaches execSeq (the gate "previous action finished successfully")
	r.Kind("R7", "K2")
	ruleFailureChain(r, "R7")
	r.Expect("R7", 7)

	// ---- R8: the declared order survives the vault: Start executes the plan as read back from storage
	r.Kind("R8", "K8")
	if m := buildSqliteModel(r, "R8"); m != nil {
		ruleStoredOrder(r, "R8", m)
		// pos is an INTEGER column bound as an integer in every table that has it (ORDER BY pos must be numeric)
		for _, w := range m.writers {
			if w.SQL.Kind != "insert" {
				continue
			}
			b := w.Binds["$pos"]
			create := m.tables[w.SQL.Table]
			if b == nil || create.Types["pos"] == "" {
				continue
			}
			r.Check("R8", "pos-is-numeric:"+w.SQL.Table, b.Pos, create.Types["pos"] == "INTEGER" && b.Class == "int", "%s.pos is declared %s and bound as %s: a textual position sorts lexicographically (a00 a01 a10 a11 a02 …), so sequences with more than ten actions run out of declared order", w.SQL.Table, create.Types["pos"], b.Class)
		}
	}
	r.Expect("R8", 9)
}

func posOfState(m *Machine, st string) (p token.Pos) {
	if f := m.States[st]; f != nil {
		return f.Decl.Pos()
	}
	return 0
}

// gateRouting: in state function fnKey, the result of the call to gate decides
// the successor: Next ∈ pass only on the nil/false verdict or on paths that do
// not call the gate at all; on the non-nil verdict Next ∈ fail.
func gateRouting(r *Run, rule, fnKey, gate string, pass, fail []string) {
	fn := r.P.Funcs[fnKey]
	if fn == nil {
		r.Unresolved(rule, fnKey)
		return
	}
	r.Funcs[fnKey] = true
	fl := r.P.FlowOf(fn)
	paths, ok := fl.Paths()
	if !ok {
		r.Undecided(rule, "paths:"+fnKey, fn.Decl.Pos(), "too many paths")
		return
	}
	r.Paths += len(paths)
	in := func(set []string, s string) bool {
		for _, x := range set {
			if x == s {
				return true
			}
		}
		return false
	}
	sawGate := false
	type agg struct {
		ok   bool
		msg  string
		pos  token.Pos
		seen bool
	}
	res := map[string]*agg{}
	note := func(key string, pos token.Pos, ok bool, msg string) {
		a := res[key]
		if a == nil {
			a = &agg{ok: true}
			res[key] = a
		}
		a.seen = true
		if !ok && a.ok {
			a.ok, a.msg, a.pos = false, msg, pos
		}
		if a.pos == 0 {
			a.pos = pos
		}
	}
	short := ShortFn(fnKey)
	for i := range paths {
		p := &paths[i]
		if p.Exit != ExitReturn {
			continue
		}
		next, _, site := PathNext(fl, p)
		next = strings.TrimPrefix(next, "method:"+pkgSM+".States.")
		ci := -1
		for j, e := range p.Ev {
			if IsCall(e, gate) && !e.Deferred {
				ci = j
			}
		}
		if ci < 0 {
			continue
		}
		sawGate = true
		r.Evals++
		use := UseOfResult(fl, p, ci)
		switch use.Verdict {
		case "nonnil", "false":
			if use.Verdict == "false" && !isBoolGate(gate) {
				break
			}
			note(short+":fail-branch", p.Ev[ci].Pos, in(fail, next), "on the failing branch of "+ShortFn(gate)+" the successor is "+next+", allowed "+strings.Join(fail, ","))
		case "nil", "true":
			note(short+":pass-branch", p.Ev[ci].Pos, in(pass, next) || in(fail, next), "on the passing branch of "+ShortFn(gate)+" the successor is "+next)
		default:
			note(short+":result-tested", site, !in(pass, next), "a path reaches "+next+" without testing the result of "+ShortFn(gate)+" ("+use.Kind+"/"+use.Verdict+")")
		}
	}
	if !sawGate {
		r.Unresolved(rule, fnKey+" calls "+gate)
		return
	}
	for _, k := range []string{short + ":fail-branch", short + ":pass-branch"} {
		a := res[k]
		if a == nil {
			r.Fail(rule, k, fn.Decl.Pos(), "no path of %s tests the result of %s on this polarity", short, ShortFn(gate))
			continue
		}
		r.Check(rule, k, a.pos, a.ok, "%s", orOK(a.msg, "routing agrees on every path"))
	}
	if a := res[short+":result-tested"]; a != nil {
		r.Check(rule, short+":result-tested", a.pos, a.ok, "%s", orOK(a.msg, "no path reaches the pass successor untested"))
	}
}

func isBoolGate(gate string) bool { return strings.HasSuffix(gate, ".runBypasses") }

func orOK(msg, ok string) string {
	if msg == "" {
		return ok
	}
	return msg
}
