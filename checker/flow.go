package main

import (
	"fmt"
	"os"
	"time"
	"go/ast"
	"go/token"
	"go/types"
	"sort"

	"golang.org/x/tools/go/cfg"
	"golang.org/x/tools/go/packages"
	"golang.org/x/tools/go/types/typeutil"
)

// PathLimit bounds path enumeration per function (beyond it the rule is UNDECIDED).
const PathLimit = 20000

type EvKind int

const (
	EvCall EvKind = iota
	EvAssign
	EvBranch
	EvSend
	EvRecv
	EvReturn
	EvDefer
	EvGo
	EvRange // taking (Taken) or leaving (!Taken) a range loop
	EvSelect
	EvTypeCase
	EvInlReturn // the return of an inlined callee (not a return of the analysed function)
	EvInlEnd    // end of the events of an inlined callee
)

func (k EvKind) String() string {
	return [...]string{"call", "assign", "branch", "send", "recv", "return", "defer", "go", "range", "select", "typecase", "inl-return", "inl-end"}[k]
}

// Event is one observable step on a path through a function.
type Event struct {
	Kind   EvKind
	Pos    token.Pos
	Node   ast.Node
	Call   *ast.CallExpr // EvCall, EvDefer, EvGo
	Callee types.Object  // resolved callee (func, var, builtin) or nil
	Lhs    []ast.Expr    // EvAssign
	Rhs    []ast.Expr
	Tok    token.Token
	Cond   ast.Expr // EvBranch: condition, or case value for a switch case
	Tag    ast.Expr // EvBranch on a switch case: the switch tag (nil for tagless)
	Taken  bool
	Clause ast.Stmt // CommClause / CaseClause / RangeStmt
	Chan   ast.Expr // EvSend, EvRecv
	Ret    *ast.ReturnStmt

	Deferred bool // executed by a deferred function at exit
	Maybe    bool // (deferred only) not on every path of the deferred closure
	Block    int32

	Depth   int        // > 0: the event happens inside a callee whose body was inlined at this point of the path
	From    string     // key of the (innermost) inlined callee the event comes from; "" for the analysed function's own code
	Inlined bool       // EvCall: the events of the callee follow (up to the matching EvInlEnd)
	Vals    []ast.Expr // EvAssign/EvReturn consuming an inlined call: what the callee returned on this path
	CondVal ast.Expr   // EvBranch whose condition contains inlined calls: the condition with their results put in
}

type ExitKind int

const (
	ExitReturn ExitKind = iota
	ExitNoReturn
	ExitTruncated // prefix cut at the per-block visit bound
)

// Path is one acyclic-ish path (each block at most twice) from entry to an exit.
type Path struct {
	Ev   []Event
	Exit ExitKind
}

// Flow is the analysed body of a function or function literal.
type Flow struct {
	P    *Prog
	Pkg  *packages.Package
	Info *types.Info
	Node ast.Node // *ast.FuncDecl or *ast.FuncLit
	Body *ast.BlockStmt
	Name string
	CFG  *cfg.CFG

	comm    map[ast.Node]bool       // comm statements of select clauses (evaluated at the case, not before)
	lastComm map[*ast.CommClause]bool // the last clause of a select without default: "not taken" is impossible there (the select blocks)
	caseTag map[ast.Expr]*ast.SwitchStmt
	inl      map[*ast.CallExpr]*inlined // prepared callee copies per call site (nil = not inlinable)
	inlStack []*Func                    // callees being inlined around this flow
	inlLits  []*ast.FuncLit             // literals called on the spot being inlined around this flow
	self     *Func                      // the declared function the root flow belongs to
	noInline bool
	work     int  // enumeration steps of the current attempt
	busy     bool // Paths() is running (guards against asking a function for its own path count)
	inlMode  int // 0: private helpers generously + small callees; 1: small callees only; 2: tail calls and two-path callees only
	paths   []Path
	truncated []Path
	over    bool
	done    bool
	pruned  int // infeasible prefixes pruned
}

// visitOverride raises the per-block visit bound for functions whose rules need
// two complete loop iterations (default 2 = one complete iteration plus a partial one).
var visitOverride = map[string]int{
	"workflow/storage/sqlite.reader.buildSearchQuery": 3,
	"workflow/storage/cosmosdb.reader.buildSearchQuery": 3,
}

func (f *Flow) maxVisits() int {
	if n, ok := visitOverride[f.Name]; ok {
		return n
	}
	return 2
}

// FlowOf returns the (memoised) flow of a declared function.
func (p *Prog) FlowOf(f *Func) *Flow {
	fl := p.flowOf(f.Decl, f.Decl.Body, f.Pkg, f.Key)
	fl.self = f
	return fl
}

// FlowOfLit returns the flow of a function literal.
func (p *Prog) FlowOfLit(fl *ast.FuncLit) *Flow {
	enc := p.enclosing[fl]
	if enc == nil {
		return nil
	}
	f := p.flowOf(fl, fl.Body, enc.Pkg, fmt.Sprintf("%s$lit@%d", enc.Key, p.Fset.Position(fl.Pos()).Line))
	f.self = enc
	return f
}

func (p *Prog) flowOf(node ast.Node, body *ast.BlockStmt, pkg *packages.Package, name string) *Flow {
	if f := p.flows[node]; f != nil {
		return f
	}
	f := &Flow{P: p, Pkg: pkg, Info: pkg.TypesInfo, Node: node, Body: body, Name: name,
		comm: map[ast.Node]bool{}, lastComm: map[*ast.CommClause]bool{}, caseTag: map[ast.Expr]*ast.SwitchStmt{}, inl: map[*ast.CallExpr]*inlined{}}
	f.prepare()
	p.flows[node] = f
	return f
}

// prepare indexes the select/switch clauses of the body and builds its CFG.
func (f *Flow) prepare() {
	node, body, pkg := f.Node, f.Body, f.Pkg
	if f.lastComm == nil {
		f.lastComm = map[*ast.CommClause]bool{}
	}
	ast.Inspect(body, func(n ast.Node) bool {
		switch s := n.(type) {
		case *ast.FuncLit:
			return n == node
		case *ast.SelectStmt:
			hasDefault := false
			for _, c := range s.Body.List {
				if c.(*ast.CommClause).Comm == nil {
					hasDefault = true
				}
			}
			if !hasDefault && len(s.Body.List) > 0 {
				f.lastComm[s.Body.List[len(s.Body.List)-1].(*ast.CommClause)] = true
			}
			for _, c := range s.Body.List {
				if cc := c.(*ast.CommClause); cc.Comm != nil {
					f.comm[cc.Comm] = true
					if as, ok := cc.Comm.(*ast.AssignStmt); ok {
						f.comm[as.Lhs[0]] = true
					}
				}
			}
		case *ast.SwitchStmt:
			for _, c := range s.Body.List {
				for _, e := range c.(*ast.CaseClause).List {
					f.caseTag[e] = s
				}
			}
		}
		return true
	})
	f.CFG = cfg.New(body, func(call *ast.CallExpr) bool { return !NoReturnCall(pkg.TypesInfo, call) })
}

// NoReturnCall reports whether call never returns (panic, os.Exit, log.Fatal*).
func NoReturnCall(info *types.Info, call *ast.CallExpr) bool {
	obj := typeutil.Callee(info, call)
	switch o := obj.(type) {
	case *types.Builtin:
		return o.Name() == "panic"
	case *types.Func:
		if o.Pkg() == nil {
			return false
		}
		switch o.Pkg().Path() {
		case "os":
			return o.Name() == "Exit"
		case "log", "github.com/gostdlib/base/telemetry/log":
			return o.Name() == "Fatalf" || o.Name() == "Fatal" || o.Name() == "Fatalln" || o.Name() == "Panic" || o.Name() == "Panicf" || o.Name() == "Panicln"
		case "runtime":
			return o.Name() == "Goexit"
		}
	}
	return false
}

// nodeEvents lists the events of one CFG node in evaluation order.
func (f *Flow) nodeEvents(n ast.Node, blk int32) []Event {
	var evs []Event
	if f.comm[n] {
		return nil // evaluated when (and only if) the select case is taken
	}
	emitInner := func(root ast.Node) {
		if root == nil {
			return
		}
		var stack []ast.Node
		ast.Inspect(root, func(m ast.Node) bool {
			if m == nil {
				top := stack[len(stack)-1]
				stack = stack[:len(stack)-1]
				switch x := top.(type) {
				case *ast.CallExpr:
					evs = append(evs, Event{Kind: EvCall, Pos: x.Pos(), Node: n, Call: x, Callee: typeutil.Callee(f.Info, x), Block: blk})
				case *ast.UnaryExpr:
					if x.Op == token.ARROW {
						evs = append(evs, Event{Kind: EvRecv, Pos: x.Pos(), Node: n, Chan: x.X, Block: blk})
					}
				}
				return true
			}
			if _, ok := m.(*ast.FuncLit); ok {
				return false
			}
			stack = append(stack, m)
			return true
		})
	}
	switch s := n.(type) {
	case *ast.AssignStmt:
		for _, r := range s.Rhs {
			emitInner(r)
		}
		for _, l := range s.Lhs {
			emitInner(l)
		}
		evs = append(evs, Event{Kind: EvAssign, Pos: s.Pos(), Node: n, Lhs: s.Lhs, Rhs: s.Rhs, Tok: s.Tok, Block: blk})
	case *ast.IncDecStmt:
		emitInner(s.X)
		evs = append(evs, Event{Kind: EvAssign, Pos: s.Pos(), Node: n, Lhs: []ast.Expr{s.X}, Tok: s.Tok, Block: blk})
	case *ast.ValueSpec:
		for _, v := range s.Values {
			emitInner(v)
		}
		lhs := make([]ast.Expr, len(s.Names))
		for i, id := range s.Names {
			lhs[i] = id
		}
		evs = append(evs, Event{Kind: EvAssign, Pos: s.Pos(), Node: n, Lhs: lhs, Rhs: s.Values, Tok: token.DEFINE, Block: blk})
	case *ast.SendStmt:
		emitInner(s.Chan)
		emitInner(s.Value)
		evs = append(evs, Event{Kind: EvSend, Pos: s.Pos(), Node: n, Chan: s.Chan, Rhs: []ast.Expr{s.Value}, Block: blk})
	case *ast.ReturnStmt:
		for _, r := range s.Results {
			emitInner(r)
		}
		evs = append(evs, Event{Kind: EvReturn, Pos: s.Pos(), Node: n, Ret: s, Rhs: s.Results, Block: blk})
	case *ast.DeferStmt:
		for _, a := range s.Call.Args {
			emitInner(a)
		}
		if _, isLit := s.Call.Fun.(*ast.FuncLit); !isLit {
			// the function value expression is evaluated at defer time (e.g. sqlitex.Transaction(conn))
			if inner, ok := s.Call.Fun.(*ast.CallExpr); ok {
				emitInner(inner)
			}
		}
		evs = append(evs, Event{Kind: EvDefer, Pos: s.Pos(), Node: n, Call: s.Call, Callee: typeutil.Callee(f.Info, s.Call), Block: blk})
	case *ast.GoStmt:
		for _, a := range s.Call.Args {
			emitInner(a)
		}
		evs = append(evs, Event{Kind: EvGo, Pos: s.Pos(), Node: n, Call: s.Call, Callee: typeutil.Callee(f.Info, s.Call), Block: blk})
	default:
		emitInner(n)
	}
	return evs
}

// commEvents are the events of a select communication, emitted when its case is taken.
func (f *Flow) commEvents(cc *ast.CommClause, blk int32) []Event {
	if cc.Comm == nil {
		return nil
	}
	saved := f.comm
	f.comm = map[ast.Node]bool{}
	evs := f.nodeEvents(cc.Comm, blk)
	f.comm = saved
	return evs
}

func isNoReturnExit(f *Flow, b *cfg.Block) bool {
	if len(b.Nodes) == 0 {
		return false
	}
	if es, ok := b.Nodes[len(b.Nodes)-1].(*ast.ExprStmt); ok {
		if call, ok := es.X.(*ast.CallExpr); ok {
			return NoReturnCall(f.Info, call)
		}
	}
	return false
}

// Truncated returns the path prefixes that were cut at the visit bound.
func (f *Flow) Truncated() []Path {
	f.Paths()
	return f.truncated
}

// Paths enumerates the paths of the function; ok is false if the bound was exceeded.
func (f *Flow) Paths() (paths []Path, ok bool) {
	if f.done {
		return f.paths, !f.over
	}
	f.done = true
	f.busy = true
	defer func() { f.busy = false }()
	t0 := time.Now()
	defer func() {
		if d := time.Since(t0); os.Getenv("COERLINT_DEBUG") != "" && d > 200*time.Millisecond {
			fmt.Fprintf(os.Stderr, "FLOW %s: %d paths over=%v mode=%d noinline=%v %.1fs\n", f.Name, len(f.paths), f.over, f.inlMode, f.noInline, d.Seconds())
		}
	}()
	f.enumerate()
	// too many paths with callee bodies spliced in: retry with small callees only, then with opaque calls
	for f.over && !f.noInline && len(f.inl) > 0 {
		if f.inlMode < 2 {
			f.inlMode++
		} else {
			f.noInline = true
		}
		f.inl = map[*ast.CallExpr]*inlined{}
		f.paths, f.truncated, f.over, f.pruned, f.work = nil, nil, false, 0, 0
		f.enumerate()
	}
	return f.paths, !f.over
}

// pathBudget: while callee bodies are being spliced in, the enumeration gives up early (and is
// retried with less inlining); without inlining the bound is PathLimit.
func (f *Flow) pathBudget() int {
	if f.noInline || f.inlMode >= 2 {
		return PathLimit
	}
	return 2500
}

func (f *Flow) enumerate() {
	if len(f.CFG.Blocks) == 0 {
		return
	}
	visits := make([]int, len(f.CFG.Blocks))
	savedVolatile := volatile
	volatile = computeVolatile(f.Info, f.Body)
	defer func() { volatile = savedVolatile }()
	var cur []Event
	// results of the inlined calls on the current path prefix
	inlRes := map[*ast.CallExpr][]ast.Expr{}
	var rec func(b *cfg.Block, pre []Event, fa facts)
	var walkNodes func(b *cfg.Block, ni int, fa facts)
	var walkEvents func(b *cfg.Block, ni int, evs []Event, ei int, fa facts)
	finish := func(b *cfg.Block, fa facts) {
		switch len(b.Succs) {
		case 0:
			p := Path{Exit: ExitReturn}
			if isNoReturnExit(f, b) {
				p.Exit = ExitNoReturn
			}
			p.Ev = f.withDeferred(cur, p.Exit)
			f.paths = append(f.paths, p)
			if len(f.paths) > f.pathBudget() {
				f.over = true
			}
		case 1:
			rec(b.Succs[0], nil, fa)
		case 2:
			for i, s := range b.Succs {
				taken := i == 0
				var ev Event
				var extra []Event
				body := b.Succs[0]
				switch {
				case body.Kind == cfg.KindSelectCaseBody:
					cc := body.Stmt.(*ast.CommClause)
					ev = Event{Kind: EvSelect, Pos: cc.Pos(), Clause: cc, Taken: taken, Block: b.Index}
					if !taken && f.lastComm[cc] {
						continue // a select without default waits until one of its cases is taken
					}
					if taken {
						extra = f.commEvents(cc, body.Index)
					}
				case body.Kind == cfg.KindRangeBody:
					rs := body.Stmt.(*ast.RangeStmt)
					ev = Event{Kind: EvRange, Pos: rs.Pos(), Clause: rs, Taken: taken, Block: b.Index, Chan: rs.X}
				case body.Kind == cfg.KindSwitchCaseBody && isTypeSwitchClause(f, body):
					ev = Event{Kind: EvTypeCase, Pos: body.Stmt.Pos(), Clause: body.Stmt, Taken: taken, Block: b.Index}
				default:
					var cond ast.Expr
					if len(b.Nodes) > 0 {
						cond, _ = b.Nodes[len(b.Nodes)-1].(ast.Expr)
					}
					ev = Event{Kind: EvBranch, Pos: token.NoPos, Cond: cond, Taken: taken, Block: b.Index}
					if cond != nil {
						ev.Pos = cond.Pos()
						if sw := f.caseTag[cond]; sw != nil {
							ev.Tag = sw.Tag
							ev.Clause = sw
						}
						if cv := f.withResults(cond, inlRes); cv != cond {
							ev.CondVal = cv
						}
					}
				}
				rec(s, append([]Event{ev}, extra...), fa.clone())
			}
		default:
			for _, s := range b.Succs {
				rec(s, nil, fa.clone())
			}
		}
	}
	walkNodes = func(b *cfg.Block, ni int, fa facts) {
		if f.over {
			return
		}
		if ni >= len(b.Nodes) {
			finish(b, fa)
			return
		}
		walkEvents(b, ni, f.nodeEvents(b.Nodes[ni], b.Index), 0, fa)
	}
	walkEvents = func(b *cfg.Block, ni int, evs []Event, ei int, fa facts) {
		mark := len(cur)
		defer func() { cur = cur[:mark] }()
		for ; ei < len(evs); ei++ {
			e := evs[ei]
			if e.Kind == EvCall && !f.noInline {
				if in := f.inlineOf(e); in != nil {
					e.Inlined = true
					base := len(cur)
					cpaths, _ := in.flow.Paths()
					for pi := range cpaths {
						cp := &cpaths[pi]
						f.work += 1 + len(cp.Ev)/8
						if f.inlMode < 2 && f.work > 60000 {
							f.over = true
							return
						}
						cur = append(cur[:base], e)
						fa2 := fa.clone()
						fa2.apply(f.Info, e)
						feasible := true
						for _, be := range in.binds {
							be.Depth = 1
							cur = append(cur, be)
							fa2.apply(f.Info, be)
						}
						for _, ce := range cp.Ev {
							ce.Depth++
							if ce.From == "" {
								ce.From = in.key
							}
							if ce.Kind == EvReturn {
								ce.Kind = EvInlReturn
							}
							cur = append(cur, ce)
							if !fa2.apply(f.Info, ce) && (ce.Kind == EvBranch || ce.Kind == EvRange) {
								feasible = false
								break
							}
						}
						if !feasible {
							f.pruned++
							continue
						}
						if cp.Exit == ExitNoReturn {
							p := Path{Exit: ExitNoReturn, Ev: f.withDeferred(cur, ExitNoReturn)}
							f.paths = append(f.paths, p)
							if len(f.paths) > f.pathBudget() {
								f.over = true
								return
							}
							continue
						}
						cur = append(cur, Event{Kind: EvInlEnd, Pos: e.Pos, Node: e.Node, Call: e.Call, Callee: e.Callee, Block: e.Block, Depth: 1})
						saved, had := inlRes[e.Call]
						inlRes[e.Call] = in.retVals(cp)
						walkEvents(b, ni, evs, ei+1, fa2)
						if had {
							inlRes[e.Call] = saved
						} else {
							delete(inlRes, e.Call)
						}
						if f.over {
							return
						}
					}
					return
				}
			}
			// an assignment or return that consumes an inlined call carries what the callee returned
			switch e.Kind {
			case EvAssign, EvReturn:
				if len(e.Rhs) == 1 {
					if c, ok := ast.Unparen(e.Rhs[0]).(*ast.CallExpr); ok {
						if vals, ok := inlRes[c]; ok && len(vals) > 0 {
							e.Vals = vals
						}
					}
				}
				if e.Vals == nil && len(e.Rhs) > 0 && len(inlRes) > 0 {
					var vals []ast.Expr
					changed := false
					for _, r := range e.Rhs {
						nr := f.withResults(r, inlRes)
						if nr != r {
							changed = true
						}
						vals = append(vals, nr)
					}
					if changed {
						e.Vals = vals
					}
				}
			}
			cur = append(cur, e)
			fa.apply(f.Info, e)
			if e.Vals != nil && e.Kind == EvAssign && len(e.Vals) == len(e.Lhs) {
				fa.apply(f.Info, Event{Kind: EvAssign, Lhs: e.Lhs, Rhs: e.Vals, Tok: token.ASSIGN})
			}
		}
		walkNodes(b, ni+1, fa)
	}
	rec = func(b *cfg.Block, pre []Event, fa facts) {
		if f.over {
			return
		}
		f.work++
		if !f.noInline && f.inlMode < 2 && f.work > 60000 {
			f.over = true // too much work with callee bodies spliced in: retried with less inlining
			return
		}
		if visits[b.Index] >= f.maxVisits() {
			// the path is cut here: keep the prefix (a feasible prefix of real paths) for rules
			// that look for a bad sequence of events rather than for a property of complete paths
			if len(f.truncated) < PathLimit {
				t := Path{Exit: ExitTruncated, Ev: make([]Event, len(cur)+len(pre))}
				copy(t.Ev, cur)
				copy(t.Ev[len(cur):], pre)
				f.truncated = append(f.truncated, t)
			}
			return
		}
		mark := len(cur)
		cur = append(cur, pre...)
		for _, e := range pre {
			if !fa.apply(f.Info, e) {
				cur = cur[:mark]
				f.pruned++
				return
			}
		}
		visits[b.Index]++
		walkNodes(b, 0, fa)
		cur = cur[:mark]
		visits[b.Index]--
	}
	rec(f.CFG.Blocks[0], nil, facts{})
}

// withResults replaces, in e, the inlined calls with a single result by what they returned on this path.
func (f *Flow) withResults(e ast.Expr, res map[*ast.CallExpr][]ast.Expr) ast.Expr {
	if len(res) == 0 || e == nil {
		return e
	}
	repl := map[ast.Expr]ast.Expr{}
	ast.Inspect(e, func(n ast.Node) bool {
		if _, isLit := n.(*ast.FuncLit); isLit {
			return false
		}
		if c, ok := n.(*ast.CallExpr); ok {
			if vals, ok := res[c]; ok && len(vals) == 1 {
				v := vals[0]
				if needsParen(v) {
					pe := &ast.ParenExpr{Lparen: v.Pos(), X: v, Rparen: v.End()}
					if tv, ok := f.Info.Types[v]; ok {
						f.Info.Types[pe] = tv
					}
					v = pe
				}
				repl[c] = v
				return false
			}
		}
		return true
	})
	if len(repl) == 0 {
		return e
	}
	cl := &cloner{info: f.Info, repl: repl}
	out := cl.Expr(e)
	condOrigin[out] = e
	return out
}

// condOrigin maps a condition in which inlined calls were replaced by their results to the condition as written.
var condOrigin = map[ast.Expr]ast.Expr{}

func isTypeSwitchClause(f *Flow, body *cfg.Block) bool {
	cc, ok := body.Stmt.(*ast.CaseClause)
	if !ok {
		return false
	}
	// a clause of a type switch has types in its list; find the parent statement
	found := false
	ast.Inspect(f.Body, func(n ast.Node) bool {
		if ts, ok := n.(*ast.TypeSwitchStmt); ok {
			for _, c := range ts.Body.List {
				if c == cc {
					found = true
				}
			}
		}
		return !found
	})
	return found
}

// withDeferred copies the path and appends, in LIFO order, the events of the
// deferred calls registered on it.
func (f *Flow) withDeferred(cur []Event, exit ExitKind) []Event {
	out := make([]Event, len(cur))
	copy(out, cur)
	if exit == ExitNoReturn {
		return out // log.Fatalf / os.Exit do not run deferred calls
	}
	for i := len(cur) - 1; i >= 0; i-- {
		e := cur[i]
		if e.Kind != EvDefer || e.Depth > 0 {
			continue // (the deferred calls of an inlined callee ran when it returned: they are among its events)
		}
		if fl, ok := e.Call.Fun.(*ast.FuncLit); ok {
			out = append(out, f.deferredLitEvents(fl)...)
		} else {
			ce := Event{Kind: EvCall, Pos: e.Call.Pos(), Node: e.Node, Call: e.Call, Callee: e.Callee, Deferred: true, Block: e.Block}
			if in := f.inlineOfDeferred(ce); in != nil {
				ce.Inlined = true
				out = append(out, ce)
				for _, ie := range flattenDeferred(in.flow) {
					ie.Depth++
					if ie.From == "" {
						ie.From = in.key
					}
					out = append(out, ie)
				}
				continue
			}
			out = append(out, ce)
		}
	}
	return out
}

// deferredLitEvents flattens a deferred closure: events on every returning path
// are certain, the others are marked Maybe; order is source order.
func (f *Flow) deferredLitEvents(fl *ast.FuncLit) []Event {
	sub := f.P.flowOf(fl, fl.Body, f.Pkg, f.Name+"$defer")
	if sub.self == nil {
		sub.self = f.self
	}
	return flattenDeferred(sub)
}

// inlineOfDeferred: the callee copy for a deferred call of a declared function (the arguments
// are evaluated at the defer statement; simple arguments are substituted as for a direct call).
func (f *Flow) inlineOfDeferred(e Event) *inlined {
	if f.noInline {
		return nil
	}
	return f.inlineOf(e)
}

func flattenDeferred(sub *Flow) []Event {
	paths, _ := sub.Paths()
	type key struct {
		pos  token.Pos
		kind EvKind
	}
	count := map[key]int{}
	first := map[key]Event{}
	order := map[key]int{}
	returning := 0
	for _, p := range paths {
		if p.Exit == ExitReturn {
			returning++
		}
		seen := map[key]bool{}
		for _, e := range p.Ev {
			if e.Kind == EvBranch || e.Kind == EvReturn || e.Kind == EvRange || e.Kind == EvSelect || e.Kind == EvTypeCase || e.Kind == EvInlReturn || e.Kind == EvInlEnd {
				continue
			}
			k := key{e.Pos, e.Kind}
			if _, ok := first[k]; !ok {
				first[k] = e
				order[k] = len(order)
			}
			if p.Exit == ExitReturn && !seen[k] {
				seen[k] = true
				count[k]++
			}
		}
	}
	var keys []key
	for k := range first {
		keys = append(keys, k)
	}
	sort.Slice(keys, func(i, j int) bool { return order[keys[i]] < order[keys[j]] })
	var out []Event
	for _, k := range keys {
		e := first[k]
		e.Deferred = true
		e.Maybe = count[k] < returning || returning == 0
		out = append(out, e)
	}
	return out
}

// ---------------------------------------------------------------------------
// Event predicates

// CalleeKey returns the stable key of the function called by a call event.
func CalleeKey(e Event) string {
	if f, ok := e.Callee.(*types.Func); ok {
		return FuncKey(f)
	}
	if b, ok := e.Callee.(*types.Builtin); ok {
		return "builtin." + b.Name()
	}
	return ""
}

// IsCall reports whether e is a (direct or deferred-run) call to one of keys.
func IsCall(e Event, keys ...string) bool {
	if e.Kind != EvCall {
		return false
	}
	k := CalleeKey(e)
	for _, want := range keys {
		if k == want {
			return true
		}
	}
	return false
}

// LitArg returns the first function literal among the call's arguments.
func LitArg(call *ast.CallExpr) *ast.FuncLit {
	for _, a := range call.Args {
		if fl, ok := ast.Unparen(a).(*ast.FuncLit); ok {
			return fl
		}
	}
	return nil
}

// AllLits returns the function literals that occur directly in n (not nested in other literals).
func AllLits(n ast.Node) []*ast.FuncLit {
	var out []*ast.FuncLit
	ast.Inspect(n, func(m ast.Node) bool {
		if fl, ok := m.(*ast.FuncLit); ok && m != n {
			out = append(out, fl)
			return false
		}
		return true
	})
	return out
}
