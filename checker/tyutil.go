package main

import (
	"go/ast"
	"go/constant"
	"go/token"
	"go/types"
	"strings"
)

// TypeKey renders a (possibly pointer) named type as "rel/pkg.Name" ("" if unnamed).
func TypeKey(t types.Type) string {
	if t == nil {
		return ""
	}
	for {
		if p, ok := t.(*types.Pointer); ok {
			t = p.Elem()
			continue
		}
		break
	}
	switch tt := t.(type) {
	case *types.Named:
		o := tt.Obj()
		if o.Pkg() == nil {
			return o.Name()
		}
		oname := typeName(o)
		pk := o.Pkg().Path()
		if strings.HasPrefix(pk, ModPath) {
			pk = relPkg(pk)
			if pk == "" {
				pk = "coercion"
			}
		}
		return pk + "." + oname
	case *types.Alias:
		return TypeKey(types.Unalias(tt))
	}
	return ""
}

// ShortType is TypeKey without the directory part of the package ("workflow.Block").
func ShortType(t types.Type) string {
	k := TypeKey(t)
	if i := strings.LastIndex(k, "/"); i >= 0 {
		return k[i+1:]
	}
	return k
}

// FieldPath matches an expression whose trailing selectors are names..., selected
// from a value whose named type is owner (ShortType form, "" = any). It returns the
// base expression the names are selected from.
func FieldPath(info *types.Info, e ast.Expr, owner string, names ...string) (base ast.Expr, ok bool) {
	e = ast.Unparen(e)
	for i := len(names) - 1; i >= 0; i-- {
		sel, isSel := e.(*ast.SelectorExpr)
		if !isSel || sel.Sel.Name != names[i] {
			return nil, false
		}
		if s := info.Selections[sel]; s == nil || s.Kind() != types.FieldVal {
			return nil, false
		}
		e = ast.Unparen(sel.X)
	}
	if owner != "" {
		tv, found := info.Types[e]
		if !found || ShortType(tv.Type) != owner {
			return nil, false
		}
	}
	return e, true
}

// ObjKey renders a package-level object as "pkg.Name" (short package name).
func ObjKey(o types.Object) string {
	if o == nil {
		return ""
	}
	if _, isNil := o.(*types.Nil); isNil {
		return "nil"
	}
	if o.Pkg() == nil {
		return o.Name()
	}
	return o.Pkg().Name() + "." + o.Name()
}

// ValueKey abstracts the value of an expression: a constant/variable name
// ("workflow.Failed"), "nil", a method value ("method:sm.States.End"), or "".
func ValueKey(info *types.Info, e ast.Expr) string {
	e = ast.Unparen(e)
	switch x := e.(type) {
	case *ast.Ident:
		if o := info.Uses[x]; o != nil {
			if _, isNil := o.(*types.Nil); isNil {
				return "nil"
			}
			if c, ok := o.(*types.Const); ok && c.Pkg() != nil {
				return ObjKey(c)
			}
			if c, ok := o.(*types.Const); ok {
				return c.Name() // true / false
			}
			if v, ok := o.(*types.Var); ok && v.Pkg() != nil && v.Parent() == v.Pkg().Scope() {
				return ObjKey(v)
			}
		}
	case *ast.SelectorExpr:
		if s := info.Selections[x]; s != nil {
			if s.Kind() == types.MethodVal {
				return "method:" + FuncKey(s.Obj().(*types.Func))
			}
			return ""
		}
		if o := info.Uses[x.Sel]; o != nil {
			if _, ok := o.(*types.Const); ok {
				return ObjKey(o)
			}
			if f, ok := o.(*types.Func); ok {
				return "func:" + FuncKey(f)
			}
			if v, ok := o.(*types.Var); ok && v.Pkg() != nil && v.Parent() == v.Pkg().Scope() {
				return ObjKey(v)
			}
		}
	case *ast.IndexExpr: // generic instantiation f[T]
		return ValueKey(info, x.X)
	}
	return ""
}

// ConstInt returns the constant integer value of e, if it has one.
func ConstInt(info *types.Info, e ast.Expr) (int64, bool) {
	tv, ok := info.Types[e]
	if !ok || tv.Value == nil {
		return 0, false
	}
	if tv.Value.Kind() != constant.Int {
		return 0, false
	}
	v, exact := constant.Int64Val(tv.Value)
	return v, exact
}

// ConstString returns the constant string value of e, if it has one.
func ConstString(info *types.Info, e ast.Expr) (string, bool) {
	tv, ok := info.Types[e]
	if !ok || tv.Value == nil || tv.Value.Kind() != constant.String {
		return "", false
	}
	return constant.StringVal(tv.Value), true
}

// IsNilCompare recognises `x != nil` / `x == nil` (either operand order) and returns x and the operator.
func IsNilCompare(info *types.Info, e ast.Expr) (x ast.Expr, op token.Token, ok bool) {
	be, isBin := ast.Unparen(e).(*ast.BinaryExpr)
	if !isBin || (be.Op != token.NEQ && be.Op != token.EQL) {
		return nil, 0, false
	}
	if ValueKey(info, be.Y) == "nil" {
		return ast.Unparen(be.X), be.Op, true
	}
	if ValueKey(info, be.X) == "nil" {
		return ast.Unparen(be.Y), be.Op, true
	}
	return nil, 0, false
}

// SameObj reports whether two identifier expressions denote the same object.
func SameObj(info *types.Info, a, b ast.Expr) bool {
	ia, ok1 := ast.Unparen(a).(*ast.Ident)
	ib, ok2 := ast.Unparen(b).(*ast.Ident)
	if !ok1 || !ok2 {
		return false
	}
	oa, ob := info.ObjectOf(ia), info.ObjectOf(ib)
	return oa != nil && oa == ob
}

// ObjOf returns the object an identifier expression denotes.
func ObjOf(info *types.Info, e ast.Expr) types.Object {
	if id, ok := ast.Unparen(e).(*ast.Ident); ok {
		return info.ObjectOf(id)
	}
	return nil
}

// ExprStr renders an expression.
func ExprStr(e ast.Expr) string {
	if e == nil {
		return ""
	}
	return types.ExprString(e)
}

// ErrNonNilBranch: if cond is `<x> != nil` (or == nil) on an error-typed x, returns
// x and whether the *taken* branch is the non-nil one.
func ErrNonNilBranch(info *types.Info, ev Event) (x ast.Expr, nonNil bool, ok bool) {
	if ev.Kind != EvBranch || ev.Cond == nil || ev.Tag != nil {
		return nil, false, false
	}
	x, op, ok := IsNilCompare(info, ev.Cond)
	if !ok {
		return nil, false, false
	}
	return x, (op == token.NEQ) == ev.Taken, true
}

// IsErrorType reports whether t is the predeclared error interface.
func IsErrorType(t types.Type) bool {
	return t != nil && types.Identical(t, types.Universe.Lookup("error").Type())
}

// StructOf returns the struct underlying a named type key in a package.
func (p *Prog) StructOf(pkgRel, name string) (*types.Struct, *types.Named) {
	pkg := p.Pkgs[pkgRel]
	if pkg == nil {
		return nil, nil
	}
	o := pkg.Types.Scope().Lookup(name)
	if o == nil {
		return nil, nil
	}
	n, _ := o.Type().(*types.Named)
	if n == nil {
		return nil, nil
	}
	s, _ := n.Underlying().(*types.Struct)
	return s, n
}
