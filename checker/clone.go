package main

import (
	"go/ast"
	"go/token"
	"go/types"
)

// cloner copies syntax trees and registers, for every copied node, the type information of the
// node it was copied from, so that a copy can be analysed exactly like original source. It is the
// basis of the canonicaliser (canon.go) and of call inlining in the path engine (inline.go).
type cloner struct {
	info  *types.Info               // the maps the copies are registered in
	src   *types.Info               // the maps the originals are looked up in (nil = info)
	subst map[types.Object]ast.Expr // reads of these objects are replaced by a copy of the expression
	at    token.Pos                 // when valid, copied leaf nodes are positioned here (copy placed at a use site)
	onLit func(old, new *ast.FuncLit)
	depth int
	markAlias bool // the substitution is the canonicaliser's alias replacement (recorded in substOrigin for the path facts)
	// foreignSubst: the substituted expressions come from other syntax (the caller's arguments, when a
	// callee body is copied): they are looked up in substSrc and only substNested applies inside them.
	foreignSubst bool
	substSrc     *types.Info
	substNested  map[types.Object]ast.Expr
	// fieldSubst: `v.f` for these struct-valued objects is replaced by (a copy of) the expression the function returns for f
	fieldSubst map[types.Object]func(field string) ast.Expr
	rename map[types.Object]string // identifiers denoting these objects are spelled with the new name
	repl   map[ast.Expr]ast.Expr   // these nodes are replaced (by identity) with the given expression, which is not copied
}

func (c *cloner) from() *types.Info {
	if c.src != nil {
		return c.src
	}
	return c.info
}

func (c *cloner) pos(p token.Pos) token.Pos {
	if c.at.IsValid() && p.IsValid() {
		return c.at
	}
	return p
}

func (c *cloner) regExpr(old, new ast.Expr) {
	if tv, ok := c.from().Types[old]; ok {
		c.info.Types[new] = tv
	}
}

func (c *cloner) Exprs(list []ast.Expr) []ast.Expr {
	if list == nil {
		return nil
	}
	out := make([]ast.Expr, len(list))
	for i, e := range list {
		out[i] = c.Expr(e)
	}
	return out
}

// needsParen: an expression that must be parenthesised when it replaces an identifier.
func needsParen(e ast.Expr) bool {
	switch e.(type) {
	case *ast.BinaryExpr, *ast.UnaryExpr, *ast.StarExpr:
		return true
	}
	return false
}

func (c *cloner) Expr(e ast.Expr) ast.Expr {
	if e == nil {
		return nil
	}
	src := c.from()
	if c.repl != nil {
		if r, ok := c.repl[e]; ok {
			return r
		}
	}
	switch x := e.(type) {
	case *ast.Ident:
		if c.subst != nil && c.depth < 8 {
			if obj := src.Uses[x]; obj != nil {
				if rep, ok := c.subst[obj]; ok {
					sub := &cloner{info: c.info, src: c.substSrc, subst: c.substNested, at: x.Pos(), onLit: c.onLit, depth: c.depth + 1, markAlias: c.markAlias}
					if !c.foreignSubst {
						sub.src, sub.subst = c.src, c.subst
					}
					if c.at.IsValid() {
						sub.at = c.at
					}
					if _, isLit := ast.Unparen(rep).(*ast.FuncLit); isLit {
						sub.at = token.NoPos // the body of a callback keeps its own positions
					}
					out := sub.Expr(rep)
					if needsParen(out) {
						p := &ast.ParenExpr{Lparen: sub.at, X: out, Rparen: sub.at}
						c.regExpr(rep, p)
						out = p
					}
					if c.markAlias {
						substOrigin[out] = x
					}
					return out
				}
			}
		}
		n := *x
		n.NamePos = c.pos(x.NamePos)
		if o, ok := src.Defs[x]; ok {
			c.info.Defs[&n] = o
			if nm, ok := c.rename[o]; ok && o != nil {
				n.Name = nm
			}
		}
		if o, ok := src.Uses[x]; ok {
			c.info.Uses[&n] = o
			if nm, ok := c.rename[o]; ok {
				n.Name = nm
			}
		}
		if in, ok := src.Instances[x]; ok {
			c.info.Instances[&n] = in
		}
		c.regExpr(x, &n)
		return &n
	case *ast.BasicLit:
		n := *x
		n.ValuePos = c.pos(x.ValuePos)
		c.regExpr(x, &n)
		return &n
	case *ast.FuncLit:
		n := &ast.FuncLit{Type: x.Type, Body: c.Block(x.Body)}
		c.regExpr(x, n)
		if c.src != nil && c.src != c.info && x.Type != nil {
			for _, fl := range [](*ast.FieldList){x.Type.Params, x.Type.Results} {
				if fl == nil {
					continue
				}
				for _, f := range fl.List {
					for _, id := range f.Names {
						if o, ok := c.src.Defs[id]; ok {
							c.info.Defs[id] = o
						}
					}
				}
			}
		}
		if c.onLit != nil {
			c.onLit(x, n)
		}
		return n
	case *ast.CompositeLit:
		n := &ast.CompositeLit{Type: x.Type, Lbrace: c.pos(x.Lbrace), Elts: c.Exprs(x.Elts), Rbrace: c.pos(x.Rbrace), Incomplete: x.Incomplete}
		c.regExpr(x, n)
		return n
	case *ast.ParenExpr:
		n := &ast.ParenExpr{Lparen: c.pos(x.Lparen), X: c.Expr(x.X), Rparen: c.pos(x.Rparen)}
		c.regExpr(x, n)
		return n
	case *ast.SelectorExpr:
		if c.fieldSubst != nil {
			if id, ok := ast.Unparen(x.X).(*ast.Ident); ok {
				if fn, ok := c.fieldSubst[src.Uses[id]]; ok && src.Uses[id] != nil {
					if rep := fn(x.Sel.Name); rep != nil {
						sub := &cloner{info: c.info, src: c.src, subst: c.subst, fieldSubst: c.fieldSubst, at: x.Pos(), onLit: c.onLit, depth: c.depth + 1}
						out := sub.Expr(rep)
						if needsParen(out) {
							p := &ast.ParenExpr{Lparen: x.Pos(), X: out, Rparen: x.Pos()}
							c.regExpr(rep, p)
							out = p
						}
						return out
					}
				}
			}
		}
		sel := *x.Sel
		sel.NamePos = c.pos(x.Sel.NamePos)
		if o, ok := src.Uses[x.Sel]; ok {
			c.info.Uses[&sel] = o
			if v, isVar := o.(*types.Var); isVar && v.IsField() {
				sel.Name = FieldName(v)
			}
		}
		c.regExpr(x.Sel, &sel)
		n := &ast.SelectorExpr{X: c.Expr(x.X), Sel: &sel}
		if s, ok := src.Selections[x]; ok {
			c.info.Selections[n] = s
		}
		c.regExpr(x, n)
		return n
	case *ast.IndexExpr:
		n := &ast.IndexExpr{X: c.Expr(x.X), Lbrack: c.pos(x.Lbrack), Index: c.Expr(x.Index), Rbrack: c.pos(x.Rbrack)}
		c.regExpr(x, n)
		return n
	case *ast.IndexListExpr:
		n := &ast.IndexListExpr{X: c.Expr(x.X), Lbrack: c.pos(x.Lbrack), Indices: c.Exprs(x.Indices), Rbrack: c.pos(x.Rbrack)}
		c.regExpr(x, n)
		return n
	case *ast.SliceExpr:
		n := &ast.SliceExpr{X: c.Expr(x.X), Lbrack: c.pos(x.Lbrack), Low: c.Expr(x.Low), High: c.Expr(x.High), Max: c.Expr(x.Max), Slice3: x.Slice3, Rbrack: c.pos(x.Rbrack)}
		c.regExpr(x, n)
		return n
	case *ast.TypeAssertExpr:
		n := &ast.TypeAssertExpr{X: c.Expr(x.X), Lparen: c.pos(x.Lparen), Type: x.Type, Rparen: c.pos(x.Rparen)}
		c.regExpr(x, n)
		return n
	case *ast.CallExpr:
		n := &ast.CallExpr{Fun: c.Expr(x.Fun), Lparen: c.pos(x.Lparen), Args: c.Exprs(x.Args), Ellipsis: x.Ellipsis, Rparen: c.pos(x.Rparen)}
		c.regExpr(x, n)
		return n
	case *ast.StarExpr:
		n := &ast.StarExpr{Star: c.pos(x.Star), X: c.Expr(x.X)}
		c.regExpr(x, n)
		return n
	case *ast.UnaryExpr:
		n := &ast.UnaryExpr{OpPos: c.pos(x.OpPos), Op: x.Op, X: c.Expr(x.X)}
		c.regExpr(x, n)
		return n
	case *ast.BinaryExpr:
		n := &ast.BinaryExpr{X: c.Expr(x.X), OpPos: c.pos(x.OpPos), Op: x.Op, Y: c.Expr(x.Y)}
		c.regExpr(x, n)
		return n
	case *ast.KeyValueExpr:
		key := x.Key
		// a struct field name in a composite literal is not a variable read
		if id, ok := x.Key.(*ast.Ident); ok {
			if v, isVar := src.Uses[id].(*types.Var); isVar && v.IsField() {
				k := *id
				k.Name = FieldName(v)
				c.info.Uses[&k] = v
				key = &k
			} else {
				key = c.Expr(x.Key)
			}
		} else {
			key = c.Expr(x.Key)
		}
		n := &ast.KeyValueExpr{Key: key, Colon: c.pos(x.Colon), Value: c.Expr(x.Value)}
		return n
	default:
		// type expressions (ArrayType, MapType, FuncType, ...), Ellipsis, BadExpr: shared, they hold no variable reads
		return e
	}
}

func (c *cloner) Block(b *ast.BlockStmt) *ast.BlockStmt {
	if b == nil {
		return nil
	}
	return &ast.BlockStmt{Lbrace: b.Lbrace, List: c.Stmts(b.List), Rbrace: b.Rbrace}
}

func (c *cloner) Stmts(list []ast.Stmt) []ast.Stmt {
	if list == nil {
		return nil
	}
	out := make([]ast.Stmt, len(list))
	for i, s := range list {
		out[i] = c.Stmt(s)
	}
	return out
}

func (c *cloner) Stmt(s ast.Stmt) ast.Stmt {
	if s == nil {
		return nil
	}
	src := c.from()
	switch x := s.(type) {
	case *ast.DeclStmt:
		gd, ok := x.Decl.(*ast.GenDecl)
		if !ok || gd.Tok != token.VAR {
			return x
		}
		ng := &ast.GenDecl{Doc: gd.Doc, TokPos: gd.TokPos, Tok: gd.Tok, Lparen: gd.Lparen, Rparen: gd.Rparen}
		for _, sp := range gd.Specs {
			vs := sp.(*ast.ValueSpec)
			nv := &ast.ValueSpec{Doc: vs.Doc, Type: vs.Type, Values: c.Exprs(vs.Values), Comment: vs.Comment}
			for _, id := range vs.Names {
				nv.Names = append(nv.Names, c.defIdent(id))
			}
			ng.Specs = append(ng.Specs, nv)
		}
		return &ast.DeclStmt{Decl: ng}
	case *ast.EmptyStmt:
		return x
	case *ast.LabeledStmt:
		return &ast.LabeledStmt{Label: x.Label, Colon: x.Colon, Stmt: c.Stmt(x.Stmt)}
	case *ast.ExprStmt:
		return &ast.ExprStmt{X: c.Expr(x.X)}
	case *ast.SendStmt:
		return &ast.SendStmt{Chan: c.Expr(x.Chan), Arrow: x.Arrow, Value: c.Expr(x.Value)}
	case *ast.IncDecStmt:
		return &ast.IncDecStmt{X: c.lhs(x.X), TokPos: x.TokPos, Tok: x.Tok}
	case *ast.AssignStmt:
		n := &ast.AssignStmt{TokPos: x.TokPos, Tok: x.Tok, Rhs: c.Exprs(x.Rhs)}
		for _, l := range x.Lhs {
			n.Lhs = append(n.Lhs, c.lhs(l))
		}
		return n
	case *ast.GoStmt:
		return &ast.GoStmt{Go: x.Go, Call: c.Expr(x.Call).(*ast.CallExpr)}
	case *ast.DeferStmt:
		return &ast.DeferStmt{Defer: x.Defer, Call: c.Expr(x.Call).(*ast.CallExpr)}
	case *ast.ReturnStmt:
		return &ast.ReturnStmt{Return: x.Return, Results: c.Exprs(x.Results)}
	case *ast.BranchStmt:
		return x
	case *ast.BlockStmt:
		return c.Block(x)
	case *ast.IfStmt:
		return &ast.IfStmt{If: x.If, Init: c.Stmt(x.Init), Cond: c.Expr(x.Cond), Body: c.Block(x.Body), Else: c.Stmt(x.Else)}
	case *ast.CaseClause:
		n := &ast.CaseClause{Case: x.Case, List: c.Exprs(x.List), Colon: x.Colon, Body: c.Stmts(x.Body)}
		if o, ok := src.Implicits[x]; ok {
			c.info.Implicits[n] = o
		}
		return n
	case *ast.SwitchStmt:
		return &ast.SwitchStmt{Switch: x.Switch, Init: c.Stmt(x.Init), Tag: c.Expr(x.Tag), Body: c.Block(x.Body)}
	case *ast.TypeSwitchStmt:
		return &ast.TypeSwitchStmt{Switch: x.Switch, Init: c.Stmt(x.Init), Assign: c.Stmt(x.Assign), Body: c.Block(x.Body)}
	case *ast.CommClause:
		return &ast.CommClause{Case: x.Case, Comm: c.Stmt(x.Comm), Colon: x.Colon, Body: c.Stmts(x.Body)}
	case *ast.SelectStmt:
		return &ast.SelectStmt{Select: x.Select, Body: c.Block(x.Body)}
	case *ast.ForStmt:
		return &ast.ForStmt{For: x.For, Init: c.Stmt(x.Init), Cond: c.Expr(x.Cond), Post: c.Stmt(x.Post), Body: c.Block(x.Body)}
	case *ast.RangeStmt:
		n := &ast.RangeStmt{For: x.For, TokPos: x.TokPos, Tok: x.Tok, Range: x.Range, X: c.Expr(x.X), Body: c.Block(x.Body)}
		if x.Key != nil {
			n.Key = c.lhs(x.Key)
		}
		if x.Value != nil {
			n.Value = c.lhs(x.Value)
		}
		return n
	}
	return s
}

// defIdent copies a defining identifier.
func (c *cloner) defIdent(id *ast.Ident) *ast.Ident {
	n := *id
	src := c.from()
	if o, ok := src.Defs[id]; ok {
		c.info.Defs[&n] = o
		if nm, ok := c.rename[o]; ok && o != nil {
			n.Name = nm
		}
	}
	if o, ok := src.Uses[id]; ok {
		c.info.Uses[&n] = o
		if nm, ok := c.rename[o]; ok {
			n.Name = nm
		}
	}
	c.regExpr(id, &n)
	return &n
}

// lhs copies an assignment target: a bare identifier on the left is written, not read, and is
// never substituted; in `x.f = v` / `x[i] = v` the base x is read.
func (c *cloner) lhs(e ast.Expr) ast.Expr {
	if id, ok := e.(*ast.Ident); ok {
		return c.defIdent(id)
	}
	if p, ok := e.(*ast.ParenExpr); ok {
		return &ast.ParenExpr{Lparen: p.Lparen, X: c.lhs(p.X), Rparen: p.Rparen}
	}
	return c.Expr(e)
}

// substOrigin maps an expression that replaced an identifier to that identifier.
var substOrigin = map[ast.Expr]*ast.Ident{}
