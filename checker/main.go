// coerlint decides structural clauses of the coercion properties C01..C20 by
// static analysis of /repo's current working tree. See /verif/DESIGN.md.
package main

import (
	"go/ast"
	"go/format"
	"go/token"
	"encoding/json"
	"flag"
	"fmt"
	"os"
	"path/filepath"
	"runtime/debug"
	"sort"
	"strconv"
	"strings"
	"time"
)

// PropInfo is the static description of what a property's rules decide.
type PropInfo struct {
	ID          string
	Explanation string
	NotDecided  []string
	Assumptions []string
	Rules       func(r *Run)
	Thorough    func(r *Run) // extra work in the thorough tier (optional)
}

var procStart = time.Now()

var registry = map[string]PropInfo{}

func register(p PropInfo) { registry[p.ID] = p }

func main() {
	prop := flag.String("prop", "", "property id (C01..C20) or 'all'")
	tier := flag.String("tier", "quick", "quick|thorough")
	repo := flag.String("repo", "/repo", "repository root")
	out := flag.String("out", "/verif/evidence", "evidence directory")
	knownPath := flag.String("known", "/verif/known_findings.json", "known findings file")
	explain := flag.String("explain", "", "replay file to re-evaluate")
	dump := flag.String("dump", "", "debug: dump paths of function key")
	dumpSQL := flag.Bool("dumpsql", false, "debug: dump the sqlite model")
	dumpCanon := flag.String("canon", "", "debug: print the canonicalised body of function key")
	genAnchors := flag.String("genanchors", "", "maintenance: write the signature table of the current tree to this file")
	warm := flag.Bool("warm", false, "load the repository once the way the quick tier does (fills the build cache with the export data of the dependencies) and exit")
	flag.Parse()

	seed := 0
	if s := os.Getenv("VERIF_SEED"); s != "" {
		seed, _ = strconv.Atoi(s)
	}
	if *explain != "" {
		os.Exit(doExplain(*explain, *repo, *out, *knownPath))
	}
	if *warm {
		FastLoad = true
		if _, err := Load(*repo); err != nil {
			fmt.Println("warm-up load failed (the checks will report it):", err)
		}
		return
	}
	FastLoad = *tier == "quick" && os.Getenv("COERLINT_FULLLOAD") == ""
	p, err := Load(*repo)
	if err != nil {
		fmt.Println("ERROR: cannot analyse the repository:", err)
		if *prop != "" && *prop != "all" {
			fmt.Printf("VIOLATION property=%s replay=%s\n", *prop, "load-failure")
		}
		os.Exit(1)
	}
	if *genAnchors != "" {
		if err := writeAnchors(p, *genAnchors); err != nil {
			fmt.Println("ERROR:", err)
			os.Exit(2)
		}
		return
	}
	if *dump != "" {
		dumpPaths(p, *dump)
		return
	}
	if *dumpSQL {
		dumpSQLModel(p)
		return
	}
	if *dumpCanon != "" {
		fn := p.Funcs[*dumpCanon]
		if fn == nil {
			fmt.Println("no such function")
			os.Exit(2)
		}
		format.Node(os.Stdout, token.NewFileSet(), fn.Decl)
		fmt.Println()
		return
	}
	known, err := loadKnown(*knownPath)
	if err != nil {
		fmt.Println("ERROR: known findings file unreadable:", err)
		os.Exit(2)
	}
	var ids []string
	if *prop == "all" {
		for id := range registry {
			ids = append(ids, id)
		}
		sort.Strings(ids)
	} else {
		if _, ok := registry[*prop]; !ok {
			fmt.Println("ERROR: unknown property", *prop)
			os.Exit(2)
		}
		ids = []string{*prop}
	}
	code := 0
	for _, id := range ids {
		if c := runProp(p, registry[id], *tier, *out, known, seed); c > code {
			code = c
		}
	}
	os.Exit(code)
}

func runProp(p *Prog, info PropInfo, tier, out string, known []KnownFinding, seed int) (code int) {
	r := NewRun(p, info.ID, tier)
	func() {
		defer func() {
			if x := recover(); x != nil {
				r.Undecided("R0", "analysis-panic", 0, "checker panicked: %v\n%s", x, debug.Stack())
			}
		}()
		info.Rules(r)
		if tier == "thorough" {
			thoroughGeneric(r)
			if info.Thorough != nil {
				info.Thorough(r)
			}
		}
	}()
	return r.Report(out, known, info, seed)
}

func doExplain(path, repo, out, knownPath string) int {
	b, err := os.ReadFile(path)
	if err != nil {
		fmt.Println("ERROR:", err)
		return 2
	}
	var o Obligation
	if err := json.Unmarshal(b, &o); err != nil {
		fmt.Println("ERROR:", err)
		return 2
	}
	prop := strings.SplitN(o.Rule, "-", 2)[0]
	info, ok := registry[prop]
	if !ok {
		fmt.Println("ERROR: unknown property in replay file:", prop)
		return 2
	}
	p, err := Load(repo)
	if err != nil {
		fmt.Println("ERROR:", err)
		return 1
	}
	r := NewRun(p, prop, "quick")
	info.Rules(r)
	r.finish()
	found := false
	for _, x := range r.Obls {
		if x.Rule == o.Rule && x.Key == o.Key {
			found = true
			fmt.Printf("%s: %s [%s] key=%q\n  %s\n", strings.ToUpper(x.Status), x.Site, x.Rule, x.Key, x.Msg)
		}
	}
	if !found {
		fmt.Printf("instance rule=%s key=%q not present on the current tree\n", o.Rule, o.Key)
		return 0
	}
	_ = filepath.Join
	return 0
}

func dumpPaths(p *Prog, key string) {
	fn := p.Funcs[key]
	if fn == nil {
		fmt.Println("no such function", key)
		var ks []string
		for k := range p.Funcs {
			if strings.Contains(k, key) {
				ks = append(ks, k)
			}
		}
		sort.Strings(ks)
		fmt.Println(strings.Join(ks, "\n"))
		return
	}
	fl := p.FlowOf(fn)
	if n := os.Getenv("COERLINT_DUMPLIT"); n != "" {
		// dump the n-th function literal of the function instead
		k, _ := strconv.Atoi(n)
		var lits []*ast.FuncLit
		ast.Inspect(fn.Decl.Body, func(x ast.Node) bool {
			if l, ok := x.(*ast.FuncLit); ok {
				lits = append(lits, l)
			}
			return true
		})
		if k < len(lits) {
			fl = p.FlowOfLit(lits[k])
		}
	}
	fmt.Println(fl.CFG.Format(p.Fset))
	paths, ok := fl.Paths()
	fmt.Println("paths:", len(paths), "complete:", ok)
	for i, pa := range paths {
		fmt.Printf("-- path %d exit=%d\n", i, pa.Exit)
		for _, e := range pa.Ev {
			s := ""
			switch e.Kind {
			case EvCall, EvDefer, EvGo:
				s = ExprStr(e.Call.Fun) + " => " + CalleeKey(e)
			case EvAssign:
				for _, l := range e.Lhs {
					s += ExprStr(l) + ","
				}
				s += " " + e.Tok.String() + " "
				for _, x := range e.Rhs {
					s += ExprStr(x) + ","
				}
			case EvBranch:
				s = fmt.Sprintf("%s tag=%s taken=%v", ExprStr(e.Cond), ExprStr(e.Tag), e.Taken)
				if e.CondVal != nil {
					s += " condval=" + ExprStr(e.CondVal)
				}
			case EvSend, EvRecv:
				s = ExprStr(e.Chan)
			case EvRange, EvSelect, EvTypeCase:
				s = fmt.Sprintf("taken=%v", e.Taken)
			}
			d := ""
			if e.Deferred {
				d = " [deferred]"
				if e.Maybe {
					d = " [deferred?]"
				}
			}
			fmt.Printf("   %s %s %s%s\n", p.Pos(e.Pos), e.Kind, s, d)
		}
	}
}
