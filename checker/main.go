package main

import (
	"fmt"
	"golang.org/x/tools/go/packages"
	"golang.org/x/tools/go/cfg"
)

func main() {
	_ = cfg.New
	cfgp := &packages.Config{Mode: packages.NeedName | packages.NeedFiles | packages.NeedSyntax | packages.NeedTypes | packages.NeedTypesInfo | packages.NeedImports | packages.NeedDeps, Dir: "/repo"}
	pkgs, err := packages.Load(cfgp, "./...")
	fmt.Println(len(pkgs), err)
}
