package main

import (
	"go/ast"
	"go/token"
	"go/types"
	"sort"
	"strings"
)

func init() {
	register(PropInfo{
		ID: "C13",
		Explanation: "Static agreement of writer and reader of both vault implementations (DESIGN.md section 4, C13). sqlite: (R1) schema closure — every INSERT column exists, is positionally matched by its placeholder, is bound (on every path unless nullable) with the storage class of its column, UPDATE/SELECT reference existing columns, id is the primary key; (R2) per column the field the writer binds is the field the reader assigns, with the same storage class and nanosecond time encoding, and no column is written without being read back; (R3) every exported persistent field of Plan/Block/Checks/Sequence/Action is written at Create and assigned on Read, every mutable field is in its UPDATE; (R4) actions are read ORDER BY pos with pos bound from the declared index, blocks/sequences keep the order of their id arrays; attempts are decoded into fresh values; (R5) a plan-level read of zero rows is an error. cosmosdb: (R6) writer literal keys ⊇ fields the reader selects ⊇ persistent fields, patch paths are JSON tags of the entry and cover the mutable fields. Decides table/field agreement, not value fidelity of encodings.",
		NotDecided:  []string{"value fidelity of JSON encodings of typed requests/responses/errors", "nanosecond truncation", "behaviour over arbitrary update sequences"},
		Assumptions: []string{"SQLite/Cosmos store and return bound values unchanged", "sqlitex.Execute calls ResultFunc once per row and not at all for zero rows"},
		Rules:       rulesC13,
	})
	register(PropInfo{
		ID: "C14",
		Explanation: "Static decision of the structural clauses of C14 (DESIGN.md section 4, C14): (R1) commitPlan and Delete register sqlitex.Transaction on an error variable every failing call assigns, before the first statement; (R2) no error is dropped inside the create/delete scope: every error-returning call (and every error value built) is returned, tested with a returning non-nil branch, or passed on — never discarded, overwritten before the test, or followed by more work; (R3) Create refuses an existing id and id is a primary key; (R4) Delete traverses every child-bearing field of every object type, issues one DELETE per table, each `WHERE id = $id` bound to the object's own id; (R5) cosmosdb puts all items of a plan into one transactional batch.",
		NotDecided:  []string{"atomicity of SQLite/Cosmos themselves under process kill (trusted)", "the cosmosdb search-index entry (second batch, documented as non-atomic)"},
		Assumptions: []string{"sqlitex.Transaction rolls back when the pointed-to error is non-nil at function exit"},
		Rules:       rulesC14,
	})
	register(PropInfo{
		ID: "C15",
		Explanation: "Static decision of the structural clauses of C15 (DESIGN.md section 4, C15): (R1) no query compares a string literal that names a column, and every WHERE parameter is bound with the storage class the INSERT uses for that column; (R2) the search query builder is expanded over its paths into its finite set of templates, each of which must parse, leave no placeholder unbound after id expansion, join different filters with AND and several values of one filter with OR/IN, and end with ORDER BY submit_time DESC; (R3) every result stream is closed on every exit of its producer and a pooled connection captured by the producer is not released by the spawning function; (R4) List orders by submit_time DESC and binds LIMIT exactly when limit > 0; (R5) cosmosdb search entries are built with the same key set everywhere, including the fields the search query filters on.",
		NotDecided:  []string{"result sets as data"},
		Assumptions: []string{"SQLite semantics of single-quoted tokens in expression position (string literal)"},
		Rules:       rulesC15,
	})
}

func sqlKey(name string) string { return pkgSqlite + "." + name }

var tableOfType = map[string]string{"workflow.Plan": "plans", "workflow.Block": "blocks", "workflow.Checks": "checks", "workflow.Sequence": "sequences", "workflow.Action": "actions"}

// persistentFields lists the exported fields of a workflow object type.
func persistentFields(p *Prog, short string) []string {
	st, _ := p.StructOf("workflow", strings.TrimPrefix(short, "workflow."))
	if st == nil {
		return nil
	}
	var out []string
	for i := 0; i < st.NumFields(); i++ {
		f := st.Field(i)
		if !f.Exported() {
			continue
		}
		if f.Name() == "State" {
			out = append(out, "State.Status", "State.Start", "State.End")
			continue
		}
		out = append(out, f.Name())
	}
	return out
}

func colClassOK(declType, bindClass string) bool {
	switch bindClass {
	case "int":
		return declType == "INTEGER"
	case "text", "bytes":
		return declType == "TEXT" || declType == "BLOB"
	}
	return true
}

func rulesC13(r *Run) {
	m := buildSqliteModel(r, "R1")
	if m == nil {
		return
	}
	r.Kind("R1", "K8")
	r.Kind("R2", "K8")
	r.Kind("R3", "K7")
	r.Kind("R4", "K8")
	r.Kind("R5", "K2")
	r.Kind("R6", "K8")
	r.Kind("R7", "K7")

	readersOf := map[string]*rowReader{}
	for _, rr := range m.readers {
		if rr.SQL.Kind == "select" && len(rr.SQL.Where) == 1 && (rr.SQL.Where[0].LHS == "id") && len(rr.SQL.Cols) > 1 && rr.Fn.Key != sqlKey("reader.List") {
			readersOf[rr.SQL.Table] = rr
		}
	}
	for _, typ := range []string{"workflow.Plan", "workflow.Block", "workflow.Checks", "workflow.Sequence", "workflow.Action"} {
		tbl := tableOfType[typ]
		create, ok := m.tables[tbl]
		if !ok {
			r.Unresolved("R1", "CREATE TABLE "+tbl)
			continue
		}
		r.Check("R1", tbl+":id-primary-key", m.pkgPos(), create.PK["id"], "table %s must declare id as PRIMARY KEY (uniqueness of Create)", tbl)
		var ins *stmtWriter
		var upd *stmtWriter
		for _, w := range m.writers {
			if w.SQL.Table == tbl && w.SQL.Kind == "insert" {
				ins = w
			}
			if w.SQL.Table == tbl && w.SQL.Kind == "update" {
				upd = w
			}
		}
		if ins == nil || upd == nil {
			r.Unresolved("R1", "INSERT/UPDATE writer for "+tbl)
			continue
		}
		r.Funcs[ins.Fn.Key] = true
		r.Funcs[upd.Fn.Key] = true
		// ---- INSERT closure
		bad := ""
		var bpos token.Pos = ins.QueryAt
		if len(ins.SQL.Cols) != len(ins.SQL.Params) {
			bad = "INSERT lists " + itoa(len(ins.SQL.Cols)) + " columns but " + itoa(len(ins.SQL.Params)) + " values"
		}
		for i, c := range ins.SQL.Cols {
			r.Evals++
			if _, ok := create.Types[c]; !ok && bad == "" {
				bad = "INSERT column " + c + " does not exist in table " + tbl
			}
			if i < len(ins.SQL.Params) && ins.SQL.Params[i] != "$"+c && bad == "" {
				bad = "column " + c + " receives placeholder " + ins.SQL.Params[i] + " (positional mismatch between the column list and VALUES)"
			}
		}
		r.Check("R1", tbl+":insert-columns-match-values", bpos, bad == "", "%s", orOK(bad, "columns = placeholders, all declared"))
		for _, c := range ins.SQL.Cols {
			b := ins.Binds["$"+c]
			nullable := !create.NotNull[c] && !create.PK[c]
			switch {
			case b == nil:
				r.Check("R1", tbl+":bound:"+c, ins.QueryAt, nullable && false, "placeholder $%s of the INSERT into %s is never bound in %s: the column is stored NULL/empty", c, tbl, ShortFn(ins.Fn.Key))
			case !b.Always && !nullable:
				r.Check("R1", tbl+":bound:"+c, b.Pos, false, "placeholder $%s is bound only on some paths but column %s.%s is NOT NULL", c, tbl, c)
			default:
				okC := colClassOK(create.Types[c], b.Class)
				r.Check("R1", tbl+":bound:"+c, b.Pos, okC, "column %s.%s is declared %s but bound as %s (an INTEGER column bound as text, or a text column used for ordering, changes comparison and ORDER BY semantics)", tbl, c, create.Types[c], b.Class)
			}
		}
		for p, b := range ins.Binds {
			found := false
			for _, c := range ins.SQL.Cols {
				if "$"+c == p {
					found = true
				}
			}
			if !found {
				r.Fail("R1", tbl+":stray-binding:"+p, b.Pos, "%s binds %s which is not a placeholder of the INSERT into %s", ShortFn(ins.Fn.Key), p, tbl)
			}
		}
		// ---- UPDATE closure
		bad = ""
		for _, c := range upd.SQL.Cols {
			if _, ok := create.Types[c]; !ok && bad == "" {
				bad = "UPDATE sets column " + c + " which does not exist in " + tbl
			}
			if upd.SQL.SetParm[c] != "$"+c && bad == "" {
				bad = "UPDATE sets " + c + " = " + upd.SQL.SetParm[c]
			}
			if b := upd.Binds["$"+c]; (b == nil || !b.Always) && bad == "" {
				bad = "UPDATE placeholder $" + c + " is not bound on every path in " + ShortFn(upd.Fn.Key)
			} else if b != nil && !colClassOK(create.Types[c], b.Class) && bad == "" {
				bad = "UPDATE binds " + c + " as " + b.Class + " but the column is " + create.Types[c]
			}
		}
		if len(upd.SQL.Where) != 1 || upd.SQL.Where[0].LHS != "id" || upd.SQL.Where[0].Op != "=" || upd.SQL.Where[0].RHS != "$id" {
			bad = orOK(bad, "UPDATE of "+tbl+" is not restricted by `WHERE id = $id` ("+upd.SQL.WhereRaw+")")
		} else if b := upd.Binds["$id"]; b == nil || b.Src != "ID" || !b.Always {
			bad = orOK(bad, "UPDATE of "+tbl+": $id is not bound to the object's own ID")
		}
		r.Check("R1", tbl+":update-closure", upd.QueryAt, bad == "", "%s", orOK(bad, "SET columns exist and are bound; WHERE id = $id bound to ID"))

		// ---- reader
		rr := readersOf[tbl]
		if rr == nil {
			r.Unresolved("R2", "row reader for "+tbl)
			continue
		}
		r.Funcs[rr.Fn.Key] = true
		sel := map[string]bool{}
		bad = ""
		for _, c := range rr.SQL.Cols {
			sel[c] = true
			if _, ok := create.Types[c]; !ok && bad == "" {
				bad = "SELECT names column " + c + " which does not exist in " + tbl
			}
		}
		reads := map[string][]colRead{}
		for _, cr := range rr.Reads {
			reads[cr.Col] = append(reads[cr.Col], cr)
			if cr.Col != "" && !sel[cr.Col] && bad == "" {
				bad = "the row reader reads column " + cr.Col + " which the SELECT does not return"
			}
			if cr.Col == "" && bad == "" {
				bad = "a column name read by the row reader of " + tbl + " cannot be resolved to a constant"
			}
		}
		r.Check("R1", tbl+":select-closure", rr.Pos, bad == "", "%s", orOK(bad, "selected columns exist; every column read is selected"))

		// ---- R2 per-column agreement
		written := map[string]*binding{}
		for _, c := range ins.SQL.Cols {
			written[c] = ins.Binds["$"+c]
		}
		for _, c := range upd.SQL.Cols {
			if written[c] == nil {
				written[c] = upd.Binds["$"+c]
			}
		}
		var cols []string
		for c := range written {
			cols = append(cols, c)
		}
		sort.Strings(cols)
		for _, c := range cols {
			w := written[c]
			r.Evals++
			if c == "pos" {
				continue // order column: used by ORDER BY (actions) or superseded by the parent's id array
			}
			rd := reads[c]
			if len(rd) == 0 {
				pos := ins.QueryAt
				if w != nil {
					pos = w.Pos
				}
				r.Fail("R2", tbl+":written-never-read:"+c, pos, "column %s.%s is written (from %s) but the row reader of %s never reads it: Read returns the zero value instead of what was last written", tbl, c, srcOf(w), ShortFn(rr.Fn.Key))
				continue
			}
			if w == nil {
				continue
			}
			bad := ""
			dest := ""
			for _, x := range rd {
				if x.Dest != "" {
					dest = x.Dest
				}
				if x.Class != w.Class && !(w.Class == "bytes" && x.Class == "bytes") && bad == "" {
					bad = "column " + c + " is bound as " + w.Class + " but read as " + x.Class
				}
			}
			src := w.Src
			if src == "param:planID" {
				src = "planID"
			}
			if dest != "" && src != "" && dest != src && bad == "" {
				bad = "column " + c + " is written from field " + src + " but read into field " + dest
			}
			// time encoding
			if w.Expr != nil && isTimeSource(m.info, w.Expr) {
				if !callsMethod(m.info, w.Expr, "time.Time.UnixNano") && !strings.Contains(ExprStr(w.Expr), "UnixNano") && bad == "" {
					bad = "time column " + c + " is not written as UnixNano (the reader decodes nanoseconds)"
				}
			}
			r.Check("R2", tbl+":column:"+c, w.Pos, bad == "", "%s", orOK(bad, c+": "+src+" → "+dest+" ("+w.Class+")"))
		}

		// ---- R3 field coverage
		fields := persistentFields(r.P, typ)
		wsrc := map[string]bool{}
		for _, b := range ins.Binds {
			for _, s := range strings.Split(b.Src, "|") {
				wsrc[s] = true
			}
		}
		rdest := map[string]bool{}
		for _, cr := range rr.Reads {
			rdest[cr.Dest] = true
		}
		var notWritten, notRead []string
		for _, f := range fields {
			if !wsrc[f] {
				notWritten = append(notWritten, f)
			}
			if !rdest[f] {
				notRead = append(notRead, f)
			}
		}
		r.Check("R3", tbl+":every-field-written", ins.QueryAt, len(notWritten) == 0, "fields of %s that Create never stores: %v", typ, notWritten)
		r.Check("R3", tbl+":every-field-read", rr.Pos, len(notRead) == 0, "fields of %s that Read never restores: %v (the stored value is lost on every read)", typ, notRead)
		mutable := []string{"State.Status", "State.Start", "State.End"}
		if typ == "workflow.Action" {
			mutable = append(mutable, "Attempts")
		}
		if typ == "workflow.Plan" {
			mutable = append(mutable, "Reason")
		}
		usrc := map[string]bool{}
		for _, b := range upd.Binds {
			usrc[b.Src] = true
		}
		var notUpdated []string
		for _, f := range mutable {
			if !usrc[f] {
				notUpdated = append(notUpdated, f)
			}
		}
		r.Check("R3", tbl+":every-mutable-field-updated", upd.QueryAt, len(notUpdated) == 0, "mutable fields of %s missing from its UPDATE: %v", typ, notUpdated)
	}
	r.Expect("R1", 30)
	r.Expect("R2", 50)
	r.Expect("R3", 15)

	// ---- R4 order
	ruleStoredOrder(r, "R4", m)
	r.Expect("R4", 6)

	// ---- R5 not-found
	ruleNotFound(r, "R5", m)
	r.Expect("R5", 1)

	// ---- R7 fresh attempt per element
	ruleDecodeAttempts(r, "R7", sqlKey("decodeAttempts"))
	ruleDecodeAttempts(r, "R7", cosKey("decodeAttempts"))
	ruleTimeDecoding(r, "R7")
	r.Expect("R7", 3)

	// ---- R9 error discipline on the read side (mutation sweep of session 2): "Read returns exactly what was written, or an
	// error — never a partial plan" needs every error inside the read scope to reach the caller. The same K6 rule as
	// C14-R2, over everything reader.Read reaches inside the package (one obligation per error-producing call site).
	r.Kind("R9", "K6")
	{
		inPkg := func(e CallEdge) bool { return strings.HasPrefix(e.Callee, pkgSqlite+".") }
		entries := []string{sqlKey("reader.Read"), sqlKey("reader.Exists"),
			// the update side: "after any sequence of object updates, the latest status …" needs a failed update to be an error
			sqlKey("planUpdater.UpdatePlan"), sqlKey("blockUpdater.UpdateBlock"), sqlKey("checksUpdater.UpdateChecks"),
			sqlKey("sequenceUpdater.UpdateSequence"), sqlKey("actionUpdater.UpdateAction")}
		reach := r.P.CallGraph().Reach(entries, inPkg)
		inCos := func(e CallEdge) bool { return strings.HasPrefix(e.Callee, pkgCosmos+".") && !strings.Contains(e.Callee, "fakeStorage") }
		for k, v := range r.P.CallGraph().Reach([]string{cosKey("reader.Read"), cosKey("reader.Exists"), cosKey("updater.UpdateObject"),
			cosKey("updater.UpdatePlan"), cosKey("updater.UpdateBlock"), cosKey("updater.UpdateChecks"), cosKey("updater.UpdateSequence"), cosKey("updater.UpdateAction")}, inCos) {
			reach[k] = v
		}
		var keys []string
		for k := range reach {
			keys = append(keys, k)
		}
		sort.Strings(keys)
		for _, k := range keys {
			if fn := r.P.Funcs[k]; fn != nil && fn.Decl.Body != nil && hasErrorResult(fn) {
				file := r.P.Fset.Position(fn.Decl.Pos()).Filename
				if strings.HasSuffix(file, "fake_storage.go") || strings.HasSuffix(file, "testing.go") {
					continue
				}
				r.Funcs[k] = true
				errorDiscipline(r, "R9", fn)
			}
		}
		r.Expect("R9", 60)
	}

	// ---- R8 a Create that returns an error leaves nothing that Read would return (round-3 seed C13-5): the create
	// transaction watches the error the function returns
	r.Kind("R8", "K11+K3")
	{
		createScope := sqliteCreateScope(r)
		nTx := 0
		for _, k := range createScope {
			if fn := r.P.Funcs[k]; fn != nil && registersTransaction(fn) {
				nTx++
				ruleTransactionScope(r, "R8", k, createScope)
			}
		}
		if nTx == 0 {
			r.Fail("R8", "transaction-scope:count", m.pkgPos(), "no function reachable from Create registers sqlitex.Transaction")
		}
		r.Expect("R8", 1)
	}

	// ---- R6 cosmosdb
	rulesCosmosRoundTrip(r, "R6")
}

func (m *sqliteModel) pkgPos() token.Pos {
	for o, s := range m.queries {
		if s.Kind == "create" {
			return m.qpos[o]
		}
	}
	return token.NoPos
}

func srcOf(b *binding) string {
	if b == nil || b.Src == "" {
		return "an unresolved source"
	}
	return b.Src
}

func isTimeSource(info *types.Info, e ast.Expr) bool {
	found := false
	ast.Inspect(e, func(n ast.Node) bool {
		if x, ok := n.(ast.Expr); ok {
			if tv, ok := info.Types[x]; ok && TypeKey(tv.Type) == "time.Time" {
				found = true
			}
		}
		return !found
	})
	return found
}

func callsMethod(info *types.Info, e ast.Node, key string) bool {
	found := false
	ast.Inspect(e, func(n ast.Node) bool {
		if c, ok := n.(*ast.CallExpr); ok {
			if f, ok := calleeFunc(info, c); ok && FuncKey(f) == key {
				found = true
			}
		}
		return !found
	})
	return found
}

// ruleStoredOrder: positions and id arrays preserve the declared order.
func ruleStoredOrder(r *Run, rule string, m *sqliteModel) {
	// actions are read ORDER BY pos ASC
	for _, rr := range m.readers {
		if rr.SQL.Table == "actions" && rr.SQL.Kind == "select" {
			ob := strings.ToLower(strings.Join(strings.Fields(rr.SQL.OrderBy), " "))
			r.Check(rule, "actions:order-by-pos", rr.Pos, ob == "pos asc" || ob == "pos", "actions are fetched with `WHERE id IN (...)`; without `ORDER BY pos ASC` (found %q) they come back in storage order, not in declared order", rr.SQL.OrderBy)
		}
	}
	// the pos argument of commitX is the range key of an in-order loop over the parent's children
	for _, c := range []struct{ callee, owner, field string }{
		{"commitAction", "workflow.Sequence", "Actions"},
		{"commitAction", "workflow.Checks", "Actions"},
		{"commitSequence", "workflow.Block", "Sequences"},
		{"commitBlock", "workflow.Plan", "Blocks"},
	} {
		found := false
		for _, fn := range r.P.sortedFuncs() {
			if fn.Pkg != m.pkg || fn.Decl.Body == nil {
				continue
			}
			ast.Inspect(fn.Decl.Body, func(n ast.Node) bool {
				rs, ok := n.(*ast.RangeStmt)
				if !ok {
					return true
				}
				if _, ok := FieldPath(m.info, rs.X, c.owner, c.field); !ok {
					return true
				}
				ast.Inspect(rs.Body, func(x ast.Node) bool {
					call, ok := x.(*ast.CallExpr)
					if !ok {
						return true
					}
					f, ok := calleeFunc(m.info, call)
					if !ok || FuncKey(f) != sqlKey(c.callee) || len(call.Args) < 5 {
						return true
					}
					found = true
					okPos := rs.Key != nil && SameObj(m.info, call.Args[3], rs.Key)
					okObj := IsLoopElem(m.info, rs, call.Args[4])
					r.Check(rule, "pos:"+c.owner+"."+c.field, call.Pos(), okPos && okObj, "%s(…, pos, obj) inside `range %s` must get the range index as pos and the range value as the object (pos=%s obj=%s)", c.callee, ExprStr(rs.X), ExprStr(call.Args[3]), ExprStr(call.Args[4]))
					return true
				})
				return true
			})
		}
		if !found {
			r.Fail(rule, "pos:"+c.owner+"."+c.field, m.pkgPos(), "no `for i, x := range %s.%s { %s(…, i, x, …) }` found: the children of a %s are not committed in declared order", c.owner, c.field, c.callee, c.owner)
		}
	}
	// readers rebuild child lists by appending in id order
	for _, name := range []string{"reader.fieldToBlocks", "reader.fieldToSequences"} {
		fn := r.fnByKey(rule, sqlKey(name))
		if fn == nil {
			continue
		}
		okOrder := false
		ast.Inspect(fn.Decl.Body, func(n ast.Node) bool {
			rs, ok := n.(*ast.RangeStmt)
			if !ok || rs.Value == nil {
				return true
			}
			// ranges over the ids variable returned by fieldToIDs
			appended := false
			ast.Inspect(rs.Body, func(x ast.Node) bool {
				if c, ok := x.(*ast.CallExpr); ok {
					if id, ok := c.Fun.(*ast.Ident); ok && id.Name == "append" && len(c.Args) == 2 {
						appended = true
					}
				}
				return true
			})
			if appended {
				okOrder = true
			}
			return true
		})
		r.Check(rule, "order:"+name, fn.Decl.Pos(), okOrder, "%s must rebuild the list by appending while ranging over the stored id array", name)
	}
}

// ruleNotFound: a plan-level read of zero rows must be an error.
func ruleNotFound(r *Run, rule string, m *sqliteModel) {
	fn := r.fnByKey(rule, sqlKey("reader.fetchPlan"))
	if fn == nil {
		return
	}
	var lit *ast.FuncLit
	for _, rr := range m.readers {
		if rr.Fn == fn {
			lit = rr.Lit
		}
	}
	if lit == nil {
		r.Unresolved(rule, "fetchPlan ResultFunc")
		return
	}
	info := m.info
	// objects written by the closure (root identifiers of its assignment targets)
	written := map[types.Object]bool{}
	ast.Inspect(lit.Body, func(n ast.Node) bool {
		if as, ok := n.(*ast.AssignStmt); ok {
			for _, l := range as.Lhs {
				root := ast.Unparen(l)
				for {
					if s, ok := root.(*ast.SelectorExpr); ok {
						root = ast.Unparen(s.X)
						continue
					}
					break
				}
				if o := ObjOf(info, root); o != nil && o.Name() != "err" && o.Pos() < lit.Pos() {
					written[o] = true
				}
			}
		}
		return true
	})
	fl, paths, ok := r.flowPaths(rule, fn)
	if !ok {
		return
	}
	bad := ""
	n := 0
	for i := range paths {
		p := &paths[i]
		if p.Exit != ExitReturn {
			continue
		}
		var ret *Event
		ei := -1
		for j := range p.Ev {
			if p.Ev[j].Kind == EvReturn && !p.Ev[j].Deferred {
				ret = &p.Ev[j]
			}
			if p.Ev[j].Kind == EvCall && sqliteExecKeys[CalleeKey(p.Ev[j])] {
				ei = j
			}
		}
		if ret == nil || ei < 0 {
			continue
		}
		if isNil, has := ReturnsNilLast(info, *ret); !has || !isNil {
			continue
		}
		n++
		tested := false
		for j := ei + 1; j < len(p.Ev); j++ {
			e := p.Ev[j]
			if e.Kind == EvBranch && e.Cond != nil {
				for o := range written {
					if mentionsObj(info, e.Cond, o) {
						tested = true
					}
				}
			}
		}
		if !tested && bad == "" {
			bad = "fetchPlan returns (plan, nil) without testing anything its ResultFunc wrote: when no row matches, the ResultFunc never runs and an empty plan is returned as if it had been read (Read/Wait of an unknown or deleted id succeed with an empty plan)"
		}
	}
	_ = fl
	if n == 0 {
		r.Unresolved(rule, "fetchPlan success path")
		return
	}
	r.Check(rule, "fetchPlan:zero-rows-is-an-error", fn.Decl.Pos(), bad == "", "%s", orOK(bad, "success requires evidence that a row was read"))
}

// ruleDecodeAttempts: each stored attempt is decoded into a value allocated inside the loop.
func ruleDecodeAttempts(r *Run, rule string, key string) {
	fn := r.fnByKey(rule, key)
	if fn == nil {
		return
	}
	info := fn.Pkg.TypesInfo
	okFresh, msg := false, "decodeAttempts does not append a value decoded inside its loop"
	ast.Inspect(fn.Decl.Body, func(n ast.Node) bool {
		rs, ok := n.(*ast.RangeStmt)
		if !ok {
			return true
		}
		ast.Inspect(rs.Body, func(x ast.Node) bool {
			c, ok := x.(*ast.CallExpr)
			if !ok {
				return true
			}
			id, ok := c.Fun.(*ast.Ident)
			if !ok || id.Name != "append" || len(c.Args) != 2 {
				return true
			}
			obj := ObjOf(info, c.Args[1])
			if obj == nil {
				msg = "the appended attempt is not a variable allocated in the loop (" + ExprStr(c.Args[1]) + "): attempts would share memory"
				return true
			}
			// defined inside the loop body by &workflow.Attempt{…} / new(...)
			if obj.Pos() > rs.Body.Pos() && obj.Pos() < rs.Body.End() {
				fresh := false
				ast.Inspect(rs.Body, func(y ast.Node) bool {
					switch d := y.(type) {
					case *ast.AssignStmt:
						for i, l := range d.Lhs {
							if ObjOf(info, l) == obj && len(d.Rhs) == len(d.Lhs) {
								if cl := compositeOf(d.Rhs[i]); cl != nil {
									if _, isAddr := ast.Unparen(d.Rhs[i]).(*ast.UnaryExpr); isAddr {
										fresh = true
									}
								}
							}
						}
					case *ast.ValueSpec:
						for i, nm := range d.Names {
							if info.ObjectOf(nm) == obj && i < len(d.Values) {
								if cl := compositeOf(d.Values[i]); cl != nil {
									if _, isAddr := ast.Unparen(d.Values[i]).(*ast.UnaryExpr); isAddr {
										fresh = true
									}
								}
							}
						}
					}
					return true
				})
				// nothing reference-typed in the literal may come from outside the loop (shared between attempts)
				shared := ""
				ast.Inspect(rs.Body, func(y ast.Node) bool {
					cl, ok := y.(*ast.CompositeLit)
					if !ok {
						return true
					}
					if tv, ok := info.Types[cl]; !ok || ShortType(tv.Type) != "workflow.Attempt" {
						return true
					}
					for _, el := range cl.Elts {
						kv, ok := el.(*ast.KeyValueExpr)
						if !ok {
							continue
						}
						if o := ObjOf(info, kv.Value); o != nil && (o.Pos() < rs.Body.Pos() || o.Pos() > rs.Body.End()) {
							switch o.Type().Underlying().(type) {
							case *types.Pointer, *types.Interface, *types.Slice, *types.Map:
								shared = ExprStr(kv.Key) + ": " + o.Name()
							}
						}
					}
					return true
				})
				if fresh && shared != "" {
					fresh = false
					msg = "every decoded attempt is initialised with the same value computed outside the loop (" + shared + "): with a pointer-typed response all attempts of an action alias one object and read back as the last attempt"
					return true
				}
				if fresh {
					okFresh, msg = true, ""
				} else {
					msg = "the appended attempt is declared in the loop but is a copy of a shared value: pointer fields (Err) of different attempts would alias"
				}
			} else {
				msg = "the appended attempt is declared outside the loop: every stored attempt would be decoded into (and alias) the same value"
			}
			return true
		})
		return true
	})
	r.Check(rule, "decodeAttempts:fresh-value-per-attempt:"+strings.Split(ShortFn(key), ".")[0], fn.Decl.Pos(), okFresh, "%s", orOK(msg, "a := &workflow.Attempt{…} inside the loop"))
}

// ruleTimeDecoding: timeFromField decodes nanoseconds.
func ruleTimeDecoding(r *Run, rule string) {
	fn := r.fnByKey(rule, sqlKey("timeFromField"))
	if fn == nil {
		return
	}
	info := fn.Pkg.TypesInfo
	okT := false
	ast.Inspect(fn.Decl.Body, func(n ast.Node) bool {
		if c, ok := n.(*ast.CallExpr); ok {
			if f, ok := calleeFunc(info, c); ok && FuncKey(f) == "time.Unix" && len(c.Args) == 2 {
				if v, isC := ConstInt(info, c.Args[0]); isC && v == 0 {
					if _, isC2 := ConstInt(info, c.Args[1]); !isC2 {
						okT = true
					}
				}
			}
		}
		return true
	})
	r.Check(rule, "timeFromField:decodes-nanoseconds", fn.Decl.Pos(), okT, "timeFromField must rebuild the time as time.Unix(0, nanoseconds), the inverse of the UnixNano() the writers bind")
}

// ---------------------------------------------------------------------------
// C14

func rulesC14(r *Run) {
	m := buildSqliteModel(r, "R1")
	if m == nil {
		return
	}
	// The scope is found structurally: everything the vault's Create and Delete reach inside the
	// package (the exported entry points are fixed by the storage interfaces; helpers may be renamed).
	scope := sqliteMutationScope(r)
	r.Kind("R1", "K11+K3")
	nTx := 0
	for _, k := range scope {
		if fn := r.P.Funcs[k]; fn != nil && registersTransaction(fn) {
			nTx++
			ruleTransactionScope(r, "R1", k, scope)
		}
	}
	if nTx < 2 {
		r.Fail("R1", "transaction-scope:count", m.pkgPos(), "only %d function(s) reachable from Create/Delete register sqlitex.Transaction; both the create and the delete path must run inside one", nTx)
	}
	r.Expect("R1", 2)

	r.Kind("R2", "K6")
	for _, k := range scope {
		if fn := r.P.Funcs[k]; fn != nil && fn.Decl.Body != nil && (hasErrorResult(fn) || strings.HasSuffix(k, ".Prepare")) {
			r.Funcs[k] = true
			errorDiscipline(r, "R2", fn)
		}
	}
	r.Expect("R2", 55)

	r.Kind("R3", "K8")
	ruleCreateUnique(r, "R3", m)
	r.Expect("R3", 2)

	r.Kind("R4", "K7+K8")
	ruleDeleteComplete(r, "R4", m)
	r.Expect("R4", 9)

	r.Kind("R5", "K3")
	ruleCosmosBatch(r, "R5")
	ruleBatchPerAttempt(r, "R5")
	ruleBatchResponseExamined(r, "R5")
}

func hasErrorResult(fn *Func) bool {
	sig := fn.Obj.Type().(*types.Signature)
	for i := 0; i < sig.Results().Len(); i++ {
		if IsErrorType(sig.Results().At(i).Type()) {
			return true
		}
	}
	return false
}

// ruleTransactionScope: `defer sqlitex.Transaction(conn)(&e)` registered before the
// first statement, e being an error variable the failing calls assign.
// sqliteMutationScope: creator.Create, deleter.Delete and every function of the package they reach (sorted keys).
func sqliteMutationScope(r *Run) []string {
	inPkg := func(e CallEdge) bool { return strings.HasPrefix(e.Callee, pkgSqlite+".") }
	reach := r.P.CallGraph().Reach([]string{sqlKey("creator.Create"), sqlKey("deleter.Delete")}, inPkg)
	// the read side (what the storage.Reader entry points reach) is not part of the mutation: Delete reads the plan first
	readSide := r.P.CallGraph().Reach([]string{sqlKey("reader.Read"), sqlKey("reader.Search"), sqlKey("reader.List")}, inPkg)
	var out []string
	for k := range reach {
		if _, isRead := readSide[k]; isRead {
			continue
		}
		if fn := r.P.Funcs[k]; fn != nil && fn.Decl.Body != nil {
			out = append(out, k)
		}
	}
	sort.Strings(out)
	return out
}

// sqliteCreateScope: creator.Create and every function of the package it reaches (sorted keys).
func sqliteCreateScope(r *Run) []string {
	inPkg := func(e CallEdge) bool { return strings.HasPrefix(e.Callee, pkgSqlite+".") }
	reach := r.P.CallGraph().Reach([]string{sqlKey("creator.Create")}, inPkg)
	readSide := r.P.CallGraph().Reach([]string{sqlKey("reader.Read"), sqlKey("reader.Search"), sqlKey("reader.List")}, inPkg)
	var out []string
	for k := range reach {
		if _, isRead := readSide[k]; isRead {
			continue
		}
		if fn := r.P.Funcs[k]; fn != nil && fn.Decl.Body != nil {
			out = append(out, k)
		}
	}
	sort.Strings(out)
	return out
}

// executesOrCreates: the function is Create itself or (transitively) executes a statement.
func executesOrCreates(r *Run, key string) bool {
	return key == sqlKey("creator.Create") || scopeExecutes(r, key)
}

// registersTransaction: the function defers sqlitex.Transaction(conn)(&err).
func registersTransaction(fn *Func) bool {
	found := false
	ast.Inspect(fn.Decl.Body, func(n ast.Node) bool {
		if c, ok := n.(*ast.CallExpr); ok {
			if f, ok := calleeFunc(fn.Pkg.TypesInfo, c); ok && FuncKey(f) == "zombiezen.com/go/sqlite/sqlitex.Transaction" {
				found = true
			}
		}
		return !found
	})
	return found
}

func ruleTransactionScope(r *Run, rule, key string, scope []string) {
	fn := r.fnByKey(rule, key)
	if fn == nil {
		return
	}
	fl, paths, ok := r.flowPaths(rule, fn)
	if !ok {
		return
	}
	info := fl.Info
	paths = fl.OwnCode(paths) // the function's own statements, including a callback body a helper runs (withConn(func(conn){…}))
	bad := ""
	n := 0
	for i := range paths {
		p := &paths[i]
		if p.Exit != ExitReturn {
			continue
		}
		ti := -1
		var errObj types.Object
		firstStmt := -1
		for j, e := range p.Ev {
			if e.Kind == EvDefer {
				if inner, ok := e.Call.Fun.(*ast.CallExpr); ok {
					if f, ok := calleeFunc(info, inner); ok && FuncKey(f) == "zombiezen.com/go/sqlite/sqlitex.Transaction" && len(e.Call.Args) == 1 {
						ti = j
						if u, ok := ast.Unparen(e.Call.Args[0]).(*ast.UnaryExpr); ok && u.Op == token.AND {
							errObj = ObjOf(info, u.X)
						}
					}
				}
			}
			if e.Kind == EvCall && !e.Deferred && firstStmt < 0 && e.Depth == 0 {
				k := CalleeKey(e)
				if k == "zombiezen.com/go/sqlite.Conn.Prepare" || k == "zombiezen.com/go/sqlite.Stmt.Step" || (k != key && inSet(scope, k) && scopeExecutes(r, k)) {
					firstStmt = j
				}
			}
		}
		if firstStmt < 0 {
			continue // a path that touches no statement (early validation error)
		}
		n++
		switch {
		case ti < 0 || ti > firstStmt:
			if bad == "" {
				bad = "a statement is executed on a path where sqlitex.Transaction has not been registered yet: a failure midway would leave a partial plan behind"
			}
		case errObj == nil:
			if bad == "" {
				bad = "sqlitex.Transaction is not given the address of an error variable"
			}
		default:
			// every error return after the registration must leave errObj non-nil:
			// either it is the named result, or the failing call assigned it (no shadowing)
			if isNamedResult(fl, errObj) {
				continue
			}
			for j := firstStmt; j < len(p.Ev); j++ {
				e := p.Ev[j]
				if e.Kind != EvCall || e.Deferred || e.Depth > 0 {
					continue
				}
				u := UseOfResult(fl, p, j)
				if u.Verdict == "nonnil" && u.Var != errObj && bad == "" {
					bad = "the failing call " + ExprStr(e.Call.Fun) + " stores its error in a different variable than the one sqlitex.Transaction watches (" + errObj.Name() + "): the transaction would COMMIT although the function returns an error"
				}
			}
			// … and what the function returns after the registration is that variable (round-3 seed C13-5: `return
			// commitPlan(…)` with the transaction watching a local that nothing assigns — it always commits)
			for j := ti; j < len(p.Ev); j++ {
				e := p.Ev[j]
				if e.Kind != EvReturn || e.Deferred || e.Depth > 0 || len(e.Rhs) == 0 || e.From != p.Ev[ti].From {
					continue // only the returns of the body (function or callback) that registered the transaction
				}
				res := e.Rhs[len(e.Rhs)-1]
				if ValueKey(info, res) == "nil" || ObjOf(info, res) == errObj {
					continue
				}
				// returning a wrapped error is fine when the watched variable is known to hold the failure
				if NilnessAt(info, p, j, &ast.Ident{Name: errObj.Name()}) == "nonnil" || nilnessOfObj(info, p, j, errObj) == "nonnil" {
					continue
				}
				if bad == "" {
					bad = "the function returns " + ExprStr(res) + " while sqlitex.Transaction watches the variable " + errObj.Name() + ", which is not a named result and is not what is returned: the transaction COMMITS although the function returns an error, a plan that failed midway stays stored in part"
				}
			}
		}
	}
	if n == 0 {
		r.Unresolved(rule, key+" statement path")
		return
	}
	r.Check(rule, "transaction-scope:"+ShortFn(key), fn.Decl.Pos(), bad == "", "%s", orOK(bad, "registered before the first statement on the error variable the failing calls assign"))
}

// errorDiscipline: K6 over every error-producing call of fn (and its literals).
func errorDiscipline(r *Run, rule string, fn *Func) {
	label := strings.TrimPrefix(fn.Key, relPkg(fn.Pkg.PkgPath)+".")
	check := func(fl *Flow, paths []Path) {
		type site struct {
			pos  token.Pos
			name string
			bad  string
			n    int
		}
		sites := map[token.Pos]*site{}
		paths = fl.OwnCode(paths) // every function of the scope is judged on its own call sites (its helpers are in the scope themselves)
		for i := range paths {
			p := &paths[i]
			for ci, e := range p.Ev {
				if e.Kind != EvCall || e.Deferred {
					continue
				}
				if !callReturnsError(fl.Info, e.Call) {
					continue
				}
				s := sites[e.Pos]
				if s == nil {
					s = &site{pos: e.Pos, name: calleeName(fl.Info, e.Call)}
					sites[e.Pos] = s
				}
				s.n++
				u := UseOfResult(fl, p, ci)
				problem := ""
				switch {
				case u.Kind == "direct-return" || u.Kind == "nested" || u.Kind == "cond":
				case u.Verdict == "returned" || u.Verdict == "nil":
				case u.Verdict == "nonnil" && strings.Contains(LostAfterNonNil(fl, p, u), "assigned again"):
					problem = LostAfterNonNil(fl, p, u)
				case u.Verdict == "nonnil":
					if p.Exit == ExitReturn {
						ri := FirstAfter(p, u.At, func(x Event) bool { return x.Kind == EvReturn && !x.Deferred })
						li := FirstAfter(p, u.At, func(x Event) bool { return x.Kind == EvRange || (x.Kind == EvBranch && forConds[x.Cond]) })
						switch {
						case ri < 0:
							problem = "the failing branch falls off the end of the function"
						case li >= 0 && li < ri:
							problem = "the failing branch does not return: the loop simply continues and the error is lost (the transaction would commit a partial object)"
						default:
							if isNil, has := ReturnsNilLast(fl.Info, p.Ev[ri]); has && isNil && !classifiedBetween(fl.Info, p, u.At, ri, u.Var) {
								problem = "the failing branch returns nil"
							}
						}
					}
				case u.Kind == "discarded":
					problem = "the error is built/returned and then dropped (result discarded)"
				case u.Verdict == "overwritten":
					problem = "the error is overwritten (by " + ExprStr(p.Ev[u.At].Node.(*ast.AssignStmt).Rhs[0]) + ") before it is tested"
				case u.Verdict == "untested":
					// an error built from another one and stored in a variable the path then returns (wrapped or not) is returned
					if p.Exit == ExitReturn && u.Var != nil {
						if ri := FirstAfter(p, ci, func(x Event) bool { return x.Kind == EvReturn && !x.Deferred }); ri >= 0 {
							used := false
							for _, res := range p.Ev[ri].Rhs {
								if mentionsObj(fl.Info, res, u.Var) {
									used = true
								}
							}
							if used {
								break
							}
						}
					}
					if p.Exit == ExitReturn {
						problem = "the error is never tested on a returning path"
					}
				}
				if problem != "" && s.bad == "" {
					s.bad = problem
				}
			}
		}
		// stable keys: callee name + ordinal among same-named sites
		byName := map[string][]*site{}
		for _, s := range sites {
			byName[s.name] = append(byName[s.name], s)
		}
		for name, ss := range byName {
			sort.Slice(ss, func(i, j int) bool { return ss[i].pos < ss[j].pos })
			for i, s := range ss {
				r.Check(rule, "err:"+label+":"+name+"#"+itoa(i+1), s.pos, s.bad == "", "%s", orOK(s.bad, "error of "+name+" is returned, tested with a returning non-nil branch, or passed on"))
			}
		}
	}
	indexForConds(fn.Decl)
	fl := r.P.FlowOf(fn)
	r.Funcs[fn.Key] = true
	if paths, ok := fl.Paths(); ok {
		r.Paths += len(paths)
		check(fl, append(append([]Path{}, paths...), fl.Truncated()...))
	} else {
		r.Undecided(rule, "paths:"+fn.Key, fn.Decl.Pos(), "too many paths")
	}
	for _, l := range AllLits(fn.Decl.Body) {
		if lf, lp, ok := r.litPaths(rule, l); ok {
			check(lf, lp)
		}
	}
}

func callReturnsError(info *types.Info, call *ast.CallExpr) bool {
	tv, ok := info.Types[call]
	if !ok {
		return false
	}
	if tup, ok := tv.Type.(*types.Tuple); ok {
		for i := 0; i < tup.Len(); i++ {
			if IsErrorType(tup.At(i).Type()) {
				return true
			}
		}
		return false
	}
	return IsErrorType(tv.Type)
}

func ruleCreateUnique(r *Run, rule string, m *sqliteModel) {
	fn := r.fnByKey(rule, sqlKey("creator.Create"))
	if fn == nil {
		return
	}
	fl, paths, ok := r.flowPaths(rule, fn)
	if !ok {
		return
	}
	info := fl.Info
	bad := ""
	n := 0
	for i := range paths {
		p := &paths[i]
		var existObj types.Object
		absent := false
		for _, e := range p.Ev {
			if e.Kind == EvAssign && len(e.Rhs) == 1 && len(e.Lhs) == 2 {
				if c, ok := ast.Unparen(e.Rhs[0]).(*ast.CallExpr); ok {
					if f, ok := calleeFunc(info, c); ok && strings.HasSuffix(FuncKey(f), ".Exists") {
						existObj = ObjOf(info, e.Lhs[0])
					}
				}
			}
			if e.Kind == EvBranch && e.Cond != nil && existObj != nil && mentionsObj(info, e.Cond, existObj) {
				if v := verdictFromCond(info, e.Cond, e.Taken, existObj.Name()); v == "false" {
					absent = true
				}
			}
			if IsCall(e, sqlKey("commitPlan")) {
				n++
				if !absent && bad == "" {
					bad = "Create commits the plan on a path that did not establish that the id does not exist yet: creating an id twice must fail without altering the first"
				}
			}
		}
	}
	if n == 0 {
		r.Unresolved(rule, "Create calls commitPlan")
		return
	}
	r.Check(rule, "Create:refuses-existing-id", fn.Decl.Pos(), bad == "", "%s", orOK(bad, "Exists tested false before commitPlan"))
	pk := true
	for _, t := range []string{"plans", "blocks", "checks", "sequences", "actions"} {
		if c, ok := m.tables[t]; !ok || !c.PK["id"] {
			pk = false
		}
	}
	r.Check(rule, "schema:id-primary-key-everywhere", m.pkgPos(), pk, "every table must declare id PRIMARY KEY")
}

// scopeExecutes: the function (transitively, inside the package) prepares or steps a statement.
func scopeExecutes(r *Run, key string) bool {
	reach := r.P.CallGraph().Reach([]string{key}, func(e CallEdge) bool {
		return strings.HasPrefix(e.Callee, pkgSqlite+".") || strings.HasPrefix(e.Callee, "zombiezen.com/go/sqlite")
	})
	for k := range reach {
		if k == "zombiezen.com/go/sqlite.Conn.Prepare" || k == "zombiezen.com/go/sqlite.Stmt.Step" {
			return true
		}
	}
	return false
}

// deleteFuncFor: the function Delete reaches that takes the objects of type typ (a *T or []*T parameter).
func deleteFuncFor(r *Run, typ string) *Func {
	reach := r.P.CallGraph().Reach([]string{sqlKey("deleter.Delete")}, func(e CallEdge) bool { return strings.HasPrefix(e.Callee, pkgSqlite+".") })
	var keys []string
	for k := range reach {
		keys = append(keys, k)
	}
	sort.Strings(keys)
	for _, k := range keys {
		fn := r.P.Funcs[k]
		if fn == nil || fn.Decl.Body == nil || k == sqlKey("deleter.Delete") {
			continue
		}
		sig := fn.Obj.Type().(*types.Signature)
		for i := 0; i < sig.Params().Len(); i++ {
			t := sig.Params().At(i).Type()
			if sl, ok := t.(*types.Slice); ok {
				t = sl.Elem()
			}
			if _, isPtr := t.(*types.Pointer); isPtr && ShortType(t) == typ {
				return fn
			}
		}
	}
	return nil
}

// ruleDeleteComplete: every child-bearing field is traversed, one DELETE per table, WHERE id = $id bound to the own ID.
func ruleDeleteComplete(r *Run, rule string, m *sqliteModel) {
	info := m.info
	subjects := []struct {
		fn, typ string
	}{
		{"", "workflow.Plan"}, {"", "workflow.Block"}, {"", "workflow.Checks"}, {"", "workflow.Sequence"}, {"", "workflow.Action"},
	}
	deleteFns := map[string]bool{}
	for i := range subjects {
		if fn := deleteFuncFor(r, subjects[i].typ); fn != nil {
			subjects[i].fn = ShortFn(fn.Key)
			deleteFns[fn.Key] = true
		}
	}
	for _, s := range subjects {
		fn := deleteFuncFor(r, s.typ)
		if fn == nil {
			r.Unresolved(rule, "the function Delete reaches that takes a "+s.typ)
			continue
		}
		r.Funcs[fn.Key] = true
		// child-bearing fields of the type
		st, _ := r.P.StructOf("workflow", strings.TrimPrefix(s.typ, "workflow."))
		var need []string
		for i := 0; st != nil && i < st.NumFields(); i++ {
			f := st.Field(i)
			t := f.Type()
			if sl, ok := t.(*types.Slice); ok {
				t = sl.Elem()
			}
			if workflowObjTypes[ShortType(t)] && f.Exported() {
				need = append(need, f.Name())
			}
		}
		got := map[string]bool{}
		ast.Inspect(fn.Decl.Body, func(n ast.Node) bool {
			c, ok := n.(*ast.CallExpr)
			if !ok {
				return true
			}
			f, ok := calleeFunc(info, c)
			if !ok || !deleteFns[FuncKey(f)] {
				return true
			}
			for _, a := range c.Args {
				for _, fld := range need {
					if _, ok := FieldPath(info, a, s.typ, fld); ok {
						got[fld] = true
					}
				}
			}
			return true
		})
		var missing []string
		for _, f := range need {
			if !got[f] {
				missing = append(missing, f)
			}
		}
		r.Check(rule, "delete-traverses:"+s.typ, fn.Decl.Pos(), len(missing) == 0, "%s does not delete the children held in %v of a %s: their rows would survive the plan", s.fn, missing, s.typ)
		// the own DELETE
		tbl := tableOfType[s.typ]
		okDel, msg := false, "no DELETE FROM "+tbl+" is prepared in "+s.fn
		ast.Inspect(fn.Decl.Body, func(n ast.Node) bool {
			c, ok := n.(*ast.CallExpr)
			if !ok || len(c.Args) != 1 {
				return true
			}
			f, ok := calleeFunc(info, c)
			if !ok || FuncKey(f) != "zombiezen.com/go/sqlite.Conn.Prepare" {
				return true
			}
			sql, _, ok := m.queryOf(c.Args[0])
			if !ok || sql.Kind != "delete" {
				return true
			}
			switch {
			case sql.Table != tbl:
				msg = s.fn + " deletes from " + sql.Table + " instead of " + tbl
			case len(sql.Where) != 1 || sql.Where[0].LHS != "id" || sql.Where[0].Op != "=" || sql.Where[0].RHS != "$id" || sql.Where[0].LHSQuoted:
				msg = "DELETE FROM " + tbl + " is not restricted by `WHERE id = $id` (" + sql.WhereRaw + "): objects of other plans could be removed"
			default:
				okDel, msg = true, ""
			}
			return true
		})
		// $id bound to the object's own ID
		if okDel {
			bound := false
			ast.Inspect(fn.Decl.Body, func(n ast.Node) bool {
				c, ok := n.(*ast.CallExpr)
				if !ok || len(c.Args) != 2 {
					return true
				}
				if sel, ok := ast.Unparen(c.Fun).(*ast.SelectorExpr); ok && sel.Sel.Name == "SetText" {
					if p, _ := ConstString(info, c.Args[0]); p == "$id" {
						found := false
						ast.Inspect(c.Args[1], func(x ast.Node) bool {
							if e, ok := x.(ast.Expr); ok {
								if _, ok := FieldPath(info, e, s.typ, "ID"); ok {
									found = true
								}
							}
							return !found
						})
						bound = found
					}
				}
				return true
			})
			if !bound {
				okDel, msg = false, "$id of the DELETE FROM "+tbl+" is not bound to the ID of the "+s.typ+" being deleted"
			}
		}
		r.Check(rule, "delete-own-row:"+s.typ, fn.Decl.Pos(), okDel, "%s", orOK(msg, "DELETE FROM "+tbl+" WHERE id = $id, bound to the object's ID"))
	}
}

// ---------------------------------------------------------------------------
// C15

func rulesC15(r *Run) {
	m := buildSqliteModel(r, "R1")
	if m == nil {
		return
	}
	r.Kind("R1", "K8")
	ruleConstantPredicates(r, "R1", m)
	ruleExistsAnswer(r, "R1")
	r.Expect("R1", 8)

	r.Kind("R2", "K8+K2")
	ruleSearchTemplates(r, "R2")
	r.Expect("R2", 4)

	r.Kind("R3", "K3")
	for _, k := range []string{sqlKey("reader.Search"), sqlKey("reader.List")} {
		ruleStreamClosed(r, "R3", k)
	}
	ruleSubmitErrorHandled(r, "R3")
	rulePoolPairing(r, "R3")
	// the K6 error-discipline rule over Search and List themselves (their producers included): a failure while reading is
	// delivered to the consumer of the stream or returned, never dropped — a silently truncated result "answers from stored
	// state" no more than a wrong one
	// (the cosmosdb producers hand their results to sender(), whose only error is "the consumer's context ended": dropping
	// that one is the idiom, so they are judged by R5 and by submit-error-handled, not here)
	for _, k := range []string{sqlKey("reader.Search"), sqlKey("reader.List"), sqlKey("reader.listResultsFunc"), cosKey("reader.listResultsFunc")} {
		if fn := r.P.Funcs[k]; fn != nil && fn.Decl.Body != nil {
			r.Funcs[k] = true
			errorDiscipline(r, "R3", fn)
		}
	}
	r.Expect("R3", 32)

	r.Kind("R4", "K8")
	ruleListQuery(r, "R4", m)
	for _, k := range []string{sqlKey("reader.Search"), sqlKey("reader.List")} {
		ruleOneStatementPerStream(r, "R4", k)
	}
	r.Expect("R4", 4)

	r.Kind("R5", "K7")
	rulesCosmosSearch(r, "R5")

	// R6: only plans whose Create succeeded exist: the create transaction watches the error the failing calls assign
	r.Kind("R6", "K11+K3")
	createScope := sqliteCreateScope(r)
	for _, k := range createScope {
		if fn := r.P.Funcs[k]; fn != nil && registersTransaction(fn) {
			ruleTransactionScope(r, "R6", k, createScope)
		}
	}
	ruleCreateUnique(r, "R6", m)
	r.Expect("R6", 3)
}

func ruleConstantPredicates(r *Run, rule string, m *sqliteModel) {
	// class the INSERT uses per (table, column)
	insClass := map[string]string{}
	for _, w := range m.writers {
		if w.SQL.Kind == "insert" {
			for p, b := range w.Binds {
				insClass[w.SQL.Table+"."+strings.TrimPrefix(p, "$")] = b.Class
			}
		}
	}
	var objs []types.Object
	for o := range m.queries {
		objs = append(objs, o)
	}
	sort.Slice(objs, func(i, j int) bool { return m.qpos[objs[i]] < m.qpos[objs[j]] })
	for _, o := range objs {
		s := m.queries[o]
		if s.Kind != "select" && s.Kind != "delete" && s.Kind != "update" {
			continue
		}
		r.Evals++
		bad := ""
		create, known := m.tables[s.Table]
		if !known {
			bad = "query " + o.Name() + " reads from unknown table " + s.Table
		}
		for _, p := range s.Where {
			if p.LHSQuoted && bad == "" {
				bad = "query " + o.Name() + " compares the string literal '" + p.LHS + "' (single quotes make it a literal, not the column) with its argument: the predicate is constant, so the query answers the same for every id"
			}
			if known && !p.LHSQuoted && p.Op != "?" {
				if _, ok := create.Types[p.LHS]; !ok && bad == "" {
					bad = "query " + o.Name() + " filters on column " + p.LHS + " which table " + s.Table + " does not have"
				}
			}
		}
		r.Check(rule, "query:"+o.Name(), m.qpos[o], bad == "", "%s", orOK(bad, s.Kind+" "+s.Table+" where "+s.WhereRaw))
	}
	// Exists binds its argument with the class the INSERT uses for plans.id
	fn := r.fnByKey(rule, sqlKey("reader.Exists"))
	if fn == nil {
		return
	}
	bad := ""
	ast.Inspect(fn.Decl.Body, func(n ast.Node) bool {
		kv, ok := n.(*ast.KeyValueExpr)
		if !ok {
			return true
		}
		id, ok := kv.Key.(*ast.Ident)
		if !ok || (id.Name != "Args" && id.Name != "Named") {
			return true
		}
		cl := compositeOf(kv.Value)
		if cl == nil {
			return true
		}
		for _, el := range cl.Elts {
			v := el
			if kv2, ok := el.(*ast.KeyValueExpr); ok {
				v = kv2.Value
			}
			tv, ok := m.info.Types[v]
			if !ok {
				continue
			}
			cls := "other"
			switch t := tv.Type.Underlying().(type) {
			case *types.Basic:
				if t.Info()&types.IsString != 0 {
					cls = "text"
				} else if t.Info()&types.IsInteger != 0 {
					cls = "int"
				}
			case *types.Slice:
				cls = "bytes"
			}
			if want := insClass["plans.id"]; want != "" && cls != want && bad == "" {
				bad = "Exists binds the id as " + cls + " (" + ExprStr(v) + ") but plans.id is inserted as " + want + ": the comparison can never match"
			}
		}
		return true
	})
	r.Check(rule, "Exists:argument-class", fn.Decl.Pos(), bad == "", "%s", orOK(bad, "id bound with the class used at INSERT"))
}

// ruleStreamClosed: the producer literal closes the stream on every exit; the spawning
// function does not release a connection the producer still uses.
func ruleStreamClosed(r *Run, rule, key string) {
	fn := r.fnByKey(rule, key)
	if fn == nil {
		return
	}
	fl, paths, ok := r.flowPaths(rule, fn)
	if !ok {
		return
	}
	info := fl.Info
	// the returned channel
	var ch types.Object
	var lit *ast.FuncLit
	for i := range paths {
		for _, e := range paths[i].Ev {
			if e.Kind == EvReturn && len(e.Rhs) == 2 {
				if o := ObjOf(info, e.Rhs[0]); o != nil {
					if _, isCh := o.Type().Underlying().(*types.Chan); isCh {
						ch = o
					}
				}
			}
			if IsCall(e, keySubmit) {
				lit = LitArg(e.Call)
			}
		}
	}
	short := ShortFn(key)
	if ch == nil || lit == nil {
		r.Unresolved(rule, key+" returns a channel fed by a submitted literal")
		return
	}
	lf, lp, ok := r.litPaths(rule, lit)
	if !ok {
		return
	}
	bad := ""
	for i := range lp {
		p := &lp[i]
		if p.Exit != ExitReturn {
			continue
		}
		closed := false
		for _, e := range p.Ev {
			if e.Kind == EvCall && CalleeKey(e) == "builtin.close" && len(e.Call.Args) == 1 && ObjOf(lf.Info, e.Call.Args[0]) == ch && !e.Maybe {
				closed = true
			}
		}
		if !closed && bad == "" {
			bad = "the producer of " + short + "'s result stream returns without closing it (guard " + ExitGuardKey(lf, p) + "): a consumer ranging over the stream never terminates"
		}
	}
	r.Check(rule, short+":stream-closed-on-every-exit", lit.Pos(), bad == "", "%s", orOK(bad, "close(results) on every exit of the producer"))
	// D46: the close is reached only if the producer never waits for a reader that is gone. A consumer that has what it needs
	// cancels its Context and stops reading; a send on the stream that is not one alternative of a select with a way out
	// (`<-ctx.Done()` or default) then parks the producer for ever — the stream is never closed and, in this vault, the only
	// connection is never given back. Every send on the stream inside the producer (nested callbacks included) has a way out.
	{
		badSend := ""
		var sendPos token.Pos = lit.Pos()
		sends := 0
		var stack []ast.Node
		ast.Inspect(lit.Body, func(n ast.Node) bool {
			if n == nil {
				stack = stack[:len(stack)-1]
				return true
			}
			stack = append(stack, n)
			snd, ok := n.(*ast.SendStmt)
			if !ok || ObjOf(info, snd.Chan) != ch {
				return true
			}
			sends++
			wayOut := false
			// the send must be the communication of a select clause whose select has a default or a receive from X.Done()
			if len(stack) >= 3 {
				if cc, ok := stack[len(stack)-2].(*ast.CommClause); ok && cc.Comm == ast.Stmt(snd) {
					for k := len(stack) - 3; k >= 0; k-- {
						sel, ok := stack[k].(*ast.SelectStmt)
						if !ok {
							continue
						}
						for _, c := range sel.Body.List {
							oc := c.(*ast.CommClause)
							if oc.Comm == nil {
								wayOut = true
								continue
							}
							var rx ast.Expr
							switch x := oc.Comm.(type) {
							case *ast.ExprStmt:
								rx = x.X
							case *ast.AssignStmt:
								if len(x.Rhs) == 1 {
									rx = x.Rhs[0]
								}
							}
							if u, ok := ast.Unparen(rx).(*ast.UnaryExpr); ok && u.Op == token.ARROW {
								if call, ok := ast.Unparen(u.X).(*ast.CallExpr); ok {
									if se, ok := call.Fun.(*ast.SelectorExpr); ok && se.Sel.Name == "Done" {
										wayOut = true
									}
								}
							}
						}
						break
					}
				}
			}
			if !wayOut && badSend == "" {
				badSend, sendPos = "the producer of "+short+"'s stream sends on it with nothing else to wait for: a consumer that cancelled and stopped reading leaves the producer parked on this send for ever — the stream is never closed and the connection it holds is never returned", snd.Pos()
			}
			return true
		})
		if sends == 0 {
			r.Unresolved(rule, "sends on the stream of "+short)
		} else {
			r.Check(rule, short+":producer-never-waits-for-a-gone-reader", sendPos, badSend == "", "%s", orOK(badSend, "every send has a way out (ctx.Done or default)"))
		}
	}
	// connection lifetime
	var conn types.Object
	ast.Inspect(lit.Body, func(n ast.Node) bool {
		if c, ok := n.(*ast.CallExpr); ok {
			if f, ok := calleeFunc(info, c); ok && sqliteExecKeys[FuncKey(f)] && len(c.Args) > 0 {
				conn = ObjOf(info, c.Args[0])
			}
		}
		return true
	})
	bad = ""
	if conn != nil {
		for i := range paths {
			p := &paths[i]
			submitted := false
			si := -1
			for j, e := range p.Ev {
				if IsCall(e, keySubmit) {
					submitted = true
					si = j
				}
				if e.Kind == EvCall && strings.HasSuffix(CalleeKey(e), "sqlitex.Pool.Put") && len(e.Call.Args) == 1 && ObjOf(info, e.Call.Args[0]) == conn {
					// on the path where Submit answered an error the producer never started: the spawner still owns the connection (D43)
					if si >= 0 && !e.Deferred && UseOfResult(fl, p, si).Verdict == "nonnil" {
						continue
					}
					if (submitted || e.Deferred) && pathSubmits(p) && bad == "" {
						bad = short + " returns the pooled connection to the pool itself (at function exit) while the producer it submitted still executes the query on it: the connection is reused concurrently"
					}
				}
			}
		}
		// and the producer must release it
		released := false
		ast.Inspect(lit.Body, func(n ast.Node) bool {
			if c, ok := n.(*ast.CallExpr); ok {
				if sel, ok := ast.Unparen(c.Fun).(*ast.SelectorExpr); ok && sel.Sel.Name == "Put" && len(c.Args) == 1 && ObjOf(info, c.Args[0]) == conn {
					released = true
				}
			}
			return true
		})
		if !released && bad == "" {
			bad = "the producer of " + short + " never returns its connection to the pool"
		}
	}
	r.Check(rule, short+":connection-owned-by-producer", lit.Pos(), bad == "", "%s", orOK(bad, "the producer releases the connection; the spawner does not"))
	// a connection taken on a path that returns before the producer is submitted must be given back
	leak := ""
	for i := range paths {
		p := &paths[i]
		if p.Exit != ExitReturn || pathSubmits(p) {
			continue
		}
		taken, put := false, false
		for ci, e := range p.Ev {
			if e.Kind == EvCall && strings.HasSuffix(CalleeKey(e), "sqlitex.Pool.Take") && UseOfResult(fl, p, ci).Verdict == "nil" {
				taken = true
			}
			if e.Kind == EvCall && strings.HasSuffix(CalleeKey(e), "sqlitex.Pool.Put") {
				put = true
			}
		}
		if taken && !put && leak == "" {
			leak = short + " returns early (guard " + ExitGuardKey(fl, p) + ") with a pooled connection it took and never gives back: the pool is exhausted and every later call blocks forever"
		}
	}
	r.Check(rule, short+":no-connection-leak-on-early-return", fn.Decl.Pos(), leak == "", "%s", orOK(leak, "every early return gives the connection back"))
}

func pathSubmits(p *Path) bool {
	for _, e := range p.Ev {
		if IsCall(e, keySubmit) {
			return true
		}
	}
	return false
}

func ruleListQuery(r *Run, rule string, m *sqliteModel) {
	fn := r.fnByKey(rule, sqlKey("reader.List"))
	if fn == nil {
		return
	}
	var sql SQLStmt
	found := false
	for _, rr := range m.readers {
		if rr.Fn == fn {
			sql, found = rr.SQL, true
		}
	}
	if !found {
		r.Unresolved(rule, "List query")
		return
	}
	ob := strings.ToLower(strings.Join(strings.Fields(sql.OrderBy), " "))
	r.Check(rule, "List:newest-first", fn.Decl.Pos(), ob == "submit_time desc", "List must be ordered `submit_time DESC` (found %q)", sql.OrderBy)
	// LIMIT bound iff limit > 0
	fl, paths, ok := r.flowPaths(rule, fn)
	if !ok {
		return
	}
	bad := ""
	seenPos, seenNon := false, false
	for i := range paths {
		p := &paths[i]
		limited := ""
		appended, boundL := false, false
		for _, e := range p.Ev {
			if e.Kind == EvBranch && e.Cond != nil {
				for _, c := range FindCmps(fl.Info, e.Cond, func(x ast.Expr) bool {
					o := ObjOf(fl.Info, x)
					return o != nil && o.Name() == "limit"
				}, nil) {
					if ast.Unparen(e.Cond) != c.Expr {
						continue
					}
					if mm, ok := c.ImpliesGE(fl.Info, e.Taken); ok && mm >= 1 {
						limited = "positive"
					} else if mm, ok := c.ImpliesGE(fl.Info, !e.Taken); ok && mm >= 1 {
						limited = "nonpositive"
					} else {
						limited = "unclear"
					}
				}
			}
			if e.Kind == EvAssign && len(e.Rhs) == 1 {
				if s, ok := ConstString(fl.Info, e.Rhs[0]); ok && strings.Contains(strings.ToUpper(s), "LIMIT") {
					appended = true
				}
				if ie, ok := ast.Unparen(e.Lhs[0]).(*ast.IndexExpr); ok {
					if s, ok := ConstString(fl.Info, ie.Index); ok && s == "$limit" {
						boundL = true
					}
				}
			}
		}
		switch limited {
		case "positive":
			seenPos = true
			if (!appended || !boundL) && bad == "" {
				bad = "with limit > 0 the query gets LIMIT=" + boolStr(appended) + " and $limit bound=" + boolStr(boundL)
			}
		case "nonpositive":
			seenNon = true
			if (appended || boundL) && bad == "" {
				bad = "a non-positive limit still adds a LIMIT clause (LIMIT 0 returns nothing, a negative bound value is meaningless)"
			}
		case "unclear":
			if bad == "" {
				bad = "the limit test is not of the form limit > 0"
			}
		}
	}
	if (!seenPos || !seenNon) && bad == "" {
		bad = "List does not branch on limit > 0 both ways"
	}
	r.Check(rule, "List:limit-iff-positive", fn.Decl.Pos(), bad == "", "%s", orOK(bad, "LIMIT $limit appended and bound exactly when limit > 0"))
}

// placeholders for the cosmosdb rules (filled in rules_cosmos.go)

// nilnessOfObj: NilnessAt for a variable given by its object (searches the path for an identifier that denotes it).
func nilnessOfObj(info *types.Info, p *Path, idx int, obj types.Object) string {
	var id *ast.Ident
	for j := idx; j >= 0 && id == nil; j-- {
		e := p.Ev[j]
		visit := func(n ast.Node) {
			if n == nil {
				return
			}
			ast.Inspect(n, func(x ast.Node) bool {
				if i, ok := x.(*ast.Ident); ok && id == nil && info.ObjectOf(i) == obj {
					id = i
				}
				return id == nil
			})
		}
		if e.Cond != nil {
			visit(e.Cond)
		}
		for _, l := range e.Lhs {
			visit(l)
		}
		for _, l := range e.Rhs {
			visit(l)
		}
	}
	if id == nil {
		return ""
	}
	return NilnessAt(info, p, idx, id)
}

// ruleSubmitErrorHandled (D43): a vault function that hands its work — and with it the duty to close the result stream
// and to give the connection back — to the worker pool looks at what Pool.Submit answers. Submit does not run a function
// whose context is already done; the stream handed out with a nil error was then never closed, and the sqlite vault
// lost its only connection. Per Pool.Submit call in the two vault packages: the error is tested and the failing
// branch returns an error.
func ruleSubmitErrorHandled(r *Run, rule string) {
	n := 0
	for _, fn := range r.P.sortedFuncs() {
		rel := relPkg(fn.Pkg.PkgPath)
		if fn.Decl.Body == nil || (rel != pkgSqlite && rel != pkgCosmos) {
			continue
		}
		file := r.P.Fset.Position(fn.Decl.Pos()).Filename
		if strings.HasSuffix(file, "_test.go") || strings.HasSuffix(file, "fake_storage.go") || strings.HasSuffix(file, "testing.go") {
			continue
		}
		has := false
		ast.Inspect(fn.Decl.Body, func(x ast.Node) bool {
			if c, ok := x.(*ast.CallExpr); ok {
				if f, ok := calleeFunc(fn.Pkg.TypesInfo, c); ok && strings.HasSuffix(FuncKey(f), "worker.Pool.Submit") {
					has = true
				}
			}
			return !has
		})
		if !has {
			continue
		}
		fl, paths, ok := r.flowPaths(rule, fn)
		if !ok {
			continue
		}
		paths = OwnOnly(paths)
		bad := ""
		var bpos token.Pos = fn.Decl.Pos()
		seen := false
		for i := range paths {
			p := &paths[i]
			for ci, e := range p.Ev {
				if e.Kind != EvCall || e.Deferred || !strings.HasSuffix(CalleeKey(e), "worker.Pool.Submit") {
					continue
				}
				seen = true
				bpos = e.Pos
				u := UseOfResult(fl, p, ci)
				switch u.Verdict {
				case "nonnil":
					if msg := LostAfterNonNil(fl, p, u); msg != "" && bad == "" {
						bad = "the error of Pool.Submit is tested but does not reach the caller (" + msg + ")"
					}
				case "nil":
				default:
					if bad == "" {
						bad = "the error of Pool.Submit is " + orOK(u.Kind, "not used") + ": with a context that is already done the function is not run, so the stream this call hands out is never closed (and the connection it took is never given back)"
					}
				}
			}
		}
		if !seen {
			continue
		}
		n++
		r.Check(rule, "submit-error-handled:"+ShortFn(fn.Key), bpos, bad == "", "%s", orOK(bad, "tested, failing branch returns the error"))
	}
	if n == 0 {
		r.Unresolved(rule, "Pool.Submit calls in the vault packages")
	}
}

// classifiedBetween: between the non-nil test of an error and the return, the path took a branch on a classifier of that very
// error — a call that is given the error (isNotFound(err), errors.Is(err, …), errors.As) answered true. Mapping one
// recognised error to a value ("not found" ⇒ false, nil) is not dropping it.
func classifiedBetween(info *types.Info, p *Path, from, to int, errVar types.Object) bool {
	if errVar == nil {
		return false
	}
	for j := from; j < to && j < len(p.Ev); j++ {
		e := p.Ev[j]
		if e.Kind != EvBranch || e.Cond == nil || !e.Taken {
			continue
		}
		found := false
		ast.Inspect(e.Cond, func(n ast.Node) bool {
			c, ok := n.(*ast.CallExpr)
			if !ok || found {
				return true
			}
			for _, a := range c.Args {
				if ObjOf(info, a) == errVar {
					found = true
				}
			}
			return true
		})
		if found {
			return true
		}
	}
	return false
}

// rulePoolPairing (second mutation sweep): the sqlite vault has ONE connection. Every function that takes it gives it back on
// every exit — by a Put of that connection in place or deferred, or by handing it to a submitted producer whose literal
// Puts it (Search/List). Per pool.Take call site of the package: on every returning path on which Take did not fail, a
// Put of the taken connection follows (certain deferred calls count), or a Submit of a literal that Puts it. A single
// leak — deleting the `defer pool.Put(conn)` of Exists passed every test — blocks every later call on the vault.
func rulePoolPairing(r *Run, rule string) {
	n := 0
	for _, fn := range r.P.sortedFuncs() {
		if relPkg(fn.Pkg.PkgPath) != pkgSqlite || fn.Decl.Body == nil {
			continue
		}
		file := r.P.Fset.Position(fn.Decl.Pos()).Filename
		if strings.HasSuffix(file, "_test.go") {
			continue
		}
		info := fn.Pkg.TypesInfo
		takes := false
		ast.Inspect(fn.Decl.Body, func(x ast.Node) bool {
			if c, ok := x.(*ast.CallExpr); ok {
				if f, ok := calleeFunc(info, c); ok && strings.HasSuffix(FuncKey(f), "sqlitex.Pool.Take") {
					takes = true
				}
			}
			return !takes
		})
		if !takes {
			continue
		}
		fl, paths, ok := r.flowPaths(rule, fn)
		if !ok {
			continue
		}
		paths = OwnOnly(paths)
		bad := ""
		var bpos token.Pos = fn.Decl.Pos()
		seen := false
		for i := range paths {
			p := &paths[i]
			if p.Exit != ExitReturn {
				continue
			}
			for ci, e := range p.Ev {
				if e.Kind != EvCall || e.Deferred || !strings.HasSuffix(CalleeKey(e), "sqlitex.Pool.Take") {
					continue
				}
				seen = true
				bpos = e.Pos
				// the connection variable
				var conn types.Object
				for x := ci; x < len(p.Ev) && x <= ci+1; x++ {
					if a := p.Ev[x]; a.Kind == EvAssign && len(a.Lhs) == 2 && len(a.Rhs) == 1 {
						if c, ok := ast.Unparen(a.Rhs[0]).(*ast.CallExpr); ok && c == e.Call {
							conn = ObjOf(info, a.Lhs[0])
						}
					}
				}
				if conn == nil {
					continue
				}
				if UseOfResult(fl, p, ci).Verdict == "nonnil" {
					continue // Take failed: there is nothing to give back
				}
				released := false
				for x := ci + 1; x < len(p.Ev); x++ {
					ev := p.Ev[x]
					if ev.Kind == EvCall && !ev.Maybe && strings.HasSuffix(CalleeKey(ev), "sqlitex.Pool.Put") && ev.Call != nil && len(ev.Call.Args) == 1 && ObjOf(info, ev.Call.Args[0]) == conn {
						released = true
					}
					if IsCall(ev, keySubmit) && ev.Call != nil {
						if l := LitArg(ev.Call); l != nil {
							ast.Inspect(l.Body, func(y ast.Node) bool {
								if c, ok := y.(*ast.CallExpr); ok {
									if sel, ok := ast.Unparen(c.Fun).(*ast.SelectorExpr); ok && sel.Sel.Name == "Put" && len(c.Args) == 1 && ObjOf(info, c.Args[0]) == conn {
										released = true
									}
								}
								return true
							})
						}
					}
				}
				if !released && bad == "" {
					bad = ShortFn(fn.Key) + " takes the vault's connection and returns without giving it back (exit guard " + ExitGuardKey(fl, p) + "): the pool has one connection, every later call on the vault blocks"
				}
			}
		}
		if !seen {
			continue
		}
		n++
		r.Check(rule, "connection-given-back:"+ShortFn(fn.Key), bpos, bad == "", "%s", orOK(bad, "Put on every exit after a successful Take"))
	}
	if n == 0 {
		r.Unresolved(rule, "pool.Take call sites in package sqlite")
	}
}

// ruleExistsAnswer (second mutation sweep): Exists answers true exactly when the row count of its `SELECT COUNT(*) … WHERE id = ?`
// is positive. Decided on the paths of reader.Exists after canonicalisation (`return c > 0, nil` is `if c > 0 { return true,
// nil }; return false, nil`): the variable assigned from stmt.ColumnInt(0) in the result function is the one tested,
// `true` is returned only on a path that established count > 0 (or ≥ 1, ≠ 0 with the negative case refused before,
// == 1), and no path that established that returns false. The comparison is over one integer: the set of accepted
// spellings is finite.
func ruleExistsAnswer(r *Run, rule string) {
	fn := r.fnByKey(rule, sqlKey("reader.Exists"))
	if fn == nil {
		return
	}
	fl, paths, ok := r.flowPaths(rule, fn)
	if !ok {
		return
	}
	paths = OwnOnly(paths)
	info := fl.Info
	// the count variable: assigned from ColumnInt(0) (possibly inside the result function literal)
	var count types.Object
	ast.Inspect(fn.Decl.Body, func(x ast.Node) bool {
		as, ok := x.(*ast.AssignStmt)
		if !ok || len(as.Lhs) != 1 || len(as.Rhs) != 1 {
			return true
		}
		if c, ok := ast.Unparen(as.Rhs[0]).(*ast.CallExpr); ok {
			if sel, ok := ast.Unparen(c.Fun).(*ast.SelectorExpr); ok && (sel.Sel.Name == "ColumnInt" || sel.Sel.Name == "ColumnInt64") && len(c.Args) == 1 {
				if k, isC := ConstInt(info, c.Args[0]); isC && k == 0 {
					count = ObjOf(info, as.Lhs[0])
				}
			}
		}
		return true
	})
	if count == nil {
		r.Unresolved(rule, "Exists reads column 0 of its COUNT(*) query into a variable")
		return
	}
	// positive(e, taken): the branch establishes count > 0 / establishes count <= 0 / says nothing
	positive := func(e Event) string {
		if e.Kind != EvBranch || e.Cond == nil {
			return ""
		}
		be, ok := ast.Unparen(e.Cond).(*ast.BinaryExpr)
		if !ok || ObjOf(info, be.X) != count {
			return ""
		}
		k, isC := ConstInt(info, be.Y)
		if !isC {
			return ""
		}
		var whenTrue string
		switch {
		case be.Op == token.GTR && k == 0, be.Op == token.GEQ && k == 1, be.Op == token.NEQ && k == 0, be.Op == token.EQL && k == 1:
			whenTrue = "pos"
		case be.Op == token.LEQ && k == 0, be.Op == token.LSS && k == 1, be.Op == token.EQL && k == 0:
			whenTrue = "nonpos"
		default:
			return "other"
		}
		if e.Taken {
			return whenTrue
		}
		if whenTrue == "pos" {
			return "nonpos"
		}
		return "pos"
	}
	bad := ""
	var bpos token.Pos = fn.Decl.Pos()
	nT, nF := 0, 0
	for i := range paths {
		p := &paths[i]
		if p.Exit != ExitReturn {
			continue
		}
		state := ""
		for _, e := range p.Ev {
			if s := positive(e); s == "pos" || s == "nonpos" {
				state = s
			} else if s == "other" && state == "" {
				state = "other"
			}
			if e.Kind != EvReturn || e.Deferred || len(e.Rhs) != 2 || ValueKey(info, e.Rhs[1]) != "nil" {
				continue
			}
			switch ValueKey(info, e.Rhs[0]) {
			case "true":
				nT++
				if state != "pos" && bad == "" {
					bad, bpos = "Exists answers true on a path that did not establish that the counted rows are positive (it established: "+orOK(state, "nothing")+"): a plan that was never created, or was deleted, exists", e.Pos
				}
			case "false":
				nF++
				if state == "pos" && bad == "" {
					bad, bpos = "Exists answers false on a path that established a positive row count", e.Pos
				}
			default:
				// `return count > 0, nil`: the comparison itself is the answer
				cls := positive(Event{Kind: EvBranch, Cond: e.Rhs[0], Taken: true})
				if cls == "pos" {
					nT++
					nF++
					break
				}
				if bad == "" {
					bad, bpos = "Exists returns "+ExprStr(e.Rhs[0])+", which is not true exactly for a positive row count: a plan that was never created (or was deleted) exists, or a stored one does not", e.Pos
				}
			}
		}
	}
	if nT == 0 || nF == 0 {
		if bad == "" {
			bad = "Exists does not answer both true and false with a nil error"
		}
	}
	r.Check(rule, "Exists:true-iff-row-count-positive", bpos, bad == "", "%s", orOK(bad, "true ⇔ count > 0"))
}

// ruleOneStatementPerStream (round-4 seed C15-7): "newest submission first" is decided by the ORDER BY of the statement (R2,
// R4), so it holds for the stream only if the stream is fed by the rows of ONE statement execution. A producer that executes
// the statement several times (one query per batch of ids, per status, per page of its own making) and pushes all rows onto
// the same stream delivers runs that are each sorted but whose concatenation is not — and a row matching two executions
// twice. On no path, and on no prefix cut at the loop bound, does the producer of Search/List execute more than one
// row-producing statement.
func ruleOneStatementPerStream(r *Run, rule, key string) {
	fn := r.fnByKey(rule, key)
	if fn == nil {
		return
	}
	_, paths, ok := r.flowPaths(rule, fn)
	if !ok {
		return
	}
	var lit *ast.FuncLit
	var ch types.Object
	for i := range paths {
		for _, e := range paths[i].Ev {
			if IsCall(e, keySubmit) {
				lit = LitArg(e.Call)
			}
			if e.Kind == EvReturn && len(e.Rhs) == 2 {
				if o := ObjOf(fn.Pkg.TypesInfo, e.Rhs[0]); o != nil {
					if _, isCh := o.Type().Underlying().(*types.Chan); isCh {
						ch = o
					}
				}
			}
		}
	}
	short := ShortFn(key)
	if lit == nil {
		r.Unresolved(rule, key+" feeds its stream from a submitted literal")
		return
	}
	lf, lp, ok := r.litPaths(rule, lit)
	if !ok {
		return
	}
	bad := ""
	var bpos token.Pos = lit.Pos()
	most := 0
	all := append(append([]Path{}, lp...), lf.Truncated()...)
	for i := range all {
		p := &all[i]
		n := 0
		for _, e := range p.Ev {
			// a statement feeds the stream when its call mentions the stream (the ResultFunc sends on it); a PRAGMA or a count
			// executed on the side does not
			if e.Kind == EvCall && sqliteExecKeys[CalleeKey(e)] && (ch == nil || mentionsObj(lf.Info, e.Call, ch)) {
				n++
				if n == 2 && bad == "" {
					bad, bpos = "the producer of "+short+"'s stream executes a row-producing statement more than once for one stream: each execution is ordered newest first, their concatenation is not, and a plan matching two of them is delivered twice", e.Pos
				}
			}
		}
		if n > most {
			most = n
		}
	}
	if most == 0 {
		r.Unresolved(rule, "the statement the producer of "+short+" executes")
		return
	}
	r.Check(rule, short+":one-statement-per-stream", bpos, bad == "", "%s", orOK(bad, "one statement execution feeds the stream"))
}
