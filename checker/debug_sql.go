package main

import (
	"fmt"
	"sort"
)

func dumpSQLModel(p *Prog) {
	r := NewRun(p, "C13", "quick")
	m := buildSqliteModel(r, "R0")
	if m == nil {
		fmt.Println("no model")
		return
	}
	for t, s := range m.tables {
		fmt.Println("TABLE", t, s.Cols)
	}
	for _, w := range m.writers {
		fmt.Printf("WRITER %s %s %s obj=%s\n", w.Fn.Key, w.SQL.Kind, w.SQL.Table, w.ObjType)
		var ks []string
		for k := range w.Binds {
			ks = append(ks, k)
		}
		sort.Strings(ks)
		for _, k := range ks {
			b := w.Binds[k]
			fmt.Printf("   %-18s %-5s always=%-5v src=%s\n", k, b.Class, b.Always, b.Src)
		}
	}
	for _, rr := range m.readers {
		fmt.Printf("READER %s %s %s cols=%d where=%v order=%q quoted=%v\n", rr.Fn.Key, rr.SQL.Kind, rr.SQL.Table, len(rr.SQL.Cols), rr.SQL.Where, rr.SQL.OrderBy, rr.SQL.Quoted)
		for _, c := range rr.Reads {
			fmt.Printf("   %-18s %-5s dest=%s\n", c.Col, c.Class, c.Dest)
		}
	}
}
