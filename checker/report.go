package main

import (
	"encoding/json"
	"fmt"
	"go/token"
	"os"
	"path/filepath"
	"sort"
	"strings"
	"time"
)

// Status of one obligation.
const (
	StOK         = "ok"
	StViolation  = "violation"
	StUndecided  = "undecided"
	StUnresolved = "unresolved"
)

// Obligation is one evaluated rule instance.
type Obligation struct {
	Rule   string `json:"rule"`           // e.g. C01-R3
	Key    string `json:"key"`            // stable construct key (never a line number)
	Site   string `json:"site,omitempty"` // file:line on the current tree
	Status string `json:"status"`
	Msg    string `json:"msg"`
	Kind   string `json:"kind,omitempty"` // rule kind K1..K11
}

// KnownFinding is an entry of /verif/known_findings.json.
type KnownFinding struct {
	Property string `json:"property"`
	Rule     string `json:"rule"`
	Key      string `json:"key"`
	Status   string `json:"status"` // known | fixed
	Commit   string `json:"commit,omitempty"`
	What     string `json:"what"`
}

// Run is the evaluation of one property.
type Run struct {
	Prop  string
	Tier  string
	P     *Prog
	Obls  []Obligation
	Evals int // constructs inspected (call sites, paths, fields, statements)
	Paths int
	Funcs map[string]bool
	Notes []string
	start time.Time

	ruleKinds map[string]string
	expects   []expectation
}

type expectation struct {
	rule string
	min  int
}

func NewRun(p *Prog, prop, tier string) *Run {
	r := &Run{Prop: prop, Tier: tier, P: p, Funcs: map[string]bool{}, start: procStart, ruleKinds: map[string]string{}}
	for _, n := range p.RenameNotes {
		r.Notes = append(r.Notes, "renamed anchor: "+n)
	}
	return r
}

func (r *Run) rule(n string) string {
	if strings.HasPrefix(n, "C") {
		return n
	}
	return r.Prop + "-" + n
}

// Kind registers the rule kind (K1..K11) of a rule for the evidence file.
func (r *Run) Kind(rule, kind string) { r.ruleKinds[r.rule(rule)] = kind }

func (r *Run) add(rule, key string, pos token.Pos, status, msg string) {
	r.Obls = append(r.Obls, Obligation{Rule: r.rule(rule), Key: key, Site: r.P.Pos(pos), Status: status, Msg: msg, Kind: r.ruleKinds[r.rule(rule)]})
}

// Check records an obligation that holds iff ok.
func (r *Run) Check(rule, key string, pos token.Pos, ok bool, format string, args ...any) bool {
	st := StOK
	if !ok {
		st = StViolation
	}
	r.add(rule, key, pos, st, fmt.Sprintf(format, args...))
	return ok
}

func (r *Run) Pass(rule, key string, pos token.Pos, format string, args ...any) {
	r.add(rule, key, pos, StOK, fmt.Sprintf(format, args...))
}

func (r *Run) Fail(rule, key string, pos token.Pos, format string, args ...any) {
	r.add(rule, key, pos, StViolation, fmt.Sprintf(format, args...))
}

func (r *Run) Undecided(rule, key string, pos token.Pos, format string, args ...any) {
	r.add(rule, key, pos, StUndecided, fmt.Sprintf(format, args...))
}

func (r *Run) Unresolved(rule, anchor string) {
	r.add(rule, "anchor:"+anchor, token.NoPos, StUnresolved, "anchor does not resolve: "+anchor)
}

// Note records an advisory remark (never affects the verdict).
func (r *Run) Note(format string, args ...any) { r.Notes = append(r.Notes, fmt.Sprintf(format, args...)) }

// Expect declares the minimal number of obligations a rule must produce
// (the instance count confirmed by hand); fewer is a failure (vacuity guard).
func (r *Run) Expect(rule string, confirmed int) {
	// Vacuity guard, not a change detector: the floor is two thirds of the count confirmed on the pinned
	// tree. Sites legitimately merge (three identical statements become one helper) or disappear with
	// the code they guarded; every construct that matters on its own has its own obligation or anchor.
	min := (confirmed*2 + 2) / 3
	if min < 1 {
		min = 1
	}
	r.expects = append(r.expects, expectation{r.rule(rule), min})
}

// Fn resolves a function anchor; an unresolved anchor is recorded and nil returned.
func (r *Run) Fn(rule, pkg, recv, name string) *Func {
	key := pkg + "."
	if recv != "" {
		key += recv + "."
	}
	key += name
	f := r.P.Funcs[key]
	if f == nil || f.Decl.Body == nil {
		r.Unresolved(rule, key)
		return nil
	}
	r.Funcs[key] = true
	return f
}

func (r *Run) finish() {
	counts := map[string]int{}
	for _, o := range r.Obls {
		counts[o.Rule]++
	}
	for _, e := range r.expects {
		if counts[e.rule] < e.min {
			r.add(e.rule, "instance-count", token.NoPos, StViolation,
				fmt.Sprintf("rule matched only %d instances; the floor is %d (two thirds of what was confirmed by hand on the pinned tree): the rule has lost its subjects and would pass vacuously", counts[e.rule], e.min))
		}
	}
}

type evidence struct {
	PropertyID  string         `json:"property_id"`
	Tier        string         `json:"tier"`
	Seed        int            `json:"seed"`
	Level       string         `json:"level"`
	Coverage    map[string]any `json:"coverage"`
	Assumptions []string       `json:"assumptions"`
	WallS       float64        `json:"wall_s"`
	Violations  int            `json:"violations"`
}

// Report prints findings, writes evidence and replay files, and returns the exit code.
func (r *Run) Report(outDir string, known []KnownFinding, info PropInfo, seed int) int {
	r.finish()
	type kf struct {
		k    KnownFinding
		used bool
	}
	var kfs []*kf
	for _, k := range known {
		if k.Property == r.Prop {
			kfs = append(kfs, &kf{k: k})
		}
	}
	replayDir := filepath.Join(outDir, "replay")
	os.MkdirAll(replayDir, 0o755)
	// remove stale replay files of this property
	if ents, err := os.ReadDir(replayDir); err == nil {
		for _, e := range ents {
			if strings.HasPrefix(e.Name(), r.Prop+"-") {
				os.Remove(filepath.Join(replayDir, e.Name()))
			}
		}
	}

	violations, undec, matched := 0, 0, 0
	discharged := 0
	distinct := map[string]bool{}
	var lines []string
	printedKnown := map[string]bool{}
	n := 0
	for _, o := range r.Obls {
		distinct[o.Rule+"|"+o.Key] = true
		if o.Status == StOK {
			discharged++
			continue
		}
		if o.Status == StViolation {
			var hit *kf
			for _, k := range kfs {
				if k.k.Status == "known" && k.k.Rule == o.Rule && k.k.Key == o.Key {
					hit = k
					break
				}
			}
			if hit != nil {
				hit.used = true
				matched++
				id := hit.k.Rule + "|" + hit.k.Key
				if !printedKnown[id] {
					printedKnown[id] = true
					lines = append(lines, fmt.Sprintf("KNOWN-FINDING: property=%s rule=%s key=%q %s (%s)", r.Prop, o.Rule, o.Key, hit.k.What, o.Site))
				}
				continue
			}
			violations++
		} else {
			undec++
		}
		n++
		rp := filepath.Join(replayDir, fmt.Sprintf("%s-%s-%d.json", r.Prop, strings.TrimPrefix(o.Rule, r.Prop+"-"), n))
		b, _ := json.MarshalIndent(o, "", " ")
		os.WriteFile(rp, append(b, '\n'), 0o644)
		tag := "VIOLATION"
		lines = append(lines, fmt.Sprintf("%s: %s [%s] %s key=%q: %s", strings.ToUpper(o.Status), o.Site, o.Rule, o.Kind, o.Key, o.Msg))
		lines = append(lines, fmt.Sprintf("%s property=%s replay=%s", tag, r.Prop, rp))
	}
	for _, k := range kfs {
		if k.k.Status == "known" && !k.used {
			lines = append(lines, fmt.Sprintf("NOTE: known finding no longer matches anything (stale): rule=%s key=%q", k.k.Rule, k.k.Key))
		}
	}
	for _, l := range lines {
		fmt.Println(l)
	}
	for _, nline := range r.Notes {
		fmt.Println("NOTE:", nline)
	}

	// samples: first few obligations of each rule
	perRule := map[string]int{}
	var samples []Obligation
	for _, o := range r.Obls {
		if perRule[o.Rule] < 2 {
			perRule[o.Rule]++
			samples = append(samples, o)
		}
	}
	var rules []string
	for k := range perRule {
		rules = append(rules, k)
	}
	sort.Strings(rules)
	ruleCounts := map[string]int{}
	for _, o := range r.Obls {
		ruleCounts[o.Rule]++
	}
	var fns []string
	for f := range r.Funcs {
		fns = append(fns, f)
	}
	sort.Strings(fns)
	fileSet := map[string]bool{}
	for _, k := range fns {
		if f := r.P.Funcs[k]; f != nil {
			fileSet[strings.SplitN(r.P.Pos(f.Decl.Pos()), ":", 2)[0]] = true
		}
	}
	for _, o := range r.Obls {
		if o.Site != "-" && o.Site != "" {
			fileSet[strings.SplitN(o.Site, ":", 2)[0]] = true
		}
	}
	var files []string
	for f := range fileSet {
		files = append(files, f)
	}
	sort.Strings(files)
	ev := evidence{
		PropertyID: r.Prop, Tier: r.Tier, Seed: seed, Level: "other",
		Coverage: map[string]any{
			"explanation":            info.Explanation + sessionTwo[info.ID],
			"rule":                   "one obligation per (rule, construct) instance found on the current tree; an instance is non-trivial when the rule's premise matched a construct of /repo (anchors resolved) and distinct when its (rule, construct-key) pair differs",
			"obligations":            len(r.Obls),
			"discharged":             discharged,
			"evaluations":            r.Evals + len(r.Obls),
			"distinct_nontrivial":    len(distinct),
			"samples":                samples,
			"functions_analysed":     fns,
			"files_analysed":         files,
			"paths_enumerated":       r.Paths,
			"rules":                  ruleCounts,
			"known_findings_matched": matched,
			"undecided":              undec,
			"not_decided":            info.NotDecided,
			"packages_loaded":        len(r.P.All),
			"checker_cmd":            fmt.Sprintf("./check %s %s", r.Prop, r.Tier),
			"trusted_base":           []string{"go/types, go/cfg, go/packages (x/tools v0.50.0, go1.26.8)", "coerlint rule tables and SQL mini-reader", "read semantics of statemachine.Run, exponential.Retry, worker Pool/Group, sqlitex.Transaction/Execute"},
			"exhaustive":             true,
			"notes":                  r.Notes,
		},
		Assumptions: info.Assumptions,
		WallS:       time.Since(r.start).Seconds(),
		Violations:  violations + undec,
	}
	b, _ := json.MarshalIndent(ev, "", " ")
	os.MkdirAll(outDir, 0o755)
	if err := os.WriteFile(filepath.Join(outDir, r.Prop+".json"), append(b, '\n'), 0o644); err != nil {
		fmt.Println("ERROR: cannot write evidence:", err)
		return 2
	}
	fmt.Printf("%s %s: %d obligations, %d discharged, %d known findings, %d violations, %d undecided/unresolved (%.1fs)\n",
		r.Prop, r.Tier, len(r.Obls), discharged, matched, violations, undec, time.Since(r.start).Seconds())
	if violations+undec > 0 {
		return 1
	}
	return 0
}

func loadKnown(path string) ([]KnownFinding, error) {
	b, err := os.ReadFile(path)
	if err != nil {
		if os.IsNotExist(err) {
			return nil, nil
		}
		return nil, err
	}
	var doc struct {
		Findings []KnownFinding `json:"findings"`
	}
	if err := json.Unmarshal(b, &doc); err != nil {
		return nil, err
	}
	return doc.Findings, nil
}

// sessionTwo: clauses added in session 2 (DESIGN.md section 4 marks them "round-3 seed", "mutation sweep" or D31–D42).
var sessionTwo = map[string]string{
	"C01": " Added in session 2: the plan executes under a context detached from the caller of Start (R2). Pending pre-checks are always run (assume present∧NotStarted and refute).",
	"C02": " Added in session 2: no function but a constructor assigns a field of the sm.States / actions.Runner value all plans share (R5); the plugin gets the timeout context of run() (R6).",
	"C03": " Added in session 2: finished sequences are never launched again, so a failure stored before a restart is counted once (R2); fixPlan classifies each block by its status after fixBlock (R4); a passing continuous-check result never waits for a reader (R5). fixSeq records a sequence with a failed action as Failed and Completed only with every action completed; execSeq answers for a Failed sequence with its failure (R4).",
	"C04": " Added in session 2: examineChecks scans every group (assume-and-refute per iteration, R5); routing in the verdict machine follows the examined facts and only `end` stops without an error (R6); the result channels are made before any state uses them (R4); (R8) whoever assigns a terminal status stamps State.End or delegates to BlockEnd/End, which stamp on every exit. The cancel function of a block's continuous checks reaches Data.blocks[0] (R4).",
	"C05": " Added in session 2: the result channel is made by run() for that invocation (R4); (R7) recovery never leaves an action with a finished last attempt Running. Runner.Start stops without an error only for an action established Completed or Failed (R5).",
	"C06": " Added in session 2: a present bypass group is evaluated unless already Failed (R1); examineBypasses is true exactly for present∧Completed (R3); a recovered scope whose PreChecks are Completed still gets the first ContChecks run, and a gate durably Failed at the crash fails the scope in fixBlock/fixPlan (R4). Pending pre-checks are always run (R4).",
	"C07": " Added in session 2: only failed results must be delivered (with a send that cannot be skipped), passing ones never wait for a reader, a failed run does not go round the loop again (R1); (R6) once fixPlan assigned Failed nothing later on the path gives the plan another status. runContChecks returns when cancelled (R1); post/deferred check states run a pending group and fixPlan declares a plan Completed only with its PostChecks and DeferredChecks done (R4).",
	"C08": " Added in session 2 (R1): a plan state that marks the plan or head block Running writes it before returning, and Start / ExecuteBlock / execSeq mark their object Running before the work starts.",
	"C09": " Added in session 2: skipBlock answers true exactly for a block whose own status is terminal (R1); fixPlan/fixBlock/fixSeq classify each child after repairing it (R2). The launch loop passes over finished sequences without leaving the loop, execSeq returns the failure of a Failed sequence, Runner.Start silent stop only for finished actions (R1); fixSeq verdicts (R2).",
	"C10": " Added in session 2: no vault call from inside a loop consuming a vault stream (R1); End stores the plan after its children, failure verdicts of fix* are sticky, children are classified after repair, the cont-check channels are made on the Recovery path, BlockPostChecks/BlockDeferredChecks never pass over a present group that is already Failed (R3). Every self-edge of ExecuteBlock shrinks the block queue; launch-loop, fixSeq, fixPlan-Completed and Runner.Start rules (R3).",
	"C11": " Added in session 2: the stale plan is written after everything it contains (R3). lastUpdate reads the Start and End of every attempt (R2).",
	"C12": " Added in session 2: the job that runs the plan is submitted under a context made in runPlan and a refused Start reaches no mutating vault method (R1); the walkers never hand a nil child on (R4); (R7) nil-then-dereference contradiction rule and index-past-end lint over every package the five API calls reach.",
	"C13": " Added in session 2: a stored cosmos document is decoded into a value made for that call (R6); (R8) the create transaction watches the error Create returns. (R9) error discipline over everything Read, Exists and the Update* entry points of both vaults reach: every error-producing call site returns, wraps or classifies its error.",
	"C14": " Added in session 2: when the transaction watches a variable that is not the named result every return after the registration returns it (R1); no retry operation adds to, or hands on by address, a batch made outside it (R5). The response of every ExecuteTransactionalBatch is examined (R5).",
	"C15": " Added in session 2 (R5): a cosmos retry operation uses the context its loop runs under; cosmosdb.New assigns a component's swarm before copying the component. The error of Pool.Submit is tested in Search/List of both vaults (R3).",
	"C16": " Added in session 2 (R1): request defaults precede Validate; an action arriving with a register is refused at once. (R9) error discipline over the admission path: Submit, Start, the Validate chain, the start validators and Register.",
	"C17": " Added in session 2 (R1): an embedded struct is examined whatever the name of its type; a struct value is exempted from scrubbing only by the time.Time test, applied to the dispatched value.",
	"C18": " Added in session 2: append counts as a copy only with a destination that cannot lend its array (R2); (R5) the time.Time exemption of the scrub pass tests the dispatched value.",
	"C20": " Added in session 2 (R1): every error Plan() hands out, and every error Reset() hands out after touching the builder, is b.err or the result of setErr.",
}
