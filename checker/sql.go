package main

import (
	"fmt"
	"regexp"
	"strings"
)

// SQLStmt is one parsed statement of the five forms the repository uses.
type SQLStmt struct {
	Kind    string // create | insert | update | select | delete | index | other
	Table   string
	Cols    []string          // create: declared; insert: listed; update: SET columns; select: selected
	Types   map[string]string // create: column → declared type (upper case)
	NotNull map[string]bool   // create
	PK      map[string]bool   // create
	Params  []string          // $placeholders in order of appearance (insert: VALUES list)
	SetParm map[string]string // update: column → $param
	Where   []SQLPred         // where predicates (column op rhs)
	WhereRaw string
	OrderBy string // "col ASC|DESC"
	Limit   string
	Raw     string
	Quoted  []string // single-quoted literals that appear where an identifier is expected
}

type SQLPred struct {
	LHS, Op, RHS string
	LHSQuoted    bool
}

var (
	reWS      = regexp.MustCompile(`\s+`)
	reCreate  = regexp.MustCompile(`(?is)^create\s+table\s+(?:if\s+not\s+exists\s+)?['"]?(\w+)['"]?\s*\((.*)\)\s*;?\s*$`)
	reInsert  = regexp.MustCompile(`(?is)^insert\s+into\s+['"]?(\w+)['"]?\s*\((.*?)\)\s*values\s*\((.*)\)\s*;?\s*$`)
	reUpdate  = regexp.MustCompile(`(?is)^update\s+['"]?(\w+)['"]?\s+set\s+(.*?)\s+where\s+(.*?)\s*;?\s*$`)
	reSelect  = regexp.MustCompile(`(?is)^select\s+(.*?)\s+from\s+('?"?\w+"?'?)(?:\s+where\s+(.*?))?(?:\s+order\s+by\s+(.*?))?(?:\s+limit\s+(.*?))?\s*;?\s*$`)
	reDelete  = regexp.MustCompile(`(?is)^delete\s+from\s+('?"?\w+"?'?)\s+where\s+(.*?)\s*;?\s*$`)
	reParam   = regexp.MustCompile(`\$\w+`)
	rePred    = regexp.MustCompile(`(?is)^\s*('?"?[\w.]+"?'?)\s*(=|!=|<>|<=|>=|<|>|\bin\b)\s*(.+?)\s*$`)
	reAndSplit = regexp.MustCompile(`(?i)\s+and\s+`)
)

// ParseSQL parses one statement; Kind "other" when the form is not recognised.
func ParseSQL(q string) SQLStmt {
	raw := q
	q = strings.TrimSpace(reWS.ReplaceAllString(q, " "))
	s := SQLStmt{Kind: "other", Raw: raw, Types: map[string]string{}, NotNull: map[string]bool{}, PK: map[string]bool{}, SetParm: map[string]string{}}
	low := strings.ToLower(q)
	switch {
	case strings.HasPrefix(low, "create index"):
		s.Kind = "index"
	case strings.HasPrefix(low, "create table"):
		m := reCreate.FindStringSubmatch(q)
		if m == nil {
			return s
		}
		s.Kind, s.Table = "create", strings.ToLower(m[1])
		for _, def := range splitTop(m[2]) {
			f := strings.Fields(def)
			if len(f) < 2 {
				continue
			}
			col := strings.ToLower(f[0])
			s.Cols = append(s.Cols, col)
			s.Types[col] = strings.ToUpper(f[1])
			rest := strings.ToUpper(strings.Join(f[2:], " "))
			s.NotNull[col] = strings.Contains(rest, "NOT NULL")
			s.PK[col] = strings.Contains(rest, "PRIMARY KEY")
		}
	case strings.HasPrefix(low, "insert"):
		m := reInsert.FindStringSubmatch(q)
		if m == nil {
			return s
		}
		s.Kind, s.Table = "insert", strings.ToLower(m[1])
		for _, c := range splitTop(m[2]) {
			s.Cols = append(s.Cols, strings.ToLower(strings.TrimSpace(c)))
		}
		for _, p := range splitTop(m[3]) {
			s.Params = append(s.Params, strings.TrimSpace(p))
		}
	case strings.HasPrefix(low, "update"):
		m := reUpdate.FindStringSubmatch(q)
		if m == nil {
			return s
		}
		s.Kind, s.Table = "update", strings.ToLower(m[1])
		for _, a := range splitTop(m[2]) {
			kv := strings.SplitN(a, "=", 2)
			if len(kv) != 2 {
				continue
			}
			col := strings.ToLower(strings.TrimSpace(kv[0]))
			s.Cols = append(s.Cols, col)
			s.SetParm[col] = strings.TrimSpace(kv[1])
		}
		s.parseWhere(m[3])
		s.Params = reParam.FindAllString(q, -1)
	case strings.HasPrefix(low, "select"):
		m := reSelect.FindStringSubmatch(q)
		if m == nil {
			return s
		}
		s.Kind = "select"
		s.Table = s.ident(m[2])
		for _, c := range splitTop(m[1]) {
			s.Cols = append(s.Cols, strings.ToLower(strings.TrimSpace(c)))
		}
		s.parseWhere(m[3])
		s.OrderBy = strings.TrimSpace(m[4])
		s.Limit = strings.TrimSpace(m[5])
		s.Params = reParam.FindAllString(q, -1)
	case strings.HasPrefix(low, "delete"):
		m := reDelete.FindStringSubmatch(q)
		if m == nil {
			return s
		}
		s.Kind = "delete"
		s.Table = s.ident(m[1])
		s.parseWhere(m[2])
		s.Params = reParam.FindAllString(q, -1)
	}
	return s
}

// ident strips quotes from an identifier, recording single-quoted ones (string literals in SQL).
func (s *SQLStmt) ident(tok string) string {
	tok = strings.TrimSpace(tok)
	if strings.HasPrefix(tok, "'") {
		s.Quoted = append(s.Quoted, tok)
	}
	return strings.ToLower(strings.Trim(tok, `'"`))
}

func (s *SQLStmt) parseWhere(w string) {
	w = strings.TrimSpace(w)
	s.WhereRaw = w
	if w == "" {
		return
	}
	for _, part := range reAndSplit.Split(w, -1) {
		m := rePred.FindStringSubmatch(part)
		if m == nil {
			s.Where = append(s.Where, SQLPred{LHS: part, Op: "?"})
			continue
		}
		p := SQLPred{LHS: strings.ToLower(strings.Trim(m[1], `'"`)), Op: strings.ToLower(m[2]), RHS: m[3], LHSQuoted: strings.HasPrefix(m[1], "'")}
		s.Where = append(s.Where, p)
	}
}

// splitTop splits on commas that are not inside parentheses.
func splitTop(s string) []string {
	var out []string
	depth, start := 0, 0
	for i, r := range s {
		switch r {
		case '(':
			depth++
		case ')':
			depth--
		case ',':
			if depth == 0 {
				out = append(out, strings.TrimSpace(s[start:i]))
				start = i + 1
			}
		}
	}
	if t := strings.TrimSpace(s[start:]); t != "" {
		out = append(out, t)
	}
	return out
}

func (s SQLStmt) String() string {
	return fmt.Sprintf("%s %s cols=%v params=%v where=%v order=%q", s.Kind, s.Table, s.Cols, s.Params, s.Where, s.OrderBy)
}
