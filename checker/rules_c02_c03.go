package main

import (
	"strconv"
	"go/ast"
	"go/token"
	"go/types"
	"strings"
)

func init() {
	register(PropInfo{
		ID: "C02",
		Explanation: "All-paths decision of the structural clauses of C02 (DESIGN.md section 4, C02): (R1) the channel whose send guards every sequence launch and the Limited pool are both sized by the head block's Concurrency field; (R2) acquire/release pairing: every launch is preceded in its loop iteration by a send on that channel, the launched literal receives from it exactly once on every exit, and there is no other send/receive; (R3) the exit of ExecuteSequences that lets the block proceed, and fixBlock, join their group before returning, so sequences of two blocks never overlap; (R4) Block.Defaults floors Concurrency at 1; (R5) each plan is handed to exactly one state machine (runPlan callers, recover loop, aged-out plans removed from the resume list). Decides these necessary conditions, not the runtime count.",
		NotDecided:  []string{"the bound as a runtime count over schedules", "behaviour with several plans (the limiter is a local of one state invocation, hence per plan by construction)"},
		Assumptions: []string{"a buffered channel of capacity n admits at most n un-received sends", "worker.Group.Wait joins every Group.Go"},
		Rules:       rulesC02,
	})
	register(PropInfo{
		ID: "C03",
		Explanation: "All-paths decision of the structural clauses of C03 (DESIGN.md section 4, C03): (R1) every comparison of the failure counter with ToleratedFailures is `failures > tolerated` guarded by `tolerated >= 0`, at the launch test, inside the launched literal and after the join; (R2) the counter is incremented exactly for sequences already stored as Failed and on the failing branch of execSeq; (R3) no launch and no execSeq without a preceding negative threshold test; (R4) every path that finds the threshold exceeded fails the block and routes to the block's deferred checks, BlockEnd moves to the next block only with status Completed, finalStates.blocks fails the plan for any non-Completed block.",
		NotDecided:  []string{"the arithmetic bound ToleratedFailures+Concurrency as a count over schedules"},
		Assumptions: []string{"atomic.Int64 Add/Load are linearizable"},
		Rules:       rulesC03,
	})
}

// seqLaunch describes the launch site of sequences in ExecuteSequences.
type seqLaunch struct {
	fn    *Func
	fl    *Flow
	paths []Path
	lit   *ast.FuncLit // literal given to Group.Go that calls execSeq
	litFl *Flow
	litP  []Path
}

func findSeqLaunch(r *Run, rule string) *seqLaunch {
	fn := r.fnByKey(rule, smKey("ExecuteSequences"))
	if fn == nil {
		return nil
	}
	fl, paths, ok := r.flowPaths(rule, fn)
	if !ok {
		return nil
	}
	s := &seqLaunch{fn: fn, fl: fl, paths: paths}
	for i := range paths {
		for _, e := range paths[i].Ev {
			if IsCall(e, keyGroupGo) {
				if l := LitArg(e.Call); l != nil && callsFunc(fl.Info, l, smKey("execSeq")) {
					s.lit = l
				}
			}
		}
	}
	if s.lit == nil {
		r.Unresolved(rule, "ExecuteSequences launches execSeq through Group.Go")
		return nil
	}
	s.litFl, s.litP, ok = r.litPaths(rule, s.lit)
	if !ok {
		return nil
	}
	return s
}

// callsFunc: the syntax under root calls the function with this key — directly, or through helpers
// that have a single call site (the pieces a function or closure body was moved into).
func callsFunc(info *types.Info, root ast.Node, key string) bool {
	return callsFuncDepth(info, root, key, 0)
}

func callsFuncDepth(info *types.Info, root ast.Node, key string, depth int) bool {
	found := false
	ast.Inspect(root, func(n ast.Node) bool {
		if c, ok := n.(*ast.CallExpr); ok {
			if f, ok := calleeFunc(info, c); ok {
				k := FuncKey(f)
				if k == key {
					found = true
				} else if theProg != nil && depth < 3 {
					if callee := theProg.DeclOf(f); callee != nil && callee.Decl.Body != nil && len(theProg.CallGraph().Callers(k)) == 1 {
						if callsFuncDepth(callee.Pkg.TypesInfo, callee.Decl.Body, key, depth+1) {
							found = true
						}
					}
				}
			}
		}
		return !found
	})
	return found
}

// theProg is the program under analysis (set by Load) for helpers that only get a types.Info.
var theProg *Prog

func isLaunch(s *seqLaunch, e Event) bool {
	return IsCall(e, keyGroupGo) && LitArg(e.Call) == s.lit
}

// loopStart returns the index of the most recent loop-header event before i.
func loopStart(p *Path, i int) int {
	for j := i - 1; j >= 0; j-- {
		e := p.Ev[j]
		if e.Kind == EvRange && e.Taken {
			return j
		}
		if e.Kind == EvBranch && e.Taken {
			if _, isFor := forCond(e); isFor {
				return j
			}
		}
	}
	return -1
}

// forCond reports whether a branch event is the condition of a for statement
// (recognised through the block structure: the event position equals a ForStmt cond).
var forConds = map[ast.Expr]bool{}

func forCond(e Event) (ast.Expr, bool) {
	return e.Cond, forConds[e.Cond]
}

func indexForConds(root ast.Node) {
	ast.Inspect(root, func(n ast.Node) bool {
		if f, ok := n.(*ast.ForStmt); ok && f.Cond != nil {
			forConds[f.Cond] = true
		}
		return true
	})
}

func rulesC02(r *Run) {
	s := findSeqLaunch(r, "R1")
	if s == nil {
		return
	}
	indexForConds(s.fn.Decl)
	info := s.fl.Info
	isConc := func(e ast.Expr) bool {
		b, ok := FieldPath(info, e, "workflow.Block", "Concurrency")
		if !ok {
			return false
		}
		_, ok = FieldPath(info, b, "sm.block", "block")
		return ok
	}

	// ---- R1: sizes
	r.Kind("R1", "K11")
	// the limiter: the channel sent to before each launch
	var limiter types.Object
	limiterOK, limiterMsg := true, ""
	var limPos token.Pos
	launches := 0
	for i := range s.paths {
		p := &s.paths[i]
		for gi, e := range p.Ev {
			if !isLaunch(s, e) {
				continue
			}
			launches++
			ls := loopStart(p, gi)
			si := -1
			for j := gi - 1; j > ls && j >= 0; j-- {
				if p.Ev[j].Kind == EvSend {
					si = j
					break
				}
			}
			if si < 0 {
				if limiterOK {
					limiterOK, limiterMsg, limPos = false, "a path reaches the launch without sending on a limiter channel in the same loop iteration", e.Pos
				}
				continue
			}
			obj := PlaceID(info, p.Ev[si].Chan)
			if limiter == nil {
				limiter = obj
			}
			if obj == nil || obj != limiter {
				limiterOK, limiterMsg, limPos = false, "launches are guarded by different channels", e.Pos
			}
			// no receive on the limiter between the send and the launch
			for j := si + 1; j < gi; j++ {
				if p.Ev[j].Kind == EvRecv && PlaceID(info, p.Ev[j].Chan) == obj {
					limiterOK, limiterMsg, limPos = false, "the slot is released again before the launch", p.Ev[j].Pos
				}
			}
		}
	}
	r.Kind("R2", "K3")
	if launches == 0 {
		r.Unresolved("R2", "launch on some path")
		return
	}
	if limPos == 0 {
		limPos = s.lit.Pos()
	}
	r.Check("R2", "ExecuteSequences:acquire-before-launch", limPos, limiterOK && limiter != nil, "%s", orOK(limiterMsg, "every launch is preceded, in its loop iteration, by a send on the limiter with no release in between"))

	if limiter != nil {
		// capacity of the limiter
		capOK, capMsg := false, "definition `limiter := make(chan T, cap)` not found"
		var capPos token.Pos = s.fn.Decl.Pos()
		ast.Inspect(s.fn.Decl.Body, func(n ast.Node) bool {
			as, ok := n.(*ast.AssignStmt)
			if !ok || len(as.Lhs) != len(as.Rhs) {
				return true
			}
			for i, l := range as.Lhs {
				if PlaceID(info, l) != limiter {
					continue
				}
				capPos = as.Pos()
				c, ok := ast.Unparen(as.Rhs[i]).(*ast.CallExpr)
				if !ok {
					capMsg = "limiter is not created by make"
					continue
				}
				if id, ok := c.Fun.(*ast.Ident); !ok || id.Name != "make" || len(c.Args) != 2 {
					capMsg = "limiter is not a buffered channel made with an explicit capacity"
					continue
				}
				if isConc(stripConv(info, c.Args[1])) {
					capOK, capMsg = true, ""
				} else {
					capMsg = "limiter capacity is " + ExprStr(c.Args[1]) + ", not the head block's Concurrency"
				}
			}
			return true
		})
		r.Check("R1", "ExecuteSequences:limiter-capacity", capPos, capOK, "%s", orOK(capMsg, "cap(limiter) = h.block.Concurrency"))
	}
	// Limited(n)
	limitedSeen := false
	ast.Inspect(s.fn.Decl.Body, func(n ast.Node) bool {
		c, ok := n.(*ast.CallExpr)
		if !ok {
			return true
		}
		if f, ok := calleeFunc(info, c); ok && FuncKey(f) == keyLimited && len(c.Args) == 1 {
			limitedSeen = true
			r.Check("R1", "ExecuteSequences:pool-limit", c.Pos(), isConc(stripConv(info, c.Args[0])), "Limited(%s): the pool limit must be the head block's Concurrency", ExprStr(c.Args[0]))
		}
		return true
	})
	if !limitedSeen {
		r.Note("C02-R1: ExecuteSequences no longer uses a Limited pool; the limiter channel alone bounds concurrency")
	}
	r.Expect("R1", 1)

	// ---- R2 (cont.): release exactly once in the literal; no other send/recv
	if limiter != nil {
		bad := ""
		var bpos token.Pos = s.lit.Pos()
		for i := range s.litP {
			p := &s.litP[i]
			if p.Exit != ExitReturn {
				continue
			}
			n := 0
			for _, e := range p.Ev {
				if e.Kind == EvRecv && PlaceID(info, e.Chan) == limiter && !e.Maybe {
					n++
				}
			}
			if n != 1 && bad == "" {
				bad = "a path of the launched literal releases the limiter " + itoa(n) + " times (guard " + ExitGuardKey(s.litFl, p) + ")"
			}
			// the release must follow the work
			ri, wi := -1, -1
			for j, e := range p.Ev {
				if e.Kind == EvRecv && PlaceID(info, e.Chan) == limiter {
					ri = j
				}
				if IsCall(e, smKey("execSeq")) {
					wi = j
				}
			}
			if ri >= 0 && wi > ri && bad == "" {
				bad = "the launched literal releases its limiter slot before execSeq runs"
				bpos = p.Ev[ri].Pos
			}
		}
		r.Check("R2", "ExecuteSequences:release-once-per-launch", bpos, bad == "", "%s", orOK(bad, "the launched literal receives from the limiter exactly once on every exit"))
		sends, recvs := 0, 0
		var extraPos token.Pos
		// receive sites the launched literal executes (in place or in a helper spliced into its paths)
		litRecv := map[token.Pos]bool{}
		for i := range s.litP {
			for _, e := range s.litP[i].Ev {
				if e.Kind == EvRecv && PlaceID(info, e.Chan) == limiter {
					litRecv[e.Pos] = true
				}
			}
		}
		scan := func(body ast.Node, hinfo *types.Info) {
			ast.Inspect(body, func(n ast.Node) bool {
				switch x := n.(type) {
				case *ast.SendStmt:
					if PlaceID(hinfo, x.Chan) == limiter {
						sends++
						if sends > 1 {
							extraPos = x.Pos()
						}
					}
				case *ast.UnaryExpr:
					if x.Op == token.ARROW && PlaceID(hinfo, x.X) == limiter {
						recvs++
						if !containsNode(s.lit, x) && !litRecv[x.Pos()] {
							extraPos = x.Pos()
							recvs += 100
						}
					}
				case *ast.CallExpr:
					if id, ok := x.Fun.(*ast.Ident); ok && id.Name == "close" && len(x.Args) == 1 && PlaceID(hinfo, x.Args[0]) == limiter {
						extraPos = x.Pos()
						recvs += 100
					}
				}
				return true
			})
		}
		scan(s.fn.Decl.Body, info)
		for _, h := range r.P.privateHelpers(s.fn) {
			scan(h.Decl.Body, h.Pkg.TypesInfo)
		}
		if extraPos == 0 {
			extraPos = s.fn.Decl.Pos()
		}
		r.Check("R2", "ExecuteSequences:no-other-limiter-ops", extraPos, sends == 1 && recvs == 1, "limiter has %d send sites and %d receive sites (expected one send before the launch and one receive in the launched literal)", sends, recvs%100)
	}
	r.Expect("R2", 3)

	// ---- R3: blocks disjoint
	r.Kind("R3", "K3")
	ruleJoinFiltered(r, "R3", smKey("ExecuteSequences"), func(next string) bool { return next == "BlockPostChecks" }, "exit to BlockPostChecks")
	ruleJoinJ1(r, "R3", smKey("fixBlock"))
	r.CallersWithin("R3", smKey("execSeq"), smKey("ExecuteSequences"), smKey("fixBlock"))
	ruleFixBlockLaunch(r, "R3")
	r.Expect("R3", 5)

	// ---- R5: one state machine per plan (a plan run twice doubles every bound)
	r.Kind("R5", "K4")
	r.CallersWithin("R5", execKey("Plans.runPlan"), execKey("Plans.Start"), execKey("Plans.recover"))
	ruleRecoverRunsPlans(r, "R5")
	ruleFilterCompaction(r, "R5")
	ruleSharedEngineStateImmutable(r, "R5")
	// round-4 seed C02-7: two Start calls that both pass the registered-check run two state machines over two copies of the
	// plan, each with its own limiter: the bound on sequences in flight is per machine, so it holds per plan only if
	// check, Read, validation and launch are one critical section (= C12-R1)
	ruleStartExclusion(r, "R5")
	r.Expect("R5", 7)

	// R6: a slot is given back when an action times out, so the timed-out plugin must have been told to stop
	// (round-3 seed C02-6): the plugin runs under the timeout context of run()
	r.Kind("R6", "K11")
	ruleRunRace(r, "R6")
	r.Expect("R6", 3)

	// ---- R4: Defaults floors Concurrency
	r.Kind("R4", "K5")
	ruleConcurrencyFloor(r, "R4")
	r.Expect("R4", 1)
}

func itoa(n int) string { return strconv.Itoa(n) }

// ruleJoinFiltered is J1 restricted to the returns whose successor satisfies keep.
func ruleJoinFiltered(r *Run, rule, fnKey string, keep func(next string) bool, what string) {
	fn := r.fnByKey(rule, fnKey)
	if fn == nil {
		return
	}
	fl, paths, ok := r.flowPaths(rule, fn)
	if !ok {
		return
	}
	short := ShortFn(fnKey)
	n, bad := 0, ""
	var bpos token.Pos = fn.Decl.Pos()
	for i := range paths {
		p := &paths[i]
		if p.Exit != ExitReturn {
			continue
		}
		next, _, _ := PathNext(fl, p)
		next = strings.TrimPrefix(next, "method:"+pkgSM+".States.")
		if !keep(next) {
			continue
		}
		n++
		for gi, e := range p.Ev {
			if !IsCall(e, keyGroupGo) {
				continue
			}
			recv := recvObj(fl.Info, e.Call)
			if FirstAfter(p, gi, func(x Event) bool { return IsCall(x, keyGroupWait) && recvObj(fl.Info, x.Call) == recv }) < 0 && bad == "" {
				bad = "a path to " + next + " leaves " + short + " after Group.Go without Group.Wait (guard " + ExitGuardKey(fl, p) + ")"
				bpos = e.Pos
			}
		}
	}
	if n == 0 {
		r.Unresolved(rule, fnKey+" "+what)
		return
	}
	r.Check(rule, "join:"+short+":"+what, bpos, bad == "", "%s", orOK(bad, "every such path joins the group first"))
}

func ruleConcurrencyFloor(r *Run, rule string) {
	fn := r.Fn(rule, "workflow", "Block", "Defaults")
	if fn == nil {
		return
	}
	fl, paths, ok := r.flowPaths(rule, fn)
	if !ok {
		return
	}
	info := fl.Info
	isC := func(e ast.Expr) bool {
		_, ok := FieldPath(info, e, "workflow.Block", "Concurrency")
		return ok
	}
	bad := ""
	var bpos token.Pos = fn.Decl.Pos()
	n := 0
	for i := range paths {
		p := &paths[i]
		if p.Exit != ExitReturn {
			continue
		}
		// paths that return on the nil-receiver guard are exempt
		nilRecv := false
		established := false
		for _, e := range p.Ev {
			switch e.Kind {
			case EvBranch:
				if e.Cond == nil {
					continue
				}
				if x, op, ok := IsNilCompare(info, e.Cond); ok {
					if id, ok := x.(*ast.Ident); ok && isReceiver(fn, info, id) && (op == token.EQL) == e.Taken {
						nilRecv = true
					}
				}
				for _, c := range FindCmps(info, e.Cond, isC, nil) {
					if ast.Unparen(e.Cond) != c.Expr {
						continue
					}
					if m, ok := c.ImpliesGE(info, e.Taken); ok && m >= 1 {
						established = true
					}
				}
			case EvAssign:
				for k, l := range e.Lhs {
					if isC(l) && len(e.Rhs) == len(e.Lhs) {
						v, isConst := ConstInt(info, e.Rhs[k])
						established = isConst && v >= 1
					}
				}
			}
		}
		if nilRecv {
			continue
		}
		n++
		if !established && bad == "" {
			bad = "a path of Block.Defaults returns without establishing Concurrency >= 1 (guard " + ExitGuardKey(fl, p) + ")"
		}
	}
	if n == 0 {
		r.Unresolved(rule, "Block.Defaults paths")
		return
	}
	r.Check(rule, "Block.Defaults:concurrency-floor", bpos, bad == "", "%s", orOK(bad, "Concurrency >= 1 on every non-nil path (a smaller value would panic Limited()/deadlock the limiter)"))
}

func isReceiver(fn *Func, info *types.Info, id *ast.Ident) bool {
	if fn.Decl.Recv == nil || len(fn.Decl.Recv.List) == 0 || len(fn.Decl.Recv.List[0].Names) == 0 {
		return false
	}
	return info.ObjectOf(fn.Decl.Recv.List[0].Names[0]) == info.ObjectOf(id)
}

// ---------------------------------------------------------------------------
// C03

type threshold struct {
	s        *seqLaunch
	info     *types.Info
	failures types.Object // the counter variable
	cmps     []Cmp
	predVar  types.Object // local closure variable wrapping the test (may be nil)
	predLit  *ast.FuncLit
	helperOf map[ast.Expr]*Func // comparisons found in private helpers of ExecuteSequences
}

func (t *threshold) isLoad(e ast.Expr) bool {
	c, ok := ast.Unparen(e).(*ast.CallExpr)
	if !ok {
		return false
	}
	f, ok := calleeFunc(t.info, c)
	if !ok || FuncKey(f) != "sync/atomic.Int64.Load" {
		return false
	}
	return recvPlace(t.info, c) == t.failures
}

func (t *threshold) isTol(e ast.Expr) bool {
	_, ok := FieldPath(t.info, e, "workflow.Block", "ToleratedFailures")
	return ok
}

// exceededOn: what a branch event says about the threshold (exceeded true/false).
func (t *threshold) exceededOn(e Event) (exceeded, ok bool) {
	if e.Kind != EvBranch || e.Cond == nil || e.Tag != nil {
		return false, false
	}
	c := ast.Unparen(e.Cond)
	neg := false
	for {
		if u, isU := c.(*ast.UnaryExpr); isU && u.Op == token.NOT {
			neg = !neg
			c = ast.Unparen(u.X)
			continue
		}
		break
	}
	if call, isCall := c.(*ast.CallExpr); isCall && t.predVar != nil {
		if ObjOf(t.info, call.Fun) == t.predVar {
			return e.Taken != neg, true
		}
	}
	// the comparison itself, as a conjunct of the condition (looked for in this very condition: it may be a
	// copy of a helper's condition spliced into the path)
	cjs := conjuncts(c)
	for _, cj := range cjs {
		for _, cm := range FindCmps(t.info, cj, t.isLoad, t.isTol) {
			if ast.Unparen(cj) == cm.Expr {
				if e.Taken != neg {
					return true, true // all conjuncts hold
				}
				// the conjunction is false: this means "not exceeded (or tolerance disabled)"
				// only if every other conjunct is the tolerance guard itself
				for _, other := range cjs {
					if ast.Unparen(other) == cm.Expr {
						continue
					}
					if len(FindCmps(t.info, other, t.isTol, nil)) == 0 || len(conjuncts(other)) != 1 {
						return false, false
					}
				}
				return false, true
			}
		}
	}
	return false, false
}

func findThreshold(r *Run, rule string) *threshold {
	s := findSeqLaunch(r, rule)
	if s == nil {
		return nil
	}
	indexForConds(s.fn.Decl)
	t := &threshold{s: s, info: s.fl.Info, helperOf: map[ast.Expr]*Func{}}
	// the counter: the atomic.Int64 (a local, or a field when the state lives in a struct) that the
	// launched literal Adds to, in place or in a helper spliced into its paths
	for i := range s.litP {
		for _, e := range s.litP[i].Ev {
			if IsCall(e, "sync/atomic.Int64.Add") {
				t.failures = recvPlace(t.info, e.Call)
			}
		}
	}
	if t.failures == nil {
		r.Unresolved(rule, "failure counter (atomic.Int64 incremented in the launched literal)")
		return nil
	}
	t.cmps = FindCmps(t.info, s.fn.Decl.Body, t.isLoad, t.isTol)
	// the comparison may live in a private helper (a predicate method of a struct holding the state)
	for _, h := range r.P.privateHelpers(s.fn) {
		for _, c := range FindCmps(h.Pkg.TypesInfo, h.Decl.Body, t.isLoad, t.isTol) {
			t.cmps = append(t.cmps, c)
			t.helperOf[c.Expr] = h
		}
	}
	// closure variable holding the predicate
	ast.Inspect(s.fn.Decl.Body, func(n ast.Node) bool {
		as, ok := n.(*ast.AssignStmt)
		if !ok || len(as.Lhs) != len(as.Rhs) {
			return true
		}
		for i, rh := range as.Rhs {
			fl, ok := ast.Unparen(rh).(*ast.FuncLit)
			if !ok {
				continue
			}
			for _, c := range t.cmps {
				if containsNode(fl, c.Expr) {
					t.predVar = ObjOf(t.info, as.Lhs[i])
					t.predLit = fl
				}
			}
		}
		return true
	})
	return t
}

func rulesC03(r *Run) {
	t := findThreshold(r, "R1")
	if t == nil {
		return
	}
	s, info := t.s, t.info

	// ---- R1: comparison shape
	r.Kind("R1", "K5")
	parentsOwn := parentMap(s.fn.Decl.Body)
	for _, c := range t.cmps {
		r.Evals++
		parents := parentsOwn
		if h := t.helperOf[c.Expr]; h != nil {
			parents = parentMap(h.Decl.Body)
		}
		where := "ExecuteSequences"
		if t.predLit != nil && containsNode(t.predLit, c.Expr) {
			where = "threshold-predicate"
		} else if containsNode(s.lit, c.Expr) {
			where = "launched-literal"
		} else if h := t.helperOf[c.Expr]; h != nil {
			where = "threshold-predicate"
		}
		r.Check("R1", "cmp-shape:"+where, c.Expr.Pos(), c.Op == token.GTR, "failures compared with ToleratedFailures as `failures %s tolerated`; the block fails only when MORE sequences failed than tolerated (failures > tolerated)", c.Op)
		// guard tol >= 0
		guarded := false
		isGuard := func(e ast.Expr) bool {
			for _, g := range FindCmps(info, e, t.isTol, nil) {
				if ast.Unparen(e) != g.Expr {
					continue
				}
				if m, ok := g.ImpliesGE(info, true); ok && m == 0 {
					return true
				}
			}
			return false
		}
		var child ast.Node = c.Expr
		for n := parents[child]; n != nil; child, n = n, parents[n] {
			switch x := n.(type) {
			case *ast.BinaryExpr:
				if x.Op == token.LAND {
					for _, cj := range conjuncts(x) {
						if cj != c.Expr && isGuard(cj) {
							guarded = true
						}
					}
				}
			case *ast.IfStmt:
				if containsNode(x.Body, c.Expr) {
					for _, cj := range conjuncts(x.Cond) {
						if isGuard(cj) {
							guarded = true
						}
					}
				}
			}
		}
		r.Check("R1", "cmp-guard:"+where, c.Expr.Pos(), guarded, "the comparison must be guarded by `ToleratedFailures >= 0` (a negative tolerance allows every sequence to fail)")
	}
	// the predicate (a closure, or a private helper method when the state lives in a struct) returns true
	// exactly on the exceeded branch
	var pf *Flow
	var pp []Path
	havePred := false
	var predPos token.Pos
	if t.predLit != nil {
		var ok bool
		pf, pp, ok = r.litPaths("R1", t.predLit)
		havePred, predPos = ok, t.predLit.Pos()
	} else {
		for _, c := range t.cmps {
			if h := t.helperOf[c.Expr]; h != nil && !havePred {
				if res := h.Obj.Type().(*types.Signature).Results(); res.Len() == 1 {
					if b, ok := res.At(0).Type().Underlying().(*types.Basic); ok && b.Info()&types.IsBoolean != 0 {
						var ok2 bool
						pf, pp, ok2 = r.flowPaths("R1", h)
						havePred, predPos = ok2, h.Decl.Pos()
					}
				}
			}
		}
	}
	if havePred {
		{
			bad := ""
			for i := range pp {
				p := &pp[i]
				if p.Exit != ExitReturn {
					continue
				}
				verdict, known := false, false
				for _, e := range p.Ev {
					if ex, ok := t.exceededOn(e); ok {
						verdict, known = ex, true
					}
				}
				ret := ""
				for _, e := range p.Ev {
					if e.Kind == EvReturn && len(e.Rhs) == 1 {
						ret = ValueKey(pf.Info, e.Rhs[0])
						if ret == "" {
							// `return a && b` form
							if _, isBin := ast.Unparen(e.Rhs[0]).(*ast.BinaryExpr); isBin {
								ret = "expr"
							}
						}
					}
				}
				if ret == "expr" {
					continue
				}
				if known && ((verdict && ret != "true") || (!verdict && ret != "false")) && bad == "" {
					bad = "the threshold predicate returns " + ret + " on the branch where exceeded=" + boolStr(verdict)
				}
				if !known && ret != "false" && bad == "" {
					bad = "the threshold predicate returns " + ret + " without testing the threshold"
				}
			}
			r.Check("R1", "predicate-polarity", predPos, bad == "", "%s", orOK(bad, "returns true exactly when failures > tolerated (and tolerated >= 0)"))
		}
	}
	// the re-check after the join
	bad := ""
	var bpos token.Pos = s.fn.Decl.Pos()
	n := 0
	for i := range s.paths {
		p := &s.paths[i]
		if p.Exit != ExitReturn {
			continue
		}
		next, _, _ := PathNext(s.fl, p)
		if !strings.HasSuffix(next, ".BlockPostChecks") {
			continue
		}
		n++
		wi := -1
		for j, e := range p.Ev {
			if IsCall(e, keyGroupWait) {
				wi = j
			}
		}
		tested := false
		for j := wi + 1; j < len(p.Ev) && wi >= 0; j++ {
			if ex, ok := t.exceededOn(p.Ev[j]); ok && !ex {
				tested = true
			}
		}
		if !tested && bad == "" {
			bad = "a path proceeds to BlockPostChecks without re-testing the threshold after the join (the last sequence to finish may have exceeded it)"
			if wi >= 0 {
				bpos = p.Ev[wi].Pos
			}
		}
	}
	if n == 0 {
		r.Unresolved("R1", "ExecuteSequences path to BlockPostChecks")
	} else {
		r.Check("R1", "recheck-after-join", bpos, bad == "", "%s", orOK(bad, "every path to BlockPostChecks re-tests the threshold after Group.Wait"))
	}
	ruleToleranceComparisonsGuarded(r, "R1")
	r.Expect("R1", 7)

	// ---- R2: counting
	r.Kind("R2", "K2")
	isAdd := func(e Event) bool {
		return IsCall(e, "sync/atomic.Int64.Add") && recvPlace(info, e.Call) == t.failures
	}
	// argument is the constant 1 everywhere
	ast.Inspect(s.fn.Decl.Body, func(n ast.Node) bool {
		c, ok := n.(*ast.CallExpr)
		if !ok {
			return true
		}
		if f, ok := calleeFunc(info, c); ok && FuncKey(f) == "sync/atomic.Int64.Add" && recvPlace(info, c) == t.failures {
			v, isC := ConstInt(info, c.Args[0])
			where := "pre-loop"
			if containsNode(s.lit, c) {
				where = "launched-literal"
			}
			r.Check("R2", "count-step:"+where, c.Pos(), isC && v == 1, "failure counter incremented by %s (must be 1 per failed sequence)", ExprStr(c.Args[0]))
		}
		return true
	})
	// (a) in the function: only for sequences stored as Failed
	badA, seenA := "", false
	var posA token.Pos = s.fn.Decl.Pos()
	for i := range s.paths {
		p := &s.paths[i]
		for j, e := range p.Ev {
			if !isAdd(e) {
				continue
			}
			seenA = true
			bi := LastBefore(p, j, func(x Event) bool { return x.Kind == EvBranch || x.Kind == EvRange })
			okA := false
			if bi >= 0 && p.Ev[bi].Kind == EvBranch && p.Ev[bi].Taken && p.Ev[bi].Cond != nil {
				if be, ok := ast.Unparen(p.Ev[bi].Cond).(*ast.BinaryExpr); ok && be.Op == token.EQL {
					if _, m := FieldPath(info, be.X, "workflow.Sequence", "State", "Status"); m && ValueKey(info, be.Y) == "workflow.Failed" {
						okA = true
					}
				}
			}
			if !okA && badA == "" {
				badA, posA = "the counter is incremented outside the `seq.State.Status == Failed` branch of the pre-loop", e.Pos
			}
		}
	}
	if !seenA {
		r.Fail("R2", "count:stored-failures", s.fn.Decl.Pos(), "sequences already stored as Failed (recovered plans) are not counted before launching")
	} else {
		r.Check("R2", "count:stored-failures", posA, badA == "", "%s", orOK(badA, "incremented once per sequence whose stored status is Failed"))
	}
	// (a') round-4 seed C03-7: the count covers EVERY sequence. Recovery resets an in-flight sequence without a finished action
	// to NotStarted, so with Concurrency > 1 a NotStarted sequence can stand in front of sequences already stored Failed: a
	// scan that stops early (break, return) at some element starts from a count that is too low and launches sequences the
	// threshold forbids. Every path that enters the counting loop runs it to exhaustion — unless it has established the
	// threshold exceeded, after which the exact count no longer matters.
	if seenA {
		hdr := map[token.Pos]bool{}
		for i := range s.paths {
			p := &s.paths[i]
			for j, e := range p.Ev {
				if isAdd(e) {
					if hi := LastBefore(p, j, func(x Event) bool { return x.Kind == EvRange && x.Taken && x.Depth == 0 }); hi >= 0 {
						hdr[p.Ev[hi].Pos] = true
					}
				}
			}
		}
		badC := ""
		var posC token.Pos = s.fn.Decl.Pos()
		for i := range s.paths {
			p := &s.paths[i]
			if p.Exit != ExitReturn {
				continue
			}
			last := -1
			for j, e := range p.Ev {
				if e.Kind == EvRange && e.Depth == 0 && hdr[e.Pos] {
					if e.Taken {
						last = j
					} else {
						last = -1
					}
				}
			}
			if last < 0 || badC != "" {
				continue
			}
			exceeded := false
			for j := last + 1; j < len(p.Ev); j++ {
				if ex, ok := t.exceededOn(p.Ev[j]); ok && ex {
					exceeded = true
				}
			}
			if !exceeded {
				g := ""
				for j := last + 1; j < len(p.Ev); j++ {
					if p.Ev[j].Kind == EvBranch && p.Ev[j].Cond != nil {
						g = ExprStr(p.Ev[j].Cond)
						break
					}
				}
				badC, posC = "the loop that counts the sequences stored as Failed is left before its last element (after the test `"+g+"`): a sequence recovery reset to NotStarted can stand in front of failed ones, the failures behind it are not counted and sequences the threshold forbids are launched", p.Ev[last].Pos
			}
		}
		r.Check("R2", "count:stored-failures-scan-complete", posC, badC == "", "%s", orOK(badC, "the counting loop runs over every sequence"))
	}
	// (b) in the literal: iff execSeq failed
	badB := ""
	var posB token.Pos = s.lit.Pos()
	nB := 0
	for i := range s.litP {
		p := &s.litP[i]
		if p.Exit != ExitReturn {
			continue
		}
		adds := 0
		for _, e := range p.Ev {
			if isAdd(e) && !e.Deferred {
				adds++
			}
		}
		verdict := "none"
		for ci, e := range p.Ev {
			if IsCall(e, smKey("execSeq")) {
				nB++
				u := UseOfResult(s.litFl, p, ci)
				verdict = u.Verdict
				if u.Kind == "direct-return" {
					verdict = "direct"
				}
			}
		}
		switch verdict {
		case "nonnil":
			if adds != 1 && badB == "" {
				badB = "the failing branch of execSeq increments the counter " + itoa(adds) + " times"
			}
		case "nil", "none":
			if adds != 0 && badB == "" {
				badB = "the counter is incremented on a path where execSeq did not fail (" + verdict + ")"
			}
		default:
			if badB == "" {
				badB = "the result of execSeq is not tested before returning (" + verdict + "): a failed sequence would not be counted"
			}
		}
	}
	if nB == 0 {
		r.Unresolved("R2", "launched literal calls execSeq")
	} else {
		r.Check("R2", "count:launched-failures", posB, badB == "", "%s", orOK(badB, "incremented exactly on the failing branch of execSeq"))
	}
	// a sequence that failed before a restart is counted once, by the pre-count, and not launched again (round-3 seed C03-5)
	ruleLaunchGuard(r, "R2")
	r.Expect("R2", 5)

	// ---- R3: no launch after the threshold
	r.Kind("R3", "K3")
	badL := ""
	var posL token.Pos = s.lit.Pos()
	nL := 0
	for i := range s.paths {
		p := &s.paths[i]
		for gi, e := range p.Ev {
			if !isLaunch(s, e) {
				continue
			}
			nL++
			ls := loopStart(p, gi)
			okL := false
			for j := gi - 1; j > ls && j >= 0; j-- {
				if ex, ok := t.exceededOn(p.Ev[j]); ok && !ex {
					okL = true
				}
			}
			if !okL && badL == "" {
				badL, posL = "a path launches a sequence without a negative threshold test in the same loop iteration", e.Pos
			}
		}
	}
	if nL == 0 {
		r.Unresolved("R3", "launch")
	} else {
		r.Check("R3", "launch-after-test", posL, badL == "", "%s", orOK(badL, "every launch is preceded in its iteration by the threshold test (not exceeded)"))
	}
	badE := ""
	var posE token.Pos = s.lit.Pos()
	for i := range s.litP {
		p := &s.litP[i]
		for ci, e := range p.Ev {
			if !IsCall(e, smKey("execSeq")) {
				continue
			}
			okE := false
			for j := ci - 1; j >= 0; j-- {
				if ex, ok := t.exceededOn(p.Ev[j]); ok && !ex {
					okE = true
				}
			}
			if !okE && badE == "" {
				badE, posE = "the launched literal calls execSeq without re-testing the threshold (the launch loop blocks on the limiter after its own test, so a sequence queued there would still start after the threshold was crossed)", e.Pos
			}
		}
		// an exceeded verdict in the literal must not reach execSeq
		exceeded := false
		for _, e := range p.Ev {
			if ex, ok := t.exceededOn(e); ok && ex {
				exceeded = true
			}
			if exceeded && IsCall(e, smKey("execSeq")) && badE == "" {
				badE, posE = "the launched literal runs execSeq on the branch where the threshold is exceeded", e.Pos
			}
		}
	}
	r.Check("R3", "execSeq-after-test", posE, badE == "", "%s", orOK(badE, "execSeq runs only after a negative threshold test inside the launched literal"))
	r.Expect("R3", 2)

	// ---- R4: outcome routing
	r.Kind("R4", "K2")
	badR := ""
	var posR token.Pos = s.fn.Decl.Pos()
	nR := 0
	for i := range s.paths {
		p := &s.paths[i]
		if p.Exit != ExitReturn {
			continue
		}
		exceeded := false
		var at token.Pos
		for _, e := range p.Ev {
			if ex, ok := t.exceededOn(e); ok && ex {
				exceeded = true
				at = e.Pos
			}
		}
		if !exceeded {
			continue
		}
		nR++
		next, _, _ := PathNext(s.fl, p)
		st := ""
		for _, e := range p.Ev {
			if v, ok := StatusAssign(info, e, "workflow.Block"); ok {
				st = v
			}
		}
		if (!strings.HasSuffix(next, ".BlockDeferredChecks") || st != "workflow.Failed") && badR == "" {
			badR, posR = "a path that finds the threshold exceeded leaves with block status "+orOK(st, "unassigned")+" and successor "+ShortFn(strings.TrimPrefix(next, "method:")), at
		}
	}
	if nR == 0 {
		r.Unresolved("R4", "path on which the threshold is exceeded")
	} else {
		r.Check("R4", "ExecuteSequences:exceeded-fails-block", posR, badR == "", "%s", orOK(badR, "exceeded ⇒ block Failed and successor BlockDeferredChecks on every path"))
	}
	ruleBlockEndRouting(r, "R4")
	ruleFinalBlocks(r, "R4")
	// a block recovery has just found Failed stops the plan like any other failed block (round-3 seed C03-6)
	ruleRepairThenClassify(r, "R4", smKey("fixPlan"), smKey("fixBlock"), "workflow.Block")
	ruleExamineBypasses(r, "R4")
	// recovery records a sequence with a failed action as Failed (mutation sweep)
	ruleFixSeqVerdicts(r, "R4")
	ruleExecSeqFailedReturnsError(r, "R4")
	// "a block ends Failed exactly when … one of its checks failed": a group found Failed after a restart is run again or fails the
	// block, never skipped (round-4 seed C03-8; = C10-R3)
	ruleFailedGroupNotPassed(r, "R4", smKey("BlockPostChecks"), "PostChecks")
	ruleFailedGroupNotPassed(r, "R4", smKey("BlockDeferredChecks"), "DeferredChecks")
	r.Expect("R4", 9)

	// ---- R5: "… or one of its checks failed": a failing block-level check reaches the block's verdict
	// (the same constructs C07 decides for the continuous checks, and the gate/ post-check routing)
	r.Kind("R5", "K3+K2")
	ruleRunContChecks(r, "R5")
	ruleFailBranchStatus(r, "R5", smKey("ExecuteSequences"), pkgSM+".Data.contChecksPassing", "workflow.Block")
	ruleDrainFailure(r, "R5", "BlockEnd", "sm.block", true)
	ruleGroupState(r, "R5", "BlockPostChecks", "workflow.Block", "PostChecks", "workflow.Block")
	r.Expect("R5", 5)

}

func boolStr(b bool) string {
	if b {
		return "true"
	}
	return "false"
}

// ruleBlockEndRouting: BlockEnd reaches ExecuteBlock only with status Completed;
// every other return goes to PlanDeferredChecks.
func ruleBlockEndRouting(r *Run, rule string) {
	fn := r.fnByKey(rule, smKey("BlockEnd"))
	if fn == nil {
		return
	}
	fl, paths, ok := r.flowPaths(rule, fn)
	if !ok {
		return
	}
	bad1, bad2 := "", ""
	var p1, p2 token.Pos = fn.Decl.Pos(), fn.Decl.Pos()
	n1 := 0
	for i := range paths {
		p := &paths[i]
		if p.Exit != ExitReturn {
			continue
		}
		next, _, site := PathNext(fl, p)
		st := ""
		for _, e := range p.Ev {
			if v, ok := StatusAssign(fl.Info, e, "workflow.Block"); ok && !e.Deferred {
				st = v
			}
		}
		switch {
		case strings.HasSuffix(next, ".ExecuteBlock"):
			n1++
			if st != "workflow.Completed" && bad1 == "" {
				bad1, p1 = "a path moves on to the next block with block status "+orOK(st, "unassigned")+" (guard "+ExitGuardKey(fl, p)+"): after a Failed block no later block may run", site
			}
		case strings.HasSuffix(next, ".PlanDeferredChecks"):
			if st == "workflow.Completed" && bad2 == "" {
				bad2, p2 = "a path abandons the remaining blocks although the block Completed", site
			}
		default:
			if bad2 == "" {
				bad2, p2 = "BlockEnd leaves to "+next+"; allowed successors are ExecuteBlock (Completed) and PlanDeferredChecks", site
			}
		}
	}
	if n1 == 0 {
		r.Unresolved(rule, "BlockEnd path to ExecuteBlock")
		return
	}
	r.Check(rule, "BlockEnd:next-block-only-if-completed", p1, bad1 == "", "%s", orOK(bad1, "every path to ExecuteBlock last assigned block status Completed"))
	r.Check(rule, "BlockEnd:failure-ends-plan", p2, bad2 == "", "%s", orOK(bad2, "every other path routes to PlanDeferredChecks with a non-Completed status"))
}

// ruleFinalBlocks: finalStates.blocks fails the plan (status, reason FRBlock, Err) for any non-Completed block.
func ruleFinalBlocks(r *Run, rule string) {
	fn := r.Fn(rule, pkgSM, "finalStates", "blocks")
	if fn == nil {
		return
	}
	fl, paths, ok := r.flowPaths(rule, fn)
	if !ok {
		return
	}
	info := fl.Info
	bad := ""
	var bpos token.Pos = fn.Decl.Pos()
	nBad, nGood := 0, 0
	for i := range paths {
		p := &paths[i]
		if p.Exit != ExitReturn {
			continue
		}
		notCompleted := false
		sawCase := false
		for _, e := range p.Ev {
			if e.Kind == EvBranch && e.Tag != nil {
				if _, m := FieldPath(info, e.Tag, "workflow.Block", "State", "Status"); m && ValueKey(info, e.Cond) == "workflow.Completed" {
					sawCase = true
					if !e.Taken {
						notCompleted = true
					}
				}
			}
		}
		_, errSet, _ := PathNext(fl, p)
		planSt, reason := "", ""
		for _, e := range p.Ev {
			if v, ok := StatusAssign(info, e, "workflow.Plan"); ok {
				planSt = v
			}
			if e.Kind == EvAssign && len(e.Lhs) == len(e.Rhs) {
				for k, l := range e.Lhs {
					if _, m := FieldPath(info, l, "workflow.Plan", "Reason"); m {
						reason = ValueKey(info, e.Rhs[k])
					}
				}
			}
		}
		if notCompleted {
			nBad++
			if (planSt != "workflow.Failed" || reason != "workflow.FRBlock" || !errSet) && bad == "" {
				bad = "a non-Completed block leaves the plan with status " + orOK(planSt, "unassigned") + ", reason " + orOK(reason, "unassigned") + ", Err set=" + boolStr(errSet)
			}
		} else {
			if sawCase {
				nGood++
			}
			if (planSt == "workflow.Failed" || reason != "" || errSet) && bad == "" {
				bad = "the plan is failed although every examined block was Completed"
			}
		}
	}
	if nBad == 0 || nGood == 0 {
		r.Unresolved(rule, "finalStates.blocks switch on block status with a Completed case")
		return
	}
	r.Check(rule, "finalStates.blocks:non-completed-fails-plan", bpos, bad == "", "%s", orOK(bad, "any block that is not Completed ⇒ plan Failed, FRBlock, Err set; otherwise nothing is failed"))
}

// ruleSharedEngineStateImmutable (round-3 seed C02-5): one sm.States value (and the actions.Runner inside it) serves
// every plan of a Workstream concurrently, so nothing that belongs to one execution may live in it: no function
// other than a constructor assigns a field of a States or Runner value. Per-plan state belongs in the request's
// Data. A group, limiter or counter kept on the receiver is overwritten by the next plan that reaches the same
// state, and the first plan then waits on — and launches into — the other plan's group.
func ruleSharedEngineStateImmutable(r *Run, rule string) {
	shared := map[string]bool{"sm.States": true, "actions.Runner": true}
	n := 0
	for _, fn := range r.P.sortedFuncs() {
		rel := relPkg(fn.Pkg.PkgPath)
		if fn.Decl.Body == nil || (rel != pkgSM && rel != pkgActions) {
			continue
		}
		if strings.HasSuffix(r.P.Fset.Position(fn.Decl.Pos()).Filename, "_test.go") {
			continue
		}
		n++
		if fn.Decl.Recv == nil && strings.HasPrefix(fn.Obj.Name(), "New") {
			continue // constructors build the value before it is shared
		}
		info := fn.Pkg.TypesInfo
		bad := ""
		var bpos token.Pos = fn.Decl.Pos()
		check := func(l ast.Expr) {
			sel, ok := ast.Unparen(l).(*ast.SelectorExpr)
			for ok {
				if tv, has := info.Types[sel.X]; has {
					t := strings.TrimPrefix(ShortType(tv.Type), "*")
					if shared[t] && bad == "" {
						if s := info.Selections[sel]; s != nil && s.Kind() == types.FieldVal {
							bad, bpos = ShortFn(fn.Key)+" assigns "+ExprStr(l)+", a field of the "+t+" value that all plans of a Workstream share: state of one execution kept there is overwritten by the next plan that gets to the same point", l.Pos()
						}
					}
				}
				sel, ok = ast.Unparen(sel.X).(*ast.SelectorExpr)
			}
		}
		ast.Inspect(fn.Decl.Body, func(x ast.Node) bool {
			switch s := x.(type) {
			case *ast.AssignStmt:
				if s.Tok != token.DEFINE {
					for _, l := range s.Lhs {
						check(l)
					}
				}
			case *ast.IncDecStmt:
				check(s.X)
			}
			return true
		})
		if bad != "" {
			r.Fail(rule, "shared-engine-state-immutable:"+ShortFn(fn.Key), bpos, "%s", bad)
		}
	}
	if n == 0 {
		r.Unresolved(rule, "functions of the engine packages")
		return
	}
	r.Check(rule, "shared-engine-state-immutable", 0, true, "no function of sm/actions other than a constructor assigns a field of sm.States or actions.Runner (%d functions inspected)", n)
}

// ruleToleranceComparisonsGuarded (round-4 seed C10-8): wherever the package compares a count of failed sequences with a block's
// ToleratedFailures — ExecuteSequences, but also recovery, which has to reach the verdict an uninterrupted run would have
// reached — the comparison means "more failed than tolerated" (count > tolerated) and is guarded by `tolerated >= 0`: a
// negative value allows every failure, and `count > -1` is true for every count. One obligation per comparison.
func ruleToleranceComparisonsGuarded(r *Run, rule string) {
	pkg := r.P.Pkgs[pkgSM]
	if pkg == nil {
		r.Unresolved(rule, "package sm")
		return
	}
	info := pkg.TypesInfo
	isTol := func(e ast.Expr) bool {
		e = ast.Unparen(e)
		for {
			c, ok := e.(*ast.CallExpr)
			if !ok || len(c.Args) != 1 {
				break
			}
			if tv, ok := info.Types[c.Fun]; !ok || !tv.IsType() {
				break
			}
			e = ast.Unparen(c.Args[0]) // a conversion
		}
		_, m := FieldPath(info, e, "workflow.Block", "ToleratedFailures")
		return m
	}
	isConst := func(e ast.Expr) bool {
		tv, ok := info.Types[e]
		return ok && tv.Value != nil
	}
	// tol >= 0 in any spelling
	isNonNegTest := func(e ast.Expr) bool {
		be, ok := ast.Unparen(e).(*ast.BinaryExpr)
		if !ok {
			return false
		}
		cv := func(x ast.Expr) (int64, bool) { return ConstInt(info, x) }
		switch {
		case isTol(be.X):
			v, ok := cv(be.Y)
			return ok && ((be.Op == token.GEQ && v == 0) || (be.Op == token.GTR && v == -1) || (be.Op == token.NEQ && v == -1))
		case isTol(be.Y):
			v, ok := cv(be.X)
			return ok && ((be.Op == token.LEQ && v == 0) || (be.Op == token.LSS && v == -1) || (be.Op == token.NEQ && v == -1))
		}
		return false
	}
	n := 0
	for _, f := range pkg.Syntax {
		if strings.HasSuffix(r.P.Fset.Position(f.Pos()).Filename, "_test.go") {
			continue
		}
		var stack []ast.Node
		ast.Inspect(f, func(x ast.Node) bool {
			if x == nil {
				stack = stack[:len(stack)-1]
				return true
			}
			stack = append(stack, x)
			be, ok := x.(*ast.BinaryExpr)
			if !ok {
				return true
			}
			switch be.Op {
			case token.GTR, token.GEQ, token.LSS, token.LEQ:
			default:
				return true
			}
			var other ast.Expr
			tolRight := false
			switch {
			case isTol(be.Y):
				other, tolRight = be.X, true
			case isTol(be.X):
				other = be.Y
			default:
				return true
			}
			if isConst(other) {
				return true // the guard itself
			}
			n++
			shape := (tolRight && be.Op == token.GTR) || (!tolRight && be.Op == token.LSS)
			guarded := false
			for k := len(stack) - 2; k >= 0 && !guarded; k-- {
				switch a := stack[k].(type) {
				case *ast.BinaryExpr:
					if a.Op == token.LAND {
						for _, side := range []ast.Expr{a.X, a.Y} {
							ast.Inspect(side, func(y ast.Node) bool {
								if e, ok := y.(ast.Expr); ok && isNonNegTest(e) {
									guarded = true
								}
								return !guarded
							})
						}
					}
				case *ast.IfStmt:
					ast.Inspect(a.Cond, func(y ast.Node) bool {
						if e, ok := y.(ast.Expr); ok && isNonNegTest(e) && !containsNode(a.Else, be) {
							guarded = true
						}
						return !guarded
					})
				case *ast.FuncDecl, *ast.FuncLit:
					k = -1
				}
			}
			fnName := ""
			for k := len(stack) - 1; k >= 0; k-- {
				if fd, ok := stack[k].(*ast.FuncDecl); ok {
					fnName = fd.Name.Name
					break
				}
			}
			msg := ""
			switch {
			case !shape:
				msg = "the comparison is `" + ExprStr(be) + "`: the tolerance is exceeded exactly when more sequences failed than tolerated (count > ToleratedFailures)"
			case !guarded:
				msg = "`" + ExprStr(be) + "` is not guarded by ToleratedFailures >= 0: a negative tolerance allows every failure, but count > -1 holds for every count — the block is failed although nothing exceeded its tolerance"
			}
			r.Check(rule, "tolerance-comparison:"+fnName+":"+ExprStr(other), be.Pos(), msg == "", "%s", orOK(msg, "count > tolerated, guarded by tolerated >= 0"))
			return true
		})
	}
	if n == 0 {
		r.Unresolved(rule, "comparisons with Block.ToleratedFailures in package sm")
	}
}
