package main

import (
	"go/ast"
	"go/token"
	"go/types"
)

// Assume-and-refute: the idiom-independent way to ask "does this path establish P?".
// A rule names the atomic conditions it cares about (AtomFn maps an expression to an atom key),
// assumes a truth assignment of atoms that describes the situation the code must not accept
// (e.g. parent-is-Checks ∧ ¬IsCheck), and asks whether a path is still possible under it: the
// path is refuted when one of its branch events, evaluated in three-valued logic under the
// assumption, contradicts the direction the path took. "Every accepting path is refuted" then
// means "the situation is never accepted", whether the code tests with a switch, an if-chain,
// one combined condition, early returns or a flag variable.

// AtomFn classifies a boolean expression as an atom: key, and whether the expression is the
// atom's negation. For a switch case the expression is a synthesised `tag == value`.
type AtomFn func(e ast.Expr) (key string, neg bool, ok bool)

type refuter struct {
	fl    *Flow
	asg   map[string]bool
	atom  AtomFn
	bound map[types.Object][2]bool // bool variables assigned from expressions of known value: {value, known}
}

func (r *refuter) eval(e ast.Expr) (val, known bool) {
	e = ast.Unparen(e)
	if tv, ok := r.fl.Info.Types[e]; ok && tv.Value != nil {
		if v := ValueKey(r.fl.Info, e); v == "true" || v == "false" {
			return v == "true", true
		}
	}
	if key, neg, ok := r.atom(e); ok {
		if v, has := r.asg[key]; has {
			return v != neg, true
		}
		return false, false
	}
	switch x := e.(type) {
	case *ast.UnaryExpr:
		if x.Op == token.NOT {
			v, k := r.eval(x.X)
			return !v, k
		}
	case *ast.BinaryExpr:
		switch x.Op {
		case token.LAND:
			a, ka := r.eval(x.X)
			b, kb := r.eval(x.Y)
			if (ka && !a) || (kb && !b) {
				return false, true
			}
			if ka && kb {
				return true, true
			}
		case token.LOR:
			a, ka := r.eval(x.X)
			b, kb := r.eval(x.Y)
			if (ka && a) || (kb && b) {
				return true, true
			}
			if ka && kb {
				return false, true
			}
		case token.EQL, token.NEQ:
			// b == true / b != false
			for _, pair := range [][2]ast.Expr{{x.X, x.Y}, {x.Y, x.X}} {
				if c := ValueKey(r.fl.Info, pair[1]); c == "true" || c == "false" {
					v, k := r.eval(pair[0])
					if k {
						return (v == (c == "true")) == (x.Op == token.EQL), true
					}
				}
			}
		}
	case *ast.Ident:
		if o := r.fl.Info.ObjectOf(x); o != nil {
			if b, ok := r.bound[o]; ok && b[1] {
				return b[0], true
			}
		}
	}
	return false, false
}

// PathRefuted reports whether path p (up to event index upto, -1 = whole path) is impossible under the assumption.
func PathRefuted(fl *Flow, p *Path, upto int, asg map[string]bool, atom AtomFn) bool {
	return PathRefutedRange(fl, p, 0, upto, asg, atom)
}

// PathRefutedRange considers only the events with index in [from, to) (to < 0: to the end).
func PathRefutedRange(fl *Flow, p *Path, from, upto int, asg map[string]bool, atom AtomFn) bool {
	r := &refuter{fl: fl, asg: asg, atom: atom, bound: map[types.Object][2]bool{}}
	for i, e := range p.Ev {
		if i < from {
			continue
		}
		if upto >= 0 && i >= upto {
			break
		}
		switch e.Kind {
		case EvAssign:
			if len(e.Lhs) != len(e.Rhs) {
				for _, l := range e.Lhs {
					if o := ObjOf(fl.Info, l); o != nil {
						delete(r.bound, o)
					}
				}
				continue
			}
			for k, l := range e.Lhs {
				o := ObjOf(fl.Info, l)
				if o == nil {
					continue
				}
				v, known := r.eval(e.Rhs[k])
				if !known && e.Vals != nil && len(e.Vals) == len(e.Lhs) {
					v, known = r.eval(e.Vals[k])
				}
				if known {
					r.bound[o] = [2]bool{v, true}
				} else {
					delete(r.bound, o)
				}
			}
		case EvBranch:
			if e.Cond == nil {
				continue
			}
			if e.Tag != nil {
				eq := &ast.BinaryExpr{X: e.Tag, Op: token.EQL, Y: e.Cond}
				if v, known := r.eval(eq); known && v != e.Taken {
					return true
				}
				continue
			}
			if v, known := r.eval(e.Cond); known && v != e.Taken {
				return true
			}
			if e.CondVal != nil {
				if v, known := r.eval(e.CondVal); known && v != e.Taken {
					return true
				}
			}
		}
	}
	return false
}

// EqAtom builds an AtomFn piece: `X == K` / `X != K` (either operand order) where isX recognises X and
// the constant's ValueKey is k.
func EqAtom(info *types.Info, e ast.Expr, isX func(ast.Expr) bool, k string) (neg, ok bool) {
	be, isBin := ast.Unparen(e).(*ast.BinaryExpr)
	if !isBin || (be.Op != token.EQL && be.Op != token.NEQ) {
		return false, false
	}
	for _, pair := range [][2]ast.Expr{{be.X, be.Y}, {be.Y, be.X}} {
		if isX(ast.Unparen(pair[0])) && ValueKey(info, pair[1]) == k {
			return be.Op == token.NEQ, true
		}
	}
	return false, false
}

// CallAtom: e is a call of the function/method with the given key.
func CallAtom(info *types.Info, e ast.Expr, key string) bool {
	c, ok := ast.Unparen(e).(*ast.CallExpr)
	if !ok {
		return false
	}
	f, ok := calleeFunc(info, c)
	return ok && FuncKey(f) == key
}
