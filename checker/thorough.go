package main

import (
	"go/token"
	"go/types"
	"sort"
	"strings"

	"golang.org/x/tools/go/callgraph"
	"golang.org/x/tools/go/callgraph/cha"
	"golang.org/x/tools/go/callgraph/vta"
	"golang.org/x/tools/go/packages"
	"golang.org/x/tools/go/ssa"
	"golang.org/x/tools/go/ssa/ssautil"
)

// ssaView is the whole-program SSA + VTA call graph (thorough tier only).
type ssaView struct {
	prog *ssa.Program
	cg   *callgraph.Graph
	fns  map[string]*ssa.Function // FuncKey → function
}

func (p *Prog) SSA() *ssaView {
	if p.ssa != nil {
		return p.ssa
	}
	var roots []*packages.Package
	roots = append(roots, p.All...)
	prog, _ := ssautil.AllPackages(roots, ssa.InstantiateGenerics)
	prog.Build()
	all := ssautil.AllFunctions(prog)
	cg := vta.CallGraph(all, cha.CallGraph(prog))
	v := &ssaView{prog: prog, cg: cg, fns: map[string]*ssa.Function{}}
	for fn := range all {
		if obj, ok := fn.Object().(*types.Func); ok && fn.Parent() == nil && fn.Synthetic == "" {
			v.fns[FuncKey(obj)] = fn
		}
	}
	p.ssa = v
	return v
}

// declOwner maps an SSA function (possibly an anonymous closure or a bound-method
// wrapper) to the key of the declared source function it belongs to.
func declOwner(fn *ssa.Function) string {
	for fn != nil {
		if fn.Parent() != nil {
			fn = fn.Parent()
			continue
		}
		if obj, ok := fn.Object().(*types.Func); ok {
			return FuncKey(obj)
		}
		// synthetic wrapper ($bound, $thunk): its name carries the method; attribute to origin when possible
		if fn.Origin() != nil && fn.Origin() != fn {
			fn = fn.Origin()
			continue
		}
		return "synthetic:" + fn.String()
	}
	return ""
}

// vtaCallers lists the declared repository functions that (per VTA) call the function with the given key.
func (v *ssaView) vtaCallers(key string) (map[string]token.Pos, bool) {
	fn := v.fns[key]
	out := map[string]token.Pos{}
	if fn == nil {
		return out, false
	}
	node := v.cg.Nodes[fn]
	if node == nil {
		return out, true
	}
	seenWrappers := map[*callgraph.Node]bool{}
	var visit func(n *callgraph.Node)
	visit = func(n *callgraph.Node) {
		for _, e := range n.In {
			caller := e.Caller.Func
			owner := declOwner(caller)
			if strings.HasPrefix(owner, "synthetic:") || (caller.Synthetic != "" && caller.Parent() == nil) {
				// follow through bound-method/thunk wrappers to their callers
				if !seenWrappers[e.Caller] {
					seenWrappers[e.Caller] = true
					visit(e.Caller)
				}
				continue
			}
			pos := token.NoPos
			if e.Site != nil {
				pos = e.Site.Pos()
			}
			if _, ok := out[owner]; !ok {
				out[owner] = pos
			}
		}
	}
	visit(node)
	return out, true
}

// invokeCallers lists the declared functions containing an interface call of the given method key.
func (v *ssaView) invokeCallers(methodKey string) map[string]token.Pos {
	out := map[string]token.Pos{}
	for fn := range ssautil.AllFunctions(v.prog) {
		for _, b := range fn.Blocks {
			for _, ins := range b.Instrs {
				c, ok := ins.(ssa.CallInstruction)
				if !ok {
					continue
				}
				com := c.Common()
				if com.IsInvoke() && com.Method != nil && FuncKey(com.Method) == methodKey {
					owner := declOwner(fn)
					if _, seen := out[owner]; !seen {
						out[owner] = ins.Pos()
					}
				}
			}
		}
	}
	return out
}

func inRepo(key string) bool {
	return strings.HasPrefix(key, "internal/") || strings.HasPrefix(key, "workflow") || strings.HasPrefix(key, "plugins") || strings.HasPrefix(key, "coercion.")
}

func isTestingPath(key string) bool {
	return strings.Contains(key, "/testing/") || strings.Contains(key, "/tests/")
}

// crossCheckCallers compares, for each who-may-call instance of a property, the caller set the
// AST call graph gives with the one VTA gives. A caller only VTA sees is a route the rule table
// does not know (dynamic dispatch, function values) and is a violation; a caller only the AST
// graph sees is reported as a note (VTA pruned it as unreachable).
func crossCheckCallers(r *Run, rule string, keys []string) {
	v := r.P.SSA()
	g := r.P.CallGraph()
	for _, key := range keys {
		ast := map[string]bool{}
		for _, e := range g.Callers(key) {
			ast[e.Caller] = true
		}
		var vtaSet map[string]token.Pos
		if key == keyPluginExe {
			vtaSet = v.invokeCallers(key)
		} else {
			var ok bool
			vtaSet, ok = v.vtaCallers(key)
			if !ok {
				r.Unresolved(rule, "ssa:"+key)
				continue
			}
		}
		var extra []string
		var pos token.Pos
		for c, p := range vtaSet {
			if !inRepo(c) || isTestingPath(c) {
				continue
			}
			if !ast[c] {
				extra = append(extra, c)
				pos = p
			}
		}
		sort.Strings(extra)
		r.Evals += len(vtaSet)
		r.Check(rule, "vta-callers("+key+")", pos, len(extra) == 0, "VTA finds callers of %s that the syntactic call graph does not: %v — a route to this function through dynamic dispatch or a function value, outside the who-may-call table", key, extra)
		var astOnly []string
		for c := range ast {
			if _, ok := vtaSet[c]; !ok {
				astOnly = append(astOnly, c)
			}
		}
		if len(astOnly) > 0 {
			sort.Strings(astOnly)
			r.Note("%s: callers of %s seen syntactically but pruned by VTA as unreachable: %v", rule, key, astOnly)
		}
	}
}

// thoroughCallerKeys: the who-may-call instances per property.
var thoroughCallerKeys = map[string][]string{}

func init() {
	act := pkgActions + "."
	chain := []string{keyPluginExe, act + "run", act + "Runner.exec", smKey("runAction"), smKey("execSeq"), smKey("runActionsParallel"), smKey("runChecksOnce")}
	for _, p := range []string{"C01", "C09"} {
		thoroughCallerKeys[p] = chain
	}
	thoroughCallerKeys["C02"] = []string{smKey("execSeq"), execKey("Plans.runPlan")}
	thoroughCallerKeys["C06"] = []string{smKey("runAction"), smKey("runChecksOnce")}
	thoroughCallerKeys["C08"] = []string{pkgSM + ".resetActions", pkgSM + ".resetAction", pkgSM + ".fixAction", pkgSM + ".fixSeq", pkgSM + ".fixChecks", smKey("fixBlock"), smKey("fixPlan")}
	thoroughCallerKeys["C10"] = []string{smKey("fixPlan"), execKey("Plans.runPlan"), execKey("Plans.recover")}
	thoroughCallerKeys["C11"] = []string{execKey("Plans.runPlan"), execKey("Plans.recover")}
	thoroughCallerKeys["C12"] = []string{execKey("Plans.runPlan")}
	thoroughCallerKeys["C05"] = []string{act + "run", act + "Runner.exec"}
}

// thoroughGeneric is the extra work of the thorough tier common to all properties:
// VTA cross-check of the property's caller sets and a re-derivation of the state graphs by a
// second, path-insensitive method.
func thoroughGeneric(r *Run) {
	if keys := thoroughCallerKeys[r.Prop]; len(keys) > 0 {
		r.Kind("T1", "K4/VTA")
		crossCheckCallers(r, "T1", keys)
	}
	switch r.Prop {
	case "C01", "C03", "C04", "C06", "C07", "C08", "C09", "C10":
		r.Kind("T2", "K1/syntactic")
		crossCheckStateGraph(r, "T2")
	}
}

// crossCheckStateGraph re-derives the successors of every state syntactically (every
// `X.Next = <method value>` in the function, regardless of paths) and requires that the
// path-based extraction realises exactly those: a syntactic successor no enumerated path
// realises would mean path pruning or the visit bound hides a transition.
func crossCheckStateGraph(r *Run, rule string) {
	for _, mc := range []struct {
		name, pkg, recv string
		entries         []string
	}{
		{"plan", pkgSM, "States", []string{"Start", "Recovery"}},
		{"final", pkgSM, "finalStates", []string{"start"}},
		{"action", pkgActions, "Runner", []string{"Start"}},
	} {
		m := r.ExtractMachine(rule, mc.name, mc.pkg, mc.recv, mc.entries...)
		var names []string
		for s := range m.States {
			names = append(names, s)
		}
		sort.Strings(names)
		for _, st := range names {
			fn := m.States[st]
			if fn == nil {
				continue
			}
			info := fn.Pkg.TypesInfo
			syn := map[string]bool{}
			astInspectAssignNext(fn, func(v string) {
				prefix := "method:" + mc.pkg + "." + mc.recv + "."
				switch {
				case v == "nil":
					syn[Terminal] = true
				case strings.HasPrefix(v, prefix):
					syn[strings.TrimPrefix(v, prefix)] = true
				default:
					syn["?"+v] = true
				}
			}, info)
			path := map[string]bool{}
			for _, e := range m.Edges {
				if e.From == st {
					path[e.Assigned] = true
				}
			}
			var hidden, extra []string
			for s := range syn {
				if strings.HasPrefix(s, "?method:") {
					continue // the entry of a nested machine (End starts finalStates), not a successor in this one
				}
				if !path[s] && s != Terminal {
					hidden = append(hidden, s)
				}
			}
			for s := range path {
				if !syn[s] && s != Terminal && !strings.HasPrefix(s, "ext:") {
					extra = append(extra, s)
				}
			}
			sort.Strings(hidden)
			sort.Strings(extra)
			r.Check(rule, "stategraph-agrees:"+mc.name+":"+st, fn.Decl.Pos(), len(hidden) == 0 && len(extra) == 0,
				"state %s: successors assigned in the source but realised on no enumerated path: %v; successors on paths without a syntactic assignment: %v (the two derivations of the transition relation must agree)", st, hidden, extra)
		}
	}
}
