package main

import (
	"go/ast"
	"go/token"
	"go/types"
	"strings"
)

// ResultUse describes what one path does with a result of a call.
type ResultUse struct {
	Kind    string       // bound | direct-return | discarded | cond | nested | deferred
	Var     types.Object // variable bound to the result (Kind == bound)
	Verdict string       // nil | nonnil | true | false | returned | overwritten | untested
	At      int          // index of the deciding event (-1 if none)
}

// resultIndex gives the index of the interesting result of the call: the last
// error-typed result, else the last bool result, else 0.
func resultIndex(info *types.Info, call *ast.CallExpr) (idx, n int) {
	tv, ok := info.Types[call]
	if !ok {
		return 0, 0
	}
	if tup, ok := tv.Type.(*types.Tuple); ok {
		idx = -1
		for i := 0; i < tup.Len(); i++ {
			if IsErrorType(tup.At(i).Type()) {
				idx = i
			}
		}
		if idx < 0 {
			for i := 0; i < tup.Len(); i++ {
				if b, ok := tup.At(i).Type().Underlying().(*types.Basic); ok && b.Kind() == types.Bool {
					idx = i
				}
			}
		}
		if idx < 0 {
			idx = 0
		}
		return idx, tup.Len()
	}
	return 0, 1
}

func mentionsObj(info *types.Info, e ast.Node, obj types.Object) bool {
	found := false
	ast.Inspect(e, func(n ast.Node) bool {
		if id, ok := n.(*ast.Ident); ok && info.ObjectOf(id) == obj {
			found = true
		}
		return !found
	})
	return found
}

// verdictFromCond evaluates what taking (or not taking) cond says about expression text key.
func verdictFromCond(info *types.Info, cond ast.Expr, taken bool, key string) string {
	fa := facts{}
	fa.assumeCond(info, cond, taken)
	switch v := fa[key]; v {
	case "nil", "nonnil":
		return v
	case "const:true":
		return "true"
	case "const:false":
		return "false"
	}
	return ""
}

// UseOfResult classifies what path p does with the interesting result of the call event at index ci.
func UseOfResult(fl *Flow, p *Path, ci int) ResultUse {
	ev := p.Ev[ci]
	info := fl.Info
	call := ev.Call
	if ev.Deferred {
		return ResultUse{Kind: "deferred", At: -1}
	}
	idx, n := resultIndex(info, call)
	var bound ast.Expr
	switch node := ev.Node.(type) {
	case *ast.AssignStmt:
		if len(node.Rhs) == 1 && ast.Unparen(node.Rhs[0]) == call {
			if len(node.Lhs) == n {
				bound = node.Lhs[idx]
			} else if len(node.Lhs) == 1 {
				bound = node.Lhs[0]
			}
		} else {
			for i, rh := range node.Rhs {
				if ast.Unparen(rh) == call && len(node.Lhs) == len(node.Rhs) {
					bound = node.Lhs[i]
				}
			}
		}
		if bound == nil {
			return ResultUse{Kind: "nested", At: -1}
		}
	case *ast.ValueSpec:
		if len(node.Values) == 1 && ast.Unparen(node.Values[0]) == call {
			if len(node.Names) == n {
				bound = node.Names[idx]
			} else if len(node.Names) == 1 {
				bound = node.Names[0]
			}
		}
		if bound == nil {
			return ResultUse{Kind: "nested", At: -1}
		}
	case *ast.ReturnStmt:
		for _, res := range node.Results {
			if ast.Unparen(res) == call {
				return ResultUse{Kind: "direct-return", Verdict: "returned", At: ci}
			}
		}
		return ResultUse{Kind: "nested", At: -1}
	case *ast.ExprStmt:
		if ast.Unparen(node.X) == call {
			return ResultUse{Kind: "discarded", Verdict: "untested", At: -1}
		}
		return ResultUse{Kind: "nested", At: -1}
	case *ast.DeferStmt, *ast.GoStmt:
		return ResultUse{Kind: "discarded", Verdict: "untested", At: -1}
	case ast.Expr:
		// the call is (part of) a branch condition
		for j := ci + 1; j < len(p.Ev); j++ {
			b := p.Ev[j]
			if b.Depth > ev.Depth {
				continue // inside an inlined callee
			}
			if b.Kind == EvBranch && b.Cond == node {
				c := ast.Unparen(node)
				neg := false
				for {
					if u, ok := c.(*ast.UnaryExpr); ok && u.Op == token.NOT {
						neg = !neg
						c = ast.Unparen(u.X)
						continue
					}
					break
				}
				if c == call {
					v := b.Taken != neg
					if v {
						return ResultUse{Kind: "cond", Verdict: "true", At: j}
					}
					return ResultUse{Kind: "cond", Verdict: "false", At: j}
				}
				// `f() == nil` / `f() != nil` as the whole condition
				if be, isBin := c.(*ast.BinaryExpr); isBin && (be.Op == token.EQL || be.Op == token.NEQ) {
					var other ast.Expr
					if ast.Unparen(be.X) == ast.Expr(call) {
						other = be.Y
					} else if ast.Unparen(be.Y) == ast.Expr(call) {
						other = be.X
					}
					if other != nil && ValueKey(info, other) == "nil" {
						isNil := (be.Op == token.EQL) == (b.Taken != neg)
						if isNil {
							return ResultUse{Kind: "cond", Verdict: "nil", At: j}
						}
						return ResultUse{Kind: "cond", Verdict: "nonnil", At: j}
					}
				}
				return ResultUse{Kind: "nested", At: j}
			}
			if b.Block != ev.Block {
				break
			}
		}
		return ResultUse{Kind: "nested", At: -1}
	default:
		return ResultUse{Kind: "nested", At: -1}
	}
	id, ok := ast.Unparen(bound).(*ast.Ident)
	if !ok {
		return ResultUse{Kind: "nested", At: -1}
	}
	if id.Name == "_" {
		return ResultUse{Kind: "discarded", Verdict: "untested", At: -1}
	}
	obj := info.ObjectOf(id)
	use := ResultUse{Kind: "bound", Var: obj, Verdict: "untested", At: -1}
	// find the assign event of this node (it follows the call event)
	j := ci + 1
	for ; j < len(p.Ev); j++ {
		if p.Ev[j].Kind == EvAssign && p.Ev[j].Node == ev.Node && p.Ev[j].Depth == ev.Depth {
			j++
			break
		}
	}
	for ; j < len(p.Ev); j++ {
		e := p.Ev[j]
		if e.Depth > ev.Depth {
			continue // inside an inlined callee: its variables are not the caller's
		}
		switch e.Kind {
		case EvAssign:
			if e.Deferred {
				continue
			}
			for _, l := range e.Lhs {
				if lid, ok := ast.Unparen(l).(*ast.Ident); ok && info.ObjectOf(lid) == obj {
					use.Verdict, use.At = "overwritten", j
					return use
				}
			}
		case EvBranch:
			if e.Cond == nil || !mentionsObj(info, e.Cond, obj) {
				continue
			}
			if e.Tag != nil {
				continue
			}
			if v := verdictFromCond(info, e.Cond, e.Taken, id.Name); v != "" {
				use.Verdict, use.At = v, j
				return use
			}
		case EvReturn:
			for _, res := range e.Rhs {
				if rid, ok := ast.Unparen(res).(*ast.Ident); ok && info.ObjectOf(rid) == obj {
					use.Verdict, use.At = "returned", j
					return use
				}
			}
			// named result: a bare return returns the variable
			if len(e.Rhs) == 0 && isNamedResult(fl, obj) {
				use.Verdict, use.At = "returned", j
				return use
			}
		}
	}
	if p.Exit == ExitReturn && isNamedResult(fl, obj) {
		use.Verdict = "returned"
	}
	return use
}

func isNamedResult(fl *Flow, obj types.Object) bool {
	var ft *ast.FuncType
	switch n := fl.Node.(type) {
	case *ast.FuncDecl:
		ft = n.Type
	case *ast.FuncLit:
		ft = n.Type
	}
	if ft == nil || ft.Results == nil {
		return false
	}
	for _, f := range ft.Results.List {
		for _, nm := range f.Names {
			if fl.Info.ObjectOf(nm) == obj {
				return true
			}
		}
	}
	return false
}

// ExitGuardKey names the exit of a path by what guards it: the callee whose
// result the last branch tested, or the condition text.
func ExitGuardKey(fl *Flow, p *Path) string {
	for i := len(p.Ev) - 1; i >= 0; i-- {
		e := p.Ev[i]
		if e.Deferred || e.Depth > 0 {
			continue
		}
		switch e.Kind {
		case EvBranch:
			if e.Cond == nil {
				continue
			}
			pol := "true"
			if !e.Taken {
				pol = "false"
			}
			// a call inside the condition
			name := ""
			ast.Inspect(e.Cond, func(n ast.Node) bool {
				if c, ok := n.(*ast.CallExpr); ok && name == "" {
					name = calleeName(fl.Info, c)
				}
				return name == ""
			})
			if name == "" {
				// an identifier assigned from a call earlier on the path
				ast.Inspect(e.Cond, func(n ast.Node) bool {
					id, ok := n.(*ast.Ident)
					if !ok || name != "" {
						return name == ""
					}
					obj := fl.Info.ObjectOf(id)
					if _, isVar := obj.(*types.Var); !isVar {
						return true
					}
					for j := i - 1; j >= 0; j-- {
						a := p.Ev[j]
						if a.Kind != EvAssign {
							continue
						}
						for _, l := range a.Lhs {
							if lid, ok := ast.Unparen(l).(*ast.Ident); ok && fl.Info.ObjectOf(lid) == obj && len(a.Rhs) == 1 {
								if c, ok := ast.Unparen(a.Rhs[0]).(*ast.CallExpr); ok {
									name = calleeName(fl.Info, c)
								}
								return false
							}
						}
					}
					return true
				})
			}
			if name == "" {
				name = ExprStr(e.Cond)
				if e.Tag != nil {
					name = ExprStr(e.Tag) + "==" + name
				}
			}
			return name + "=" + pol
		case EvRange:
			if !e.Taken {
				return "after-loop"
			}
		}
	}
	return "entry"
}

func calleeName(info *types.Info, c *ast.CallExpr) string {
	switch fn := ast.Unparen(c.Fun).(type) {
	case *ast.Ident:
		return fn.Name
	case *ast.SelectorExpr:
		return fn.Sel.Name
	}
	return ExprStr(c.Fun)
}

// FirstAfter returns the index of the first event after i satisfying pred, or -1.
func FirstAfter(p *Path, i int, pred func(Event) bool) int {
	for j := i + 1; j < len(p.Ev); j++ {
		if pred(p.Ev[j]) {
			return j
		}
	}
	return -1
}

// LastBefore returns the index of the last event before i satisfying pred, or -1.
func LastBefore(p *Path, i int, pred func(Event) bool) int {
	for j := i - 1; j >= 0; j-- {
		if pred(p.Ev[j]) {
			return j
		}
	}
	return -1
}

// StatusAssign matches `X.State.Status = <const>` where X has named type owner
// ("workflow.Block"; "" = any) and returns the constant key ("workflow.Failed").
func StatusAssign(info *types.Info, e Event, owner string) (val string, ok bool) {
	if e.Kind != EvAssign || len(e.Lhs) != len(e.Rhs) {
		return "", false
	}
	for i, l := range e.Lhs {
		if _, m := FieldPath(info, l, owner, "State", "Status"); m {
			return ValueKey(info, e.Rhs[i]), true
		}
	}
	return "", false
}

// ShortFn strips the package directory from a function key.
func ShortFn(key string) string {
	if i := strings.LastIndex(key, "/"); i >= 0 {
		return key[i+1:]
	}
	return key
}

// ReturnsNilError reports whether a return event returns the literal nil in its
// last (error) position; ok is false when there are no results.
func ReturnsNilLast(info *types.Info, e Event) (isNil bool, ok bool) {
	res := e.Results()
	if e.Kind != EvReturn || len(res) == 0 {
		return false, false
	}
	return ValueKey(info, res[len(res)-1]) == "nil", true
}

// Results gives what a return (or assignment) event yields: the expressions as written, or, when the
// single expression is a call whose body the path engine spliced in, what that callee returned on this path.
func (e Event) Results() []ast.Expr {
	if e.Vals != nil {
		return e.Vals
	}
	return e.Rhs
}

// LostAfterNonNil: after the path established that the bound error variable is non-nil
// (use.At), is the error lost before the function returns? It is lost when the variable
// is reassigned before the return that ends the path, or when that return yields nil.
func LostAfterNonNil(fl *Flow, p *Path, use ResultUse) string {
	if use.Verdict != "nonnil" || use.At < 0 || p.Exit == ExitNoReturn {
		return ""
	}
	for j := use.At + 1; j < len(p.Ev); j++ {
		e := p.Ev[j]
		if e.Deferred || e.Depth > p.Ev[use.At].Depth {
			continue
		}
		switch e.Kind {
		case EvAssign:
			if use.Var != nil && e.Tok != token.DEFINE {
				for k, l := range e.Lhs {
					if id, ok := ast.Unparen(l).(*ast.Ident); ok && fl.Info.ObjectOf(id) == use.Var {
						// err = fmt.Errorf("…: %w", err): the variable is wrapped, not replaced
						if len(e.Rhs) == len(e.Lhs) && mentionsObj(fl.Info, e.Rhs[k], use.Var) {
							continue
						}
						return "after the failing branch the error variable is assigned again before the function returns (the loop goes on): the failure is overwritten by a later result"
					}
				}
			}
		case EvReturn:
			if isNil, has := ReturnsNilLast(fl.Info, e); has && isNil {
				return "the failing branch returns nil"
			}
			return ""
		}
	}
	if p.Exit == ExitTruncated {
		return ""
	}
	return "the failing branch falls off the end of the function"
}

// OwnOnly strips the events of inlined callees from the paths (and merges the paths that then
// coincide): the view of a function's own statements, for rules that judge each function on the
// code written in it (who-may-do-what tables, per-site error discipline).
func OwnOnly(paths []Path) []Path { return ownOnly(paths, nil, "") }

// OwnOnly (on a flow) additionally keeps the events of the function's private helpers — the pieces a
// function was split into belong to it (CallGraph.Owner).
func (f *Flow) OwnOnly(paths []Path) []Path {
	root := ""
	if f.self != nil {
		root = f.self.Key
	}
	return ownOnly(paths, f.P.CallGraph(), root)
}

// OwnCode keeps the function's own statements including the bodies of its callbacks that a helper
// called on the spot (withLock(func(){…})): code written in the function, nothing written elsewhere.
func (f *Flow) OwnCode(paths []Path) []Path {
	root := ""
	if f.self != nil {
		root = f.self.Key
	}
	return ownOnly(paths, nil, root)
}

func ownOnly(paths []Path, g *CallGraph, root string) []Path {
	var out []Path
	seen := map[string]bool{}
	for _, p := range paths {
		np := Path{Exit: p.Exit}
		var sig strings.Builder
		for _, e := range p.Ev {
			if e.Depth > 0 {
				own := root != "" && e.From == root
				if !own && g != nil && root != "" && e.From != "" && g.PrivateTo(e.From, root) {
					own = true
				}
				if !own {
					continue
				}
			}
			if e.Depth > 0 {
				// part of the function: present it as its own code
				if e.Kind == EvInlEnd {
					continue
				}
				if e.Kind == EvInlReturn {
					if e.From != root {
						continue
					}
					e.Kind = EvReturn // a callback written in the function returns to the helper that runs it, which hands the value on
				}
				e.Depth = 0
			}
			e.Inlined = false
			np.Ev = append(np.Ev, e)
			sig.WriteString(itoa(int(e.Pos)))
			sig.WriteByte(':')
			sig.WriteString(itoa(int(e.Kind)))
			if e.Taken {
				sig.WriteByte('t')
			}
			if e.Deferred {
				sig.WriteByte('d')
			}
			sig.WriteByte(' ')
		}
		sig.WriteString(itoa(int(p.Exit)))
		if seen[sig.String()] {
			continue
		}
		seen[sig.String()] = true
		out = append(out, np)
	}
	return out
}

// NilnessAt answers what path p has established about e (an identifier or selector chain) at event
// index idx: "nil", "nonnil" or "" (unknown). It walks back from idx: a branch event that compares
// the same place with nil decides; an assignment to the place decides by what was assigned (the nil
// literal, a fresh error from fmt.Errorf / errors.New / a composite literal address) or ends the walk.
func NilnessAt(info *types.Info, p *Path, idx int, e ast.Expr) string {
	e = ast.Unparen(e)
	if ValueKey(info, e) == "nil" {
		return "nil"
	}
	if freshNonNil(info, e) {
		return "nonnil"
	}
	key := chainKey(e)
	if key == "" {
		return ""
	}
	obj := ObjOf(info, e)
	same := func(x ast.Expr) bool {
		x = ast.Unparen(x)
		if chainKey(x) != key {
			return false
		}
		return obj == nil || ObjOf(info, x) == obj
	}
	for j := idx - 1; j >= 0; j-- {
		ev := p.Ev[j]
		switch ev.Kind {
		case EvBranch:
			for _, l := range EventLiterals(info, ev) {
				if l.Val == "nil" && same(l.X) {
					if l.Eq {
						return "nil"
					}
					return "nonnil"
				}
			}
		case EvAssign:
			for k, l := range ev.Lhs {
				if !same(l) {
					continue
				}
				var rhs ast.Expr
				if len(ev.Lhs) == len(ev.Rhs) {
					rhs = ev.Rhs[k]
				} else if len(ev.Vals) == len(ev.Lhs) {
					rhs = ev.Vals[k]
				}
				if rhs == nil {
					return ""
				}
				if ValueKey(info, rhs) == "nil" {
					return "nil"
				}
				if freshNonNil(info, rhs) {
					return "nonnil"
				}
				if len(ev.Vals) == len(ev.Lhs) && ev.Vals[k] != nil {
					if ValueKey(info, ev.Vals[k]) == "nil" {
						return "nil"
					}
					if freshNonNil(info, ev.Vals[k]) {
						return "nonnil"
					}
				}
				return ""
			}
		case EvCall:
			// a call may write through a selector chain (not a plain local)
			if _, isIdent := e.(*ast.Ident); !isIdent && !ev.Inlined {
				return ""
			}
		}
	}
	return ""
}

// freshNonNil: an expression whose value is a freshly made, non-nil error or pointer.
func freshNonNil(info *types.Info, e ast.Expr) bool {
	e = ast.Unparen(e)
	switch x := e.(type) {
	case *ast.CallExpr:
		if f, ok := calleeFunc(info, x); ok {
			switch FuncKey(f) {
			case "fmt.Errorf", "errors.New":
				return true
			}
		}
	case *ast.UnaryExpr:
		if x.Op == token.AND {
			if _, ok := ast.Unparen(x.X).(*ast.CompositeLit); ok {
				return true
			}
		}
	}
	return false
}
