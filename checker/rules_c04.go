package main

import (
	"go/ast"
	"go/constant"
	"go/token"
	"go/types"
	"sort"
	"strings"
)

func init() {
	register(PropInfo{
		ID: "C04",
		Explanation: "All-paths decision of the structural clauses of C04 (DESIGN.md section 4, C04): (R1) End computes the final state and, on every exit, stamps State.End and calls writeEverything, whose dispatch covers every ObjectType with the matching fatal-on-error Update; (R2) the waiter is registered before the plan is submitted and closed only by the deferred function of the submitted literal, after the state machine has returned; (R3) join J1: every path from Group.Go to a return passes Group.Wait in the six launching functions; (R4) join J2: in the state graph no path from a state that spawns a continuous-check goroutine to the terminal avoids the state that cancels and drains its channel, and that state drains on every path not excused by the spawn's own guard; (R5) reason table: the i-th element examined and the reason assigned in case i name the same check group; (R6) a failure reason / Failed status is only assigned together with req.Err (pre-empting `end`), `end` is the only place the engine completes a plan; (R7) sequence and action verdicts follow the error branch. Decides these necessary conditions, not the consistency of every reachable final state as data.",
		NotDecided:  []string{"start <= end (wall-clock values)", "agreement of statuses for every reachable final state as data", "several plans running concurrently"},
		Assumptions: []string{"statemachine.Run semantics (Next cleared, Err pre-empts)", "Group.Wait joins; Pool.Submit runs the literal asynchronously", "a storage write failure is fatal (C08-R3)"},
		Rules:       rulesC04,
	})
}

var updateForKind = map[string]string{
	"workflow.OTPlan":     "UpdatePlan",
	"workflow.OTBlock":    "UpdateBlock",
	"workflow.OTAction":   "UpdateAction",
	"workflow.OTCheck":    "UpdateChecks",
	"workflow.OTSequence": "UpdateSequence",
}

// isUpdaterCall reports whether e is a call to a storage updater method and returns its name.
func isUpdaterCall(e Event) (string, bool) {
	if e.Kind != EvCall {
		return "", false
	}
	k := CalleeKey(e)
	if !strings.HasPrefix(k, "workflow/storage.") {
		return "", false
	}
	name := k[strings.LastIndex(k, ".")+1:]
	switch name {
	case "UpdatePlan", "UpdateBlock", "UpdateAction", "UpdateChecks", "UpdateSequence":
		return name, true
	}
	return "", false
}

func rulesC04(r *Run) {
	// ---- R1
	r.Kind("R1", "K3+K7")
	ruleEndWrites(r, "R1")
	ruleWriteEverything(r, "R1")
	r.Expect("R1", 7)

	// ---- R2
	r.Kind("R2", "K3")
	ruleWaiter(r, "R2")
	ruleWaiterRelease(r, "R2")
	r.Expect("R2", 3)

	// ---- R3
	r.Kind("R3", "K3")
	ruleJoinJ1(r, "R3", smKey("runBypasses"), smKey("runPreChecks"), smKey("runActionsParallel"), smKey("fixBlock"), smKey("ExecuteSequences"), pkgExec+".Plans.initPlugins")
	r.Expect("R3", 6)

	// ---- R4
	r.Kind("R4", "K1")
	m := planMachine(r, "R4")
	ruleContJoin(r, "R4", m)
	ruleCancelStoredBack(r, "R4")
	ruleContChannelsMade(r, "R4")
	r.Expect("R4", 12)

	// ---- R5
	r.Kind("R5", "K7")
	ruleReasonTable(r, "R5")
	ruleExamineChecksScan(r, "R5")
	r.Expect("R5", 8)

	// ---- R6
	r.Kind("R6", "K2")
	ruleReasonIffFailed(r, "R6")
	r.Expect("R6", 12)

	// ---- R7
	r.Kind("R7", "K2")
	ruleExecSeqStatus(r, "R7")
	ruleRunnerEnd(r, "R7")
	r.Expect("R7", 2)

	// ---- R8
	r.Kind("R8", "K3")
	ruleEndStamped(r, "R8", m)
	r.Expect("R8", 8)
}

// ruleEndWrites: End runs finalStates and writes everything on every exit.
func ruleEndWrites(r *Run, rule string) {
	fn := r.fnByKey(rule, smKey("End"))
	if fn == nil {
		return
	}
	fl, paths, ok := r.flowPaths(rule, fn)
	if !ok {
		return
	}
	// the writer: whichever sm function End calls that reaches every storage updater (writeEverything by name before
	// D33, writeChildrenFirst since)
	writer := endWriterKey(r)
	bad := ""
	var bpos token.Pos = fn.Decl.Pos()
	n := 0
	for i := range paths {
		p := &paths[i]
		if p.Exit != ExitReturn {
			continue
		}
		n++
		ri, wi, ei := -1, -1, -1
		finalEntry := false
		for j, e := range p.Ev {
			if IsCall(e, keyRun) {
				ri = j
			}
			if writer != "" && IsCall(e, writer) && !e.Maybe {
				wi = j
			}
			if e.Kind == EvAssign && !e.Maybe {
				for _, l := range e.Lhs {
					if _, m := FieldPath(fl.Info, l, "workflow.Plan", "State", "End"); m {
						ei = j
					}
				}
				for k, l := range e.Lhs {
					if reqField(fl.Info, l, "Next") && len(e.Rhs) == len(e.Lhs) && ValueKey(fl.Info, e.Rhs[k]) == "method:"+pkgSM+".finalStates.start" && ri < 0 {
						finalEntry = true
					}
				}
			}
		}
		msg := ""
		switch {
		case ri < 0 || !finalEntry:
			msg = "a path of End returns without running the finalStates machine (entry finalStates.start)"
		case wi < 0:
			msg = "a path of End returns without calling a function that writes every kind of object (writeEverything)"
		case wi < ri:
			msg = "writeEverything runs before the final state is computed"
		case ei < 0 || ei > wi:
			msg = "Plan.State.End is not stamped before writeEverything"
		}
		if msg != "" && bad == "" {
			bad = msg + " (guard " + ExitGuardKey(fl, p) + ")"
		}
	}
	if n == 0 {
		r.Unresolved(rule, "End returning path")
		return
	}
	r.Check(rule, "End:final-then-write", bpos, bad == "", "%s", orOK(bad, "every exit: finalStates machine, then State.End, then writeEverything"))
}

// objectKinds lists the ObjectType constants of package workflow except OTUnknown.
func objectKinds(p *Prog) []string {
	pkg := p.Pkgs["workflow"]
	var out []string
	if pkg == nil {
		return nil
	}
	sc := pkg.Types.Scope()
	for _, n := range sc.Names() {
		c, ok := sc.Lookup(n).(*types.Const)
		if !ok || ShortType(c.Type()) != "workflow.ObjectType" {
			continue
		}
		if v, ok := constant.Int64Val(c.Val()); ok && v == 0 {
			continue
		}
		out = append(out, "workflow."+n)
	}
	sort.Strings(out)
	return out
}

// kindTest: a branch event that tests an ObjectType against a constant.
func kindTest(info *types.Info, e Event) (kind string, taken, ok bool) {
	if e.Kind != EvBranch || e.Cond == nil {
		return "", false, false
	}
	if e.Tag != nil {
		if v := ValueKey(info, e.Cond); strings.HasPrefix(v, "workflow.OT") {
			return v, e.Taken, true
		}
		return "", false, false
	}
	if be, isBin := ast.Unparen(e.Cond).(*ast.BinaryExpr); isBin && be.Op == token.EQL {
		if v := ValueKey(info, be.Y); strings.HasPrefix(v, "workflow.OT") {
			return v, e.Taken, true
		}
		if v := ValueKey(info, be.X); strings.HasPrefix(v, "workflow.OT") {
			return v, e.Taken, true
		}
	}
	return "", false, false
}

func ruleWriteEverything(r *Run, rule string) {
	wk := endWriterKey(r)
	if wk == "" {
		wk = smKey("writeEverything")
	}
	fn := r.fnByKey(rule, wk)
	if fn == nil {
		return
	}
	fl, paths, ok := r.flowPaths(rule, fn)
	if !ok {
		return
	}
	info := fl.Info
	// iterates walk.Plan(plan)
	walks := false
	ast.Inspect(fn.Decl.Body, func(n ast.Node) bool {
		if rs, ok := n.(*ast.RangeStmt); ok {
			if c, ok := ast.Unparen(rs.X).(*ast.CallExpr); ok {
				if f, ok := calleeFunc(info, c); ok && FuncKey(f) == "workflow/utils/walk.Plan" {
					walks = true
				}
			}
		}
		return true
	})
	r.Check(rule, "writeEverything:walks-plan", fn.Decl.Pos(), walks, "writeEverything must range over walk.Plan(plan) so that every object of the plan is visited")
	// round-4 seed C04-7: nothing the walk yields is passed over. What recovery repaired in memory (a Block, Sequence or
	// Action stored Running and reset to NotStarted by fixPlan) is made durable only here when the plan goes straight to End,
	// so "still looks as submitted" is no reason to leave an object out: every iteration of the loop over walk.Plan hands its
	// item on — appends it, passes it to a function of the package, or writes it.
	if walks {
		ruleWalkLoopHandsOn(r, rule, "writeEverything", wk, fn, fl, paths)
	}
	kinds := objectKinds(r.P)
	if len(kinds) < 5 {
		r.Unresolved(rule, "workflow.ObjectType constants")
		return
	}
	for _, k := range kinds {
		want := updateForKind[k]
		found, good := false, true
		msg := ""
		var pos token.Pos = fn.Decl.Pos()
		for i := range paths {
			p := &paths[i]
			for j, e := range p.Ev {
				kd, taken, isT := kindTest(info, e)
				if !isT || kd != k || !taken {
					continue
				}
				found = true
				pos = e.Pos
				// next updater call before the next kind test / loop header
				got := ""
				fatal := false
				for x := j + 1; x < len(p.Ev); x++ {
					ev := p.Ev[x]
					if _, _, t := kindTest(info, ev); t || ev.Kind == EvRange {
						break
					}
					if name, isU := isUpdaterCall(ev); isU && got == "" {
						got = name
						u := UseOfResult(fl, p, x)
						if u.Verdict == "nonnil" && p.Exit == ExitNoReturn {
							fatal = true
						}
						if u.Verdict == "nil" {
							fatal = true // the other polarity of a tested result; fatality is judged on the non-nil path
						}
						if u.Verdict == "untested" || u.Kind == "discarded" {
							good, msg = false, "result of "+name+" is not tested"
						}
					}
				}
				if want == "" {
					good, msg = false, "no updater is known for "+k+" (new object kind?)"
				} else if got != want {
					good, msg = false, "case "+k+" calls "+orOK(got, "no updater")+", expected "+want
				}
				_ = fatal
			}
		}
		if !found {
			r.Fail(rule, "writeEverything:case:"+k, pos, "no case for %s: objects of that kind would not be written at End", k)
			continue
		}
		r.Check(rule, "writeEverything:case:"+k, pos, good, "%s", orOK(msg, "case "+k+" → "+want))
	}
}

// ruleWaiter: registration before Submit, close only in the deferred function after the runner returned.
func ruleWaiter(r *Run, rule string) {
	fn := r.fnByKey(rule, pkgExec+".Plans.runPlan")
	if fn == nil {
		return
	}
	fl, paths, ok := r.flowPaths(rule, fn)
	if !ok {
		return
	}
	info := fl.Info
	isWaitersCall := func(e Event, method string) bool {
		if e.Kind != EvCall {
			return false
		}
		sel, ok := ast.Unparen(e.Call.Fun).(*ast.SelectorExpr)
		if !ok || sel.Sel.Name != method {
			return false
		}
		_, m := FieldPath(info, sel.X, "execute.Plans", "waiters")
		return m
	}
	var lit *ast.FuncLit
	bad := ""
	var bpos token.Pos = fn.Decl.Pos()
	for i := range paths {
		p := &paths[i]
		if p.Exit != ExitReturn {
			continue
		}
		si, wi := -1, -1
		for j, e := range p.Ev {
			if IsCall(e, keySubmit) {
				si = j
				lit = LitArg(e.Call)
			}
			if isWaitersCall(e, "Set") && wi < 0 {
				wi = j
			}
			if e.Kind == EvCall && CalleeKey(e) == "builtin.close" && bad == "" {
				bad, bpos = "runPlan closes a channel itself (the waiter must be released only after the state machine returned)", e.Pos
			}
		}
		if si >= 0 && (wi < 0 || wi > si) && bad == "" {
			bad, bpos = "the plan is submitted to the pool before its waiter is registered (a fast plan would close a missing waiter / Wait would not find it)", p.Ev[si].Pos
		}
	}
	r.Check(rule, "runPlan:waiter-registered-before-submit", bpos, bad == "" && lit != nil, "%s", orOK(bad, "waiters.Set precedes Pool.Submit on every path"))
	if lit == nil {
		r.Unresolved(rule, "runPlan submits a literal")
		return
	}
	lf, lp, ok := r.litPaths(rule, lit)
	if !ok {
		return
	}
	bad = ""
	bpos = lit.Pos()
	bad2 := ""
	n := 0
	for i := range lp {
		p := &lp[i]
		if p.Exit != ExitReturn {
			continue
		}
		n++
		ri, ci, di := -1, -1, -1
		for j, e := range p.Ev {
			if e.Kind == EvCall {
				if sel, ok := ast.Unparen(e.Call.Fun).(*ast.SelectorExpr); ok {
					if _, m := FieldPath(lf.Info, sel, "execute.Plans", "runner"); m {
						ri = j
					}
				}
				if CalleeKey(e) == "builtin.close" {
					ci = j
				}
				if isWaitersCall(e, "Del") {
					di = j
				}
			}
		}
		switch {
		case ri < 0:
			if bad == "" {
				bad = "a path of the submitted literal does not run the state machine (e.runner)"
			}
		case ci < 0:
			if bad2 == "" {
				bad2 = "a path of the submitted literal never closes the waiter: Wait would block forever"
			}
		case ci < ri || (di >= 0 && di < ri):
			if bad == "" {
				bad, bpos = "the waiter is closed/removed before the state machine has returned: Wait could return while the plan is still executing", p.Ev[ci].Pos
			}
		}
	}
	// the runner call must be in the literal's own flow (not in a nested go/literal)
	nested := false
	ast.Inspect(lit.Body, func(nn ast.Node) bool {
		switch x := nn.(type) {
		case *ast.GoStmt:
			if callsField(lf.Info, x, "execute.Plans", "runner") {
				nested = true
			}
		case *ast.CallExpr:
			if f, ok := calleeFunc(lf.Info, x); ok && asyncLaunchers[FuncKey(f)] && callsField(lf.Info, x, "execute.Plans", "runner") {
				nested = true
			}
		}
		return true
	})
	if nested && bad == "" {
		bad = "the state machine is started on yet another goroutine inside the submitted literal; the deferred close no longer waits for it"
	}
	if n == 0 {
		r.Unresolved(rule, "submitted literal returning path")
		return
	}
	r.Check(rule, "runPlan:close-after-runner", bpos, bad == "", "%s", orOK(bad, "close(waiter) and waiters.Del follow e.runner on every path"))
	r.Check(rule, "runPlan:waiter-always-closed", bpos, bad2 == "", "%s", orOK(bad2, "every exit of the literal closes the waiter"))
}

func callsField(info *types.Info, root ast.Node, owner, field string) bool {
	found := false
	ast.Inspect(root, func(n ast.Node) bool {
		if c, ok := n.(*ast.CallExpr); ok {
			if _, m := FieldPath(info, c.Fun, owner, field); m {
				found = true
			}
		}
		return !found
	})
	return found
}

// contSpawn describes a state that starts a continuous-check goroutine.
type contSpawn struct {
	state string
	owner string // "sm.Data" or "sm.block": the struct holding contCheckResult
	pos   token.Pos
}

// chanOwner: for an expression selecting field contCheckResult, the struct type holding it.
func chanOwner(info *types.Info, e ast.Expr) string {
	sel, ok := ast.Unparen(e).(*ast.SelectorExpr)
	if !ok || sel.Sel.Name != "contCheckResult" {
		return ""
	}
	if tv, ok := info.Types[sel.X]; ok {
		return ShortType(tv.Type)
	}
	return ""
}

func ruleContJoin(r *Run, rule string, m *Machine) {
	var spawns []contSpawn
	joins := map[string][]string{} // owner → states that range over the channel
	var names []string
	for s := range m.States {
		names = append(names, s)
	}
	sort.Strings(names)
	for _, st := range names {
		fn := m.States[st]
		if fn == nil {
			continue
		}
		info := fn.Pkg.TypesInfo
		ast.Inspect(fn.Decl.Body, func(n ast.Node) bool {
			switch x := n.(type) {
			case *ast.CallExpr:
				if f, ok := calleeFunc(info, x); ok && FuncKey(f) == smKey("runContChecks") && len(x.Args) == 3 {
					if o := chanOwner(info, x.Args[2]); o != "" {
						spawns = append(spawns, contSpawn{state: st, owner: o, pos: x.Pos()})
					}
				}
			case *ast.RangeStmt:
				if o := chanOwner(info, x.X); o != "" {
					joins[o] = append(joins[o], st)
				}
			}
			return true
		})
	}
	for _, sp := range spawns {
		fn := m.States[sp.state]
		fl, paths, ok := r.flowPaths(rule, fn)
		if !ok {
			continue
		}
		bad := ""
		for i := range paths {
			p := &paths[i]
			assigned := false
			for _, e := range p.Ev {
				if e.Kind == EvAssign {
					for _, l := range e.Lhs {
						if sel, ok := ast.Unparen(l).(*ast.SelectorExpr); ok && sel.Sel.Name == "contCancel" {
							if tv, ok := fl.Info.Types[sel.X]; ok && ShortType(tv.Type) == sp.owner {
								assigned = true
							}
						}
					}
				}
				if IsCall(e, keySubmit) && LitArg(e.Call) != nil && callsFunc(fl.Info, LitArg(e.Call), smKey("runContChecks")) && !assigned && bad == "" {
					bad = "the continuous-check goroutine is submitted before its cancel function is stored in " + sp.owner + ".contCancel: the joining state could neither cancel it nor know that it exists"
				}
			}
		}
		r.Check(rule, "cont-spawn:"+sp.owner+":cancel-stored-before-submit", sp.pos, bad == "", "%s", orOK(bad, "contCancel assigned before Pool.Submit"))
	}
	if len(spawns) < 2 {
		r.Unresolved(rule, "two states spawning runContChecks (plan and block)")
	}
	for _, sp := range spawns {
		js := joins[sp.owner]
		if len(js) == 0 {
			r.Fail(rule, "cont-join:"+sp.owner+":no-join-state", sp.pos, "no state drains the %s.contCheckResult channel", sp.owner)
			continue
		}
		avoid := map[string]bool{}
		for _, j := range js {
			avoid[j] = true
		}
		reach := m.reach(sp.state, avoid)
		okJoin := !reach[Terminal]
		wit := ""
		if !okJoin {
			wit = witnessAvoiding(m, sp.state, avoid, Terminal)
		}
		r.Check(rule, "cont-join:"+sp.owner+":spawn="+sp.state, sp.pos, okJoin,
			"the goroutine started in %s is cancelled and drained only in %v, but the machine can terminate without passing there: %s — the check goroutine (and its plugin) may still be running when the plan is reported finished", sp.state, js, wit)
		for _, j := range js {
			ruleDrainState(r, rule, m.States[j], sp.owner)
			ruleDrainHasProducer(r, rule, m, j, sp.owner)
		}
	}
}

// ruleDrainHasProducer: a state may range over the continuous-check channel only if something
// is guaranteed to close it: either every route to the state passes a state that, on all of its
// paths, spawns the producer (which closes on exit) or closes the channel itself — or the drain
// is locally guarded by `contCancel != nil` (assigned only when the producer is spawned).
func ruleDrainHasProducer(r *Run, rule string, m *Machine, join, owner string) {
	fn := m.States[join]
	if fn == nil {
		return
	}
	// states that always spawn or close
	always := map[string]bool{}
	for st, sf := range m.States {
		if sf == nil {
			continue
		}
		fl := r.P.FlowOf(sf)
		paths, ok := fl.Paths()
		if !ok {
			continue
		}
		all, any := true, false
		for i := range paths {
			p := &paths[i]
			if p.Exit != ExitReturn {
				continue
			}
			done := false
			for _, e := range p.Ev {
				if e.Kind == EvCall && CalleeKey(e) == "builtin.close" && len(e.Call.Args) == 1 && chanOwner(fl.Info, e.Call.Args[0]) == owner {
					done = true
				}
				if IsCall(e, keySubmit) {
					if l := LitArg(e.Call); l != nil {
						ast.Inspect(l.Body, func(n ast.Node) bool {
							if c, ok := n.(*ast.CallExpr); ok {
								if f, ok := calleeFunc(fl.Info, c); ok && FuncKey(f) == smKey("runContChecks") && len(c.Args) == 3 && chanOwner(fl.Info, c.Args[2]) == owner {
									done = true
								}
							}
							return true
						})
					}
				}
			}
			if done {
				any = true
			} else {
				all = false
			}
		}
		if all && any {
			always[st] = true
		}
	}
	dominated := true
	for _, entry := range []string{"Start", "Recovery"} {
		if _, ok := m.States[entry]; !ok {
			continue
		}
		if m.reach(entry, always)[join] && !always[join] {
			dominated = false
		}
	}
	// local guard
	fl, paths, ok := r.flowPaths(rule, fn)
	if !ok {
		return
	}
	guarded := true
	var pos token.Pos = fn.Decl.Pos()
	for i := range paths {
		p := &paths[i]
		cancelNonNil := false
		for _, e := range p.Ev {
			if e.Kind == EvBranch && e.Cond != nil {
				for _, cj := range conjuncts(e.Cond) {
					if x, op, ok := IsNilCompare(fl.Info, cj); ok && e.Taken && op == token.NEQ {
						if sel, ok := x.(*ast.SelectorExpr); ok && sel.Sel.Name == "contCancel" {
							if tv, ok := fl.Info.Types[sel.X]; ok && ShortType(tv.Type) == owner {
								cancelNonNil = true
							}
						}
					}
				}
			}
			if e.Kind == EvRange && chanOwner(fl.Info, e.Chan) == owner && !cancelNonNil {
				guarded = false
				pos = e.Pos
			}
		}
	}
	var closers []string
	for st := range always {
		closers = append(closers, st)
	}
	sort.Strings(closers)
	r.Check(rule, "cont-drain-has-producer:"+join, pos, dominated || guarded,
		"%s ranges over the %s.contCheckResult channel, but the machine can get there without passing a state that always spawns its producer or closes it (%v), and the drain is not guarded by `contCancel != nil`: nothing ever closes the channel, so the state blocks forever and the plan never ends (e.g. a block whose PreChecks fail while it has ContChecks)", join, owner, closers)
}

func witnessAvoiding(m *Machine, from string, avoid map[string]bool, to string) string {
	prev := map[string]string{from: ""}
	work := []string{from}
	for len(work) > 0 {
		s := work[0]
		work = work[1:]
		for _, t := range m.Succs(s) {
			if _, seen := prev[t]; seen || avoid[t] {
				continue
			}
			prev[t] = s
			if t == to {
				var chain []string
				for x := t; x != ""; x = prev[x] {
					chain = append([]string{x}, chain...)
				}
				return strings.Join(chain, "→")
			}
			work = append(work, t)
		}
	}
	return ""
}

// ruleDrainState: inside the join state the channel is drained on every path not
// excused by the spawn's own guard (ContChecks == nil) or a completed bypass.
func ruleDrainState(r *Run, rule string, fn *Func, owner string) {
	if fn == nil {
		return
	}
	fl, paths, ok := r.flowPaths(rule, fn)
	if !ok {
		return
	}
	info := fl.Info
	short := fn.Obj.Name()
	bad := ""
	var bpos token.Pos = fn.Decl.Pos()
	n := 0
	for i := range paths {
		p := &paths[i]
		if p.Exit != ExitReturn {
			continue
		}
		n++
		drained, excused, cancelled, cancelNil := false, false, false, false
		lastRangeTaken := -1
		for j, e := range p.Ev {
			switch e.Kind {
			case EvRange:
				if chanOwner(info, e.Chan) == owner {
					drained = true
					if e.Taken {
						lastRangeTaken = j
					} else {
						lastRangeTaken = -1
					}
					if !cancelled && !cancelNil && bad == "" {
						bad, bpos = "the channel is drained without cancelling the check goroutine first (the drain would never end)", e.Pos
					}
				}
			case EvCall:
				if sel, ok := ast.Unparen(e.Call.Fun).(*ast.SelectorExpr); ok && sel.Sel.Name == "contCancel" {
					if tv, ok := info.Types[sel.X]; ok && ShortType(tv.Type) == owner {
						cancelled = true
					}
				}
			case EvBranch:
				if e.Cond == nil {
					continue
				}
				if x, op, ok := IsNilCompare(info, e.Cond); ok {
					isNilBranch := (op == token.EQL) == e.Taken
					if sel, ok := x.(*ast.SelectorExpr); ok {
						if sel.Sel.Name == "ContChecks" && isNilBranch {
							excused = true
						}
						if sel.Sel.Name == "contCancel" && isNilBranch {
							cancelNil = true
							excused = true // the spawn assigns contCancel before submitting (checked at the spawn site): nil ⇒ nothing was spawned
						}
						if sel.Sel.Name == "contCheckResult" && isNilBranch {
							excused = true // no channel was ever created
						}
					}
				}
				if Establishes(info, e, fieldMatcher(info, "", "BypassChecks", "State", "Status"), "workflow.Completed", true) {
					excused = true
				}
				// a conjunction of the two spawn guards that is false: with the cancel function known
				// non-nil the group is absent; with it nil nothing was spawned — excused either way
				if cjs := conjuncts(e.Cond); len(cjs) > 1 && !e.Taken {
					onlyGuards := true
					for _, cj := range cjs {
						x, op, ok := IsNilCompare(info, cj)
						sel, isSel := x.(*ast.SelectorExpr)
						if !ok || op != token.NEQ || !isSel || (sel.Sel.Name != "ContChecks" && sel.Sel.Name != "contCancel" && sel.Sel.Name != "contCheckResult") {
							onlyGuards = false
						}
					}
					if onlyGuards {
						excused = true
					}
				}
			}
		}
		if !drained && !excused && bad == "" {
			bad = "a path of " + short + " returns without draining the continuous-check channel (guard " + ExitGuardKey(fl, p) + ")"
		}
		if lastRangeTaken >= 0 {
			// left the loop from inside its body: only allowed on a non-nil element
			rs := p.Ev[lastRangeTaken].Clause.(*ast.RangeStmt)
			okExit := false
			for j := lastRangeTaken + 1; j < len(p.Ev); j++ {
				e := p.Ev[j]
				if e.Kind == EvBranch && e.Cond != nil && rs.Key != nil {
					if x, op, ok := IsNilCompare(info, e.Cond); ok && SameObj(info, x, rs.Key) && (op == token.NEQ) == e.Taken {
						okExit = true
					}
				}
			}
			if !okExit && bad == "" {
				bad, bpos = "the drain loop is left before the channel is closed on a path where the element is not a failure", rs.Pos()
			}
		}
	}
	if n == 0 {
		r.Unresolved(rule, fn.Key+" returning path")
		return
	}
	r.Check(rule, "cont-drain:"+short, bpos, bad == "", "%s", orOK(bad, "cancel, then range to close (or to the first failure), on every path that could have spawned"))
}

var reasonForGroup = map[string]string{
	"PreChecks":      "workflow.FRPreCheck",
	"ContChecks":     "workflow.FRContCheck",
	"PostChecks":     "workflow.FRPostCheck",
	"DeferredChecks": "workflow.FRDeferredCheck",
}

func ruleReasonTable(r *Run, rule string) {
	pc := r.Fn(rule, pkgSM, "finalStates", "planChecks")
	ex := r.Fn(rule, pkgSM, "finalStates", "examineChecks")
	if pc == nil || ex == nil {
		return
	}
	info := pc.Pkg.TypesInfo
	var groups []string
	var litPos token.Pos
	ast.Inspect(pc.Decl.Body, func(n ast.Node) bool {
		c, ok := n.(*ast.CallExpr)
		if !ok {
			return true
		}
		if f, ok := calleeFunc(info, c); !ok || FuncKey(f) != pkgSM+".finalStates.examineChecks" || len(c.Args) != 1 {
			return true
		}
		cl, ok := ast.Unparen(c.Args[0]).(*ast.CompositeLit)
		if !ok {
			return true
		}
		litPos = cl.Pos()
		for _, el := range cl.Elts {
			name := "?"
			if sel, ok := ast.Unparen(el).(*ast.SelectorExpr); ok {
				if _, m := FieldPath(info, sel, "workflow.Plan", sel.Sel.Name); m {
					name = sel.Sel.Name
				}
			}
			groups = append(groups, name)
		}
		return true
	})
	if len(groups) == 0 {
		r.Unresolved(rule, "planChecks passes an array literal of plan check groups to examineChecks")
		return
	}
	hasBypass := false
	for _, g := range groups {
		if g == "BypassChecks" {
			hasBypass = true
		}
	}
	r.Check(rule, "planChecks:bypass-not-examined", litPos, !hasBypass, "BypassChecks must not be examined for failure: a failing bypass check alone never fails the plan")
	want := map[string]bool{}
	for g := range reasonForGroup {
		want[g] = true
	}
	for _, g := range groups {
		delete(want, g)
	}
	r.Check(rule, "planChecks:groups-examined", litPos, len(want) == 0, "check groups not examined for failure: %v", sortedKeys(want))

	fl, paths, ok := r.flowPaths(rule, ex)
	if !ok {
		return
	}
	seen := map[int]bool{}
	for i := range paths {
		p := &paths[i]
		for j, e := range p.Ev {
			if e.Kind != EvBranch || e.Tag == nil || !e.Taken {
				continue
			}
			k, isC := ConstInt(fl.Info, e.Cond)
			if !isC {
				continue
			}
			if tv, ok := fl.Info.Types[e.Tag]; !ok || !types.Identical(tv.Type, types.Typ[types.Int]) {
				continue
			}
			if seen[int(k)] {
				continue
			}
			// next assignment of a FailureReason
			got := ""
			var rv types.Object
			for x := j + 1; x < len(p.Ev); x++ {
				a := p.Ev[x]
				if a.Kind == EvBranch {
					break
				}
				if a.Kind == EvAssign && len(a.Lhs) == len(a.Rhs) {
					for q, l := range a.Lhs {
						if tv, ok := fl.Info.Types[l]; ok && ShortType(tv.Type) == "workflow.FailureReason" {
							got = ValueKey(fl.Info, a.Rhs[q])
							rv = ObjOf(fl.Info, l)
						}
					}
				}
			}
			seen[int(k)] = true
			if int(k) >= len(groups) {
				r.Fail(rule, "examineChecks:case:"+itoa(int(k)), e.Pos, "case %d has no element in the examined array (%d elements)", k, len(groups))
				continue
			}
			g := groups[k]
			okR := got == reasonForGroup[g]
			r.Check(rule, "examineChecks:case:"+itoa(int(k))+":"+g, e.Pos, okR, "element %d of the examined array is Plan.%s but case %d assigns reason %s (expected %s): the failure reason would name the wrong stage", k, g, k, orOK(got, "nothing"), reasonForGroup[g])
			_ = rv
		}
	}
	// the same table written as data: `T[i]` where T is a variable initialised with a literal whose k-th
	// element carries the reason of element k
	if len(seen) == 0 {
		for k, got := range reasonLookupTable(r, ex) {
			seen[k] = true
			if k >= len(groups) {
				r.Fail(rule, "examineChecks:case:"+itoa(k), ex.Decl.Pos(), "the reason table has an entry %d but the examined array has %d elements", k, len(groups))
				continue
			}
			g := groups[k]
			r.Check(rule, "examineChecks:case:"+itoa(k)+":"+g, ex.Decl.Pos(), got == reasonForGroup[g], "element %d of the examined array is Plan.%s but entry %d of the reason table is %s (expected %s): the failure reason would name the wrong stage", k, g, k, orOK(got, "nothing"), reasonForGroup[g])
		}
	}
	for i := range groups {
		if !seen[i] {
			r.Fail(rule, "examineChecks:case:"+itoa(i)+":"+groups[i], ex.Decl.Pos(), "no case assigns a reason for element %d (Plan.%s)", i, groups[i])
		}
	}
	// the reason returned on the Failed branch is the assigned variable
	bad := ""
	var bpos token.Pos = ex.Decl.Pos()
	nf := 0
	for i := range paths {
		p := &paths[i]
		if p.Exit != ExitReturn {
			continue
		}
		failed := false
		for _, e := range p.Ev {
			if e.Kind == EvBranch && e.Tag != nil && e.Taken {
				if _, m := FieldPath(fl.Info, e.Tag, "workflow.Checks", "State", "Status"); m && ValueKey(fl.Info, e.Cond) == "workflow.Failed" {
					failed = true
				}
			}
		}
		var ret *Event
		for j := range p.Ev {
			if p.Ev[j].Kind == EvReturn {
				ret = &p.Ev[j]
			}
		}
		if ret == nil || len(ret.Rhs) != 2 {
			continue
		}
		isNil := ValueKey(fl.Info, ret.Rhs[1]) == "nil"
		if failed {
			nf++
			if isNil && bad == "" {
				bad, bpos = "a Failed check group returns a nil error from examineChecks", ret.Pos
			}
			if v := ValueKey(fl.Info, ret.Rhs[0]); v != "" && bad == "" {
				bad, bpos = "a Failed check group returns the fixed reason "+v+" instead of the one selected for its group", ret.Pos
			}
		}
	}
	// a group that never ran is not the stage that failed
	badNS, nNS := "", 0
	for i := range paths {
		p := &paths[i]
		for j, e := range p.Ev {
			if e.Kind != EvBranch || e.Tag == nil || !e.Taken {
				continue
			}
			if _, m := FieldPath(fl.Info, e.Tag, "workflow.Checks", "State", "Status"); !m || ValueKey(fl.Info, e.Cond) != "workflow.NotStarted" {
				continue
			}
			nNS++
			for x := j + 1; x < len(p.Ev); x++ {
				if p.Ev[x].Kind == EvRange {
					break
				}
				if p.Ev[x].Kind == EvReturn && len(p.Ev[x].Rhs) == 2 && ValueKey(fl.Info, p.Ev[x].Rhs[1]) != "nil" && badNS == "" {
					badNS = "a check group that is NotStarted is reported as the failing stage"
				}
			}
		}
	}
	if nNS == 0 {
		badNS = "examineChecks has no case for a check group that never ran (NotStarted): it falls into the default branch and is blamed — a plan whose block failed gets the reason of its (never run) post checks, and a plan that ended before its continuous checks' first run ends Failed although nothing failed"
	}
	r.Check(rule, "examineChecks:never-run-group-not-blamed", ex.Decl.Pos(), badNS == "", "%s", orOK(badNS, "NotStarted ⇒ skipped"))
	if nf == 0 {
		r.Unresolved(rule, "examineChecks Failed case")
	} else {
		r.Check(rule, "examineChecks:failed-returns-reason", bpos, bad == "", "%s", orOK(bad, "a Failed group returns its selected reason and a non-nil error"))
	}
}

// ruleReasonIffFailed: reason/Failed only together with Err; who may complete a plan.
func ruleReasonIffFailed(r *Run, rule string) {
	fm := r.ExtractMachine(rule, "final", pkgSM, "finalStates", "start")
	for _, e := range fm.Edges {
		if e.Assigned == "?" {
			r.Undecided(rule, "final-edge:"+e.From, e.Site, "successor cannot be resolved")
		}
	}
	r.Note("finalStates graph: %s", fm.Dump())
	sub := func(key string, got []string, allowed ...string) {
		al := map[string]bool{}
		for _, a := range allowed {
			al[a] = true
		}
		okS := len(got) > 0
		for _, g := range got {
			if !al[g] {
				okS = false
			}
		}
		var pos token.Pos
		if f := fm.States[strings.TrimSuffix(strings.TrimPrefix(key, "final-succs("), ")")]; f != nil {
			pos = f.Decl.Pos()
		}
		r.Check(rule, key, pos, okS, "%s = %v, allowed %v", key, got, allowed)
	}
	sub("final-succs(start)", fm.Succs("start"), "bypassChecks")
	sub("final-succs(bypassChecks)", fm.Succs("bypassChecks"), "end", "planChecks")
	sub("final-succs(planChecks)", fm.Succs("planChecks"), "blocks", Terminal)
	sub("final-succs(blocks)", fm.Succs("blocks"), "end", Terminal)
	sub("final-succs(end)", fm.Succs("end"), Terminal)

	// routing inside the verdict machine follows the examined facts (mutation sweep, session 2: negating
	// `if skipped` or `if err == nil` left every successor set unchanged)
	boolGateRouting(r, rule, pkgSM+".finalStates.bypassChecks", pkgSM+".finalStates.examineBypasses", []string{"final.end"}, []string{"final.planChecks"})
	ruleFinalPlanChecksRouting(r, rule)
	ruleFinalNoSilentStop(r, rule, fm)

	// every path of a finalStates state that assigns Reason or Failed sets Err, and vice versa
	for _, st := range []string{"planChecks", "blocks", "bypassChecks", "start", "end"} {
		fn := fm.States[st]
		if fn == nil {
			continue
		}
		fl, paths, ok := r.flowPaths(rule, fn)
		if !ok {
			continue
		}
		bad := ""
		var bpos token.Pos = fn.Decl.Pos()
		for i := range paths {
			p := &paths[i]
			if p.Exit != ExitReturn {
				continue
			}
			_, errSet, _ := PathNext(fl, p)
			failed, reason := false, false
			for _, e := range p.Ev {
				if v, ok := StatusAssign(fl.Info, e, "workflow.Plan"); ok && v == "workflow.Failed" {
					failed = true
				}
				if e.Kind == EvAssign {
					for _, l := range e.Lhs {
						if _, m := FieldPath(fl.Info, l, "workflow.Plan", "Reason"); m {
							reason = true
						}
					}
				}
			}
			if (failed != errSet || reason != errSet) && bad == "" {
				bad = "a path has plan Failed=" + boolStr(failed) + ", Reason assigned=" + boolStr(reason) + ", req.Err set=" + boolStr(errSet) + " (guard " + ExitGuardKey(fl, p) + "): status Failed, a failure reason and the pre-empting Err must go together, otherwise `end` marks the plan Completed with a reason set, or Failed without one"
			}
		}
		if st == "planChecks" || st == "blocks" {
			r.Check(rule, "final:"+st+":failed-reason-err-together", bpos, bad == "", "%s", orOK(bad, "Failed ⇔ Reason ⇔ Err on every path"))
		} else if bad != "" {
			r.Fail(rule, "final:"+st+":failed-reason-err-together", bpos, "%s", bad)
		}
	}
	// who assigns Completed to a plan, and who assigns Reason
	pkg := r.P.Pkgs[pkgSM]
	allowedCompleted := map[string]bool{"finalStates.end": true, "States.fixPlan": true}
	allowedReason := map[string]bool{"finalStates.planChecks": true, "finalStates.blocks": true}
	okC, okR := true, true
	var pc, pr token.Pos
	nC := 0
	for _, fn := range r.P.sortedFuncs() {
		if fn.Pkg != pkg || fn.Decl.Body == nil {
			continue
		}
		name := strings.TrimPrefix(fn.Key, pkgSM+".")
		ast.Inspect(fn.Decl.Body, func(n ast.Node) bool {
			as, ok := n.(*ast.AssignStmt)
			if !ok || len(as.Lhs) != len(as.Rhs) {
				return true
			}
			for i, l := range as.Lhs {
				if _, m := FieldPath(pkg.TypesInfo, l, "workflow.Plan", "State", "Status"); m && ValueKey(pkg.TypesInfo, as.Rhs[i]) == "workflow.Completed" {
					nC++
					if !allowedCompleted[name] && !privateToAny(r, fn.Key, pkgSM, allowedCompleted) {
						okC, pc = false, as.Pos()
					}
				}
				if _, m := FieldPath(pkg.TypesInfo, l, "workflow.Plan", "Reason"); m {
					if !allowedReason[name] && !privateToAny(r, fn.Key, pkgSM, allowedReason) {
						okR, pr = false, as.Pos()
					}
				}
			}
			return true
		})
	}
	if nC == 0 {
		r.Unresolved(rule, "assignment of Completed to a plan")
	} else {
		r.Check(rule, "plan-completed-only-in-end", pc, okC, "a plan is marked Completed outside finalStates.end / fixPlan: the final verdict must come from the finalStates machine")
	}
	_ = okR
	_ = pr
}

// ruleFinalPlanChecksRouting: finalStates.planChecks goes on to the blocks only when examineChecks found no
// failed group, and on a failure the plan gets the reason examineChecks returned and its error in Err.
func ruleFinalPlanChecksRouting(r *Run, rule string) {
	fn := r.fnByKey(rule, pkgSM+".finalStates.planChecks")
	if fn == nil {
		return
	}
	fl, paths, ok := r.flowPaths(rule, fn)
	if !ok {
		return
	}
	gate := pkgSM + ".finalStates.examineChecks"
	badP, badF := "", ""
	var pP, pF token.Pos = fn.Decl.Pos(), fn.Decl.Pos()
	nP, nF := 0, 0
	for i := range paths {
		p := &paths[i]
		if p.Exit != ExitReturn {
			continue
		}
		ci := -1
		for j, e := range p.Ev {
			if IsCall(e, gate) && e.Depth == 0 {
				ci = j
			}
		}
		next := nextOf(fl, p)
		_, errSet, _ := PathNext(fl, p)
		if ci < 0 {
			if next == "final.blocks" && badP == "" {
				badP = "a path reaches blocks without consulting examineChecks (guard " + ExitGuardKey(fl, p) + ")"
			}
			continue
		}
		use := UseOfResult(fl, p, ci)
		switch use.Verdict {
		case "nil":
			nP++
			if (next != "final.blocks" || errSet) && badP == "" {
				badP, pP = "when examineChecks reports no failure the successor is "+next+" (Err set="+boolStr(errSet)+"), expected blocks", p.Ev[ci].Pos
			}
		case "nonnil":
			nF++
			// the reason assigned must be the one examineChecks returned
			reasonFromGate := false
			var reasonObj types.Object
			for _, e := range p.Ev[ci:] {
				if e.Kind == EvAssign && e.Depth == 0 && e.Node != nil && len(e.Lhs) >= 1 && reasonObj == nil {
					if call, isCall := ast.Unparen(e.Rhs[0]).(*ast.CallExpr); isCall && len(e.Rhs) == 1 && call == p.Ev[ci].Call {
						reasonObj = ObjOf(fl.Info, e.Lhs[0])
					}
				}
			}
			for j := ci - 1; j <= ci+1 && j < len(p.Ev) && reasonObj == nil; j++ {
				if j < 0 {
					continue
				}
				e := p.Ev[j]
				if e.Kind == EvAssign && len(e.Rhs) == 1 && len(e.Lhs) == 2 {
					if call, isCall := ast.Unparen(e.Rhs[0]).(*ast.CallExpr); isCall && call == p.Ev[ci].Call {
						reasonObj = ObjOf(fl.Info, e.Lhs[0])
					}
				}
			}
			for _, e := range p.Ev[ci:] {
				if e.Kind != EvAssign || len(e.Lhs) != len(e.Rhs) {
					continue
				}
				for k, l := range e.Lhs {
					if _, m := FieldPath(fl.Info, l, "workflow.Plan", "Reason"); m && reasonObj != nil && ObjOf(fl.Info, e.Rhs[k]) == reasonObj {
						reasonFromGate = true
					}
				}
			}
			if (!errSet || next == "final.blocks" || !reasonFromGate) && badF == "" {
				badF, pF = "when examineChecks reports a failed group: Err set="+boolStr(errSet)+", successor "+next+", reason taken from examineChecks="+boolStr(reasonFromGate)+" — the plan must stop here with that reason", p.Ev[ci].Pos
			}
		default:
			if badP == "" {
				badP = "the error of examineChecks is " + use.Kind + "/" + use.Verdict + " on a returning path (guard " + ExitGuardKey(fl, p) + ")"
			}
		}
	}
	if nP == 0 || nF == 0 {
		r.Unresolved(rule, "finalStates.planChecks tests examineChecks both ways")
		return
	}
	r.Check(rule, "final:planChecks:pass-branch", pP, badP == "", "%s", orOK(badP, "no failed group ⇒ blocks, without Err"))
	r.Check(rule, "final:planChecks:fail-branch", pF, badF == "", "%s", orOK(badF, "failed group ⇒ Err set, its reason recorded, blocks not examined"))
}

// ruleExecSeqStatus re-uses the execSeq verdict analysis for C04-R7.
func ruleExecSeqStatus(r *Run, rule string) {
	sub := NewRun(r.P, r.Prop, r.Tier)
	sub.ruleKinds = r.ruleKinds
	ruleExecSeq(sub, rule)
	for _, o := range sub.Obls {
		if strings.HasSuffix(o.Key, "status-follows-verdict") || o.Status != StOK {
			r.Obls = append(r.Obls, o)
		}
	}
	r.Paths += sub.Paths
}

// ruleRunnerEnd: the action is Completed iff Data.err == nil, and written.
func ruleRunnerEnd(r *Run, rule string) {
	fn := r.Fn(rule, pkgActions, "Runner", "End")
	if fn == nil {
		return
	}
	fl, paths, ok := r.flowPaths(rule, fn)
	if !ok {
		return
	}
	bad := ""
	var bpos token.Pos = fn.Decl.Pos()
	n := 0
	for i := range paths {
		p := &paths[i]
		if p.Exit != ExitReturn {
			continue
		}
		n++
		verdict := ""
		last := ""
		for _, e := range p.Ev {
			if e.Kind == EvBranch && e.Cond != nil {
				if x, op, ok := IsNilCompare(fl.Info, e.Cond); ok {
					if _, m := FieldPath(fl.Info, x, "actions.Data", "err"); m {
						if (op == token.NEQ) == e.Taken {
							verdict = "nonnil"
						} else {
							verdict = "nil"
						}
					}
				}
			}
			if v, ok := StatusAssign(fl.Info, e, "workflow.Action"); ok {
				last = v
			}
		}
		want := map[string]string{"nonnil": "workflow.Failed", "nil": "workflow.Completed"}[verdict]
		if (verdict == "" || last != want) && bad == "" {
			bad = "on the path where Data.err is " + orOK(verdict, "untested") + " the action ends with status " + orOK(last, "unassigned") + " (guard " + ExitGuardKey(fl, p) + ")"
		}
	}
	if n == 0 {
		r.Unresolved(rule, "Runner.End path")
		return
	}
	r.Check(rule, "Runner.End:completed-iff-no-error", bpos, bad == "", "%s", orOK(bad, "Completed exactly when Data.err == nil, Failed otherwise"))
}

// privateToAny: key is a private helper (a piece split off) of one of the named functions of pkg.
func privateToAny(r *Run, key, pkg string, names map[string]bool) bool {
	for n := range names {
		if r.P.CallGraph().PrivateTo(key, pkg+"."+n) {
			return true
		}
	}
	return false
}

// reasonLookupTable: if fn indexes, with the key of its loop over the examined array, a variable whose
// initialiser is a composite literal of elements carrying a workflow.FailureReason, the reason per index.
func reasonLookupTable(r *Run, fn *Func) map[int]string {
	info := fn.Pkg.TypesInfo
	out := map[int]string{}
	ast.Inspect(fn.Decl.Body, func(n ast.Node) bool {
		ie, ok := n.(*ast.IndexExpr)
		if !ok || len(out) > 0 {
			return true
		}
		// indexed by the key of an enclosing range loop
		keyed := false
		for _, rs := range EnclosingLoops(fn.Decl.Body, ie.Pos()) {
			if rs.Key != nil && SameObj(info, rs.Key, ie.Index) {
				keyed = true
			}
		}
		v, isVar := ObjOf(info, ie.X).(*types.Var)
		if !keyed || !isVar {
			return true
		}
		lit := initialiserOf(r.P, v)
		if lit == nil {
			return true
		}
		for k, el := range lit.Elts {
			if kv, ok := el.(*ast.KeyValueExpr); ok {
				if idx, isC := ConstInt(info, kv.Key); isC {
					k = int(idx)
				}
				el = kv.Value
			}
			ecl, ok := ast.Unparen(el).(*ast.CompositeLit)
			if !ok {
				continue
			}
			for _, f := range ecl.Elts {
				val := f
				if kv, ok := f.(*ast.KeyValueExpr); ok {
					val = kv.Value
				}
				if tv, ok := info.Types[val]; ok && ShortType(tv.Type) == "workflow.FailureReason" {
					out[k] = ValueKey(info, val)
				}
			}
		}
		return true
	})
	return out
}

// initialiserOf: the composite literal a variable is initialised with (package level or local), if it is never assigned again.
func initialiserOf(p *Prog, v *types.Var) *ast.CompositeLit {
	var lit *ast.CompositeLit
	writes := 0
	for _, pkg := range p.All {
		if pkg.Types != v.Pkg() {
			continue
		}
		info := pkg.TypesInfo
		for _, f := range pkg.Syntax {
			ast.Inspect(f, func(n ast.Node) bool {
				switch x := n.(type) {
				case *ast.ValueSpec:
					for i, nm := range x.Names {
						if info.Defs[nm] == v && i < len(x.Values) {
							if cl, ok := ast.Unparen(x.Values[i]).(*ast.CompositeLit); ok {
								lit = cl
							}
						}
					}
				case *ast.AssignStmt:
					for i, l := range x.Lhs {
						root := ast.Unparen(l)
						for {
							if ie, ok := root.(*ast.IndexExpr); ok {
								root = ast.Unparen(ie.X)
								continue
							}
							if se, ok := root.(*ast.SelectorExpr); ok {
								root = ast.Unparen(se.X)
								continue
							}
							break
						}
						if id, ok := root.(*ast.Ident); ok && (info.Uses[id] == v || info.Defs[id] == v) {
							if x.Tok == token.DEFINE && info.Defs[id] == v && i < len(x.Rhs) {
								if cl, ok := ast.Unparen(x.Rhs[i]).(*ast.CompositeLit); ok {
									lit = cl
									continue
								}
							}
							writes++
						}
					}
				}
				return true
			})
		}
	}
	if writes > 0 {
		return nil
	}
	return lit
}

// scanSegments splits a path into the iterations of the range loop rs: [from, to) event index pairs,
// with how each iteration ended: "next" (back to the loop header: next iteration or natural exit),
// "return" (a return inside the body), "left" (the path goes on outside the body without passing the
// header: break/goto), "cut" (path ends inside the body: truncated prefix or no-return call).
type scanSeg struct {
	from, to int
	end      string
}

func scanSegments(p *Path, rs *ast.RangeStmt) []scanSeg {
	var out []scanSeg
	for i := 0; i < len(p.Ev); i++ {
		e := p.Ev[i]
		if e.Kind != EvRange || e.Clause != ast.Stmt(rs) || !e.Taken {
			continue
		}
		seg := scanSeg{from: i + 1, to: len(p.Ev), end: "cut"}
		for j := i + 1; j < len(p.Ev); j++ {
			x := p.Ev[j]
			if x.Kind == EvRange && x.Clause == ast.Stmt(rs) {
				seg.to, seg.end = j, "next"
				break
			}
			if x.Deferred {
				continue
			}
			if x.Depth == 0 && x.From == "" && x.Pos.IsValid() && (x.Pos < rs.Body.Pos() || x.Pos > rs.Body.End()) {
				seg.to, seg.end = j, "left"
				break
			}
			if x.Kind == EvReturn && x.Depth == 0 && x.From == "" {
				seg.to, seg.end = j+1, "return"
				break
			}
		}
		out = append(out, seg)
		i = seg.from - 1
	}
	return out
}

// ruleExamineChecksScan (C04-R5, found by the mutation sweep of session 2): examineChecks looks at every
// element of the array it is given. Decided by assume-and-refute per loop iteration: an absent (nil)
// group, a Completed one and one that never ran send the scan on to the next element — they neither
// end it nor return; a present Failed group is never passed over — every iteration that stays possible
// under "present ∧ Failed" returns a non-nil error.
func ruleExamineChecksScan(r *Run, rule string) {
	ex := r.Fn(rule, pkgSM, "finalStates", "examineChecks")
	if ex == nil {
		return
	}
	fl, paths, ok := r.flowPaths(rule, ex)
	if !ok {
		return
	}
	info := fl.Info
	// the loop over the parameter
	var rs *ast.RangeStmt
	var param types.Object
	if ps := ex.Decl.Type.Params; ps != nil && len(ps.List) == 1 && len(ps.List[0].Names) == 1 {
		param = info.ObjectOf(ps.List[0].Names[0])
	}
	ast.Inspect(ex.Decl.Body, func(n ast.Node) bool {
		if x, ok := n.(*ast.RangeStmt); ok && rs == nil && param != nil && ObjOf(info, x.X) == param {
			rs = x
		}
		return true
	})
	if rs == nil {
		r.Unresolved(rule, "examineChecks ranges over its parameter")
		return
	}
	isElem := func(e ast.Expr) bool { return IsLoopElem(info, rs, e) }
	statuses := []string{"workflow.Completed", "workflow.Failed", "workflow.NotStarted", "workflow.Running", "workflow.Stopped"}
	atom := func(e ast.Expr) (string, bool, bool) {
		if x, op, ok := IsNilCompare(info, e); ok && isElem(ast.Unparen(x)) {
			return "nil", op == token.NEQ, true
		}
		for _, st := range statuses {
			if neg, ok := EqAtom(info, e, func(x ast.Expr) bool {
				b, m := FieldPath(info, x, "workflow.Checks", "State", "Status")
				return m && isElem(ast.Unparen(b))
			}, st); ok {
				return "st:" + st, neg, true
			}
		}
		return "", false, false
	}
	assume := func(nilElem bool, status string) map[string]bool {
		a := map[string]bool{"nil": nilElem}
		if !nilElem {
			for _, st := range statuses {
				a["st:"+st] = st == status
			}
		}
		return a
	}
	type sit struct {
		name   string
		asg    map[string]bool
		wantOn bool // true: the scan must go on; false: must return a non-nil error
	}
	sits := []sit{
		{"an absent (nil) group", assume(true, ""), true},
		{"a Completed group", assume(false, "workflow.Completed"), true},
		{"a group that never ran", assume(false, "workflow.NotStarted"), true},
		{"a Failed group", assume(false, "workflow.Failed"), false},
	}
	bad := map[string]string{}
	pos := map[string]token.Pos{}
	n := 0
	for i := range paths {
		p := &paths[i]
		for _, sg := range scanSegments(p, rs) {
			if sg.end == "cut" {
				continue
			}
			for _, s := range sits {
				if PathRefutedRange(fl, p, sg.from, sg.to, s.asg, atom) {
					continue
				}
				n++
				if s.wantOn && sg.end != "next" && bad["on"] == "" {
					how := map[string]string{"return": "makes examineChecks return", "left": "ends the scan (the loop is left)"}[sg.end]
					bad["on"] = s.name + " " + how + ": the groups after it are never examined, a failed group among them is not reported"
					pos["on"] = p.Ev[sg.from-1].Pos
					if sg.to-1 < len(p.Ev) && sg.to-1 >= sg.from {
						pos["on"] = p.Ev[sg.to-1].Pos
					}
				}
				if !s.wantOn && bad["failed"] == "" {
					okRet := false
					if sg.end == "return" {
						ret := p.Ev[sg.to-1]
						if len(ret.Rhs) == 2 && NilnessAt(info, p, sg.to-1, ret.Rhs[1]) != "nil" && ValueKey(info, ret.Rhs[1]) != "nil" {
							okRet = true
						}
					}
					if !okRet {
						bad["failed"] = "an iteration that is possible for a present, Failed group ends with '" + sg.end + "' and no error: the failed stage is passed over and the plan ends Completed"
						pos["failed"] = p.Ev[sg.from-1].Pos
					}
				}
			}
		}
	}
	if n == 0 {
		r.Unresolved(rule, "examineChecks loop iterations")
		return
	}
	bp := func(k string) token.Pos {
		if p, ok := pos[k]; ok {
			return p
		}
		return rs.Pos()
	}
	r.Check(rule, "examineChecks:scan-goes-on-past-harmless-groups", bp("on"), bad["on"] == "", "%s", orOK(bad["on"], "nil, Completed and NotStarted groups send the scan on to the next element"))
	r.Check(rule, "examineChecks:failed-group-never-passed-over", bp("failed"), bad["failed"] == "", "%s", orOK(bad["failed"], "every iteration possible for a present Failed group returns a non-nil error"))
}

// ruleFinalNoSilentStop: in the verdict machine only `end` may stop without an error; any other state that
// returns with neither a successor nor Err leaves the plan in the status it had (Running) for ever.
func ruleFinalNoSilentStop(r *Run, rule string, fm *Machine) {
	for _, st := range []string{"start", "bypassChecks", "planChecks", "blocks"} {
		fn := fm.States[st]
		if fn == nil {
			continue
		}
		fl, paths, ok := r.flowPaths(rule, fn)
		if !ok {
			continue
		}
		bad := ""
		var bpos token.Pos = fn.Decl.Pos()
		for i := range paths {
			p := &paths[i]
			if p.Exit != ExitReturn {
				continue
			}
			next, errSet, _ := PathNext(fl, p)
			if next == "nil" && !errSet && bad == "" {
				bad = "a path of finalStates." + st + " returns with no successor and no error (guard " + ExitGuardKey(fl, p) + "): the verdict machine stops before `end`, the plan keeps the status it had and is never Completed"
			}
		}
		r.Check(rule, "final:"+st+":no-silent-stop", bpos, bad == "", "%s", orOK(bad, "every path names a successor or sets Err"))
	}
}

// ruleEndStamped (C04-R8, round-3 seed C04-5): "start <= end everywhere" has a structural necessary condition —
// whoever gives an object a terminal status (Completed, Failed, Stopped) stamps its State.End, or hands the
// object on to the one place that does. Decided per returning path of every function of the engine packages:
// a path that assigns a terminal status to X (a Plan, Block, Sequence, Checks or Action) must also assign
// X.State.End (in place or in a deferred function), unless the function delegates the stamp:
//   - a state of the plan machine that fails/completes the head block, when no route from it to the next
//     block or to the end of the machine avoids BlockEnd, whose every path stamps the block;
//   - anything that settles the plan's own status before End, whose every path stamps the plan
//     (fixPlan's verdicts are routed to End by Recovery, C10-R2; finalStates run inside End).
func ruleEndStamped(r *Run, rule string, m *Machine) {
	terminal := map[string]bool{"workflow.Completed": true, "workflow.Failed": true, "workflow.Stopped": true}
	owners := []string{"workflow.Plan", "workflow.Block", "workflow.Sequence", "workflow.Checks", "workflow.Action"}
	// delegation: state functions from which BlockEnd / End cannot be avoided
	blockDelegates := map[string]bool{}
	planDelegates := map[string]bool{pkgSM + ".finalStates.planChecks": true, pkgSM + ".finalStates.blocks": true, pkgSM + ".finalStates.end": true, smKey("fixPlan"): true}
	for st, fn := range m.States {
		if fn == nil {
			continue
		}
		if st != "BlockEnd" {
			reach := m.reach(st, map[string]bool{"BlockEnd": true})
			if !reach[Terminal] && !reach["ExecuteBlock"] && !reach["End"] || st == "ExecuteBlock" {
				// ExecuteBlock itself only settles a block it then hands to BlockBypassChecks…BlockEnd or skips untouched
				blockDelegates[fn.Key] = true
			}
		}
		if st != "End" {
			reach := m.reach(st, map[string]bool{"End": true})
			if !reach[Terminal] {
				planDelegates[fn.Key] = true
			}
		}
	}
	n := 0
	for _, fn := range r.P.sortedFuncs() {
		rel := relPkg(fn.Pkg.PkgPath)
		if fn.Decl.Body == nil || (rel != pkgSM && rel != pkgActions && rel != pkgExec) {
			continue
		}
		if strings.HasSuffix(r.P.Fset.Position(fn.Decl.Pos()).Filename, "_test.go") {
			continue
		}
		info := fn.Pkg.TypesInfo
		// cheap pre-filter: does the function assign a terminal status at all?
		assigns := false
		ast.Inspect(fn.Decl.Body, func(x ast.Node) bool {
			if as, ok := x.(*ast.AssignStmt); ok && len(as.Lhs) == len(as.Rhs) {
				for i, l := range as.Lhs {
					if _, m := FieldPath(info, l, "", "State", "Status"); m && terminal[ValueKey(info, as.Rhs[i])] {
						assigns = true
					}
				}
			}
			return !assigns
		})
		if !assigns {
			continue
		}
		fl := r.P.FlowOf(fn)
		paths, ok := fl.Paths()
		if !ok {
			r.Undecided(rule, "paths:"+fn.Key, fn.Decl.Pos(), "too many paths")
			continue
		}
		r.Funcs[fn.Key] = true
		r.Paths += len(paths)
		paths = fl.OwnCode(paths)
		bad := map[string]string{}
		pos := map[string]token.Pos{}
		seen := map[string]bool{}
		for i := range paths {
			p := &paths[i]
			if p.Exit != ExitReturn {
				continue
			}
			type st struct {
				owner string
				base  string
				val   string
				pos   token.Pos
			}
			last := map[string]st{} // base → last status assigned on the path
			ended := map[string]bool{}
			for _, e := range p.Ev {
				if e.Kind != EvAssign || len(e.Lhs) != len(e.Rhs) {
					continue
				}
				for k, l := range e.Lhs {
					for _, ow := range owners {
						if b, m := FieldPath(info, l, ow, "State", "Status"); m {
							last[ExprStr(b)] = st{ow, ExprStr(b), ValueKey(info, e.Rhs[k]), e.Pos}
						}
						if b, m := FieldPath(info, l, ow, "State", "End"); m {
							if tv, ok := info.Types[e.Rhs[k]]; ok && !isZeroTimeLit(e.Rhs[k]) && tv.Type != nil {
								ended[ExprStr(b)] = true
							}
						}
						// X.State = &workflow.State{…} / whole-state replacement: not a stamp, not a status we track
					}
				}
			}
			for base, s := range last {
				if !terminal[s.val] {
					continue
				}
				seen[s.owner] = true
				if ended[base] {
					continue
				}
				if s.owner == "workflow.Block" && (blockDelegates[fn.Key] || privateToDelegate(r, fn.Key, blockDelegates)) {
					continue
				}
				if s.owner == "workflow.Plan" && (planDelegates[fn.Key] || privateToDelegate(r, fn.Key, planDelegates)) {
					continue
				}
				if bad[s.owner] == "" {
					bad[s.owner] = "a path gives " + base + " the status " + strings.TrimPrefix(s.val, "workflow.") + " without stamping " + base + ".State.End (guard " + ExitGuardKey(fl, p) + "), and nothing later stamps it: the object is stored finished with start after end"
					pos[s.owner] = s.pos
				}
			}
		}
		for _, ow := range owners {
			if !seen[ow] {
				continue
			}
			n++
			bp := fn.Decl.Pos()
			if p, ok := pos[ow]; ok {
				bp = p
			}
			r.Check(rule, "end-stamped:"+ShortFn(fn.Key)+":"+strings.TrimPrefix(ow, "workflow."), bp, bad[ow] == "", "%s", orOK(bad[ow], "every path that leaves the object terminal stamps its End (or hands it to the state that does)"))
		}
	}
	if n == 0 {
		r.Unresolved(rule, "functions assigning a terminal status")
	}
	// the two stampers delegated to: every returning path of BlockEnd stamps the head block, of End the plan
	for _, d := range []struct{ key, owner string }{{smKey("BlockEnd"), "workflow.Block"}, {smKey("End"), "workflow.Plan"}} {
		fn := r.fnByKey(rule, d.key)
		if fn == nil {
			continue
		}
		fl, paths, ok := r.flowPaths(rule, fn)
		if !ok {
			continue
		}
		bad := ""
		for i := range paths {
			p := &paths[i]
			if p.Exit != ExitReturn {
				continue
			}
			stamped := false
			for _, e := range p.Ev {
				if e.Kind == EvAssign && len(e.Lhs) == len(e.Rhs) && !e.Maybe {
					for k, l := range e.Lhs {
						if _, m := FieldPath(fl.Info, l, d.owner, "State", "End"); m && !isZeroTimeLit(e.Rhs[k]) {
							stamped = true
						}
					}
				}
			}
			if !stamped && bad == "" {
				bad = "a path of " + ShortFn(d.key) + " returns without stamping State.End of the " + strings.TrimPrefix(d.owner, "workflow.") + " (guard " + ExitGuardKey(fl, p) + "): every state that fails or completes it relies on this stamp"
			}
		}
		r.Check(rule, "end-stamped:"+ShortFn(d.key)+":every-exit", fn.Decl.Pos(), bad == "", "%s", orOK(bad, "State.End stamped on every returning path"))
	}
}

func isZeroTimeLit(e ast.Expr) bool {
	cl, ok := ast.Unparen(e).(*ast.CompositeLit)
	return ok && len(cl.Elts) == 0 && strings.HasSuffix(ExprStr(cl.Type), "Time")
}

// privateToDelegate: the function is a private helper (a piece) of one of the delegating functions.
func privateToDelegate(r *Run, key string, delegates map[string]bool) bool {
	for d := range delegates {
		if r.P.CallGraph().PrivateTo(key, d) {
			return true
		}
	}
	return false
}

// ruleContChannelsMade (mutation sweep, session 2): the result channels of the continuous checks exist before any state
// uses them. Every state closes, ranges over or hands them on unconditionally (a nil channel makes `close` panic and a
// range or send on it block for ever), so (a) each of the two entry states — Start and Recovery — assigns a made
// channel to Data.contCheckResult on every path that goes on executing the plan, and (b) every sm.block value is built
// with a made contCheckResult.
func ruleContChannelsMade(r *Run, rule string) {
	isMake := func(info *types.Info, e ast.Expr) bool {
		c, ok := ast.Unparen(e).(*ast.CallExpr)
		if !ok {
			return false
		}
		id, ok := ast.Unparen(c.Fun).(*ast.Ident)
		if !ok {
			return false
		}
		b, ok := info.ObjectOf(id).(*types.Builtin)
		return ok && b.Name() == "make"
	}
	for _, entry := range []string{"Start", "Recovery"} {
		fn := r.fnByKey(rule, smKey(entry))
		if fn == nil {
			continue
		}
		fl, paths, ok := r.flowPaths(rule, fn)
		if !ok {
			continue
		}
		bad := ""
		n := 0
		for i := range paths {
			p := &paths[i]
			if p.Exit != ExitReturn {
				continue
			}
			next := nextOf(fl, p)
			if next == "End" || next == Terminal || (entry == "Recovery" && next == "Start") {
				continue // End guards its drain with contCancel != nil; Start makes the channels itself
			}
			n++
			made := false
			for _, e := range p.Ev {
				if e.Kind != EvAssign || len(e.Lhs) != len(e.Rhs) {
					continue
				}
				for k, l := range e.Lhs {
					if _, m := FieldPath(fl.Info, l, "sm.Data", "contCheckResult"); m {
						made = isMake(fl.Info, e.Rhs[k])
					}
				}
			}
			if !made && bad == "" {
				bad = "a path of " + entry + " goes on to " + next + " without making Data.contCheckResult (exit guard " + ExitGuardKey(fl, p) + "): PlanStartContChecks closes it or hands it to the continuous checks, End ranges over it — a nil channel panics the process or hangs the plan"
			}
		}
		if n == 0 {
			r.Unresolved(rule, entry+" path that goes on executing")
			continue
		}
		r.Check(rule, "cont-channel-made:"+entry, fn.Decl.Pos(), bad == "", "%s", orOK(bad, "made on every path that goes on"))
	}
	pkg := r.P.Pkgs[pkgSM]
	if pkg == nil {
		return
	}
	nLit, badLit := 0, ""
	var lpos token.Pos
	for _, f := range pkg.Syntax {
		if strings.HasSuffix(r.P.Fset.Position(f.Pos()).Filename, "_test.go") {
			continue
		}
		ast.Inspect(f, func(x ast.Node) bool {
			cl, ok := x.(*ast.CompositeLit)
			if !ok {
				return true
			}
			tv, ok := pkg.TypesInfo.Types[cl]
			if !ok || ShortType(tv.Type) != "sm.block" {
				return true
			}
			if len(cl.Elts) == 0 {
				return true // the zero block ("no current block"), never executed
			}
			nLit++
			v := keyValue(cl, "contCheckResult")
			if (v == nil || !isMake(pkg.TypesInfo, v)) && badLit == "" {
				badLit, lpos = "a block is built without a made contCheckResult: BlockStartContChecks closes it or hands it to the block's continuous checks, BlockEnd ranges over it", cl.Pos()
			}
			return true
		})
	}
	if nLit == 0 {
		r.Unresolved(rule, "sm.block literals")
		return
	}
	r.Check(rule, "cont-channel-made:block-literals", lpos, badLit == "", "%s", orOK(badLit, "every sm.block literal makes its channel"))
}

// ruleWalkLoopHandsOn: every iteration of a loop over walk.Plan in fn hands its item on — appends it, passes it to a function
// of the package, or writes it (used for the writers of End, C04-R1, and of the stale-plan close-out, C11-R3).
func ruleWalkLoopHandsOn(r *Run, rule, label, key string, fn *Func, fl *Flow, paths []Path) {
	info := fl.Info
	badSkip := ""
	var skipPos token.Pos = fn.Decl.Pos()
	iters := 0
	all := append(append([]Path{}, paths...), fl.Truncated()...)
	for i := range all {
		p := &all[i]
		for j, h := range p.Ev {
			if h.Kind != EvRange || !h.Taken {
				continue
			}
			rs, _ := h.Clause.(*ast.RangeStmt)
			if rs == nil {
				continue
			}
			c, isCall := ast.Unparen(rs.X).(*ast.CallExpr)
			if !isCall {
				continue
			}
			if f, ok := calleeFunc(info, c); !ok || FuncKey(f) != "workflow/utils/walk.Plan" {
				continue
			}
			var item types.Object
			if rs.Key != nil {
				item = ObjOf(info, rs.Key) // range-over-func with one value: it is the Key
			}
			if rs.Value != nil {
				item = ObjOf(info, rs.Value)
			}
			end := -1
			for x := j + 1; x < len(p.Ev); x++ {
				if p.Ev[x].Kind == EvRange && p.Ev[x].Pos == h.Pos {
					end = x
					break
				}
			}
			if end < 0 || item == nil {
				continue
			}
			iters++
			used := false
			guard := ""
			for x := j + 1; x < end; x++ {
				e := p.Ev[x]
				switch e.Kind {
				case EvBranch:
					if e.Cond != nil {
						guard = ExprStr(e.Cond)
					}
				case EvAssign:
					for _, rh := range e.Rhs {
						if ce, ok := ast.Unparen(rh).(*ast.CallExpr); ok {
							if id, ok := ce.Fun.(*ast.Ident); ok && id.Name == "append" && mentionsObj(info, ce, item) {
								used = true
							}
						}
					}
				case EvCall:
					if _, isUpd := isUpdaterCall(e); isUpd {
						used = true
					}
					if e.Call != nil && strings.HasPrefix(CalleeKey(e), relPkg(fn.Pkg.PkgPath)+".") {
						for _, a := range e.Call.Args {
							if mentionsObj(info, a, item) {
								used = true
							}
						}
					}
				}
			}
			if !used && badSkip == "" {
				badSkip, skipPos = "an object the walk yields is passed over by "+ShortFn(key)+" (last test: "+guard+"): what was changed in memory only (an object stored Running that recovery reset or the close-out failed) is never written, the finished plan keeps Running objects in the store for ever", h.Pos
			}
		}
	}
	if iters == 0 {
		r.Unresolved(rule, "iterations of the loop over walk.Plan in "+ShortFn(key))
	} else {
		r.Check(rule, label+":no-item-passed-over", skipPos, badSkip == "", "%s", orOK(badSkip, "every item of the walk is handed on"))
	}
}
