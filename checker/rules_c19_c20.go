package main

import (
	"go/ast"
	"go/token"
	"go/types"
	"sort"
	"strings"
)

const (
	pkgWalk    = "workflow/utils/walk"
	pkgBuilder = "workflow/builder"
)

func init() {
	register(PropInfo{
		ID: "C19",
		Explanation: "Static decision of the structural clauses of C19 (DESIGN.md section 4, C19): (R1) visit order and coverage: in Plan and walkBlock the object itself is yielded first and unconditionally, then BypassChecks, PreChecks, ContChecks, the child list in an ascending loop, PostChecks, DeferredChecks; walkChecks/walkSequence yield self then Actions; every child-bearing field of the type (from go/types) is visited exactly once; (R2) ancestors: the item yielded for an object carries the chain received, every child visit gets that chain extended by the object (`append(chain, parent)`, `[]Object{p}` at the root) and nothing else; (R3) early stop: the bool result of every yield and walk* call is tested and the false branch returns at once. Decides these shapes, not slice aliasing between chains (capacity reuse is a data question).",
		NotDecided:  []string{"aliasing of the backing arrays of chains built by append"},
		Assumptions: []string{"range-over-func semantics of iter.Seq"},
		Rules:       rulesC19,
	})
	register(PropInfo{
		ID: "C20",
		Explanation: "Static decision of the structural clauses of C20 (DESIGN.md section 4, C20): (R1) prologue: every exported mutator tests `emitted` and then `err` with an early return before any other effect, the first error is sticky (setErr never replaces an earlier error), Plan() returns the stored error; (R2) every pointer parameter is nil-checked before its first dereference; (R3) current() can never see an empty chain: Reset never returns between truncating the chain and installing a fresh root plan (and a successful Reset clears emitted/err and installs a plan built from its arguments), Up re-slices only when at least two levels exist; (R4) placement table: each mutator's type switch on current() has exactly the permitted parent types, anything else sets the error, each check type is guarded by and assigned to the field of its own name, the new object is pushed on the chain (not actions), and every field of BlockArgs is copied into the Block.",
		NotDecided:  []string{"equivalence with hand construction over all call sequences as data"},
		Assumptions: []string{},
		Rules:       rulesC20,
	})
}

func walkKey(name string) string { return pkgWalk + "." + name }

// walkVisit is one visit call found in a walker, in source order.
type walkVisit struct {
	kind    string // "yield" | callee name
	field   string // field of the subject visited ("" = self)
	pos     token.Pos
	inLoop  bool
	guarded bool // inside an if on a field of the subject
	chain   ast.Expr
	call    *ast.CallExpr
	idx     int // index of the call event on the path
}

func rulesC19(r *Run) {
	subjects := []struct {
		fnKey, typ string
		want       []string
	}{
		{walkKey("Plan"), "workflow.Plan", []string{"", "BypassChecks", "PreChecks", "ContChecks", "Blocks", "PostChecks", "DeferredChecks"}},
		{walkKey("walkBlock"), "workflow.Block", []string{"", "BypassChecks", "PreChecks", "ContChecks", "Sequences", "PostChecks", "DeferredChecks"}},
		{walkKey("walkChecks"), "workflow.Checks", []string{"", "Actions"}},
		{walkKey("walkSequence"), "workflow.Sequence", []string{"", "Actions"}},
	}
	visitors := map[string]bool{walkKey("walkChecks"): true, walkKey("walkBlock"): true, walkKey("walkSequence"): true}
	r.Kind("R1", "K7")
	r.Kind("R2", "K11")
	r.Kind("R3", "K6")
	nSites := 0
	for _, s := range subjects {
		fn := r.fnByKey("R1", s.fnKey)
		if fn == nil {
			continue
		}
		info := fn.Pkg.TypesInfo
		short := fn.Obj.Name()
		// the walk is the function body; for Plan it is the iterator Plan returns: a literal, or a method value
		// (`return planWalker{plan: p}.walk`) whose body then is the walk
		var fl *Flow
		var paths []Path
		var okp bool
		walkFn := fn
		var yieldFn *Func // the function ruleYieldDiscipline examines
		if short == "Plan" {
			var lit *ast.FuncLit
			for _, l := range AllLits(fn.Decl.Body) {
				lit = l
			}
			if lit != nil {
				fl, paths, okp = r.litPaths("R1", lit)
			} else {
				var m *Func
				ast.Inspect(fn.Decl.Body, func(n ast.Node) bool {
					if rs, ok := n.(*ast.ReturnStmt); ok && len(rs.Results) == 1 {
						if sel, ok := ast.Unparen(rs.Results[0]).(*ast.SelectorExpr); ok {
							if sl := info.Selections[sel]; sl != nil && sl.Kind() == types.MethodVal {
								m = r.P.DeclOf(sl.Obj())
							}
						}
					}
					return true
				})
				if m == nil || m.Decl.Body == nil {
					r.Unresolved("R1", s.fnKey+" returned literal")
					continue
				}
				walkFn, yieldFn = m, m
				fl, paths, okp = r.flowPaths("R1", m)
			}
		} else {
			fl, paths, okp = r.flowPaths("R1", fn)
		}
		// the subject: the parameter of the workflow type, or (for a walker method) the receiver's field of that type
		var isSubj func(ast.Expr) bool
		for _, f := range walkFn.Decl.Type.Params.List {
			for _, nm := range f.Names {
				if o := info.ObjectOf(nm); ShortType(o.Type()) == s.typ {
					isSubj = func(e ast.Expr) bool { return ObjOf(info, e) == o }
				}
			}
		}
		if isSubj == nil && walkFn == fn && short == "Plan" {
			// the literal captures Plan's parameter
			for _, f := range fn.Decl.Type.Params.List {
				for _, nm := range f.Names {
					if o := info.ObjectOf(nm); ShortType(o.Type()) == s.typ {
						isSubj = func(e ast.Expr) bool { return ObjOf(info, e) == o }
					}
				}
			}
		}
		if isSubj == nil && walkFn.Decl.Recv != nil && len(walkFn.Decl.Recv.List) == 1 && len(walkFn.Decl.Recv.List[0].Names) == 1 {
			recv := info.ObjectOf(walkFn.Decl.Recv.List[0].Names[0])
			isSubj = func(e ast.Expr) bool {
				sel, ok := ast.Unparen(e).(*ast.SelectorExpr)
				if !ok || ObjOf(info, sel.X) != recv {
					return false
				}
				tv, ok := info.Types[sel]
				return ok && ShortType(tv.Type) == s.typ
			}
		}
		if isSubj == nil {
			r.Unresolved("R1", s.fnKey+" subject parameter")
			continue
		}
		if !okp {
			continue
		}
		st, _ := r.P.StructOf("workflow", strings.TrimPrefix(s.typ, "workflow."))
		isList := map[string]bool{}
		for k := 0; st != nil && k < st.NumFields(); k++ {
			_, l := st.Field(k).Type().(*types.Slice)
			isList[st.Field(k).Name()] = l
		}
		subjNil := func(e ast.Expr) (string, bool, bool) {
			if x, op, ok := IsNilCompare(info, e); ok && isSubj(x) {
				return "subject-nil", op == token.NEQ, true
			}
			return "", false, false
		}
		var best []walkVisit
		badOrder, badShape, badChain := "", "", ""
		var posShape, posChain = fn.Decl.Pos(), fn.Decl.Pos()
		for i := range paths {
			p := &paths[i]
			if p.Exit != ExitReturn {
				continue
			}
			visits, appendIdx, chainObj := walkVisitsOnPath(fl, p, isSubj, s.typ, s.want, visitors)
			r.Evals += len(visits)
			if len(visits) > len(best) {
				best = visits
			}
			if len(visits) == 0 {
				if !PathRefuted(fl, p, -1, map[string]bool{"subject-nil": false}, subjNil) && badShape == "" {
					badShape = "a path of " + short + " returns without yielding the object although it is not nil (exit guard " + ExitGuardKey(fl, p) + "): an object with absent or empty children would never be visited"
				}
				continue
			}
			if (visits[0].field != "" || visits[0].inLoop) && badShape == "" {
				badShape, posShape = "the object itself is not yielded first and unconditionally (first visit on a path: "+showField(visits[0].field)+")", visits[0].pos
			}
			// A walk that runs to its end (every visitor answered true) may leave a child out only because it is
			// absent: assume the child present and the path must be impossible.
			if badShape == "" {
				if f, guard := unjustifiedSkip(fl, p, visits, isSubj, s.typ, s.want, isList, visitors); f != "" {
					badShape, posShape = "a walk that is not stopped by its consumer ends without visiting "+f+" although nothing on the path establishes that it is absent (exit guard "+guard+"): objects held there are silently left out for some plan shapes", fn.Decl.Pos()
				}
			}
			// order: a subsequence of the expected order, every field at most once
			wi := 0
			for _, v := range visits {
				for wi < len(s.want) && s.want[wi] != v.field {
					wi++
				}
				if wi >= len(s.want) && badOrder == "" {
					var got []string
					for _, x := range visits {
						got = append(got, x.field)
					}
					badOrder = "a path visits " + strings.Join(showFields(got), ",") + ", which is not in the expected order " + strings.Join(showFields(s.want), ",")
				}
				wi++
				if v.field != "" && !strings.HasPrefix(v.field, "?") && isList[v.field] != v.inLoop && badShape == "" {
					badShape, posShape = "field "+v.field+" is visited "+map[bool]string{true: "inside", false: "outside"}[v.inLoop]+" a loop", v.pos
				}
				// R2: ancestors
				cobj := ObjOf(info, v.chain)
				switch {
				case v.chain == nil && short == "Plan" && v.field == "":
					// the plan itself has no ancestors
				case v.chain == nil || cobj == nil || (chainObj != nil && cobj != chainObj) || ShortTypeOfSliceElem(cobj.Type()) != "workflow.Object":
					if badChain == "" {
						badChain, posChain = "the visit of "+showField(v.field)+" is given "+ExprStr(v.chain)+" instead of the walker's own chain (the ancestors handed on must be exactly the chain received, extended by this object)", v.pos
					}
				case v.field == "" && appendIdx >= 0 && v.idx > appendIdx:
					if badChain == "" {
						badChain, posChain = "the object is yielded with a chain that already contains itself", v.pos
					}
				case v.field != "" && (appendIdx < 0 || v.idx < appendIdx):
					if badChain == "" {
						badChain, posChain = "the visit of "+showField(v.field)+" happens before the object is appended to the chain (or it never is): descendants would not get this object as an ancestor", v.pos
					}
				}
			}
		}
		var got []string
		for _, v := range best {
			got = append(got, v.field)
		}
		if badOrder == "" && strings.Join(got, ",") != strings.Join(s.want, ",") {
			badOrder = short + " visits " + strings.Join(showFields(got), ",") + " on its fullest path, expected " + strings.Join(showFields(s.want), ",")
		}
		r.Check("R1", "visit-order:"+short, fn.Decl.Pos(), badOrder == "", "%s (self, then execution order, each child-bearing field exactly once)", orOK(badOrder, "visits "+strings.Join(showFields(s.want), ",")))
		// every child-bearing field of the type is among the visits
		for k := 0; st != nil && k < st.NumFields(); k++ {
			f := st.Field(k)
			t := f.Type()
			if sl, ok := t.(*types.Slice); ok {
				t = sl.Elem()
			}
			if workflowObjTypes[ShortType(t)] && f.Exported() {
				found := false
				for _, v := range best {
					if v.field == f.Name() {
						found = true
					}
				}
				if !found && badShape == "" {
					badShape = "the objects held in " + s.typ + "." + f.Name() + " are never visited"
				}
			}
		}
		r.Check("R1", "visit-shape:"+short, posShape, badShape == "", "%s", orOK(badShape, "self first and unconditional; lists in loops; every child-bearing field visited"))
		r.Check("R2", "ancestors:"+short, posChain, badChain == "", "%s", orOK(badChain, "self carries the received chain; children get append(chain, self)"))

		// R3 early stop
		nSites += ruleYieldDiscipline(r, "R3", fn, visitors)
		ruleWalkerAnswer(r, "R3", fn)
		if yieldFn != nil {
			nSites += ruleYieldDiscipline(r, "R3", yieldFn, visitors)
		}
	}
	r.Expect("R1", 8)
	r.Expect("R2", 4)
	r.Expect("R3", 18)
}

func showField(f string) string {
	if f == "" {
		return "self"
	}
	return f
}

func showFields(fs []string) []string {
	var out []string
	for _, f := range fs {
		out = append(out, showField(f))
	}
	return out
}

// ---------------------------------------------------------------------------
// C20

func bKey(name string) string { return pkgBuilder + ".BuildPlan." + name }

func rulesC20(r *Run) {
	mutators := []string{"Up", "AddChecks", "AddBlock", "AddSequence", "AddAction"}
	r.Kind("R1", "K10")
	stickySetErr := setErrIsSticky(r)
	for _, m := range mutators {
		rulePrologue(r, "R1", m, stickySetErr)
	}
	rulePlanReturnsStored(r, "R1")
	ruleBuilderErrorsSticky(r, "R1", "Plan", false)
	ruleBuilderErrorsSticky(r, "R1", "Reset", true)
	for _, m := range []string{"Up", "AddChecks", "AddBlock", "AddSequence", "AddAction"} {
		ruleBuilderNoSilentOutcome(r, "R1", m)
	}
	r.Expect("R1", 23)

	r.Kind("R2", "K10")
	for _, m := range []string{"AddChecks", "AddSequence", "AddAction"} {
		ruleBuilderNilGuard(r, "R2", m)
	}
	r.Expect("R2", 3)

	r.Kind("R3", "K3")
	ruleReset(r, "R3")
	ruleUpReslice(r, "R3")
	ruleUpTouchesOnlyTheCursor(r, "R3")
	r.Expect("R3", 4)

	r.Kind("R4", "K2+K7")
	placement := map[string][]string{"AddChecks": {"workflow.Plan", "workflow.Block"}, "AddBlock": {"workflow.Plan"}, "AddSequence": {"workflow.Block"}, "AddAction": {"workflow.Sequence", "workflow.Checks"}}
	for _, m := range []string{"AddChecks", "AddBlock", "AddSequence", "AddAction"} {
		rulePlacement(r, "R4", m, placement[m])
	}
	ruleChecksTable(r, "R4")
	ruleBlockArgs(r, "R4")
	r.Expect("R4", 15)
}

// setErrIsSticky: setErr itself keeps the first error.
func setErrIsSticky(r *Run) bool {
	fn := r.P.Funcs[bKey("setErr")]
	if fn == nil {
		return false
	}
	fl := r.P.FlowOf(fn)
	paths, ok := fl.Paths()
	if !ok {
		return false
	}
	for i := range paths {
		p := &paths[i]
		guarded := false
		for _, e := range p.Ev {
			if e.Kind == EvBranch && e.Cond != nil {
				if x, op, ok := IsNilCompare(fl.Info, e.Cond); ok {
					if _, m := FieldPath(fl.Info, x, "builder.BuildPlan", "err"); m && (op == token.EQL) == e.Taken {
						guarded = true
					}
				}
			}
			if e.Kind == EvAssign {
				for _, l := range e.Lhs {
					if _, m := FieldPath(fl.Info, l, "builder.BuildPlan", "err"); m && !guarded {
						return false
					}
				}
			}
		}
	}
	return true
}

func isBuilderField(info *types.Info, e ast.Expr, f string) bool {
	_, m := FieldPath(info, e, "builder.BuildPlan", f)
	return m
}

func rulePrologue(r *Run, rule, m string, stickySetErr bool) {
	fn := r.fnByKey(rule, bKey(m))
	if fn == nil {
		return
	}
	fl, paths, ok := r.flowPaths(rule, fn)
	if !ok {
		return
	}
	info := fl.Info
	atom := func(e ast.Expr) (string, bool, bool) {
		if isBuilderField(info, e, "emitted") {
			return "emitted", false, true
		}
		if x, op, ok := IsNilCompare(info, e); ok && isBuilderField(info, x, "err") {
			return "err-stored", op == token.EQL, true
		}
		return "", false, false
	}
	// What must never happen once the plan was emitted or while an error is stored: a change of the
	// builder or of the plan under construction. Reading state, building an error value and calling a
	// sticky setErr are harmless wherever they stand.
	isLocal := func(e ast.Expr) bool {
		id, ok := ast.Unparen(e).(*ast.Ident)
		if !ok {
			return false
		}
		if id.Name == "_" {
			return true
		}
		o := info.ObjectOf(id)
		if o == nil {
			return true // the symbol of a type switch
		}
		v, ok := o.(*types.Var)
		return ok && !v.IsField() && v.Pkg() != nil && v.Parent() != v.Pkg().Scope()
	}
	harmless := map[string]bool{bKey("setErr"): true, bKey("current"): true, bKey("Err"): true, "errors.New": true, "fmt.Errorf": true, "fmt.Sprintf": true}
	badOrder, badSticky := "", ""
	var posOrder, posSticky = fn.Decl.Pos(), fn.Decl.Pos()
	guardsSeen := false
	for i := range paths {
		p := &paths[i]
		if p.Exit != ExitReturn {
			continue
		}
		var inSetErr *ast.CallExpr
		for j, e := range p.Ev {
			if inSetErr != nil {
				if e.Kind == EvInlEnd && e.Call == inSetErr {
					inSetErr = nil
				}
				continue
			}
			what := ""
			switch e.Kind {
			case EvBranch:
				if e.Cond != nil {
					if k, _, ok := atom(ast.Unparen(e.Cond)); ok && k != "" {
						guardsSeen = true
					}
				}
			case EvAssign:
				for _, l := range e.Lhs {
					if !isLocal(l) {
						what = "assigns " + ExprStr(l)
					}
				}
			case EvCall:
				k := CalleeKey(e)
				if k == bKey("setErr") {
					if e.Inlined {
						inSetErr = e.Call
					}
					if !stickySetErr && !PathRefutedRange(fl, p, 0, j, map[string]bool{"err-stored": true}, atom) && badSticky == "" {
						badSticky, posSticky = m+" calls setErr on a path that has not established b.err == nil: a later misuse replaces the first error, so the error reported changes from call to call and Plan()/Err() no longer return the first one", e.Pos
					}
					continue
				}
				if strings.HasPrefix(k, pkgBuilder+".BuildPlan.") && !harmless[k] && !e.Inlined {
					what = "calls " + ShortFn(k)
				}
			}
			if what == "" || badOrder != "" {
				continue
			}
			if !PathRefutedRange(fl, p, 0, j, map[string]bool{"emitted": true}, atom) {
				badOrder, posOrder = m+" "+what+" on a path that is possible after Plan() was called (the `emitted` guard does not dominate it): a builder that has emitted its plan must reject every further call", e.Pos
			} else if !PathRefutedRange(fl, p, 0, j, map[string]bool{"err-stored": true}, atom) {
				badOrder, posOrder = m+" "+what+" on a path that is possible while an earlier error is stored (the `err` guard does not dominate it): after the first misuse every call must be a no-op", e.Pos
			}
		}
	}
	if !guardsSeen && badOrder == "" {
		badOrder = m + " tests neither `emitted` nor `err`"
	}
	r.Check(rule, "prologue:"+m, posOrder, badOrder == "", "%s", orOK(badOrder, "no change of the builder or the plan is possible once emitted or while an error is stored"))
	r.Check(rule, "sticky-first-error:"+m, posSticky, badSticky == "", "%s", orOK(badSticky, "setErr is only reached with no error stored (or is itself sticky)"))
}

func rulePlanReturnsStored(r *Run, rule string) {
	fn := r.fnByKey(rule, bKey("Plan"))
	if fn == nil {
		return
	}
	fl, paths, ok := r.flowPaths(rule, fn)
	if !ok {
		return
	}
	bad := ""
	seen := false
	errAtom := func(e ast.Expr) (string, bool, bool) {
		if x, op, ok := IsNilCompare(fl.Info, e); ok && isBuilderField(fl.Info, x, "err") {
			return "err-stored", op == token.EQL, true
		}
		return "", false, false
	}
	for i := range paths {
		p := &paths[i]
		if p.Exit != ExitReturn {
			continue
		}
		// while an error is stored Plan() must not change the builder (marking it emitted would make the next
		// Plan() report "called twice" instead of the first error)
		for j, e := range p.Ev {
			if e.Kind != EvAssign {
				continue
			}
			for _, l := range e.Lhs {
				if _, isSel := ast.Unparen(l).(*ast.SelectorExpr); isSel && bad == "" && !PathRefutedRange(fl, p, 0, j, map[string]bool{"err-stored": true}, errAtom) {
					bad = "Plan() assigns " + ExprStr(l) + " on a path that is possible while an error is stored: every later call and Plan() must keep returning the first error until Reset, so nothing may change"
				}
			}
		}
		errSet := false
		for _, e := range p.Ev {
			if e.Kind == EvBranch && e.Cond != nil && e.Depth == 0 {
				if x, op, ok := IsNilCompare(fl.Info, e.Cond); ok && isBuilderField(fl.Info, x, "err") && (op == token.NEQ) == e.Taken {
					errSet = true
				}
			}
			if e.Kind == EvReturn && errSet && len(e.Rhs) == 2 && e.Depth == 0 {
				seen = true
				if !isBuilderField(fl.Info, e.Rhs[1], "err") && !CallAtom(fl.Info, e.Rhs[1], bKey("setErr")) && bad == "" {
					bad = "Plan() does not return the stored error when there is one"
				}
				if ValueKey(fl.Info, e.Rhs[0]) != "nil" && bad == "" {
					bad = "Plan() emits a plan although an error is stored"
				}
			}
		}
		// a successful return must have seen err == nil
		var ret *Event
		for j := range p.Ev {
			if p.Ev[j].Kind == EvReturn {
				ret = &p.Ev[j]
			}
		}
		if ret != nil && len(ret.Rhs) == 2 && ValueKey(fl.Info, ret.Rhs[1]) == "nil" {
			okNil := false
			for _, e := range p.Ev {
				if e.Kind == EvBranch && e.Cond != nil {
					if x, op, ok := IsNilCompare(fl.Info, e.Cond); ok && isBuilderField(fl.Info, x, "err") && (op == token.NEQ) != e.Taken {
						okNil = true
					}
				}
			}
			if !okNil && bad == "" {
				bad = "Plan() succeeds on a path that did not test the stored error"
			}
		}
	}
	if !seen {
		bad = orOK(bad, "Plan() has no branch for a stored error")
	}
	r.Check(rule, "Plan:returns-stored-error", fn.Decl.Pos(), bad == "", "%s", orOK(bad, "stored error returned; success only with no error stored"))
}

func ruleBuilderNilGuard(r *Run, rule, m string) {
	fn := r.fnByKey(rule, bKey(m))
	if fn == nil {
		return
	}
	fl, paths, ok := r.flowPaths(rule, fn)
	if !ok {
		return
	}
	info := fl.Info
	for _, f := range fn.Decl.Type.Params.List {
		for _, nm := range f.Names {
			obj := info.ObjectOf(nm)
			if _, isPtr := obj.Type().(*types.Pointer); !isPtr {
				continue
			}
			bad := ""
			var bpos token.Pos = fn.Decl.Pos()
			for i := range paths {
				p := &paths[i]
				checked := false
				elemChecked := map[types.Object]bool{}
				for _, e := range p.Ev {
					if e.Kind == EvBranch && e.Cond != nil {
						if x, op, ok := IsNilCompare(info, e.Cond); ok && (op == token.NEQ) == e.Taken {
							if ObjOf(info, x) == obj {
								checked = true
							} else if o := ObjOf(info, x); o != nil {
								elemChecked[o] = true
							}
						}
					}
					if checked {
						continue
					}
					deref := false
					var where ast.Node = e.Node
					if where == nil {
						where = e.Cond
					}
					if where == nil {
						continue
					}
					ast.Inspect(where, func(n ast.Node) bool {
						if sel, ok := n.(*ast.SelectorExpr); ok && ObjOf(info, sel.X) == obj {
							if s := info.Selections[sel]; s != nil && s.Kind() == types.FieldVal {
								deref = true
							}
						}
						return true
					})
					if deref && bad == "" {
						bad, bpos = m+" dereferences its parameter "+nm.Name+" ("+ExprStr(firstSelOn(info, where, obj))+") on a path that has not tested it for nil: "+m+"(nil) panics instead of reporting a misuse", e.Pos
					}
				}
			}
			r.Check(rule, "nil-guard:"+m+":"+nm.Name, bpos, bad == "", "%s", orOK(bad, "nil-tested before first dereference"))
		}
	}
}

func firstSelOn(info *types.Info, n ast.Node, obj types.Object) ast.Expr {
	var out ast.Expr
	ast.Inspect(n, func(m ast.Node) bool {
		if sel, ok := m.(*ast.SelectorExpr); ok && out == nil && ObjOf(info, sel.X) == obj {
			out = sel
		}
		return out == nil
	})
	return out
}

func ruleReset(r *Run, rule string) {
	fn := r.fnByKey(rule, bKey("Reset"))
	if fn == nil {
		return
	}
	fl, paths, ok := r.flowPaths(rule, fn)
	if !ok {
		return
	}
	info := fl.Info
	badEmpty, badFresh := "", ""
	for i := range paths {
		p := &paths[i]
		if p.Exit != ExitReturn {
			continue
		}
		truncated, rooted := false, false
		emittedCleared, errCleared, fresh := false, false, false
		for _, e := range p.Ev {
			if e.Kind != EvAssign || len(e.Lhs) != len(e.Rhs) {
				continue
			}
			for k, l := range e.Lhs {
				rhs := ast.Unparen(e.Rhs[k])
				switch {
				case isBuilderField(info, l, "chain"):
					switch x := rhs.(type) {
					case *ast.SliceExpr:
						truncated, rooted = true, false
					case *ast.CallExpr:
						if id, ok := x.Fun.(*ast.Ident); ok && id.Name == "append" && len(x.Args) == 2 {
							rooted = true
							// a fresh plan built from the arguments
							arg := x.Args[1]
							if def := localDef(info, fn.Decl.Body, arg); def != nil {
								arg = def
							}
							if cl := compositeOf(arg); cl != nil {
								nv, dv := keyValue(cl, "Name"), keyValue(cl, "Descr")
								if nv != nil && dv != nil && isParamNamed(fn, info, nv, "name") && isParamNamed(fn, info, dv, "descr") {
									fresh = true
								}
							}
						}
					default:
						if ValueKey(info, rhs) == "nil" {
							truncated, rooted = true, false
						}
					}
				case isBuilderField(info, l, "emitted"):
					emittedCleared = ValueKey(info, rhs) == "false"
				case isBuilderField(info, l, "err"):
					errCleared = ValueKey(info, rhs) == "nil"
				}
			}
		}
		if truncated && !rooted && badEmpty == "" {
			badEmpty = "Reset returns (guard " + ExitGuardKey(fl, p) + ") after truncating the chain without installing a root plan: the chain is empty, and the next builder call panics in current()"
		}
		var ret *Event
		for j := range p.Ev {
			if p.Ev[j].Kind == EvReturn {
				ret = &p.Ev[j]
			}
		}
		if ret != nil {
			if isNil, has := ReturnsNilLast(info, *ret); has && isNil {
				if !(truncated && rooted && fresh && emittedCleared && errCleared) && badFresh == "" {
					badFresh = "a successful Reset leaves chain truncated=" + boolStr(truncated) + ", fresh plan from (name, descr) installed=" + boolStr(fresh) + ", emitted cleared=" + boolStr(emittedCleared) + ", err cleared=" + boolStr(errCleared) + " (guard " + ExitGuardKey(fl, p) + "): the next build would continue on the previous plan or stay refused"
				}
			}
		}
	}
	r.Check(rule, "Reset:never-leaves-empty-chain", fn.Decl.Pos(), badEmpty == "", "%s", orOK(badEmpty, "no return between truncation and re-rooting"))
	r.Check(rule, "Reset:success-installs-fresh-plan", fn.Decl.Pos(), badFresh == "", "%s", orOK(badFresh, "chain = [fresh plan(name, descr)], emitted=false, err=nil"))
}

func isParamNamed(fn *Func, info *types.Info, e ast.Expr, name string) bool {
	o := ObjOf(info, e)
	if o == nil || o.Name() != name {
		return false
	}
	for _, f := range fn.Decl.Type.Params.List {
		for _, nm := range f.Names {
			if info.ObjectOf(nm) == o {
				return true
			}
		}
	}
	return false
}

func ruleUpReslice(r *Run, rule string) {
	fn := r.fnByKey(rule, bKey("Up"))
	if fn == nil {
		return
	}
	fl, paths, ok := r.flowPaths(rule, fn)
	if !ok {
		return
	}
	info := fl.Info
	isLenChain := func(e ast.Expr) bool {
		c, ok := ast.Unparen(e).(*ast.CallExpr)
		if !ok || len(c.Args) != 1 {
			return false
		}
		if id, ok := c.Fun.(*ast.Ident); !ok || id.Name != "len" {
			return false
		}
		return isBuilderField(info, c.Args[0], "chain")
	}
	bad := ""
	n := 0
	for i := range paths {
		p := &paths[i]
		atLeast2 := false
		for _, e := range p.Ev {
			if e.Kind == EvBranch && e.Cond != nil {
				for _, c := range FindCmps(info, e.Cond, isLenChain, nil) {
					if ast.Unparen(e.Cond) != c.Expr {
						continue
					}
					if m, ok := c.ImpliesGE(info, e.Taken); ok && m >= 2 {
						atLeast2 = true
					}
				}
			}
			if e.Kind == EvAssign && len(e.Lhs) == 1 && isBuilderField(info, e.Lhs[0], "chain") {
				if _, ok := ast.Unparen(e.Rhs[0]).(*ast.SliceExpr); ok {
					n++
					if !atLeast2 && bad == "" {
						bad = "Up shortens the chain on a path that did not establish len(chain) >= 2: going up from the root would empty the chain and the next call panics in current()"
					}
				}
			}
		}
	}
	if n == 0 {
		r.Unresolved(rule, "Up re-slices the chain")
		return
	}
	r.Check(rule, "Up:reslice-needs-two-levels", fn.Decl.Pos(), bad == "", "%s", orOK(bad, "re-slice only with len(chain) >= 2"))
}

// rulePlacement: the type switch on current() has exactly the permitted cases; anything else sets the error.
func rulePlacement(r *Run, rule, m string, allowed []string) {
	fn := r.fnByKey(rule, bKey(m))
	if fn == nil {
		return
	}
	info := fn.Pkg.TypesInfo
	var ts *ast.TypeSwitchStmt
	ast.Inspect(fn.Decl.Body, func(n ast.Node) bool {
		if x, ok := n.(*ast.TypeSwitchStmt); ok && ts == nil {
			isCurrent := false
			if rhs := assignRHS(x.Assign); rhs != nil {
				ast.Inspect(rhs, func(m ast.Node) bool {
					if c, ok := m.(*ast.CallExpr); ok {
						if f, ok := calleeFunc(info, c); ok && FuncKey(f) == bKey("current") {
							isCurrent = true
						}
					}
					return !isCurrent
				})
			}
			if isCurrent {
				ts = x
			}
		}
		return true
	})
	if ts == nil {
		r.Undecided(rule, "placement:"+m, fn.Decl.Pos(), "%s has no type switch on current() (unrecognised idiom)", m)
		return
	}
	var got []string
	hasDefault := false
	bad := ""
	bound := "" // the symbol the switch binds (`switch t := …`)
	if as, ok := ts.Assign.(*ast.AssignStmt); ok && len(as.Lhs) == 1 {
		if id, ok := as.Lhs[0].(*ast.Ident); ok {
			bound = id.Name
		}
	}
	for _, cl := range ts.Body.List {
		cc := cl.(*ast.CaseClause)
		if cc.List == nil {
			hasDefault = true
			if !callsFunc(info, cc, bKey("setErr")) {
				bad = "the default case does not set the error"
			}
			continue
		}
		for _, e := range cc.List {
			if tv, ok := info.Types[e]; ok {
				got = append(got, ShortType(tv.Type))
			}
		}
		// the new object is attached to a field of t and (not for actions) pushed on the chain
		attaches, pushes := false, false
		ast.Inspect(cc, func(n ast.Node) bool {
			as, ok := n.(*ast.AssignStmt)
			if !ok || len(as.Lhs) != 1 {
				return true
			}
			if sel, ok := ast.Unparen(as.Lhs[0]).(*ast.SelectorExpr); ok {
				if id, ok := sel.X.(*ast.Ident); ok && bound != "" && id.Name == bound {
					attaches = true
				}
			}
			if isBuilderField(info, as.Lhs[0], "chain") {
				pushes = true
			}
			return true
		})
		if !attaches && bad == "" {
			bad = "a permitted case does not attach the new object to its parent"
		}
		_ = pushes // where the push stands (in each case, or once after the switch) is judged on the paths below
	}
	// attach ⇔ push on every path (AddAction: attach, never push)
	if fl, paths, ok := r.flowPaths(rule, fn); ok && bound != "" {
		for i := range paths {
			p := &paths[i]
			if p.Exit != ExitReturn {
				continue
			}
			attached, pushed := false, false
			for _, e := range p.Ev {
				if e.Kind != EvAssign {
					continue
				}
				for _, l := range e.Lhs {
					if sel, ok := ast.Unparen(l).(*ast.SelectorExpr); ok {
						if id, ok := sel.X.(*ast.Ident); ok && id.Name == bound {
							attached = true
						}
					}
					if isBuilderField(fl.Info, l, "chain") {
						pushed = true
					}
				}
			}
			switch {
			case m != "AddAction" && attached && !pushed && bad == "":
				bad = "a path attaches the new object to its parent but does not move into it (no push on the chain): the next call would add to the wrong object"
			case m != "AddAction" && pushed && !attached && bad == "":
				bad = "a path moves into the new object without having attached it to its parent: it would be silently dropped from the plan"
			case m == "AddAction" && pushed && bad == "":
				bad = "AddAction moves into the action although actions have no children"
			}
		}
	}
	sort.Strings(got)
	want := append([]string{}, allowed...)
	sort.Strings(want)
	if strings.Join(got, ",") != strings.Join(want, ",") && bad == "" {
		bad = m + " accepts parents " + strings.Join(got, ",") + "; permitted are " + strings.Join(want, ",") + " (an object at the wrong level would be silently misplaced)"
	}
	if !hasDefault {
		// the statement after the switch must set the error and every case must return
		after := false
		for i, st := range fn.Decl.Body.List {
			if st == ast.Stmt(ts) && i+1 < len(fn.Decl.Body.List) {
				if callsFunc(info, fn.Decl.Body.List[i+1], bKey("setErr")) {
					after = true
				}
			}
		}
		if !after && bad == "" {
			bad = "a current() of any other type neither hits a default case nor falls through to an error"
		}
	}
	r.Check(rule, "placement:"+m, ts.Pos(), bad == "", "%s", orOK(bad, "parents "+strings.Join(want, ",")+"; anything else is an error"))
}

func assignRHS(s ast.Stmt) ast.Expr {
	switch x := s.(type) {
	case *ast.AssignStmt:
		if len(x.Rhs) == 1 {
			return x.Rhs[0]
		}
	case *ast.ExprStmt:
		return x.X
	}
	return nil
}

// ruleChecksTable: inside AddChecks each `case <CT>` is guarded by and assigns the field of its own name.
func ruleChecksTable(r *Run, rule string) {
	fn := r.fnByKey(rule, bKey("AddChecks"))
	if fn == nil {
		return
	}
	info := fn.Pkg.TypesInfo
	n := 0
	ast.Inspect(fn.Decl.Body, func(nd ast.Node) bool {
		cc, ok := nd.(*ast.CaseClause)
		if !ok || len(cc.List) != 1 {
			return true
		}
		ct := ValueKey(info, cc.List[0])
		if !strings.HasPrefix(ct, "builder.") || !strings.HasSuffix(ct, "Checks") {
			return true
		}
		name := strings.TrimPrefix(ct, "builder.")
		// which parent?
		parent := ""
		guard, assign := "", ""
		guardErr := false
		for _, st := range cc.Body {
			switch x := st.(type) {
			case *ast.IfStmt:
				if ex, op, ok := IsNilCompare(info, x.Cond); ok && op == token.NEQ {
					if sel, ok := ex.(*ast.SelectorExpr); ok {
						guard = sel.Sel.Name
						if tv, ok := info.Types[sel.X]; ok {
							parent = ShortType(tv.Type)
						}
						guardErr = callsFunc(info, x.Body, bKey("setErr"))
					}
				}
			case *ast.AssignStmt:
				if len(x.Lhs) == 1 {
					if sel, ok := ast.Unparen(x.Lhs[0]).(*ast.SelectorExpr); ok {
						if tv, ok := info.Types[sel.X]; ok && workflowObjTypes[ShortType(tv.Type)] {
							assign = sel.Sel.Name
							parent = ShortType(tv.Type)
						}
					}
				}
			}
		}
		n++
		r.Check(rule, "checks-table:"+strings.TrimPrefix(parent, "workflow.")+":"+name, cc.Pos(), guard == name && assign == name && guardErr,
			"case %s of AddChecks (%s) tests %s for an existing group and assigns %s (error on duplicate=%v); both must be the field %s — otherwise a second group silently replaces the first, or a valid order of calls is refused", name, parent, orOK(guard, "nothing"), orOK(assign, "nothing"), guardErr, name)
		return true
	})
	if n < 10 {
		r.Fail(rule, "checks-table:count", fn.Decl.Pos(), "only %d of the 10 (parent, check type) cases were found in AddChecks", n)
	}
}

func ruleBlockArgs(r *Run, rule string) {
	fn := r.fnByKey(rule, bKey("AddBlock"))
	if fn == nil {
		return
	}
	info := fn.Pkg.TypesInfo
	st, _ := r.P.StructOf(pkgBuilder, "BlockArgs")
	if st == nil {
		r.Unresolved(rule, "builder.BlockArgs")
		return
	}
	got := map[string]string{}
	ast.Inspect(fn.Decl.Body, func(n ast.Node) bool {
		cl, ok := n.(*ast.CompositeLit)
		if !ok {
			return true
		}
		if tv, ok := info.Types[cl]; !ok || ShortType(tv.Type) != "workflow.Block" {
			return true
		}
		for _, el := range cl.Elts {
			if kv, ok := el.(*ast.KeyValueExpr); ok {
				if sel, ok := ast.Unparen(kv.Value).(*ast.SelectorExpr); ok {
					got[sel.Sel.Name] = kv.Key.(*ast.Ident).Name
				}
			}
		}
		return true
	})
	var missing, crossed []string
	for i := 0; i < st.NumFields(); i++ {
		f := st.Field(i).Name()
		switch dst, ok := got[f]; {
		case !ok:
			missing = append(missing, f)
		case dst != f:
			crossed = append(crossed, f+"→"+dst)
		}
	}
	r.Check(rule, "AddBlock:every-arg-copied", fn.Decl.Pos(), len(missing) == 0 && len(crossed) == 0, "AddBlock drops BlockArgs fields %v and copies %v into a different field: the built block differs from the one described", missing, crossed)
}

// ShortTypeOfSliceElem: "pkg.Name" of the element type of a slice type ("" otherwise).
func ShortTypeOfSliceElem(t types.Type) string {
	if sl, ok := t.Underlying().(*types.Slice); ok {
		return ShortType(sl.Elem())
	}
	return ""
}

// loopsOnPath lists the range loops the event at index idx executes in: the loops entered earlier
// on the path, at the same inlining depth, whose body contains the event.
func loopsOnPath(p *Path, idx int) []*ast.RangeStmt {
	ev := p.Ev[idx]
	var out []*ast.RangeStmt
	seen := map[*ast.RangeStmt]bool{}
	for j := idx - 1; j >= 0; j-- {
		e := p.Ev[j]
		if e.Kind != EvRange || !e.Taken || e.Depth != ev.Depth {
			continue
		}
		rs, ok := e.Clause.(*ast.RangeStmt)
		if !ok || seen[rs] {
			continue
		}
		if rs.Body.Pos() <= ev.Pos && ev.Pos <= rs.Body.End() {
			seen[rs] = true
			out = append(out, rs)
		}
	}
	return out
}

// walkVisitsOnPath extracts, in execution order, the visits a walker performs on one path: calls of
// the yield function and of the other walkers, wherever they are written (in place or in a helper
// whose body the path engine spliced in; the inside of an inlined walker is that walker's business).
func walkVisitsOnPath(fl *Flow, p *Path, isSubj func(ast.Expr) bool, typ string, want []string, visitors map[string]bool) (visits []walkVisit, appendIdx int, chainObj types.Object) {
	info := fl.Info
	appendIdx = -1
	var skip *ast.CallExpr
	fieldOf := func(i int, t ast.Expr) (string, bool) {
		if t == nil {
			return "?", false
		}
		if isSubj(t) {
			return "", false
		}
		for _, w := range want {
			if w != "" {
				if base, m := FieldPath(info, t, typ, w); m && isSubj(base) {
					return w, len(loopsOnPath(p, i)) > 0
				}
			}
		}
		loops := loopsOnPath(p, i)
		for _, rs := range loops {
			if !IsLoopElem(info, rs, t) {
				continue
			}
			for _, w := range want {
				if w != "" {
					if base, m := FieldPath(info, rs.X, typ, w); m && isSubj(base) {
						return w, true
					}
				}
			}
		}
		return "?" + ExprStr(t), len(loops) > 0
	}
	for i, e := range p.Ev {
		if skip != nil {
			if e.Kind == EvInlEnd && e.Call == skip {
				skip = nil
			}
			continue
		}
		switch e.Kind {
		case EvAssign:
			if len(e.Lhs) == 1 && len(e.Rhs) == 1 && !e.Deferred {
				lo := ObjOf(info, e.Lhs[0])
				if lo == nil || ShortTypeOfSliceElem(lo.Type()) != "workflow.Object" {
					continue
				}
				switch rhs := ast.Unparen(e.Rhs[0]).(type) {
				case *ast.CallExpr:
					if fid, ok := rhs.Fun.(*ast.Ident); ok && fid.Name == "append" && len(rhs.Args) == 2 && ObjOf(info, rhs.Args[0]) == lo && isSubj(rhs.Args[1]) {
						appendIdx, chainObj = i, lo
					}
				case *ast.CompositeLit:
					if len(rhs.Elts) == 1 && isSubj(rhs.Elts[0]) {
						appendIdx, chainObj = i, lo
					}
				}
			}
		case EvCall:
			if e.Deferred {
				continue
			}
			var v *walkVisit
			if k := CalleeKey(e); visitors[k] && len(e.Call.Args) >= 2 {
				// (yield, chain, object) — or (chain, object) when the walkers are methods of a type holding yield
				var chainArg, target ast.Expr
				for _, a := range e.Call.Args {
					tv, ok := info.Types[a]
					if !ok {
						continue
					}
					switch {
					case ShortTypeOfSliceElem(tv.Type) == "workflow.Object":
						chainArg = a
					case workflowObjTypes[ShortType(tv.Type)]:
						target = a
					}
				}
				v = &walkVisit{kind: ShortFn(k), chain: chainArg, pos: e.Pos, call: e.Call}
				v.field, v.inLoop = fieldOf(i, target)
				if e.Inlined {
					skip = e.Call
				}
			} else if tv, ok := info.Types[e.Call.Fun]; ok && len(e.Call.Args) == 1 {
				if sig, ok := tv.Type.Underlying().(*types.Signature); ok && sig.Params().Len() == 1 && ShortType(sig.Params().At(0).Type()) == "walk.Item" {
					item := ast.Unparen(e.Call.Args[0])
					if iid, ok := item.(*ast.Ident); ok {
						// a local holding the item: its latest definition on the path
						for j := i - 1; j >= 0; j-- {
							a := p.Ev[j]
							if a.Kind == EvAssign && len(a.Lhs) == len(a.Rhs) {
								for k, l := range a.Lhs {
									if SameObj(info, l, iid) {
										item = ast.Unparen(a.Rhs[k])
										j = -1
										break
									}
								}
							}
						}
					}
					v = &walkVisit{kind: "yield", pos: e.Pos, call: e.Call}
					if cl, ok := item.(*ast.CompositeLit); ok {
						v.chain = keyValue(cl, "Chain")
						v.field, v.inLoop = fieldOf(i, keyValue(cl, "Value"))
					} else {
						v.field = "?" + ExprStr(e.Call.Args[0])
					}
				}
			}
			if v == nil {
				continue
			}
			v.idx = i
			if n := len(visits); n > 0 && visits[n-1].call == v.call {
				continue // the next iteration of the same loop
			}
			visits = append(visits, *v)
		}
	}
	return
}

// unjustifiedSkip: on a path where no visitor answered false, a child-bearing field that is not visited must be
// established absent (nil, or for a list empty / iterated by a loop that found nothing).
func unjustifiedSkip(fl *Flow, p *Path, visits []walkVisit, isSubj func(ast.Expr) bool, typ string, want []string, isList map[string]bool, visitors map[string]bool) (field, guard string) {
	info := fl.Info
	// the visitor calls of this path, as atoms "answered true"
	calls := map[*ast.CallExpr]bool{}
	for _, v := range visits {
		calls[v.call] = true
	}
	answered := func(e ast.Expr) (string, bool, bool) {
		if c, ok := ast.Unparen(e).(*ast.CallExpr); ok && calls[c] {
			return "all-answered-true", false, true
		}
		return "", false, false
	}
	if PathRefuted(fl, p, -1, map[string]bool{"all-answered-true": true}, answered) {
		return "", "" // the consumer stopped the walk on this path
	}
	visited := map[string]bool{}
	for _, v := range visits {
		visited[v.field] = true
	}
	isField := func(e ast.Expr, f string) bool {
		base, m := FieldPath(info, e, typ, f)
		return m && isSubj(base)
	}
	for _, f := range want {
		if f == "" || visited[f] {
			continue
		}
		f := f
		if isList[f] {
			// a loop over the list ran on this path (and found nothing to visit, or it would be among the visits)
			ranged := false
			for _, e := range p.Ev {
				if e.Kind == EvRange && e.Chan != nil && isField(e.Chan, f) {
					ranged = true
				}
			}
			if ranged {
				continue
			}
		}
		present := func(e ast.Expr) (string, bool, bool) {
			e = ast.Unparen(e)
			if x, op, ok := IsNilCompare(info, e); ok && isField(x, f) {
				return "present", op == token.EQL, true
			}
			if be, ok := e.(*ast.BinaryExpr); ok {
				if lc, ok := ast.Unparen(be.X).(*ast.CallExpr); ok && len(lc.Args) == 1 {
					if id, ok := lc.Fun.(*ast.Ident); ok && id.Name == "len" && isField(lc.Args[0], f) {
						if k, isC := ConstInt(info, be.Y); isC && k == 0 {
							switch be.Op {
							case token.EQL:
								return "present", true, true
							case token.NEQ, token.GTR:
								return "present", false, true
							}
						}
					}
				}
			}
			return "", false, false
		}
		if !PathRefuted(fl, p, -1, map[string]bool{"present": true}, present) {
			return f, ExitGuardKey(fl, p)
		}
	}
	return "", ""
}

// ruleBuilderErrorsSticky (D36, D38): every error an error-returning builder method hands out after it has touched the
// builder is the sticky one — the value of b.err or the result of setErr(…), which stores the first error and
// returns it. Plan() answered a second call with a fresh error it did not record, Reset() returned the error of a
// refused option after it had already unlocked and emptied the builder: in both cases the calls that followed were
// judged as if nothing had happened. For Reset the obligation applies to the paths that have assigned a builder field
// (a Reset refused before it changed anything leaves the builder as it was, which is fine).
func ruleBuilderErrorsSticky(r *Run, rule, m string, onlyAfterChange bool) {
	fn := r.fnByKey(rule, bKey(m))
	if fn == nil {
		return
	}
	fl, paths, ok := r.flowPaths(rule, fn)
	if !ok {
		return
	}
	paths = fl.OwnOnly(paths)
	info := fl.Info
	bad := ""
	var bpos token.Pos = fn.Decl.Pos()
	n := 0
	for i := range paths {
		p := &paths[i]
		if p.Exit != ExitReturn {
			continue
		}
		changed := false
		for j, e := range p.Ev {
			if e.Kind == EvAssign && e.Depth == 0 {
				for _, l := range e.Lhs {
					if _, isSel := ast.Unparen(l).(*ast.SelectorExpr); isSel {
						if _, m := FieldPath(info, l, "builder.BuildPlan", ast.Unparen(l).(*ast.SelectorExpr).Sel.Name); m {
							changed = true
						}
					}
				}
			}
			if e.Kind != EvReturn || e.Depth != 0 || e.Deferred || len(e.Rhs) == 0 {
				continue
			}
			res := e.Rhs[len(e.Rhs)-1]
			if ValueKey(info, res) == "nil" || NilnessAt(info, p, j, res) == "nil" {
				continue
			}
			if onlyAfterChange && !changed {
				continue
			}
			n++
			sticky := isBuilderField(info, res, "err")
			if c, ok := ast.Unparen(res).(*ast.CallExpr); ok {
				if f, ok := calleeFunc(info, c); ok && FuncKey(f) == bKey("setErr") {
					sticky = true
				}
			}
			if o := OriginOnPath(info, p, j, res); o != nil && !sticky {
				if isBuilderField(info, o, "err") {
					sticky = true
				}
				if c, ok := ast.Unparen(o).(*ast.CallExpr); ok {
					if f, ok := calleeFunc(info, c); ok && FuncKey(f) == bKey("setErr") {
						sticky = true
					}
				}
			}
			if !sticky && bad == "" {
				bad, bpos = m+"() returns the error "+ExprStr(res)+" without recording it (exit guard "+ExitGuardKey(fl, p)+"): Err() stays as it was, the calls that follow are accepted or report a different error, and Plan() does not keep returning this one", e.Pos
			}
		}
	}
	if n == 0 {
		r.Unresolved(rule, m+"() returning an error")
		return
	}
	r.Check(rule, "reported-errors-are-sticky:"+m, bpos, bad == "", "%s", orOK(bad, "every error handed out is b.err or the result of setErr"))
}

// ruleWalkSkipsNilChildren (D40): the walkers never hand a nil child on. Submit walks a plan before Validate has had a
// chance to refuse it, and every consumer dereferences what it is given, so a nil *Block, *Sequence or *Action in a
// submitted plan made the process panic. Per loop over a slice of pointers in package walk: assume "element == nil"
// and refute — an iteration that yields the element or passes it to a walker must be impossible.
func ruleWalkSkipsNilChildren(r *Run, rule string) {
	pkg := r.P.Pkgs["workflow/utils/walk"]
	if pkg == nil {
		r.Unresolved(rule, "package walk")
		return
	}
	n := 0
	for _, fn := range r.P.sortedFuncs() {
		if fn.Pkg != pkg || fn.Decl.Body == nil || strings.HasSuffix(r.P.Fset.Position(fn.Decl.Pos()).Filename, "_test.go") {
			continue
		}
		bodies := []ast.Node{fn.Decl}
		for _, body := range bodies {
			_ = body
		}
		fl := r.P.FlowOf(fn)
		flows := []*Flow{fl}
		// function literals (the iterator body of Plan) are analysed as their own flows
		ast.Inspect(fn.Decl.Body, func(x ast.Node) bool {
			if l, ok := x.(*ast.FuncLit); ok {
				if lf, _, ok := r.litPaths(rule, l); ok {
					flows = append(flows, lf)
				}
			}
			return true
		})
		for _, f := range flows {
			paths, ok := f.Paths()
			if !ok {
				continue
			}
			r.Paths += len(paths)
			all := append(append([]Path{}, paths...), f.Truncated()...)
			info := f.Info
			seen := map[*ast.RangeStmt]string{}
			var order []*ast.RangeStmt
			for i := range all {
				p := &all[i]
				for j, h := range p.Ev {
					rs, isR := h.Clause.(*ast.RangeStmt)
					if h.Kind != EvRange || !isR || !h.Taken || h.Depth != 0 || rs.Value == nil {
						continue
					}
					tv, ok := info.Types[rs.Value]
					if !ok {
						if o := ObjOf(info, rs.Value); o != nil {
							tv.Type = o.Type()
						}
					}
					if tv.Type == nil {
						continue
					}
					if _, isPtr := tv.Type.Underlying().(*types.Pointer); !isPtr || !strings.HasPrefix(ShortType(tv.Type), "*workflow.") && !strings.HasPrefix(ShortType(tv.Type), "workflow.") {
						continue
					}
					if _, had := seen[rs]; !had {
						seen[rs] = ""
						order = append(order, rs)
					}
					end := len(p.Ev)
					for x := j + 1; x < len(p.Ev); x++ {
						if p.Ev[x].Kind == EvRange && p.Ev[x].Clause == h.Clause {
							end = x
							break
						}
					}
					elem := ObjOf(info, rs.Value)
					atom := func(e ast.Expr) (string, bool, bool) {
						if x, op, ok := IsNilCompare(info, e); ok && ObjOf(info, ast.Unparen(x)) == elem && elem != nil {
							return "nil", op == token.NEQ, true
						}
						return "", false, false
					}
					if PathRefutedRange(f, p, j+1, end, map[string]bool{"nil": true}, atom) {
						continue
					}
					for x := j + 1; x < end; x++ {
						e := p.Ev[x]
						if e.Kind != EvCall || e.Call == nil || e.Depth != 0 {
							continue
						}
						uses := false
						for _, a := range e.Call.Args {
							ast.Inspect(a, func(y ast.Node) bool {
								if id, ok := y.(*ast.Ident); ok && info.ObjectOf(id) == elem {
									uses = true
								}
								return !uses
							})
						}
						if uses && seen[rs] == "" {
							seen[rs] = "the loop over " + ExprStr(rs.X) + " hands its element to " + ExprStr(e.Call.Fun) + " on a path that is possible for a nil element: a plan with a nil child makes every consumer of the walk — Submit first of all — dereference nil"
						}
					}
				}
			}
			for _, rs := range order {
				n++
				r.Check(rule, "nil-child-never-handed-on:"+ShortFn(fn.Key)+":"+ExprStr(rs.X), rs.Pos(), seen[rs] == "", "%s", orOK(seen[rs], "nil elements are passed over"))
			}
		}
	}
	if n == 0 {
		r.Unresolved(rule, "loops over child slices in package walk")
	}
}

// ruleBuilderNoSilentOutcome (second mutation sweep): a builder call has exactly three outcomes — it is refused by the prologue
// (the plan was emitted, or an error is stored), it reports a misuse through setErr and does nothing else, or it takes
// effect. Per returning path of Up, AddChecks, AddBlock, AddSequence, AddAction, with the inlined setErr left out:
// a path that is possible on a fresh builder (assume ¬emitted ∧ no error stored) and changes nothing outside its locals
// has called setErr — otherwise the call is silently dropped; and a path that has called setErr changes nothing after
// it — otherwise a refused object is attached all the same (deleting the `return b` behind a setErr passed the tests).
func ruleBuilderNoSilentOutcome(r *Run, rule, m string) {
	fn := r.fnByKey(rule, bKey(m))
	if fn == nil {
		return
	}
	fl, paths, ok := r.flowPaths(rule, fn)
	if !ok {
		return
	}
	// the whole path is kept, inlined helpers included (a prologue shared by the methods, `if b.halted("X") { return b }`, holds
	// the tests the refutation needs); effects are counted in the method's own code, a report through setErr at any depth
	info := fl.Info
	atom := func(e ast.Expr) (string, bool, bool) {
		if isBuilderField(info, e, "emitted") {
			return "emitted", false, true
		}
		if x, op, ok := IsNilCompare(info, e); ok && isBuilderField(info, x, "err") {
			return "err-stored", op == token.EQL, true
		}
		return "", false, false
	}
	isLocal := func(e ast.Expr) bool {
		id, ok := ast.Unparen(e).(*ast.Ident)
		if !ok {
			return false
		}
		if id.Name == "_" {
			return true
		}
		o := info.ObjectOf(id)
		if o == nil {
			return true
		}
		v, ok := o.(*types.Var)
		return ok && !v.IsField() && v.Pkg() != nil && v.Parent() != v.Pkg().Scope()
	}
	badSilent, badAfter := "", ""
	var pS, pA token.Pos = fn.Decl.Pos(), fn.Decl.Pos()
	n := 0
	for i := range paths {
		p := &paths[i]
		if p.Exit != ExitReturn {
			continue
		}
		setErrAt := -1
		effectBefore, effectAfter := false, false
		var effectPos token.Pos
		for j, e := range p.Ev {
			if e.Kind == EvCall && CalleeKey(e) == bKey("setErr") && setErrAt < 0 {
				setErrAt = j
			}
			if e.Kind == EvAssign && e.Depth == 0 {
				for _, l := range e.Lhs {
					if !isLocal(l) {
						if setErrAt >= 0 {
							effectAfter, effectPos = true, e.Pos
						} else {
							effectBefore = true
						}
					}
				}
			}
		}
		n++
		if setErrAt >= 0 && effectAfter && badAfter == "" {
			badAfter, pA = m+"() goes on after it reported a misuse through setErr and changes the builder or the plan (exit guard "+ExitGuardKey(fl, p)+"): the refused object is attached all the same", effectPos
		}
		if setErrAt < 0 && !effectBefore && !PathRefuted(fl, p, -1, map[string]bool{"emitted": false, "err-stored": false}, atom) && badSilent == "" {
			badSilent = m + "() has a path that is possible on a fresh builder, changes nothing and reports nothing (exit guard " + ExitGuardKey(fl, p) + "): the call is silently dropped"
			for _, e := range p.Ev {
				if e.Kind == EvReturn && !e.Deferred {
					pS = e.Pos
				}
			}
		}
	}
	if n == 0 {
		r.Unresolved(rule, m+"() returning path")
		return
	}
	r.Check(rule, "no-silent-drop:"+m, pS, badSilent == "", "%s", orOK(badSilent, "every path that is possible on a fresh builder takes effect or reports through setErr"))
	r.Check(rule, "nothing-after-setErr:"+m, pA, badAfter == "", "%s", orOK(badAfter, "a reported misuse ends the call"))
}

// ruleWalkerAnswer (round-4 seed C19-8): a walker answers false only because the consumer stopped. Its callers take false for
// "stop the walk", so a walker that answers false for an object without children ends the walk behind that object: every
// returning path answers the literal true, the result of a visit, or a variable the path has assigned — never a result
// variable that is still at its zero value (a sequence without actions, a group without actions).
func ruleWalkerAnswer(r *Run, rule string, fn *Func) {
	sig, ok := fn.Obj.Type().(*types.Signature)
	if !ok || sig.Results().Len() != 1 {
		return
	}
	if b, ok := sig.Results().At(0).Type().Underlying().(*types.Basic); !ok || b.Kind() != types.Bool {
		return
	}
	fl, paths, ok2 := r.flowPaths(rule, fn)
	if !ok2 {
		return
	}
	info := fl.Info
	label := strings.TrimPrefix(fn.Key, relPkg(fn.Pkg.PkgPath)+".")
	bad := ""
	var bpos token.Pos = fn.Decl.Pos()
	for i := range paths {
		p := &paths[i]
		if p.Exit != ExitReturn || bad != "" {
			continue
		}
		ri := -1
		for j, e := range p.Ev {
			if e.Kind == EvReturn && e.Depth == 0 && !e.Deferred {
				ri = j
			}
		}
		if ri < 0 {
			continue
		}
		var res ast.Expr
		if len(p.Ev[ri].Rhs) == 1 {
			res = ast.Unparen(p.Ev[ri].Rhs[0])
		} else if len(p.Ev[ri].Rhs) == 0 && sig.Results().At(0).Name() != "" {
			res = &ast.Ident{Name: sig.Results().At(0).Name()}
		}
		id, isIdent := res.(*ast.Ident)
		if !isIdent || id.Name == "true" || id.Name == "false" {
			continue
		}
		var obj types.Object = info.ObjectOf(id)
		if obj == nil {
			obj = sig.Results().At(0)
		}
		assigned := false
		for j := 0; j < ri; j++ {
			e := p.Ev[j]
			if e.Kind == EvAssign && e.Depth == 0 {
				for _, l := range e.Lhs {
					if lo := ObjOf(info, l); lo != nil && (lo == obj || lo.Name() == obj.Name() && lo.Pos() == obj.Pos()) {
						assigned = true
					}
				}
			}
		}
		if !assigned {
			bad, bpos = label+" answers with "+id.Name+", which no statement of the path has assigned (exit guard "+ExitGuardKey(fl, p)+"): for an object without children the walker answers false, its caller takes that for the consumer's stop and the walk ends there", p.Ev[ri].Pos
		}
	}
	r.Check(rule, "walker-answers-true-unless-stopped:"+label, bpos, bad == "", "%s", orOK(bad, "every path answers true, the result of a visit, or a variable it assigned"))
}

// ruleUpTouchesOnlyTheCursor (round-4 seed C20-8): Up() moves the cursor and nothing else. Whatever was added stays where it was
// put — a group that is still empty when it is left is as much part of the described plan as any other, and its slot must
// stay taken so that a second group of the same kind is still reported. On no path of Up (the helpers it alone calls included)
// is a field of a workflow object assigned, or anything assigned through a pointer.
func ruleUpTouchesOnlyTheCursor(r *Run, rule string) {
	fn := r.fnByKey(rule, bKey("Up"))
	if fn == nil {
		return
	}
	fl, paths, ok := r.flowPaths(rule, fn)
	if !ok {
		return
	}
	paths = fl.OwnOnly(paths)
	info := fl.Info
	bad := ""
	var bpos token.Pos = fn.Decl.Pos()
	for i := range paths {
		p := &paths[i]
		for _, e := range p.Ev {
			if e.Kind != EvAssign || bad != "" {
				continue
			}
			for _, l := range e.Lhs {
				l = ast.Unparen(l)
				switch x := l.(type) {
				case *ast.StarExpr:
					bad, bpos = "Up() assigns through a pointer ("+ExprStr(l)+"): leaving an object must not change the plan — a group dropped here is missing from the emitted plan and a second group of its kind is no longer reported as a duplicate", e.Pos
				case *ast.SelectorExpr:
					if tv, ok := info.Types[x.X]; ok && strings.HasPrefix(TypeKey(tv.Type), "workflow.") {
						bad, bpos = "Up() assigns "+ExprStr(l)+": leaving an object must not change the plan", e.Pos
					}
				}
			}
		}
	}
	r.Check(rule, "Up:touches-only-the-cursor", bpos, bad == "", "%s", orOK(bad, "Up assigns nothing of the plan"))
}
