package main

import (
	"go/ast"
	"go/token"
	"go/types"
	"sort"
	"strings"
)

// Contradiction rule (Engler et al.: "checked for nil on one path, dereferenced on it"): on no path of a
// function is a pointer-typed local or parameter dereferenced (field selected, `*p`, value-receiver
// method called) after a branch of that very path established it to be nil and before it was
// assigned again. Short-circuit guards inside one condition (`p != nil && p.f`, `p == nil || p.f`)
// are honoured. Decided per path, so `if p == nil { return }` and `if p == nil { p = &T{} }` are
// silent, and `if p == nil { log } ; p.f` is reported. One obligation per analysed function that
// compares a pointer with nil; functions whose paths cannot be enumerated are listed as a note (the
// rule makes no claim about them).
func ruleNilContradiction(r *Run, rule string, pkgs ...string) {
	inScope := map[string]bool{}
	for _, p := range pkgs {
		inScope[p] = true
	}
	var skipped []string
	n := 0
	for _, fn := range r.P.sortedFuncs() {
		if fn.Decl.Body == nil || !inScope[relPkg(fn.Pkg.PkgPath)] {
			continue
		}
		file := r.P.Fset.Position(fn.Decl.Pos()).Filename
		if strings.HasSuffix(file, "_test.go") || strings.HasSuffix(file, "fake_storage.go") || strings.HasSuffix(file, "testing.go") {
			continue
		}
		if !comparesPointerWithNil(fn.Pkg.TypesInfo, fn.Decl.Body) && !bindsVaultRead(fn.Pkg.TypesInfo, fn.Decl.Body) {
			continue
		}
		fl := r.P.FlowOf(fn)
		paths, ok := fl.Paths()
		if !ok {
			skipped = append(skipped, ShortFn(fn.Key))
			continue
		}
		r.Funcs[fn.Key] = true
		r.Paths += len(paths)
		paths = OwnOnly(paths)
		n++
		lineFset = r.P.Fset
		vol := computeVolatile(fl.Info, fn.Decl.Body)
		bad := ""
		var bpos token.Pos = fn.Decl.Pos()
		for i := range paths {
			p := &paths[i]
			if msg, pos := nilDerefOnPath(fl.Info, p, vol); msg != "" {
				bad, bpos = msg, pos
				break
			}
		}
		// the bodies of the function's literals (an iterator's `func(yield …)`, a submitted job) are code of the function too
		if bad == "" {
			for _, l := range AllLits(fn.Decl.Body) {
				lf := r.P.FlowOfLit(l)
				if lf == nil {
					continue
				}
				lp, ok := lf.Paths()
				if !ok {
					continue // no claim (as for functions whose paths cannot be enumerated)
				}
				r.Paths += len(lp)
				lvol := computeVolatile(lf.Info, l.Body)
				own := OwnOnly(lp)
				for i := range own {
					p := &own[i]
					if msg, pos := nilDerefOnPath(lf.Info, p, lvol); msg != "" {
						bad, bpos = msg, pos
						break
					}
				}
				if bad != "" {
					break
				}
			}
		}
		r.Check(rule, "nil-then-deref:"+ShortFn(fn.Key), bpos, bad == "", "%s", orOK(bad, "no pointer is dereferenced on a path that established it nil"))
	}
	if len(skipped) > 0 {
		sort.Strings(skipped)
		r.Note("nil-then-deref: paths not enumerable, no claim for: %s", strings.Join(skipped, ", "))
	}
	if n == 0 {
		r.Unresolved(rule, "functions comparing a pointer with nil")
	}
}

func isPointerVar(info *types.Info, e ast.Expr) (types.Object, bool) {
	id, ok := ast.Unparen(e).(*ast.Ident)
	if !ok {
		return nil, false
	}
	o := info.ObjectOf(id)
	v, isVar := o.(*types.Var)
	if !isVar || v.IsField() || v.Pkg() == nil || v.Parent() == v.Pkg().Scope() {
		return nil, false
	}
	if _, isPtr := v.Type().Underlying().(*types.Pointer); !isPtr {
		return nil, false
	}
	return o, true
}

func comparesPointerWithNil(info *types.Info, body ast.Node) bool {
	found := false
	ast.Inspect(body, func(n ast.Node) bool {
		if be, ok := n.(*ast.BinaryExpr); ok && (be.Op == token.EQL || be.Op == token.NEQ) {
			if x, _, ok := IsNilCompare(info, be); ok {
				if _, isP := isPointerVar(info, x); isP {
					found = true
				}
			}
		}
		return !found
	})
	return found
}

// derefsIn lists the objects of `nilObjs` that expression e dereferences when evaluated.
func derefsIn(info *types.Info, e ast.Node, nilObjs map[types.Object]token.Pos, hit func(o types.Object, pos token.Pos)) {
	if e == nil {
		return
	}
	var walk func(n ast.Node, excluded map[types.Object]bool)
	walk = func(n ast.Node, excluded map[types.Object]bool) {
		ast.Inspect(n, func(x ast.Node) bool {
			switch v := x.(type) {
			case *ast.FuncLit:
				return false
			case *ast.BinaryExpr:
				if v.Op == token.LAND || v.Op == token.LOR {
					walk(v.X, excluded)
					ex2 := map[types.Object]bool{}
					for k := range excluded {
						ex2[k] = true
					}
					for _, l := range condLiterals(info, v.X, v.Op == token.LAND) {
						if l.Val == "nil" && !l.Eq {
							if o, ok := isPointerVar(info, l.X); ok {
								ex2[o] = true
							}
						}
					}
					walk(v.Y, ex2)
					return false
				}
			case *ast.StarExpr:
				if o, ok := isPointerVar(info, v.X); ok && !excluded[o] {
					if _, isNil := nilObjs[o]; isNil {
						if tv, ok := info.Types[v]; ok && !tv.IsType() {
							hit(o, v.Pos())
						}
					}
				}
			case *ast.SelectorExpr:
				o, ok := isPointerVar(info, v.X)
				if !ok || excluded[o] {
					return true
				}
				if _, isNil := nilObjs[o]; !isNil {
					return true
				}
				sel := info.Selections[v]
				if sel == nil {
					return true
				}
				switch sel.Kind() {
				case types.FieldVal:
					hit(o, v.Pos())
				case types.MethodVal:
					if f, ok := sel.Obj().(*types.Func); ok {
						if sig, ok := f.Type().(*types.Signature); ok && sig.Recv() != nil {
							if _, ptrRecv := sig.Recv().Type().(*types.Pointer); !ptrRecv {
								if _, isIface := sig.Recv().Type().Underlying().(*types.Interface); !isIface {
									hit(o, v.Pos())
								}
							}
						}
					}
				}
			}
			return true
		})
	}
	walk(e, map[types.Object]bool{})
}

// isVaultRead: a call of the vault's Read (workflow/storage.*.Read). Its contract — every implementation in the repository
// keeps it — is "(nil, err) or (plan, nil)": on the branch that established the error non-nil the plan is nil.
func isVaultRead(info *types.Info, e ast.Expr) bool {
	c, ok := ast.Unparen(e).(*ast.CallExpr)
	if !ok {
		return false
	}
	f, ok := calleeFunc(info, c)
	if !ok {
		return false
	}
	k := FuncKey(f)
	return strings.HasPrefix(k, "workflow/storage.") && strings.HasSuffix(k, ".Read")
}

func bindsVaultRead(info *types.Info, body ast.Node) bool {
	found := false
	ast.Inspect(body, func(n ast.Node) bool {
		if as, ok := n.(*ast.AssignStmt); ok && len(as.Lhs) == 2 && len(as.Rhs) == 1 && isVaultRead(info, as.Rhs[0]) {
			found = true
		}
		return !found
	})
	return found
}

func nilDerefOnPath(info *types.Info, p *Path, vol map[string]bool) (string, token.Pos) {
	nilObjs := map[types.Object]token.Pos{}
	readErr := map[types.Object]types.Object{} // error variable -> the plan bound with it by a vault Read (round-4 seed C12-8)
	msg := ""
	var mpos token.Pos
	hit := func(o types.Object, pos token.Pos) {
		if msg == "" {
			msg = o.Name() + " is dereferenced on a path that established " + o.Name() + " == nil (the test is at line " + itoa(lineOf(info, nilObjs[o])) + "): nil pointer dereference"
			mpos = pos
		}
	}
	for _, e := range p.Ev {
		if e.Deferred || e.Depth > 0 {
			// what a deferred literal or an inlined callee does is judged in its own function
			if e.Kind == EvAssign {
				for _, l := range e.Lhs {
					if o, ok := isPointerVar(info, l); ok {
						delete(nilObjs, o)
					}
				}
			}
			continue
		}
		if len(nilObjs) > 0 {
			switch e.Kind {
			case EvCall, EvDefer, EvGo:
				if e.Call != nil {
					derefsIn(info, e.Call, nilObjs, hit)
				}
			case EvAssign:
				for _, x := range e.Rhs {
					derefsIn(info, x, nilObjs, hit)
				}
				for _, x := range e.Lhs {
					if _, isIdent := ast.Unparen(x).(*ast.Ident); !isIdent {
						derefsIn(info, x, nilObjs, hit)
					}
				}
			case EvBranch:
				if e.Cond != nil {
					derefsIn(info, e.Cond, nilObjs, hit)
				}
				if e.Tag != nil {
					derefsIn(info, e.Tag, nilObjs, hit)
				}
			case EvReturn:
				for _, x := range e.Rhs {
					derefsIn(info, x, nilObjs, hit)
				}
			case EvSend, EvRecv:
				if e.Chan != nil {
					derefsIn(info, e.Chan, nilObjs, hit)
				}
			case EvRange:
				if e.Chan != nil && e.Taken {
					derefsIn(info, e.Chan, nilObjs, hit)
				}
			}
			if msg != "" {
				return msg, mpos
			}
		}
		switch e.Kind {
		case EvBranch:
			for _, l := range EventLiterals(info, e) {
				if l.Val != "nil" {
					continue
				}
				// the error of a vault Read established non-nil: the plan that came with it is nil
				if eo := ObjOf(info, l.X); eo != nil && !l.Eq {
					if po, ok := readErr[eo]; ok && !vol[po.Name()] && !vol[eo.Name()] {
						nilObjs[po] = e.Pos
					}
				}
				if o, ok := isPointerVar(info, l.X); ok && !vol[o.Name()] {
					if l.Eq {
						nilObjs[o] = e.Pos
					} else {
						delete(nilObjs, o)
					}
				}
			}
		case EvAssign:
			for _, l := range e.Lhs {
				if o, ok := isPointerVar(info, l); ok {
					delete(nilObjs, o)
				}
				if o := ObjOf(info, l); o != nil {
					delete(readErr, o)
				}
			}
			if len(e.Lhs) == 2 && len(e.Rhs) == 1 && isVaultRead(info, e.Rhs[0]) {
				if po, ok := isPointerVar(info, e.Lhs[0]); ok {
					if eo := ObjOf(info, e.Lhs[1]); eo != nil {
						readErr[eo] = po
					}
				}
			}
		case EvCall:
			// &p handed to a callee may set it
			if e.Call != nil {
				for _, a := range e.Call.Args {
					if u, ok := ast.Unparen(a).(*ast.UnaryExpr); ok && u.Op == token.AND {
						if o, ok := isPointerVar(info, u.X); ok {
							delete(nilObjs, o)
						}
					}
				}
			}
		case EvRange, EvTypeCase, EvSelect:
			// loop variables / case bindings are (re)assigned by the statement
			if rs, ok := e.Clause.(*ast.RangeStmt); ok {
				for _, x := range []ast.Expr{rs.Key, rs.Value} {
					if x != nil {
						if o, ok := isPointerVar(info, x); ok {
							delete(nilObjs, o)
						}
					}
				}
			}
		}
	}
	return "", 0
}

var lineFset *token.FileSet

func lineOf(info *types.Info, pos token.Pos) int {
	if lineFset == nil || !pos.IsValid() {
		return 0
	}
	return lineFset.Position(pos).Line
}

// ruleIndexPastEnd: an index expression X[len(X)], X[len(X)+k] (k ≥ 0) or X[len(X)-k] (k ≤ 0) is out of range by
// construction — it panics whenever it is evaluated. One obligation per package in scope, reporting the first
// such expression (the "last element" idiom X[len(X)-1] is what every such site of the repository means).
func ruleIndexPastEnd(r *Run, rule string, pkgs ...string) {
	for _, rel := range pkgs {
		pkg := r.P.Pkgs[rel]
		if pkg == nil {
			continue
		}
		info := pkg.TypesInfo
		bad := ""
		var bpos token.Pos
		n := 0
		for _, f := range pkg.Syntax {
			if strings.HasSuffix(r.P.Fset.Position(f.Pos()).Filename, "_test.go") {
				continue
			}
			bpos0 := f.Pos()
			if bpos == 0 {
				bpos = bpos0
			}
			ast.Inspect(f, func(x ast.Node) bool {
				ie, ok := x.(*ast.IndexExpr)
				if !ok {
					return true
				}
				if tv, ok := info.Types[ie.X]; ok {
					switch tv.Type.Underlying().(type) {
					case *types.Slice, *types.Array, *types.Basic:
					default:
						return true
					}
				}
				isLenOf := func(e ast.Expr) bool {
					c, ok := ast.Unparen(e).(*ast.CallExpr)
					if !ok || len(c.Args) != 1 {
						return false
					}
					id, ok := ast.Unparen(c.Fun).(*ast.Ident)
					if !ok {
						return false
					}
					b, ok := info.ObjectOf(id).(*types.Builtin)
					return ok && b.Name() == "len" && chainKey(c.Args[0]) != "" && chainKey(c.Args[0]) == chainKey(ie.X)
				}
				idx := ast.Unparen(ie.Index)
				past := false
				if isLenOf(idx) {
					n++
					past = true
				} else if be, ok := idx.(*ast.BinaryExpr); ok && (be.Op == token.ADD || be.Op == token.SUB) && isLenOf(be.X) {
					n++
					if k, isC := ConstInt(info, be.Y); isC && ((be.Op == token.ADD && k >= 0) || (be.Op == token.SUB && k <= 0)) {
						past = true
					}
				}
				if past && bad == "" {
					bad, bpos = "the index "+ExprStr(ie.Index)+" of "+ExprStr(ie.X)+" is past the end by construction: this expression panics whenever it is evaluated", ie.Pos()
				}
				return true
			})
		}
		name := rel
		if name == "" {
			name = "coercion"
		}
		if n > 0 {
			r.Check(rule, "index-relative-to-len-in-range:"+name, bpos, bad == "", "%s", orOK(bad, "every index written relative to len() stays below it"))
		}
	}
}
