package main

import (
	"go/ast"
	"go/token"
	"go/types"
	"sort"
	"strings"
)

func init() {
	register(PropInfo{
		ID: "C06",
		Explanation: "All-paths decision of the structural clauses of C06 (DESIGN.md section 4, C06): (R1) the bypass gate routes to End/BlockEnd exactly on skip, and runBypasses answers true only on the nil branch of the group that ran the bypass checks; (R2) nothing that can reach a plugin is callable from End, the finalStates machine, writeEverything or BlockEnd; (R3) a bypass failure alone never fails a scope: BypassChecks is not examined for failure, examineBypasses is true only for Completed, BlockEnd completes a bypassed block; (R4) a failing pre-check gate routes to the deferred checks, never to the sequences, and fails the block.",
		NotDecided:  []string{"which concrete plugin invocations happen for every pass/fail assignment"},
		Assumptions: []string{"statemachine.Run semantics", "Group.Wait returns the first error of the launched functions"},
		Rules:       rulesC06,
	})
	register(PropInfo{
		ID: "C07",
		Explanation: "All-paths decision of the structural clauses of C07 (DESIGN.md section 4, C07): (R1) runContChecks sends every result before the next run or return, stops at the first failure and closes the channel on every exit; (R2) the poll returns the received error for both channels and ExecuteSequences/BlockEnd/PlanPostChecks fail the scope and route to the deferred checks on a failure element; (R3) runChecksOnce records Failed/Completed in the group and writes it, so a consumed channel element never loses the verdict; (R4) End and BlockEnd are entered only from the deferred-check states (or a skip), deferred/post states run the group of their own name unless it already completed, and a deferred failure fails the scope; (R5) spawn/join of the continuous-check goroutine in the state graph.",
		NotDecided:  []string{"'keeps being re-run' as liveness", "exactly-once as a runtime count"},
		Assumptions: []string{"statemachine.Run semantics", "channel close/range semantics"},
		Rules:       rulesC07,
	})
	register(PropInfo{
		ID: "C08",
		Explanation: "All-paths decision of the structural clauses of C08 (DESIGN.md section 4, C08): (R1) an action is written as Running before any path reaches the plugin; (R2) each attempt is appended then written before exec returns, and the action machine writes the final status before returning; (R3) every storage Update* call in the engine packages has its error tested and the failing branch is fatal; (R4) the terminal plan state is written inside End, End is passed on every path to termination, and the waiter is closed only after the runner returned; (R5) within a process a terminal block/sequence/sequence-action status is never overwritten with Running/NotStarted.",
		NotDecided:  []string{"durability of the store itself", "what a concurrent reader observes between two writes"},
		Assumptions: []string{"Vault Update* methods are durable when they return nil", "log.Fatalf does not return"},
		Rules:       rulesC08,
	})
	register(PropInfo{
		ID: "C09",
		Explanation: "All-paths decision of the structural clauses of C09 (DESIGN.md section 4, C09): (R1) terminal-status guards dominate re-execution at every level (runAction, Runner.Start, execSeq, ExecuteSequences, ExecuteBlock, Recovery) and isCompleted covers exactly Completed/Failed/Stopped; (R2) fixAction resets only an action without attempts, keeps a finished attempt's verdict and drops only an unfinished last attempt; (R3) every fix* function leaves non-Running objects untouched; (R4) the only route to Plugin.Execute.",
		NotDecided:  []string{"the quantification over crash points as histories", "that what was durable at the crash equals what is read back (C13)"},
		Assumptions: []string{"recovery starts from the stored plan as read by the vault"},
		Rules:       rulesC09,
	})
}

// nextOf returns the short successor name of a path in a States method.
func nextOf(fl *Flow, p *Path) string {
	next, _, _ := PathNext(fl, p)
	if next == "nil" {
		return Terminal
	}
	if strings.HasPrefix(next, "method:"+pkgSM+".finalStates.") {
		return "final." + strings.TrimPrefix(next, "method:"+pkgSM+".finalStates.")
	}
	return strings.TrimPrefix(next, "method:"+pkgSM+".States.")
}

func inSet(set []string, s string) bool {
	for _, x := range set {
		if x == s {
			return true
		}
	}
	return false
}

// boolGateRouting: the bool result of gate decides the successor.
func boolGateRouting(r *Run, rule, fnKey, gate string, onTrue, onFalse []string) {
	fn := r.fnByKey(rule, fnKey)
	if fn == nil {
		return
	}
	fl, paths, ok := r.flowPaths(rule, fn)
	if !ok {
		return
	}
	short := fn.Obj.Name()
	badT, badF := "", ""
	var pT, pF token.Pos = fn.Decl.Pos(), fn.Decl.Pos()
	nT, nF := 0, 0
	for i := range paths {
		p := &paths[i]
		if p.Exit != ExitReturn {
			continue
		}
		next := nextOf(fl, p)
		ci := -1
		for j, e := range p.Ev {
			if IsCall(e, gate) {
				ci = j
			}
		}
		verdict := "none"
		if ci >= 0 {
			verdict = UseOfResult(fl, p, ci).Verdict
		}
		switch verdict {
		case "true":
			nT++
			if !inSet(onTrue, next) && badT == "" {
				badT, pT = "when "+ShortFn(gate)+" answers true the successor is "+next+", allowed "+strings.Join(onTrue, ","), p.Ev[ci].Pos
			}
		case "false", "none":
			nF++
			if !inSet(onFalse, next) && badF == "" {
				badF = "when " + ShortFn(gate) + " answers false (or is not consulted) the successor is " + next + ", allowed " + strings.Join(onFalse, ",") + " (guard " + ExitGuardKey(fl, p) + ")"
			}
		default:
			if badT == "" {
				badT = "the result of " + ShortFn(gate) + " is " + verdict + " on a returning path"
			}
		}
	}
	if nT == 0 || nF == 0 {
		r.Unresolved(rule, fnKey+" tests "+gate+" both ways")
		return
	}
	r.Check(rule, short+":skip-branch", pT, badT == "", "%s", orOK(badT, "skip ⇒ "+strings.Join(onTrue, ",")))
	r.Check(rule, short+":no-skip-branch", pF, badF == "", "%s", orOK(badF, "no skip ⇒ "+strings.Join(onFalse, ",")))
}

func rulesC06(r *Run) {
	r.Kind("R1", "K1+K2")
	boolGateRouting(r, "R1", smKey("PlanBypassChecks"), smKey("runBypasses"), []string{"End"}, []string{"PlanPreChecks"})
	boolGateRouting(r, "R1", smKey("BlockBypassChecks"), smKey("runBypasses"), []string{"BlockEnd"}, []string{"BlockPreChecks"})
	ruleRunBypasses(r, "R1")
	ruleBypassConsulted(r, "R1", smKey("PlanBypassChecks"), "workflow.Plan")
	ruleBypassConsulted(r, "R1", smKey("BlockBypassChecks"), "workflow.Block")
	r.Expect("R1", 8)

	r.Kind("R2", "K4")
	g := r.P.CallGraph()
	forbidden := []string{keyPluginExe, smKey("runAction"), smKey("execSeq"), smKey("runChecksOnce"), smKey("runActionsParallel"), actKey("Runner.Start")}
	for _, from := range []string{smKey("End"), smKey("BlockEnd"), smKey("writeEverything"), pkgSM + ".finalStates.start", pkgSM + ".finalStates.bypassChecks", pkgSM + ".finalStates.planChecks", pkgSM + ".finalStates.blocks", pkgSM + ".finalStates.end"} {
		fn := r.fnByKey("R2", from)
		if fn == nil {
			continue
		}
		reach := g.Reach([]string{from}, func(e CallEdge) bool {
			if e.Ref && !strings.Contains(e.Callee, ".finalStates.") {
				return false // successor states stored in Next are judged on the state graph (C01-R1, C07-R4)
			}
			return strings.HasPrefix(e.Callee, "internal/") || strings.HasPrefix(e.Callee, "plugins.")
		})
		hit := ""
		for _, f := range forbidden {
			if _, ok := reach[f]; ok && f != from {
				hit = Chain(reach, f)
				break
			}
		}
		r.Check("R2", "no-plugin-from:"+ShortFn(from), fn.Decl.Pos(), hit == "", "nothing that invokes plugins may be callable after the scope ended or was skipped; found %s", hit)
	}
	r.Expect("R2", 8)

	r.Kind("R3", "K7")
	sub := NewRun(r.P, r.Prop, r.Tier)
	sub.ruleKinds = r.ruleKinds
	ruleReasonTable(sub, "R3")
	for _, o := range sub.Obls {
		if strings.HasSuffix(o.Key, "bypass-not-examined") || o.Status == StUnresolved {
			r.Obls = append(r.Obls, o)
		}
	}
	ruleExamineBypasses(r, "R3")
	ruleBlockEndBypass(r, "R3")
	r.Expect("R3", 3)

	// round-4 seed C06-8: fixPlan declares a plan Completed also because its bypass checks are Completed; such a plan must leave
	// recovery through End — through no state that runs a check group (= C09-R1, C10-R2)
	ruleRecoveryTerminal(r, "R1")
	r.Kind("R4", "K2")
	gateRouting(r, "R4", smKey("PlanPreChecks"), smKey("runPreChecks"), []string{"PlanStartContChecks"}, []string{"PlanDeferredChecks"})
	gateRouting(r, "R4", smKey("BlockPreChecks"), smKey("runPreChecks"), []string{"BlockStartContChecks"}, []string{"BlockDeferredChecks"})
	groupResultReturned(r, "R4", "runPreChecks", 2)
	ruleFailBranchStatus(r, "R4", smKey("BlockPreChecks"), smKey("runPreChecks"), "workflow.Block")
	ruleJoinJ1(r, "R4", smKey("runPreChecks"), smKey("runBypasses")) // a gate that returns before joining its checks drops their verdict
	ruleParallelVerdict(r, "R4")
	ruleSkipRecoveredChecks(r, "R4")
	ruleGateRunsContChecks(r, "R4", smKey("PlanPreChecks"), "workflow.Plan")
	ruleGateRunsContChecks(r, "R4", smKey("BlockPreChecks"), "workflow.Block")
	ruleContJoin(r, "R4", planMachine(r, "R4")) // a failing pre-check must end the scope Failed, not hang it in the drain of a channel nobody closes
	ruleFixFailedGate(r, "R4", smKey("fixBlock"), "workflow.Block")
	ruleFixFailedGate(r, "R4", smKey("fixPlan"), "workflow.Plan")
	ruleGroupsRunWhenPendingAll(r, "R4", "PreChecks")
	r.Expect("R4", 30)
}

// ruleRunBypasses: runBypasses returns true only when Wait's error is nil, and the
// launched literal propagates runChecksOnce(bypasses).
func ruleRunBypasses(r *Run, rule string) {
	fn := r.fnByKey(rule, smKey("runBypasses"))
	if fn == nil {
		return
	}
	fl, paths, ok := r.flowPaths(rule, fn)
	if !ok {
		return
	}
	bad := ""
	nTrue := 0
	var bpos token.Pos = fn.Decl.Pos()
	var lits []*ast.FuncLit
	for i := range paths {
		p := &paths[i]
		if p.Exit != ExitReturn {
			continue
		}
		verdict := "none"
		ran := false
		for ci, e := range p.Ev {
			if IsCall(e, keyGroupWait) {
				verdict = UseOfResult(fl, p, ci).Verdict
			}
			if IsCall(e, keyGroupGo) {
				if l := LitArg(e.Call); l != nil {
					lits = append(lits, l)
					ran = true
				}
			}
			if IsCall(e, smKey("runChecksOnce")) {
				ran = true
				verdict = UseOfResult(fl, p, ci).Verdict
			}
		}
		for _, e := range p.Ev {
			if e.Kind == EvReturn && len(e.Rhs) == 1 {
				v := ValueKey(fl.Info, e.Rhs[0])
				if v == "true" {
					nTrue++
				}
				if v != "false" && !(ran && verdict == "nil") && bad == "" {
					bad, bpos = "runBypasses answers "+orOK(v, ExprStr(e.Rhs[0]))+" on a path where the bypass checks did not all succeed (ran="+boolStr(ran)+", verdict="+verdict+"): the scope would be skipped", e.Pos
				}
			}
		}
	}
	if nTrue == 0 && bad == "" {
		bad = "runBypasses never answers true"
	}
	r.Check(rule, "runBypasses:true-only-if-all-passed", bpos, bad == "", "%s", orOK(bad, "true exactly on the nil branch of the group's Wait"))
	seen := map[*ast.FuncLit]bool{}
	for _, l := range lits {
		if seen[l] {
			continue
		}
		seen[l] = true
		lf, lp, ok := r.litPaths(rule, l)
		if !ok {
			continue
		}
		n, b, pos := propagation(lf, lp, smKey("runChecksOnce"))
		if pos == 0 {
			pos = l.Pos()
		}
		r.Check(rule, "runBypasses:go-literal-propagates", pos, n > 0 && b == "", "%s", orOK(b, "the launched literal returns runChecksOnce's error"))
	}
}

// ruleBlockEndBypass: a block whose bypass completed is Completed and the next block follows.
func ruleBlockEndBypass(r *Run, rule string) {
	fn := r.fnByKey(rule, smKey("BlockEnd"))
	if fn == nil {
		return
	}
	fl, paths, ok := r.flowPaths(rule, fn)
	if !ok {
		return
	}
	bad := ""
	n := 0
	for i := range paths {
		p := &paths[i]
		if p.Exit != ExitReturn {
			continue
		}
		bypass := false
		for _, e := range p.Ev {
			if Establishes(fl.Info, e, fieldMatcher(fl.Info, "", "BypassChecks", "State", "Status"), "workflow.Completed", true) {
				bypass = true
			}
		}
		if !bypass {
			continue
		}
		n++
		st := ""
		for _, e := range p.Ev {
			if v, ok := StatusAssign(fl.Info, e, "workflow.Block"); ok && !e.Deferred {
				st = v
			}
		}
		if (st != "workflow.Completed" || nextOf(fl, p) != "ExecuteBlock") && bad == "" {
			bad = "a bypassed block ends with status " + orOK(st, "unassigned") + " and successor " + nextOf(fl, p)
		}
	}
	if n == 0 {
		r.Fail(rule, "BlockEnd:bypassed-block-completes", fn.Decl.Pos(), "BlockEnd has no branch for a block whose bypass checks completed")
		return
	}
	r.Check(rule, "BlockEnd:bypassed-block-completes", fn.Decl.Pos(), bad == "", "%s", orOK(bad, "bypass Completed ⇒ block Completed, next block"))
}

// ruleFailBranchStatus: on the failing branch of gate the owner's status is set Failed
// and Data.err records the error.
func ruleFailBranchStatus(r *Run, rule, fnKey, gate, owner string) {
	fn := r.fnByKey(rule, fnKey)
	if fn == nil {
		return
	}
	fl, paths, ok := r.flowPaths(rule, fn)
	if !ok {
		return
	}
	bad := ""
	n := 0
	var bpos token.Pos = fn.Decl.Pos()
	for i := range paths {
		p := &paths[i]
		if p.Exit != ExitReturn {
			continue
		}
		for ci, e := range p.Ev {
			if !IsCall(e, gate) || e.Deferred {
				continue
			}
			u := UseOfResult(fl, p, ci)
			if u.Verdict != "nonnil" {
				continue
			}
			n++
			st, errRec := "", false
			for j := u.At; j < len(p.Ev); j++ {
				x := p.Ev[j]
				if v, ok := StatusAssign(fl.Info, x, owner); ok && !x.Deferred {
					st = v
				}
				if x.Kind == EvAssign {
					for _, l := range x.Lhs {
						if _, m := FieldPath(fl.Info, l, "sm.Data", "err"); m {
							errRec = true
						}
					}
				}
			}
			if (owner != "" && st != "workflow.Failed" || !errRec) && bad == "" {
				bad, bpos = "on the failing branch of "+ShortFn(gate)+" the "+owner+" status is "+orOK(st, "unassigned")+" and Data.err recorded="+boolStr(errRec), e.Pos
			}
		}
	}
	if n == 0 {
		r.Unresolved(rule, fnKey+" failing branch of "+gate)
		return
	}
	r.Check(rule, fn.Obj.Name()+":failure-fails-scope("+ShortFn(gate)+")", bpos, bad == "", "%s", orOK(bad, "failing branch ⇒ status Failed, Data.err recorded"))
}

// ---------------------------------------------------------------------------
// C07

func rulesC07(r *Run) {
	defer func() {
		// R6 (D35): a continuous-check failure that was durable at a crash is not forgotten by recovery
		r.Kind("R6", "K2")
		ruleFixVerdictSticky(r, "R6", smKey("fixPlan"), "workflow.Plan")
		r.Expect("R6", 1)
	}()
	r.Kind("R1", "K3")
	ruleRunContChecks(r, "R1")
	r.Expect("R1", 4)

	r.Kind("R2", "K2")
	rulePoll(r, "R2")
	gateRouting(r, "R2", smKey("ExecuteSequences"), pkgSM+".Data.contChecksPassing", []string{"BlockPostChecks", "BlockDeferredChecks"}, []string{"BlockDeferredChecks"})
	ruleFailBranchStatus(r, "R2", smKey("ExecuteSequences"), pkgSM+".Data.contChecksPassing", "workflow.Block")
	ruleDrainFailure(r, "R2", "BlockEnd", "sm.block", true)
	ruleDrainFailure(r, "R2", "PlanPostChecks", "sm.Data", false)
	// "with the ContCheck reason at plan level": the first failed group in execution order names the reason — a scan that goes
	// on past a Failed group lets a later failure (the deferred checks still run) displace it (round-4 seed C07-8; = C04-R5)
	ruleExamineChecksScan(r, "R2")
	r.Expect("R2", 8)

	r.Kind("R3", "K2")
	ruleRunChecksOnce(r, "R3")
	ruleRunStartsFromEmptyAttempts(r, "R3")
	ruleParallelVerdict(r, "R3")
	r.Expect("R3", 6)

	r.Kind("R4", "K1")
	m := planMachine(r, "R4")
	sub := func(key string, got []string, allowed ...string) {
		okS := len(got) > 0
		for _, g := range got {
			if !inSet(allowed, g) {
				okS = false
			}
		}
		r.Check("R4", key, posOfState(m, strings.SplitN(strings.SplitN(key, "(", 2)[1], ")", 2)[0]), okS, "%s = %v, allowed %v", key, got, allowed)
	}
	sub("preds(End)", m.Preds("End"), "PlanDeferredChecks", "PlanBypassChecks", "Recovery")
	sub("preds(BlockEnd)", m.Preds("BlockEnd"), "BlockDeferredChecks", "BlockBypassChecks")
	sub("preds(PlanDeferredChecks)", m.Preds("PlanDeferredChecks"), "PlanPostChecks", "PlanPreChecks", "ExecuteBlock", "BlockEnd")
	sub("preds(BlockDeferredChecks)", m.Preds("BlockDeferredChecks"), "BlockPostChecks", "BlockPreChecks", "ExecuteSequences")
	r.Check("R4", "no-cycle(PlanDeferredChecks)", posOfState(m, "PlanDeferredChecks"), !reachAfter(m, "PlanDeferredChecks")["PlanDeferredChecks"], "the plan's deferred checks must run once: no path may return to PlanDeferredChecks")
	r.Check("R4", "cycle(BlockDeferredChecks)-passes-ExecuteBlock", posOfState(m, "BlockDeferredChecks"), !cycleAvoiding(m, "BlockDeferredChecks", "ExecuteBlock"), "a block's deferred checks must run once per block: a path returns to BlockDeferredChecks without ExecuteBlock selecting the next block")
	for _, entry := range []string{"Start", "Recovery"} {
		// every entered plan (not skipped by bypass, not terminal at recovery) passes PlanDeferredChecks before End
		avoid := map[string]bool{"PlanDeferredChecks": true}
		reach := m.reach("PlanPreChecks", avoid)
		r.Check("R4", "entered-plan-runs-deferred:"+entry, posOfState(m, "PlanPreChecks"), !reach["End"] && !reach[Terminal], "once the plan passed its bypass gate every path to End must pass PlanDeferredChecks; witness: %s", witnessAvoiding(m, "PlanPreChecks", avoid, "End"))
	}
	{
		avoid := map[string]bool{"BlockDeferredChecks": true}
		reach := m.reach("BlockPreChecks", avoid)
		r.Check("R4", "entered-block-runs-deferred", posOfState(m, "BlockPreChecks"), !reach["BlockEnd"] && !reach["End"] && !reach["ExecuteBlock"], "once a block passed its bypass gate every path onward must pass BlockDeferredChecks; witness: %s", witnessAvoiding(m, "BlockPreChecks", avoid, "BlockEnd")+witnessAvoiding(m, "BlockPreChecks", avoid, "End"))
	}
	ruleGroupsRunWhenPendingAll(r, "R4", "PostChecks", "DeferredChecks") // a group that is present and has not run is run (mutation sweep)
	ruleFixPlanCompletedOnlyIfChecksDone(r, "R4")
	ruleGroupState(r, "R4", "BlockDeferredChecks", "workflow.Block", "DeferredChecks", "workflow.Block")
	ruleGroupState(r, "R4", "PlanDeferredChecks", "workflow.Plan", "DeferredChecks", "")
	ruleGroupState(r, "R4", "BlockPostChecks", "workflow.Block", "PostChecks", "workflow.Block")
	ruleGroupState(r, "R4", "PlanPostChecks", "workflow.Plan", "PostChecks", "")
	ruleJoinJ1(r, "R4", smKey("ExecuteSequences")) // deferred checks come after everything else in the scope: every started sequence has finished
	r.Expect("R4", 14)

	r.Kind("R5", "K1")
	ruleContJoin(r, "R5", m)
	r.Expect("R5", 9)
}

// cycleAvoiding: some cycle through st does not pass via.
func cycleAvoiding(m *Machine, st, via string) bool {
	for _, s := range m.Succs(st) {
		if s == via {
			continue
		}
		if s == st || m.reach(s, map[string]bool{via: true})[st] {
			return true
		}
	}
	return false
}

func reachAfter(m *Machine, st string) map[string]bool {
	out := map[string]bool{}
	for _, s := range m.Succs(st) {
		for k := range m.reach(s, nil) {
			out[k] = true
		}
	}
	return out
}

func ruleRunContChecks(r *Run, rule string) {
	fn := r.fnByKey(rule, smKey("runContChecks"))
	if fn == nil {
		return
	}
	fl, paths, ok := r.flowPaths(rule, fn)
	if !ok {
		return
	}
	info := fl.Info
	var chObj types.Object
	for _, f := range fn.Decl.Type.Params.List {
		for _, nm := range f.Names {
			if _, isCh := info.ObjectOf(nm).Type().Underlying().(*types.Chan); isCh {
				chObj = info.ObjectOf(nm)
			}
		}
	}
	if chObj == nil {
		r.Unresolved(rule, "runContChecks channel parameter")
		return
	}
	badSend, badStop, badClose, badWait := "", "", "", ""
	var pS, pT, pC, pW token.Pos = fn.Decl.Pos(), fn.Decl.Pos(), fn.Decl.Pos(), fn.Decl.Pos()
	nRuns := 0
	for i := range paths {
		p := &paths[i]
		if p.Exit != ExitReturn {
			continue
		}
		closed := false
		for _, e := range p.Ev {
			if e.Kind == EvCall && CalleeKey(e) == "builtin.close" && len(e.Call.Args) == 1 && ObjOf(info, e.Call.Args[0]) == chObj && !e.Maybe {
				closed = true
			}
		}
		if !closed && badClose == "" {
			badClose = "a path of runContChecks returns without closing the result channel (guard " + ExitGuardKey(fl, p) + "): the state that drains it would block forever"
		}
		for ci, e := range p.Ev {
			if !IsCall(e, smKey("runChecksOnce")) {
				continue
			}
			nRuns++
			u := UseOfResult(fl, p, ci)
			// the sends of this run's result before a further run or a return; a send that is one case of a
			// select with other cases (a default, ctx.Done()) may not happen and does not count as delivery
			sentPlain, sentMaybe := false, false
			for j := ci + 1; j < len(p.Ev); j++ {
				x := p.Ev[j]
				if x.Kind == EvSend && ObjOf(info, x.Chan) == chObj {
					isRes := (u.Var != nil && len(x.Rhs) == 1 && ObjOf(info, x.Rhs[0]) == u.Var) || u.Kind == "nested" ||
						(u.Verdict == "nil" && len(x.Rhs) == 1 && ValueKey(info, x.Rhs[0]) == "nil")
					if isRes {
						if selectSend(fn.Decl.Body, p, j) {
							sentMaybe = true
						} else {
							sentPlain = true
						}
					}
					continue
				}
				if IsCall(x, smKey("runChecksOnce")) || (x.Kind == EvReturn && !x.Deferred) {
					break
				}
			}
			_ = sentMaybe
			switch u.Verdict {
			case "nil":
				// a pass may be dropped, but it must never wait for a reader (D34): results are read only when a
				// sequence is launched and when the scope ends, so a waiting send stops the re-runs for the
				// length of a sequence
				if sentPlain && badWait == "" {
					badWait, pW = "a passing result is sent with a send that waits for a reader: once the one-slot channel is full the checks are not re-run until somebody polls (a long sequence is not watched at all)", e.Pos
				}
			default:
				if !sentPlain && badSend == "" {
					badSend, pS = "the result of a failed continuous-check run is not sent (with a send that cannot be skipped) on the result channel before the next run or return: a failure would be lost", e.Pos
				}
			}
			if u.Verdict == "nonnil" {
				// the path goes round the loop again after a failed run: an event of the loop body that lies before
				// the run (path enumeration need not reach the second run itself)
				looped := false
				if lp := innermostLoop(fn.Decl.Body, e.Pos); lp != nil {
					for j := ci + 1; j < len(p.Ev); j++ {
						x := p.Ev[j]
						if x.Deferred || x.Depth > 0 || !x.Pos.IsValid() {
							continue
						}
						if x.Pos >= lp.Pos() && r.P.Fset.Position(x.Pos).Line < r.P.Fset.Position(e.Pos).Line {
							looped = true
						}
					}
				}
				if (looped || FirstAfter(p, u.At, func(x Event) bool { return IsCall(x, smKey("runChecksOnce")) }) >= 0) && badStop == "" {
					badStop, pT = "runContChecks keeps running after a failed run (the failure element may be overwritten by later successes in a one-slot channel)", e.Pos
				}
			}
			if u.Verdict == "untested" || u.Verdict == "overwritten" {
				if badStop == "" {
					badStop, pT = "the result of a run is not tested: a failed run must end the loop", e.Pos
				}
			}
		}
	}
	if nRuns == 0 {
		r.Unresolved(rule, "runContChecks calls runChecksOnce")
		return
	}
	r.Check(rule, "runContChecks:every-result-sent", pS, badSend == "", "%s", orOK(badSend, "each failed run's result is sent, unconditionally, before the next run/return"))
	r.Check(rule, "runContChecks:pass-never-waits-for-reader", pW, badWait == "", "%s", orOK(badWait, "a passing result is dropped rather than waited on"))
	r.Check(rule, "runContChecks:stops-at-failure", pT, badStop == "", "%s", orOK(badStop, "a failed run ends the loop"))
	r.Check(rule, "runContChecks:closes-channel", pC, badClose == "", "%s", orOK(badClose, "closed on every exit"))

	// the loop ends when its context is done (mutation sweep): on every path — truncated prefixes included — the select case
	// that received from ctx.Done() is followed by a return before the loop body is entered again. Otherwise the goroutine
	// spins on the closed Done channel, never closes the result channel, and the state that drains it hangs.
	badDone, nDone := "", 0
	var pD token.Pos = fn.Decl.Pos()
	all := append(append([]Path{}, paths...), fl.Truncated()...)
	for i := range all {
		p := &all[i]
		for j, e := range p.Ev {
			if e.Kind != EvSelect || !e.Taken {
				continue
			}
			cc, ok := e.Clause.(*ast.CommClause)
			if !ok || cc.Comm == nil || !strings.HasSuffix(ExprStr(commRecv(cc.Comm)), ".Done()") {
				continue
			}
			nDone++
			returned := false
			for x := j + 1; x < len(p.Ev); x++ {
				ev := p.Ev[x]
				if ev.Deferred || ev.Depth > 0 {
					continue
				}
				if ev.Kind == EvReturn {
					returned = true
					break
				}
				if ev.Kind == EvSelect || ev.Kind == EvCall && !strings.HasSuffix(CalleeKey(ev), ".Done") {
					break // back in the loop
				}
			}
			if !returned && badDone == "" {
				badDone, pD = "after its context is done runContChecks goes round the loop again instead of returning: it never closes the result channel, and the state that drains that channel (BlockEnd, PlanPostChecks, End) hangs", e.Pos
			}
		}
	}
	if nDone == 0 {
		r.Unresolved(rule, "runContChecks selects on ctx.Done()")
	} else {
		r.Check(rule, "runContChecks:returns-when-cancelled", pD, badDone == "", "%s", orOK(badDone, "ctx.Done ⇒ return"))
	}
}

func rulePoll(r *Run, rule string) {
	fn := r.Fn(rule, pkgSM, "Data", "contChecksPassing")
	if fn == nil {
		return
	}
	fl, paths, ok := r.flowPaths(rule, fn)
	if !ok {
		return
	}
	info := fl.Info
	owners := map[string]bool{}
	bad := ""
	var bpos token.Pos = fn.Decl.Pos()
	for i := range paths {
		p := &paths[i]
		if p.Exit != ExitReturn {
			continue
		}
		var recvVar types.Object
		got := false
		for ei, e := range p.Ev {
			if e.Kind == EvSelect && e.Taken {
				cc := e.Clause.(*ast.CommClause)
				if cc.Comm == nil {
					continue
				}
				// the channel as written, or (a local chosen beforehand) what it was assigned from on this path
				if o := chanOwner(info, OriginOnPath(info, p, ei, commRecv(cc.Comm))); o != "" {
					owners[o] = true
					got = true
					if as, ok := cc.Comm.(*ast.AssignStmt); ok && len(as.Lhs) >= 1 {
						recvVar = ObjOf(info, as.Lhs[0])
					}
				}
			}
		}
		for _, e := range p.Ev {
			if e.Kind != EvReturn || len(e.Rhs) != 2 {
				continue
			}
			if got {
				if recvVar == nil || ObjOf(info, e.Rhs[1]) != recvVar {
					if bad == "" {
						bad, bpos = "the poll receives a continuous-check result but returns "+ExprStr(e.Rhs[1])+" instead of the received error", e.Pos
					}
				}
			} else if ValueKey(info, e.Rhs[1]) != "nil" && bad == "" {
				bad, bpos = "the poll reports a failure without having received one", e.Pos
			}
		}
	}
	r.Check(rule, "contChecksPassing:returns-received-error", bpos, bad == "" && owners["sm.Data"] && owners["sm.block"], "%s", orOK(bad, "both the plan's and the head block's channel are polled and the received error returned (plan="+boolStr(owners["sm.Data"])+", block="+boolStr(owners["sm.block"])+")"))
}

// ruleDrainFailure: in the draining state a non-nil element fails the scope and routes to PlanDeferredChecks.
func ruleDrainFailure(r *Run, rule, state, owner string, wantBlockFailed bool) {
	fn := r.fnByKey(rule, smKey(state))
	if fn == nil {
		return
	}
	fl, paths, ok := r.flowPaths(rule, fn)
	if !ok {
		return
	}
	info := fl.Info
	bad := ""
	n := 0
	var bpos token.Pos = fn.Decl.Pos()
	for i := range paths {
		p := &paths[i]
		if p.Exit != ExitReturn {
			continue
		}
		// the elements received from the channel on this path (range variable, or the variable a
		// plain receive is bound to) and whether one of them was found non-nil
		elems := map[types.Object]bool{}
		failing := false
		at := -1
		for j, e := range p.Ev {
			if e.Kind == EvRange && e.Taken && chanOwner(info, e.Chan) == owner {
				if rs := e.Clause.(*ast.RangeStmt); rs.Key != nil {
					if o := ObjOf(info, rs.Key); o != nil {
						elems[o] = true
					}
				}
			}
			if e.Kind == EvRecv && chanOwner(info, e.Chan) == owner {
				if as, ok := e.Node.(*ast.AssignStmt); ok && len(as.Lhs) >= 1 {
					if o := ObjOf(info, as.Lhs[0]); o != nil {
						elems[o] = true
					}
				}
			}
			if len(elems) > 0 && e.Kind == EvBranch && e.Cond != nil {
				if x, op, ok := IsNilCompare(info, e.Cond); ok && elems[ObjOf(info, x)] && (op == token.NEQ) == e.Taken {
					failing = true
					at = j
				}
			}
		}
		if !failing {
			continue
		}
		n++
		errRec := false
		st := ""
		for j := at; j < len(p.Ev); j++ {
			x := p.Ev[j]
			if v, ok := StatusAssign(info, x, "workflow.Block"); ok && !x.Deferred {
				st = v
			}
			if x.Kind == EvAssign {
				for _, l := range x.Lhs {
					if _, m := FieldPath(info, l, "sm.Data", "err"); m {
						errRec = true
					}
				}
			}
		}
		next := nextOf(fl, p)
		if (!errRec || next != "PlanDeferredChecks" || (wantBlockFailed && st != "workflow.Failed")) && bad == "" {
			bad, bpos = "a failure element drained in "+state+" leaves Data.err recorded="+boolStr(errRec)+", block status "+orOK(st, "unassigned")+", successor "+next, p.Ev[at].Pos
		}
	}
	if n == 0 {
		r.Fail(rule, state+":drained-failure-fails-scope", fn.Decl.Pos(), "%s does not test the elements it drains for failure: a continuous-check failure that arrives after the last poll would be lost", state)
		return
	}
	r.Check(rule, state+":drained-failure-fails-scope", bpos, bad == "", "%s", orOK(bad, "non-nil element ⇒ failure recorded, successor PlanDeferredChecks"))
}

func ruleRunChecksOnce(r *Run, rule string) {
	fn := r.fnByKey(rule, smKey("runChecksOnce"))
	if fn == nil {
		return
	}
	fl, paths, ok := r.flowPaths(rule, fn)
	if !ok {
		return
	}
	badS, badW := "", ""
	n := 0
	for i := range paths {
		p := &paths[i]
		if p.Exit != ExitReturn {
			continue
		}
		hook := false
		for _, e := range p.Ev {
			if Establishes(fl.Info, e, fieldMatcher(fl.Info, "", "testChecksRunner"), "nil", false) {
				hook = true
			}
		}
		if hook {
			continue
		}
		verdict := ""
		ci := -1
		for j, e := range p.Ev {
			if IsCall(e, smKey("runActionsParallel")) {
				ci = j
				verdict = UseOfResult(fl, p, j).Verdict
			}
		}
		if ci < 0 {
			if badS == "" {
				badS = "a path of runChecksOnce returns without running the group's actions"
			}
			continue
		}
		n++
		st := ""
		si := -1
		for j, e := range p.Ev {
			if v, ok := StatusAssign(fl.Info, e, "workflow.Checks"); ok {
				st, si = v, j
			}
		}
		want := map[string]string{"nonnil": "workflow.Failed", "nil": "workflow.Completed"}[verdict]
		if (want == "" || st != want) && badS == "" {
			badS = "runActionsParallel verdict " + orOK(verdict, "untested") + " leaves the group status " + orOK(st, "unassigned")
		}
		wrote := false
		for j := si + 1; j < len(p.Ev) && si >= 0; j++ {
			if name, ok := isUpdaterCall(p.Ev[j]); ok && name == "UpdateChecks" && !p.Ev[j].Maybe {
				wrote = true
			}
		}
		if !wrote && badW == "" {
			badW = "the group's final status is not written (UpdateChecks) after it is assigned on a path (guard " + ExitGuardKey(fl, p) + ")"
		}
	}
	if n == 0 {
		r.Unresolved(rule, "runChecksOnce calls runActionsParallel")
		return
	}
	r.Check(rule, "runChecksOnce:status-follows-verdict", fn.Decl.Pos(), badS == "", "%s", orOK(badS, "Failed on the error branch, Completed otherwise"))
	r.Check(rule, "runChecksOnce:status-written", fn.Decl.Pos(), badW == "", "%s", orOK(badW, "UpdateChecks after the status assignment on every path"))
	nn, b, pos := propagation(fl, paths, smKey("runActionsParallel"))
	if pos == 0 {
		pos = fn.Decl.Pos()
	}
	r.Check(rule, "runChecksOnce:error-returned", pos, nn > 0 && b == "", "%s", orOK(b, "the actions' error is returned"))
}

// ruleGroupState: a check state runs the group of its own name (unless it is nil/completed)
// and a failure fails the scope.
func ruleGroupState(r *Run, rule, state, owner, group, failOwner string) {
	fn := r.fnByKey(rule, smKey(state))
	if fn == nil {
		return
	}
	fl, paths, ok := r.flowPaths(rule, fn)
	if !ok {
		return
	}
	info := fl.Info
	bad := ""
	var bpos token.Pos = fn.Decl.Pos()
	nRun := 0
	for i := range paths {
		p := &paths[i]
		if p.Exit != ExitReturn {
			continue
		}
		ran := false
		excused := false
		for ci, e := range p.Ev {
			if IsCall(e, smKey("runChecksOnce")) && len(e.Call.Args) == 2 {
				nRun++
				if _, m := FieldPath(info, e.Call.Args[1], owner, group); !m && bad == "" {
					bad, bpos = state+" runs "+ExprStr(e.Call.Args[1])+" instead of the "+group+" of its "+owner, e.Pos
				}
				ran = true
				u := UseOfResult(fl, p, ci)
				if u.Verdict == "nonnil" {
					errRec, st := false, ""
					for j := u.At; j < len(p.Ev); j++ {
						x := p.Ev[j]
						if v, ok := StatusAssign(info, x, failOwner); ok && failOwner != "" && !x.Deferred {
							st = v
						}
						if x.Kind == EvAssign {
							for _, l := range x.Lhs {
								if _, m := FieldPath(info, l, "sm.Data", "err"); m {
									errRec = true
								}
							}
						}
					}
					if (!errRec || (failOwner != "" && st != "workflow.Failed")) && bad == "" {
						bad, bpos = "a failing "+group+" run in "+state+" leaves Data.err recorded="+boolStr(errRec)+" and the scope status "+orOK(st, "unassigned"), e.Pos
					}
				} else if u.Verdict != "nil" && bad == "" {
					bad, bpos = "the result of the "+group+" run is "+u.Kind+"/"+u.Verdict, e.Pos
				}
			}
			// excuses: the group is nil or already completed
			if e.Kind == EvBranch && e.Cond != nil {
				s := ExprStr(e.Cond)
				if strings.Contains(s, group) && (strings.Contains(s, "checksCompleted(") || strings.Contains(s, "isCompleted(") || strings.Contains(s, "== nil") || strings.Contains(s, "!= nil")) {
					excused = true
				}
			}
			// a failure element received earlier in the state from a continuous-check channel (PlanPostChecks) also ends it
			if (e.Kind == EvRange || e.Kind == EvRecv) && chanOwner(info, e.Chan) != "" {
				excused = true
			}
		}
		if !ran && !excused && bad == "" {
			bad = "a path of " + state + " neither runs the " + group + " nor finds them absent/completed (guard " + ExitGuardKey(fl, p) + ")"
		}
	}
	if nRun == 0 {
		r.Fail(rule, state+":runs-own-group", fn.Decl.Pos(), "%s never runs runChecksOnce", state)
		return
	}
	r.Check(rule, state+":runs-own-group", bpos, bad == "", "%s", orOK(bad, "runs "+owner+"."+group+" unless absent/completed; failure fails the scope"))
}

// ---------------------------------------------------------------------------
// C08

func rulesC08(r *Run) {
	r.Kind("R1", "K3")
	ruleRunningBeforePlugin(r, "R1")
	ruleStatusChangeWritten(r, "R1", planMachine(r, "R1"))
	ruleMarksRunningAll(r, "R1")
	r.Expect("R1", 7)

	r.Kind("R2", "K3")
	{
		sub := NewRun(r.P, r.Prop, r.Tier)
		sub.ruleKinds = r.ruleKinds
		rulesC05(sub)
		for _, o := range sub.Obls {
			if o.Rule == "C08-R2" && (strings.Contains(o.Key, "attempt-written-after-append") || strings.Contains(o.Key, "one-attempt-per-invocation") || o.Status != StOK) {
				r.Obls = append(r.Obls, o)
			}
		}
		r.Paths += sub.Paths
	}
	ruleRunnerEndWrites(r, "R2")
	ruleRunActionWritesVerdict(r, "R2")
	r.Expect("R2", 4)

	r.Kind("R3", "K6")
	total := 0
	for _, fn := range r.P.sortedFuncs() {
		rel := relPkg(fn.Pkg.PkgPath)
		if (rel != pkgSM && rel != pkgActions) || fn.Decl.Body == nil {
			continue
		}
		total += fatalUpdates(r, "R3", fn, strings.TrimPrefix(fn.Key, rel+"."))
	}
	r.Expect("R3", 27)

	r.Kind("R4", "K1+K3")
	ruleEndWrites(r, "R4")
	ruleWaiter(r, "R4")
	m := planMachine(r, "R4")
	for _, entry := range []string{"Start", "Recovery"} {
		_ = entry
		r.Check("R4", "End-before-termination:"+entry, posOfState(m, entry), m.MustPass(entry, "End", Terminal) && m.reach(entry, nil)[Terminal], "every path from %s to the end of the machine must pass End (which writes the terminal state before the waiter is released); witness avoiding End: %s", entry, m.Witness(entry, "End", Terminal))
	}
	ruleContJoin(r, "R4", m) // nothing may still be running (and writing) when End has written the terminal state
	r.Expect("R4", 12)

	r.Kind("R5", "K2+K4")
	ruleNoRegress(r, "R5")
	r.CallersWithin("R5", pkgSM+".resetActions", smKey("runChecksOnce"))
	r.CallersWithin("R5", pkgSM+".resetAction", pkgSM+".fixAction", pkgSM+".fixChecks")
	r.CallersWithin("R5", pkgSM+".fixAction", pkgSM+".fixAction", pkgSM+".fixSeq")
	r.CallersWithin("R5", pkgSM+".fixSeq", smKey("fixBlock"))
	r.CallersWithin("R5", pkgSM+".fixChecks", smKey("fixBlock"), smKey("fixPlan"))
	r.CallersWithin("R5", smKey("fixBlock"), smKey("fixPlan"))
	r.CallersWithin("R5", smKey("fixPlan"), smKey("Recovery"))
	r.Expect("R5", 12)
}

func ruleRunningBeforePlugin(r *Run, rule string) {
	fn := r.fnByKey(rule, actKey("Runner.Start"))
	if fn != nil {
		fl, paths, ok := r.flowPaths(rule, fn)
		if ok {
			bad := ""
			n := 0
			var bpos token.Pos = fn.Decl.Pos()
			for i := range paths {
				p := &paths[i]
				if p.Exit != ExitReturn {
					continue
				}
				next, _, site := PathNext(fl, p)
				if !strings.HasSuffix(next, ".GetPlugin") && !strings.HasSuffix(next, ".Execute") {
					continue
				}
				n++
				alreadyRunning := false
				ai, ui := -1, -1
				for j, e := range p.Ev {
					if e.Kind == EvBranch && e.Taken {
						if st, ok := statusTest(fl.Info, e, "workflow.Action"); ok && st == "workflow.Running" {
							alreadyRunning = true
						}
					}
					if v, ok := StatusAssign(fl.Info, e, "workflow.Action"); ok && v == "workflow.Running" {
						ai = j
					}
					if name, ok := isUpdaterCall(e); ok && name == "UpdateAction" && !e.Deferred {
						ui = j
					}
				}
				if !alreadyRunning && (ai < 0 || ui < ai) && bad == "" {
					bad, bpos = "a path proceeds towards the plugin without having written the action as Running (status assigned="+boolStr(ai >= 0)+", written after="+boolStr(ui > ai)+"): after a crash the invocation would be invisible", site
				}
			}
			if n == 0 {
				r.Unresolved(rule, "Runner.Start path to GetPlugin")
			} else {
				r.Check(rule, "Runner.Start:running-written-before-plugin", bpos, bad == "", "%s", orOK(bad, "Status=Running then UpdateAction before GetPlugin (or the stored status is already Running)"))
			}
		}
	}
	fn = r.fnByKey(rule, smKey("runActionsParallel"))
	if fn == nil {
		return
	}
	fl, paths, ok := r.flowPaths(rule, fn)
	if !ok {
		return
	}
	bad := ""
	n := 0
	var bpos token.Pos = fn.Decl.Pos()
	for i := range paths {
		p := &paths[i]
		pending := false
		for _, e := range p.Ev {
			if v, ok := StatusAssign(fl.Info, e, "workflow.Action"); ok && v == "workflow.Running" {
				pending = true
			}
			if name, ok := isUpdaterCall(e); ok && name == "UpdateAction" {
				pending = false
			}
			if e.Kind == EvRange && pending && bad == "" {
				bad, bpos = "a check action is marked Running without being written before the loop moves on", e.Pos
			}
			if IsCall(e, keyGroupGo) {
				n++
				if pending && bad == "" {
					bad, bpos = "check actions are launched before their Running status is written", e.Pos
				}
			}
		}
	}
	if n == 0 {
		r.Unresolved(rule, "runActionsParallel launches")
		return
	}
	r.Check(rule, "runActionsParallel:running-written-before-launch", bpos, bad == "", "%s", orOK(bad, "every Running assignment is followed by UpdateAction before any launch"))
}

func ruleRunnerEndWrites(r *Run, rule string) {
	fn := r.fnByKey(rule, actKey("Runner.End"))
	if fn == nil {
		return
	}
	fl, paths, ok := r.flowPaths(rule, fn)
	if !ok {
		return
	}
	bad := ""
	n := 0
	for i := range paths {
		p := &paths[i]
		if p.Exit != ExitReturn {
			continue
		}
		n++
		si, ui := -1, -1
		for j, e := range p.Ev {
			if _, ok := StatusAssign(fl.Info, e, "workflow.Action"); ok {
				si = j
			}
			if name, ok := isUpdaterCall(e); ok && name == "UpdateAction" && !e.Maybe {
				ui = j
			}
		}
		if (si < 0 || ui < si) && bad == "" {
			bad = "Runner.End returns without writing the action after its final status was assigned (guard " + ExitGuardKey(fl, p) + "): the next action could start before this result is durable"
		}
	}
	if n == 0 {
		r.Unresolved(rule, "Runner.End path")
		return
	}
	r.Check(rule, "Runner.End:final-status-written", fn.Decl.Pos(), bad == "", "%s", orOK(bad, "UpdateAction after the last status assignment on every path"))
}

// ruleNoRegress: Running/NotStarted is assigned to a block, sequence or action only
// after the path excluded the terminal statuses.
func ruleNoRegress(r *Run, rule string) {
	exempt := map[string]string{
		pkgSM + ".resetActions":      "check actions only (callers ⊆ runChecksOnce)",
		pkgSM + ".resetAction":       "recovery only (callers ⊆ fixAction, fixChecks)",
		pkgSM + ".fixAction":         "recovery only",
		pkgSM + ".fixChecks":         "recovery only",
		pkgSM + ".fixSeq":            "recovery only",
		smKey("fixBlock"):            "recovery only",
		smKey("fixPlan"):             "recovery only",
		smKey("runActionsParallel"):  "check actions only (callers ⊆ runChecksOnce, after resetActions)",
	}
	owners := []string{"workflow.Block", "workflow.Sequence", "workflow.Action"}
	n := 0
	for _, fn := range r.P.sortedFuncs() {
		rel := relPkg(fn.Pkg.PkgPath)
		if (rel != pkgSM && rel != pkgActions) || fn.Decl.Body == nil || exempt[fn.Key] != "" {
			continue
		}
		fl := r.P.FlowOf(fn)
		paths, ok := fl.Paths()
		if !ok {
			continue
		}
		paths = fl.OwnOnly(paths) // each function is judged on its own assignments (private helpers included); shared helpers are in the table above or judged themselves
		type res struct {
			bad string
			pos token.Pos
		}
		sites := map[string]*res{}
		for i := range paths {
			p := &paths[i]
			for j, e := range p.Ev {
				if e.From != "" && exempt[e.From] != "" {
					continue // written in an exempted helper (judged by its own who-may-call rule), spliced in here
				}
				for _, ow := range owners {
					v, ok := StatusAssign(fl.Info, e, ow)
					if !ok || (v != "workflow.Running" && v != "workflow.NotStarted") {
						continue
					}
					key := "no-regress:" + strings.TrimPrefix(fn.Key, rel+".") + ":" + ShortType2(ow) + "=" + strings.TrimPrefix(v, "workflow.")
					s := sites[key]
					if s == nil {
						s = &res{pos: e.Pos}
						sites[key] = s
					}
					if !terminalExcluded(fl.Info, p, j, ow) && s.bad == "" {
						s.bad = "status " + v + " is assigned to a " + ow + " on a path that did not exclude Completed/Failed first (guard " + ExitGuardKey(fl, &Path{Ev: p.Ev[:j]}) + "): a reader could see a finished object go back to " + v
					}
				}
			}
		}
		for k, s := range sites {
			n++
			r.Check(rule, k, s.pos, s.bad == "", "%s", orOK(s.bad, "terminal statuses excluded on every path to this assignment"))
		}
	}
	if n == 0 {
		r.Unresolved(rule, "assignments of Running to blocks/sequences/actions")
	}
}

func ShortType2(t string) string { return strings.TrimPrefix(t, "workflow.") }

// terminalExcluded: before event upto the path established that the owner's status is
// not Completed and not Failed (or is NotStarted), or that skipBlock/isCompleted is false.
func terminalExcluded(info *types.Info, p *Path, upto int, owner string) bool {
	notCompleted, notFailed := false, false
	for j := 0; j < upto; j++ {
		e := p.Ev[j]
		if e.Kind != EvBranch || e.Cond == nil {
			continue
		}
		if e.Tag != nil {
			if _, m := FieldPath(info, e.Tag, owner, "State", "Status"); m {
				v := ValueKey(info, e.Cond)
				if !e.Taken {
					if v == "workflow.Completed" {
						notCompleted = true
					}
					if v == "workflow.Failed" {
						notFailed = true
					}
				} else if v == "workflow.NotStarted" || v == "workflow.Running" {
					return true
				}
			}
			continue
		}
		fa := facts{}
		fa.assumeCond(info, e.Cond, e.Taken)
		for k, v := range fa {
			if !strings.HasSuffix(k, ".State.Status") {
				continue
			}
			switch v {
			case "const:workflow.NotStarted", "const:workflow.Running":
				return true
			case "not:const:workflow.Completed":
				notCompleted = true
			case "not:const:workflow.Failed":
				notFailed = true
			}
		}
		// !(a == Completed || a == Failed)
		if !e.Taken {
			s := ExprStr(e.Cond)
			if strings.Contains(s, ".State.Status == workflow.Completed") && strings.Contains(s, "||") && strings.Contains(s, ".State.Status == workflow.Failed") {
				return true
			}
		}
		// skipBlock(h) / isCompleted(x) false
		c := ast.Unparen(e.Cond)
		if call, ok := c.(*ast.CallExpr); ok && !e.Taken {
			if f, ok := calleeFunc(info, call); ok {
				if k := FuncKey(f); k == pkgSM+".skipBlock" || k == pkgSM+".isCompleted" {
					return true
				}
			}
		}
	}
	return notCompleted && notFailed
}

// ---------------------------------------------------------------------------
// C09

func rulesC09(r *Run) {
	r.Kind("R1", "K2")
	ruleRunActionGuards(r, "R1")
	ruleStartGuard(r, "R1")
	ruleExecSeqGuard(r, "R1")
	ruleLaunchGuard(r, "R1")
	ruleSkipBlock(r, "R1")
	ruleRecoveryTerminal(r, "R1")
	ruleIsCompleted(r, "R1")
	ruleFilterCompaction(r, "R1") // a plan closed as Failed at start-up must not also be resumed
	ruleSkipBlockIffTerminal(r, "R1")
	ruleTerminalGroupNotRerun(r, "R1", smKey("PlanPostChecks"), "PostChecks")
	ruleTerminalGroupNotRerun(r, "R1", smKey("PlanDeferredChecks"), "DeferredChecks")
	ruleLaunchLoopPassesFinished(r, "R1")
	ruleExecSeqFailedReturnsError(r, "R1")
	ruleRunnerStartSilentStop(r, "R1")
	r.Expect("R1", 15)

	r.Kind("R2", "K2")
	ruleFixAction(r, "R2")
	ruleFixNotStarted(r, "R2")
	r.CallersWithin("R2", pkgSM+".resetAction", pkgSM+".fixAction", pkgSM+".fixChecks")
	ruleRepairThenClassifyAll(r, "R2")
	ruleFixSeqVerdicts(r, "R2")
	r.Expect("R2", 12)

	r.Kind("R3", "K10")
	for _, k := range []string{pkgSM + ".fixAction", pkgSM + ".fixChecks", pkgSM + ".fixSeq", smKey("fixBlock"), smKey("fixPlan")} {
		ruleFixPrologue(r, "R3", k)
	}
	r.Expect("R3", 5)

	r.Kind("R4", "K4")
	rulePluginConfinement(r, "R4")
	r.Expect("R4", 7)
}

// ruleStartGuard: Runner.Start leaves terminal actions untouched.
func ruleStartGuard(r *Run, rule string) {
	fn := r.fnByKey(rule, actKey("Runner.Start"))
	if fn == nil {
		return
	}
	fl, paths, ok := r.flowPaths(rule, fn)
	if !ok {
		return
	}
	bad := ""
	n := 0
	for i := range paths {
		p := &paths[i]
		if p.Exit != ExitReturn {
			continue
		}
		st := ""
		for _, e := range p.Ev {
			if e.Kind == EvBranch && e.Taken {
				if v, ok := statusTest(fl.Info, e, "workflow.Action"); ok {
					st = v
				}
			}
		}
		next, _, _ := PathNext(fl, p)
		touched := false
		for _, e := range p.Ev {
			if _, ok := StatusAssign(fl.Info, e, "workflow.Action"); ok {
				touched = true
			}
			if _, ok := isUpdaterCall(e); ok {
				touched = true
			}
		}
		if st == "workflow.Completed" || st == "workflow.Failed" {
			n++
			if (next != "nil" || touched) && bad == "" {
				bad = "a " + st + " action handed to the action machine proceeds to " + next + " (touched=" + boolStr(touched) + "): its plugin could be invoked again"
			}
		} else if st == "" {
			// the NotStarted path: must have excluded other statuses
			if strings.HasSuffix(next, ".GetPlugin") {
				okNS := false
				for _, e := range p.Ev {
					if Establishes(fl.Info, e, fieldMatcher(fl.Info, "", "State", "Status"), "workflow.NotStarted", true) {
						okNS = true
					}
				}
				if !okNS && bad == "" {
					bad = "Runner.Start marks an action Running without having established that it was NotStarted"
				}
			}
		}
	}
	if n == 0 {
		r.Fail(rule, "Runner.Start:terminal-actions-untouched", fn.Decl.Pos(), "Runner.Start has no branch for Completed/Failed actions")
		return
	}
	r.Check(rule, "Runner.Start:terminal-actions-untouched", fn.Decl.Pos(), bad == "", "%s", orOK(bad, "Completed/Failed ⇒ machine ends, nothing written"))
}

func ruleExecSeqGuard(r *Run, rule string) {
	fn := r.fnByKey(rule, smKey("execSeq"))
	if fn == nil {
		return
	}
	fl, paths, ok := r.flowPaths(rule, fn)
	if !ok {
		return
	}
	bad := ""
	seen := map[string]bool{}
	for i := range paths {
		p := &paths[i]
		st := ""
		for _, e := range p.Ev {
			if e.Kind == EvBranch && e.Taken {
				if v, ok := statusTest(fl.Info, e, "workflow.Sequence"); ok && st == "" {
					st = v
				}
			}
		}
		if st != "workflow.Completed" && st != "workflow.Failed" {
			continue
		}
		seen[st] = true
		for _, e := range p.Ev {
			if IsCall(e, smKey("runAction")) && bad == "" {
				bad = "a sequence stored as " + st + " still runs actions"
			}
			if _, ok := StatusAssign(fl.Info, e, "workflow.Sequence"); ok && bad == "" {
				bad = "a sequence stored as " + st + " has its status rewritten"
			}
		}
		if p.Exit == ExitReturn && st == "workflow.Failed" {
			for _, e := range p.Ev {
				if e.Kind == EvReturn && !e.Deferred {
					if isNil, has := ReturnsNilLast(fl.Info, e); has && isNil && bad == "" {
						bad = "a sequence stored as Failed returns a nil error from execSeq: it would not be counted as a failure after recovery"
					}
				}
			}
		}
	}
	if !seen["workflow.Completed"] || !seen["workflow.Failed"] {
		r.Fail(rule, "execSeq:terminal-sequences-untouched", fn.Decl.Pos(), "execSeq lacks a guard for sequences already Completed=%v / Failed=%v", seen["workflow.Completed"], seen["workflow.Failed"])
		return
	}
	r.Check(rule, "execSeq:terminal-sequences-untouched", fn.Decl.Pos(), bad == "", "%s", orOK(bad, "Completed ⇒ nil, Failed ⇒ its error, nothing re-run"))
}

func ruleLaunchGuard(r *Run, rule string) {
	s := findSeqLaunch(r, rule)
	if s == nil {
		return
	}
	indexForConds(s.fn.Decl)
	bad := ""
	n := 0
	var bpos token.Pos = s.lit.Pos()
	for i := range s.paths {
		p := &s.paths[i]
		for gi, e := range p.Ev {
			if !isLaunch(s, e) {
				continue
			}
			n++
			ls := loopStart(p, gi)
			path := &Path{Ev: p.Ev[ls+1 : gi]}
			if !terminalExcluded(s.fl.Info, path, len(path.Ev), "workflow.Sequence") && bad == "" {
				bad, bpos = "a sequence is launched without first excluding the Completed and Failed statuses in the same iteration: after recovery a finished sequence would be launched again", e.Pos
			}
		}
	}
	if n == 0 {
		r.Unresolved(rule, "sequence launch")
		return
	}
	r.Check(rule, "ExecuteSequences:finished-sequences-skipped", bpos, bad == "", "%s", orOK(bad, "every launch is preceded by the terminal-status test of that sequence"))
}

func ruleSkipBlock(r *Run, rule string) {
	fn := r.fnByKey(rule, smKey("ExecuteBlock"))
	if fn == nil {
		return
	}
	fl, paths, ok := r.flowPaths(rule, fn)
	if !ok {
		return
	}
	bad := ""
	nSkip, nRun := 0, 0
	for i := range paths {
		p := &paths[i]
		if p.Exit != ExitReturn {
			continue
		}
		verdict := ""
		for ci, e := range p.Ev {
			if e.Depth == 0 && (IsCall(e, pkgSM+".skipBlock") || IsCall(e, pkgSM+".isCompleted")) {
				verdict = UseOfResult(fl, p, ci).Verdict
			}
		}
		next := nextOf(fl, p)
		assigned := false
		for _, e := range p.Ev {
			if _, ok := StatusAssign(fl.Info, e, "workflow.Block"); ok && !e.Deferred {
				assigned = true
			}
		}
		switch verdict {
		case "true":
			nSkip++
			if (next != "ExecuteBlock" || assigned) && bad == "" {
				bad = "a finished block is not simply skipped (successor " + next + ", status rewritten=" + boolStr(assigned) + ")"
			}
		case "false":
			nRun++
		default:
			if next == "BlockBypassChecks" && bad == "" {
				bad = "a block is entered without consulting skipBlock: after recovery a finished block would run again"
			}
		}
	}
	if nSkip == 0 || nRun == 0 {
		r.Fail(rule, "ExecuteBlock:finished-blocks-skipped", fn.Decl.Pos(), "ExecuteBlock does not branch on skipBlock both ways")
		return
	}
	r.Check(rule, "ExecuteBlock:finished-blocks-skipped", fn.Decl.Pos(), bad == "", "%s", orOK(bad, "skipBlock true ⇒ popped and next block, untouched"))
}

func ruleRecoveryTerminal(r *Run, rule string) {
	fn := r.fnByKey(rule, smKey("Recovery"))
	if fn == nil {
		return
	}
	fl, paths, ok := r.flowPaths(rule, fn)
	if !ok {
		return
	}
	seen := map[string]string{}
	for i := range paths {
		p := &paths[i]
		if p.Exit != ExitReturn {
			continue
		}
		// the status test that follows fixPlan
		fi := -1
		for j, e := range p.Ev {
			if IsCall(e, smKey("fixPlan")) {
				fi = j
			}
		}
		st := "other"
		for j := fi + 1; j < len(p.Ev) && fi >= 0; j++ {
			if p.Ev[j].Kind == EvBranch && p.Ev[j].Taken {
				if v, ok := statusTest(fl.Info, p.Ev[j], "workflow.Plan"); ok {
					st = v
					break
				}
			}
		}
		next := nextOf(fl, p)
		if prev, ok := seen[st]; ok && prev != next {
			seen[st] = prev + "|" + next
		} else {
			seen[st] = next
		}
		if fi < 0 {
			seen["nofix"] = next
		}
	}
	want := map[string]string{"workflow.Completed": "End", "workflow.Failed": "End", "workflow.Stopped": "End", "workflow.NotStarted": "Start", "other": "PlanBypassChecks"}
	bad := ""
	for st, w := range want {
		if seen[st] != w && bad == "" {
			bad = "after fixPlan a plan in status " + st + " continues with " + orOK(seen[st], "no handler") + " (expected " + w + ")"
		}
	}
	if _, ok := seen["nofix"]; ok && bad == "" {
		bad = "a path of Recovery does not call fixPlan"
	}
	r.Check(rule, "Recovery:terminal-plans-go-to-End", fn.Decl.Pos(), bad == "", "%s", orOK(bad, "Completed/Failed/Stopped ⇒ End; NotStarted ⇒ Start; Running ⇒ PlanBypassChecks"))
}

func ruleIsCompleted(r *Run, rule string) {
	fn := r.fnByKey(rule, pkgSM+".isCompleted")
	if fn == nil {
		return
	}
	fl, paths, ok := r.flowPaths(rule, fn)
	if !ok {
		return
	}
	trueFor := map[string]bool{}
	bad := ""
	for i := range paths {
		p := &paths[i]
		if p.Exit != ExitReturn {
			continue
		}
		taken := ""
		for _, e := range p.Ev {
			if e.Kind == EvBranch && e.Tag != nil && e.Taken {
				if v := ValueKey(fl.Info, e.Cond); strings.HasPrefix(v, "workflow.") {
					taken = v
				}
			}
		}
		for _, e := range p.Ev {
			if e.Kind == EvReturn && len(e.Rhs) == 1 && ValueKey(fl.Info, e.Rhs[0]) == "true" {
				if taken == "" {
					bad = "isCompleted answers true without matching a status"
				}
				trueFor[taken] = true
			}
		}
	}
	want := []string{"workflow.Completed", "workflow.Failed", "workflow.Stopped"}
	for _, w := range want {
		if !trueFor[w] && bad == "" {
			bad = "isCompleted is not true for " + w + ": finished objects of that status would be executed again after recovery"
		}
	}
	if len(trueFor) != len(want) && bad == "" {
		bad = "isCompleted is true for an unexpected status set"
	}
	r.Check(rule, "isCompleted:exactly-terminal-statuses", fn.Decl.Pos(), bad == "", "%s", orOK(bad, "true exactly for Completed, Failed, Stopped"))
}

func ruleFixAction(r *Run, rule string) {
	fn := r.fnByKey(rule, pkgSM+".fixAction")
	if fn == nil {
		return
	}
	fl, paths, ok := r.flowPaths(rule, fn)
	if !ok {
		return
	}
	info := fl.Info
	// Atoms about the attempts: "none" (len(Attempts) == 0), "unfinished" (the last one's End is zero), "errnil"
	// (the last one's Err is nil). What the code does with the action is judged by assume-and-refute over the
	// events since the last attempt was dropped: recursion, a loop, early returns or one combined condition alike.
	atom := func(e ast.Expr) (string, bool, bool) {
		e = ast.Unparen(e)
		switch x := e.(type) {
		case *ast.BinaryExpr:
			if lc, ok := ast.Unparen(x.X).(*ast.CallExpr); ok && len(lc.Args) == 1 {
				if id, ok := lc.Fun.(*ast.Ident); ok && id.Name == "len" {
					if _, m := FieldPath(info, lc.Args[0], "workflow.Action", "Attempts"); m {
						if k, isC := ConstInt(info, x.Y); isC {
							switch {
							case x.Op == token.EQL && k == 0, x.Op == token.LSS && k == 1, x.Op == token.LEQ && k == 0:
								return "none", false, true
							case x.Op == token.NEQ && k == 0, x.Op == token.GTR && k == 0, x.Op == token.GEQ && k == 1:
								return "none", true, true
							}
						}
					}
				}
			}
			if y, op, ok := IsNilCompare(info, x); ok {
				if _, m := FieldPath(info, y, "", "Err"); m {
					return "errnil", op == token.NEQ, true
				}
			}
		case *ast.CallExpr:
			if recv, args, ok := timeMethod(info, x, "IsZero"); ok && len(args) == 0 {
				if _, m := FieldPath(info, recv, "", "End"); m {
					return "unfinished", false, true
				}
			}
		}
		return "", false, false
	}
	impossible := func(p *Path, from, to int, asg map[string]bool) bool {
		return PathRefutedRange(fl, p, from, to, asg, atom)
	}
	badReset, badKeep, badDrop := "", "", ""
	nReset, nKeep, nDrop := 0, 0, 0
	for i := range paths {
		p := &paths[i]
		if p.Exit != ExitReturn {
			continue
		}
		entered := false // past the `Status != Running ⇒ return` guard
		settled := ""
		from := 0 // first event after the last dropped attempt: what is known about "the last attempt" starts here
		reexamined := true
		resetAt := func(j int, what string) {
			nReset++
			settled = "reset"
			if !impossible(p, from, j, map[string]bool{"none": false}) && badReset == "" {
				badReset = "fixAction " + what + " on a path that is possible with an attempt left (len(Attempts) == 0 not established after dropping unfinished attempts): an action with a durable result would be invoked again"
			}
		}
		for j, e := range p.Ev {
			switch e.Kind {
			case EvBranch:
				if e.Cond == nil {
					continue
				}
				if Establishes(info, e, fieldMatcher(info, "workflow.Action", "State", "Status"), "workflow.Running", true) {
					entered = true
				}
				if j >= from {
					found := false
					ast.Inspect(e.Cond, func(n ast.Node) bool {
						if x, ok := n.(ast.Expr); ok {
							if _, _, isAtom := atom(x); isAtom {
								found = true
							}
						}
						return !found
					})
					if found {
						reexamined = true
					}
				}
			case EvCall:
				if IsCall(e, pkgSM+".resetAction") && !e.Inlined {
					resetAt(j, "resets an action")
				}
				if IsCall(e, pkgSM+".fixAction") {
					reexamined, settled = true, "recursed"
				}
			case EvAssign:
				if v, ok := StatusAssign(info, e, "workflow.Action"); ok {
					switch v {
					case "workflow.NotStarted":
						resetAt(j, "marks an action NotStarted")
					case "workflow.Completed", "workflow.Failed":
						nKeep++
						settled = v
						okV := impossible(p, from, j, map[string]bool{"none": true}) &&
							impossible(p, from, j, map[string]bool{"none": false, "unfinished": true}) &&
							impossible(p, from, j, map[string]bool{"none": false, "unfinished": false, "errnil": v != "workflow.Completed"})
						if !okV && badKeep == "" {
							badKeep = "the action is marked " + strings.TrimPrefix(v, "workflow.") + " on a path that is also possible when it has no attempt, when its last attempt is unfinished, or when that attempt's Err says otherwise: a durable success must become Completed, a durable failure Failed, nothing else"
						}
					}
				}
				for k, l := range e.Lhs {
					if _, m := FieldPath(info, l, "workflow.Action", "Attempts"); m && len(e.Rhs) == len(e.Lhs) {
						if ValueKey(info, e.Rhs[k]) == "nil" {
							resetAt(j, "drops all attempts")
						} else {
							// the last attempt is dropped: only an unfinished one may be
							nDrop++
							okD := impossible(p, from, j, map[string]bool{"none": true}) && impossible(p, from, j, map[string]bool{"none": false, "unfinished": false})
							if !okD && badDrop == "" {
								badDrop = "an attempt is dropped on a path that is possible when it is finished (End not zero): a durable result would be forgotten and the plugin invoked again"
							}
							from = j + 1
							reexamined = false
						}
					}
				}
			}
		}
		if !entered {
			continue
		}
		if !reexamined && badDrop == "" {
			badDrop = "after dropping an unfinished attempt the action is not examined again (no recursion, no further test): what remains decides whether it is reset, Completed or Failed"
		}
		if settled == "" && badKeep == "" {
			badKeep = "a path leaves a Running action as it is (exit guard " + ExitGuardKey(fl, p) + "): a durable success must become Completed, a durable failure Failed, an action without a finished attempt must be reset"
		}
	}
	if nReset == 0 || nKeep == 0 || nDrop == 0 {
		r.Unresolved(rule, "fixAction branches (no attempts / unfinished / finished)")
		return
	}
	r.Check(rule, "fixAction:reset-only-without-attempts", fn.Decl.Pos(), badReset == "", "%s", orOK(badReset, "reset only when there are no attempts"))
	r.Check(rule, "fixAction:finished-attempt-keeps-verdict", fn.Decl.Pos(), badKeep == "", "%s", orOK(badKeep, "finished attempt ⇒ Completed/Failed by its Err"))
	r.Check(rule, "fixAction:unfinished-attempt-dropped", fn.Decl.Pos(), badDrop == "", "%s", orOK(badDrop, "unfinished last attempt dropped, then re-examined"))
}

// ruleFixPrologue: a fix* function returns on Status != Running before any write to its argument.
func ruleFixPrologue(r *Run, rule, key string) {
	fn := r.fnByKey(rule, key)
	if fn == nil {
		return
	}
	fl, paths, ok := r.flowPaths(rule, fn)
	if !ok {
		return
	}
	paths = fl.OwnOnly(paths) // the function and the pieces it was split into; shared helpers are judged themselves
	info := fl.Info
	// the subject: the parameter holding the workflow object being fixed
	var subj types.Object
	for _, f := range fn.Decl.Type.Params.List {
		for _, nm := range f.Names {
			if o := info.ObjectOf(nm); o != nil && workflowObjTypes[ShortType(o.Type())] {
				subj = o
			}
		}
	}
	if subj == nil {
		r.Unresolved(rule, key+" subject parameter")
		return
	}
	// Nothing may be changed when the subject is not Running: assume it is not, and no path may reach a change.
	atom := func(e ast.Expr) (string, bool, bool) {
		isSubjStatus := func(x ast.Expr) bool {
			base, m := FieldPath(info, x, "", "State", "Status")
			return m && ObjOf(info, base) == subj
		}
		if neg, ok := EqAtom(info, e, isSubjStatus, "workflow.Running"); ok {
			return "subject-running", neg, true
		}
		return "", false, false
	}
	bad := ""
	var bpos = fn.Decl.Pos()
	guarded := false
	for i := range paths {
		p := &paths[i]
		for j, e := range p.Ev {
			what := ""
			switch e.Kind {
			case EvBranch:
				if e.Cond != nil {
					if _, _, isAtom := atom(ast.Unparen(e.Cond)); isAtom {
						guarded = true
					}
					if e.Tag != nil {
						if _, _, isAtom := atom(&ast.BinaryExpr{X: e.Tag, Op: token.EQL, Y: e.Cond}); isAtom {
							guarded = true
						}
					}
				}
			case EvAssign:
				for _, l := range e.Lhs {
					if _, isSel := ast.Unparen(l).(*ast.SelectorExpr); isSel {
						what = "a field (" + ExprStr(l) + ") is written"
					}
				}
			case EvCall:
				if k := CalleeKey(e); strings.HasPrefix(k, pkgSM+".") && k != pkgSM+".checksCompleted" && k != pkgSM+".checksFailed" && k != pkgSM+".isCompleted" && !e.Inlined {
					what = "a helper (" + ShortFn(k) + ") is called"
				}
			}
			if what != "" && bad == "" && !PathRefutedRange(fl, p, 0, j, map[string]bool{"subject-running": false}, atom) {
				bad, bpos = what+" on a path that is possible when the object is not Running (no `Status != Running ⇒ return` guard dominates it)", e.Pos
			}
		}
	}
	if !guarded && bad == "" {
		bad = "no test of the subject's `State.Status` against workflow.Running: terminal and not-started objects would be rewritten by recovery"
	}
	r.Check(rule, "fix-prologue:"+ShortFn(key), bpos, bad == "", "%s", orOK(bad, "non-Running objects are left untouched"))
}

// ruleGateRunsContChecks (D30): the pre-check gate of a scope also performs the first run of the
// scope's ContChecks, so it may be passed without running anything only when there is nothing to run.
// Decided by assume-and-refute: in the situation "PreChecks absent, ContChecks present" every returning
// path of the gate state that is still possible launches (or calls) runChecksOnce on the ContChecks.
// The events of runPreChecks are part of the state's paths (inlined), so it does not matter which of the
// two functions holds the test that lets the scope pass.
func ruleGateRunsContChecks(r *Run, rule, fnKey, owner string) {
	fn := r.fnByKey(rule, fnKey)
	if fn == nil {
		return
	}
	fl, paths, ok := r.flowPaths(rule, fn)
	if !ok {
		return
	}
	info := fl.Info
	short := ShortFn(fnKey)
	isPre := fieldMatcher(info, owner, "PreChecks")
	isCont := fieldMatcher(info, owner, "ContChecks")
	atom := func(e ast.Expr) (string, bool, bool) {
		if x, op, ok := IsNilCompare(info, e); ok {
			switch {
			case isPre(x):
				return "pre-absent", op == token.NEQ, true
			case isCont(x):
				return "cont-absent", op == token.NEQ, true
			}
		}
		if neg, ok := EqAtom(info, e, func(x ast.Expr) bool {
			b, m := FieldPath(info, x, "workflow.Checks", "State", "Status")
			return m && isPre(ast.Unparen(b))
		}, "workflow.Completed"); ok {
			return "pre-completed", neg, true
		}
		if c, ok := ast.Unparen(e).(*ast.CallExpr); ok && len(c.Args) == 1 && CallAtom(info, e, pkgSM+".skipRecoveredChecks") {
			// true exactly for a nil group (obligation skipRecoveredChecks:true-only-for-absent-group)
			switch {
			case isPre(ast.Unparen(c.Args[0])):
				return "pre-absent", false, true
			case isCont(ast.Unparen(c.Args[0])):
				return "cont-absent", false, true
			}
		}
		return "", false, false
	}
	// runsCont: the event runs the continuous checks once — a direct call, or a launch of a literal that does.
	runsOn := func(root ast.Node) bool {
		found := false
		ast.Inspect(root, func(n ast.Node) bool {
			if c, ok := n.(*ast.CallExpr); ok && !found {
				if f, ok := calleeFunc(info, c); ok && FuncKey(f) == smKey("runChecksOnce") {
					for _, a := range c.Args {
						if isCont(ast.Unparen(a)) {
							found = true
						}
					}
				}
			}
			return !found
		})
		return found
	}
	decide := func(asg map[string]bool, key, situation, consequence string) {
		bad := ""
		var bpos token.Pos = fn.Decl.Pos()
		nRun, nPossible := 0, 0
		for i := range paths {
			p := &paths[i]
			if p.Exit != ExitReturn {
				continue
			}
			if PathRefuted(fl, p, -1, asg, atom) {
				continue
			}
			nPossible++
			ran := false
			for _, e := range p.Ev {
				if e.Kind != EvCall || e.Call == nil || e.Deferred {
					continue
				}
				switch {
				case IsCall(e, smKey("runChecksOnce")) && runsOn(e.Call):
					ran = true
				case IsCall(e, keyGroupGo):
					if l := LitArg(e.Call); l != nil && runsOn(l) {
						ran = true
					}
				case IsCall(e, smKey("runPreChecks")) && !e.Inlined && len(e.Call.Args) == 3 && isCont(ast.Unparen(e.Call.Args[2])):
					ran = true // not expanded here: runPreChecks' own obligations (groupResultReturned, join) decide what it does with its third argument
				}
			}
			if ran {
				nRun++
			} else if bad == "" {
				bad = short + " can be passed (successor " + nextOf(fl, p) + ", exit guard " + ExitGuardKey(fl, p) + ") by " + situation + " without the ContChecks having run once: " + consequence
				for _, e := range p.Ev {
					if e.Kind == EvReturn && !e.Deferred && e.Depth == 0 {
						bpos = e.Pos
					}
				}
			}
		}
		if nPossible == 0 {
			r.Unresolved(rule, short+" has a returning path for "+situation)
			return
		}
		if nRun == 0 && bad == "" {
			bad = short + " never runs the ContChecks"
		}
		r.Check(rule, short+":"+key, bpos, bad == "", "%s", orOK(bad, situation+" ⇒ every exit ran the ContChecks once"))
	}
	decide(map[string]bool{"pre-absent": true, "cont-absent": false}, "cont-only-scope-is-gated",
		"a scope that has ContChecks but no PreChecks", "its sequences would start before the continuous checks ever passed")
	// D32: after a restart the PreChecks of a scope can already be Completed while the first run of its ContChecks
	// was lost with the crash; the gate must run them all the same
	decide(map[string]bool{"pre-absent": false, "cont-absent": false, "pre-completed": true}, "recovered-scope-is-gated",
		"a recovered scope whose PreChecks are already Completed and that has ContChecks", "after a crash between the PreChecks and the first run of the ContChecks the sequences of a scope whose ContChecks fail would run")
}

// ruleRepairThenClassify (round-3 seed C03-6): a recovery function that walks its children, repairs each
// (fixBlock / fixSeq / fixAction) and counts them by status must classify a child by the status it has
// AFTER the repair: fixBlock can turn a Running block into a Failed one, and a plan that counted it as
// Running resumes and runs the blocks behind a failed block. Decided per loop iteration: the
// last status test of the element must come after the repair call
// of that iteration — unless the iteration is impossible for a Running element (the repair functions
// leave anything else untouched, C09-R3). "Classified" is the last test of the element's status in the
// iteration: what is counted, collected or resumed hangs on it.
func ruleRepairThenClassify(r *Run, rule, fnKey, fixKey, owner string) {
	fn := r.fnByKey(rule, fnKey)
	if fn == nil {
		return
	}
	// the loop may live in a piece the function was split into: take the function or private helper that holds it
	holdsLoop := func(f *Func) bool {
		found := false
		ast.Inspect(f.Decl.Body, func(n ast.Node) bool {
			x, ok := n.(*ast.RangeStmt)
			if !ok || found {
				return true
			}
			ast.Inspect(x.Body, func(m ast.Node) bool {
				if c, ok := m.(*ast.CallExpr); ok && len(c.Args) >= 1 {
					if cf, ok := calleeFunc(f.Pkg.TypesInfo, c); ok && FuncKey(cf) == fixKey && IsLoopElem(f.Pkg.TypesInfo, x, c.Args[len(c.Args)-1]) {
						found = true
					}
				}
				return !found
			})
			return true
		})
		return found
	}
	if !holdsLoop(fn) {
		for _, h := range r.P.privateHelpers(fn) {
			if holdsLoop(h) {
				fn = h
				break
			}
		}
	}
	fl, paths, ok := r.flowPaths(rule, fn)
	if !ok {
		return
	}
	info := fl.Info
	paths = fl.OwnOnly(paths)
	// the loop whose body hands its element to the repair function
	var rs *ast.RangeStmt
	ast.Inspect(fn.Decl.Body, func(n ast.Node) bool {
		x, ok := n.(*ast.RangeStmt)
		if !ok || rs != nil {
			return true
		}
		ast.Inspect(x.Body, func(m ast.Node) bool {
			if c, ok := m.(*ast.CallExpr); ok && len(c.Args) >= 1 {
				if f, ok := calleeFunc(info, c); ok && FuncKey(f) == fixKey && IsLoopElem(info, x, c.Args[len(c.Args)-1]) {
					rs = x
				}
			}
			return rs == nil
		})
		return true
	})
	short := ShortFn(fnKey)
	if rs == nil {
		r.Unresolved(rule, short+" repairs the elements of a loop with "+ShortFn(fixKey))
		return
	}
	isElem := func(e ast.Expr) bool { return IsLoopElem(info, rs, ast.Unparen(e)) }
	isStatus := func(x ast.Expr) bool {
		b, m := FieldPath(info, x, owner, "State", "Status")
		return m && isElem(b)
	}
	statuses := []string{"workflow.Completed", "workflow.Failed", "workflow.NotStarted", "workflow.Running", "workflow.Stopped"}
	atom := func(e ast.Expr) (string, bool, bool) {
		for _, st := range statuses {
			if neg, ok := EqAtom(info, e, isStatus, st); ok {
				return "st:" + st, neg, true
			}
		}
		return "", false, false
	}
	running := map[string]bool{}
	for _, st := range statuses {
		running["st:"+st] = st == "workflow.Running"
	}
	testsStatus := func(e Event) bool {
		if e.Kind != EvBranch {
			return false
		}
		if e.Tag != nil {
			return isStatus(e.Tag)
		}
		found := false
		if e.Cond != nil {
			ast.Inspect(e.Cond, func(n ast.Node) bool {
				if x, ok := n.(ast.Expr); ok && isStatus(x) {
					found = true
				}
				return !found
			})
		}
		return found
	}
	bad := ""
	var bpos token.Pos = rs.Pos()
	n := 0
	for i := range paths {
		p := &paths[i]
		for _, sg := range scanSegments(p, rs) {
			fix, lastTest := -1, -1
			for j := sg.from; j < sg.to; j++ {
				e := p.Ev[j]
				if e.Depth > 0 || e.Deferred || e.From == fixKey {
					continue // what the repair function itself tests is not the classification
				}
				if IsCall(e, fixKey) && fix < 0 {
					fix = j
				}
				if testsStatus(e) {
					lastTest = j
				}
			}
			if lastTest >= 0 {
				n++
				if (fix < 0 || fix > lastTest) && bad == "" && !PathRefutedRange(fl, p, sg.from, sg.to, running, atom) {
					bad = "a child that may be Running is classified (counted, resumed) by a status tested before " + ShortFn(fixKey) + " repaired it (the repair can turn a Running child into a Failed or Completed one): the parent is classified on stale statuses, e.g. a plan resumes and runs the blocks behind a block recovery has just found Failed"
					bpos = p.Ev[lastTest].Pos
				}
			}
		}
	}
	if n == 0 {
		r.Unresolved(rule, short+" counts its children by status")
		return
	}
	r.Check(rule, short+":children-classified-after-repair", bpos, bad == "", "%s", orOK(bad, "every count follows a status test made after the repair of that child"))
}

func ruleRepairThenClassifyAll(r *Run, rule string) {
	ruleRepairThenClassify(r, rule, smKey("fixPlan"), smKey("fixBlock"), "workflow.Block")
	ruleRepairThenClassify(r, rule, smKey("fixBlock"), pkgSM+".fixSeq", "workflow.Sequence")
	ruleRepairThenClassify(r, rule, pkgSM+".fixSeq", pkgSM+".fixAction", "workflow.Action")
}

// selectSend: the send event p.Ev[j] is the communication of a select case, and that select has other cases.
func selectSend(body ast.Node, p *Path, j int) bool {
	node := p.Ev[j].Node
	if node == nil {
		return false
	}
	in := false
	ast.Inspect(body, func(n ast.Node) bool {
		sel, ok := n.(*ast.SelectStmt)
		if !ok {
			return true
		}
		for _, c := range sel.Body.List {
			if cc := c.(*ast.CommClause); cc.Comm != nil && cc.Comm == node && len(sel.Body.List) > 1 {
				in = true
			}
		}
		return !in
	})
	return in
}

// ruleFixVerdictSticky (D35): once a recovery function has decided that its subject failed (or was stopped), nothing
// later on the same path may give the subject another status. fixPlan marked the plan Failed for failed ContChecks,
// carried on, and reset it to NotStarted when no block had made progress: the failure was forgotten and the plan ran
// again from the start.
func ruleFixVerdictSticky(r *Run, rule, fnKey, owner string) {
	fn := r.fnByKey(rule, fnKey)
	if fn == nil {
		return
	}
	fl, paths, ok := r.flowPaths(rule, fn)
	if !ok {
		return
	}
	paths = fl.OwnOnly(paths)
	info := fl.Info
	var subj types.Object
	if ps := fn.Decl.Type.Params; ps != nil && len(ps.List) >= 1 && len(ps.List[len(ps.List)-1].Names) == 1 {
		subj = info.ObjectOf(ps.List[len(ps.List)-1].Names[0])
	}
	if subj == nil {
		r.Unresolved(rule, ShortFn(fnKey)+" subject parameter")
		return
	}
	bad := ""
	var bpos token.Pos = fn.Decl.Pos()
	n := 0
	for i := range paths {
		p := &paths[i]
		if p.Exit != ExitReturn {
			continue
		}
		verdict := ""
		isSubjStatus := func(x ast.Expr) bool {
			b, m := FieldPath(info, x, owner, "State", "Status")
			return m && ObjOf(info, ast.Unparen(b)) == subj
		}
		infeasible := false
		for _, e := range p.Ev {
			if e.Kind == EvBranch && verdict != "" {
				// the path tests the status it has just assigned: only the agreeing direction is possible (the
				// callees in between repair children, never the subject's own status — C09-R2)
				for _, l := range EventLiterals(info, e) {
					if isSubjStatus(l.X) && strings.HasPrefix(l.Val, "workflow.") && (l.Val == verdict) != l.Eq {
						infeasible = true
					}
				}
			}
			if infeasible {
				break
			}
			if e.Kind != EvAssign || len(e.Lhs) != len(e.Rhs) {
				continue
			}
			for k, l := range e.Lhs {
				if !isSubjStatus(l) {
					continue
				}
				v := ValueKey(info, e.Rhs[k])
				n++
				if verdict != "" && v != "workflow.Failed" && v != "workflow.Stopped" && bad == "" {
					bad = "a path sets the status of the subject to " + strings.TrimPrefix(verdict, "workflow.") + " and later to " + orOK(strings.TrimPrefix(v, "workflow."), ExprStr(e.Rhs[k])) + " (exit guard " + ExitGuardKey(fl, p) + "): a failure recovery had already established is forgotten"
					bpos = e.Pos
				}
				if v == "workflow.Failed" || v == "workflow.Stopped" {
					verdict = v
				}
			}
		}
	}
	if n == 0 {
		r.Unresolved(rule, ShortFn(fnKey)+" assigns a status to its subject")
		return
	}
	r.Check(rule, ShortFn(fnKey)+":failure-verdict-not-overwritten", bpos, bad == "", "%s", orOK(bad, "Failed/Stopped, once assigned, is final on every path"))
}

func ruleFixVerdictStickyAll(r *Run, rule string) {
	ruleFixVerdictSticky(r, rule, smKey("fixPlan"), "workflow.Plan")
	ruleFixVerdictSticky(r, rule, smKey("fixBlock"), "workflow.Block")
	ruleFixVerdictSticky(r, rule, pkgSM+".fixSeq", "workflow.Sequence")
}

// innermostLoop: the innermost for/range statement of body that contains pos.
func innermostLoop(body ast.Node, pos token.Pos) ast.Stmt {
	var out ast.Stmt
	ast.Inspect(body, func(n ast.Node) bool {
		switch l := n.(type) {
		case *ast.ForStmt:
			if l.Pos() <= pos && pos <= l.End() {
				out = l
			}
		case *ast.RangeStmt:
			if l.Pos() <= pos && pos <= l.End() {
				out = l
			}
		}
		return true
	})
	return out
}

// groupAtoms: the atoms a state function can test about one check group G (recognised by isG): absent (G == nil),
// st:<status> (G.State.Status == K), and the helper predicates isCompleted(G) (terminal), checksCompleted(G)
// (absent or Completed), checksFailed(G) (present and Failed), skipRecoveredChecks(G) (absent).
func groupAtoms(info *types.Info, isG func(ast.Expr) bool) AtomFn {
	statuses := []string{"workflow.Completed", "workflow.Failed", "workflow.NotStarted", "workflow.Running", "workflow.Stopped"}
	return func(e ast.Expr) (string, bool, bool) {
		if x, op, ok := IsNilCompare(info, e); ok && isG(ast.Unparen(x)) {
			return "absent", op == token.NEQ, true
		}
		for _, st := range statuses {
			if neg, ok := EqAtom(info, e, func(x ast.Expr) bool {
				b, m := FieldPath(info, x, "workflow.Checks", "State", "Status")
				return m && isG(ast.Unparen(b))
			}, st); ok {
				return "st:" + st, neg, true
			}
		}
		if c, ok := ast.Unparen(e).(*ast.CallExpr); ok && len(c.Args) == 1 && isG(ast.Unparen(c.Args[0])) {
			switch {
			case CallAtom(info, e, pkgSM+".isCompleted"):
				return "terminal", false, true
			case CallAtom(info, e, pkgSM+".checksCompleted"):
				return "absent-or-completed", false, true
			case CallAtom(info, e, pkgSM+".checksFailed"):
				return "present-and-failed", false, true
			case CallAtom(info, e, pkgSM+".skipRecoveredChecks"):
				return "absent", false, true
			}
		}
		return "", false, false
	}
}

// groupAssume: the truth assignment describing a group that is absent, or present with the given status.
func groupAssume(present bool, status string) map[string]bool {
	a := map[string]bool{"absent": !present}
	if !present {
		a["terminal"], a["absent-or-completed"], a["present-and-failed"] = false, true, false
		return a
	}
	for _, st := range []string{"workflow.Completed", "workflow.Failed", "workflow.NotStarted", "workflow.Running", "workflow.Stopped"} {
		a["st:"+st] = st == status
	}
	a["terminal"] = status == "workflow.Completed" || status == "workflow.Failed" || status == "workflow.Stopped"
	a["absent-or-completed"] = status == "workflow.Completed"
	a["present-and-failed"] = status == "workflow.Failed"
	return a
}

// ruleFailedGroupNotPassed (round-3 seed C10-5): a block-level check state must not let the block go on as if nothing
// had happened when its group is present and already Failed (the durable state a crash can leave behind between the
// write of the group and the write of the block). Assume "present ∧ Failed" and refute: every returning path that
// stays possible runs the group again (runChecksOnce on it) or fails the block. A block's status is never re-derived
// from its groups later (unlike the plan's, in End), so a skipped Failed group ends in a Completed block.
func ruleFailedGroupNotPassed(r *Run, rule, fnKey, group string) {
	fn := r.fnByKey(rule, fnKey)
	if fn == nil {
		return
	}
	fl, paths, ok := r.flowPaths(rule, fn)
	if !ok {
		return
	}
	info := fl.Info
	isG := fieldMatcher(info, "workflow.Block", group)
	atom := groupAtoms(info, isG)
	asg := groupAssume(true, "workflow.Failed")
	bad := ""
	var bpos token.Pos = fn.Decl.Pos()
	n := 0
	for i := range paths {
		p := &paths[i]
		if p.Exit != ExitReturn || PathRefuted(fl, p, -1, asg, atom) {
			continue
		}
		n++
		handled := false
		for _, e := range p.Ev {
			if IsCall(e, smKey("runChecksOnce")) && e.Call != nil {
				for _, a := range e.Call.Args {
					if isG(ast.Unparen(a)) {
						handled = true
					}
				}
			}
			if v, ok := StatusAssign(info, e, "workflow.Block"); ok && v == "workflow.Failed" {
				handled = true
			}
		}
		if !handled && bad == "" {
			bad = "a path of " + ShortFn(fnKey) + " is possible for a block whose " + group + " are present and already Failed (exit guard " + ExitGuardKey(fl, p) + ") and neither runs them again nor fails the block: after a crash between the write of the failed checks and the write of the block the block ends Completed"
			for _, e := range p.Ev {
				if e.Kind == EvReturn && !e.Deferred && e.Depth == 0 {
					bpos = e.Pos
				}
			}
		}
	}
	if n == 0 {
		r.Unresolved(rule, ShortFn(fnKey)+" has a returning path for a present, Failed "+group)
		return
	}
	r.Check(rule, ShortFn(fnKey)+":failed-"+group+"-not-passed-over", bpos, bad == "", "%s", orOK(bad, "present ∧ Failed ⇒ run again or block Failed"))
}

// ruleSkipBlockIffTerminal (round-3 seed C09-5): skipBlock is the only guard that keeps ExecuteBlock from walking a
// finished block again after recovery; it must answer true for every block whose status is terminal, whatever
// state its children are in (a block completed by its bypass checks keeps NotStarted sequences), and false for
// every other block. Assume-and-refute over the paths of skipBlock with the atom isCompleted(<the block>).
func ruleSkipBlockIffTerminal(r *Run, rule string) {
	fn := r.fnByKey(rule, pkgSM+".skipBlock")
	if fn == nil {
		return
	}
	fl, paths, ok := r.flowPaths(rule, fn)
	if !ok {
		return
	}
	paths = OwnOnly(paths)
	info := fl.Info
	isBlock := func(e ast.Expr) bool {
		tv, ok := info.Types[ast.Unparen(e)]
		return ok && strings.TrimPrefix(ShortType(tv.Type), "*") == "workflow.Block"
	}
	atom := func(e ast.Expr) (string, bool, bool) {
		if c, ok := ast.Unparen(e).(*ast.CallExpr); ok && len(c.Args) == 1 && CallAtom(info, e, pkgSM+".isCompleted") && isBlock(c.Args[0]) {
			return "terminal", false, true
		}
		for _, st := range []string{"workflow.Completed", "workflow.Failed", "workflow.Stopped"} {
			if neg, ok := EqAtom(info, e, func(x ast.Expr) bool {
				b, m := FieldPath(info, x, "workflow.Block", "State", "Status")
				return m && isBlock(b)
			}, st); ok {
				return "st:" + st, neg, true
			}
		}
		return "", false, false
	}
	decide := func(asg map[string]bool, want bool, key, msg string) {
		bad := ""
		var bpos token.Pos = fn.Decl.Pos()
		n := 0
		for i := range paths {
			p := &paths[i]
			if p.Exit != ExitReturn || PathRefuted(fl, p, -1, asg, atom) {
				continue
			}
			for _, e := range p.Ev {
				if e.Kind != EvReturn || e.Depth != 0 || len(e.Rhs) != 1 {
					continue
				}
				n++
				v := ValueKey(info, e.Rhs[0])
				if v != boolStr(want) && bad == "" {
					if ev, known := (&refuter{fl: fl, asg: asg, atom: atom, bound: map[types.Object][2]bool{}}).eval(e.Rhs[0]); known && ev == want {
						continue
					}
					bad, bpos = msg+" (skipBlock answers "+orOK(v, ExprStr(e.Rhs[0]))+", exit guard "+ExitGuardKey(fl, p)+")", e.Pos
				}
			}
		}
		if n == 0 {
			r.Unresolved(rule, "skipBlock returning path: "+key)
			return
		}
		r.Check(rule, "skipBlock:"+key, bpos, bad == "", "%s", orOK(bad, "as required on every path"))
	}
	decide(map[string]bool{"terminal": true}, true, "terminal-block-always-skipped",
		"a block whose status is Completed, Failed or Stopped is not skipped on some path: after a restart a durably finished block is entered again, written Running and its checks and sequences are executed a second time")
	decide(map[string]bool{"terminal": false, "st:workflow.Completed": false, "st:workflow.Failed": false, "st:workflow.Stopped": false}, false, "unfinished-block-never-skipped",
		"a block that is not finished is skipped on some path")
}

// ruleBypassConsulted (round-3 seed C06-5): the scope is entered without evaluating its bypass checks only when there
// are none or when they are already known to have failed. For a present group in any other state (NotStarted, or
// Completed/Running after a restart) every returning path that stays possible consults runBypasses — a bypass
// group stored Completed must bypass the scope again, not be taken for "already dealt with".
func ruleBypassConsulted(r *Run, rule, fnKey, owner string) {
	fn := r.fnByKey(rule, fnKey)
	if fn == nil {
		return
	}
	fl, paths, ok := r.flowPaths(rule, fn)
	if !ok {
		return
	}
	info := fl.Info
	isG := fieldMatcher(info, owner, "BypassChecks")
	atom := groupAtoms(info, isG)
	bad := ""
	var bpos token.Pos = fn.Decl.Pos()
	n := 0
	for _, st := range []string{"workflow.NotStarted", "workflow.Completed", "workflow.Running"} {
		asg := groupAssume(true, st)
		for i := range paths {
			p := &paths[i]
			if p.Exit != ExitReturn || PathRefuted(fl, p, -1, asg, atom) {
				continue
			}
			n++
			consulted := false
			for _, e := range p.Ev {
				if IsCall(e, smKey("runBypasses")) && !e.Deferred {
					consulted = true
				}
			}
			if !consulted && bad == "" {
				bad = "a path of " + ShortFn(fnKey) + " (successor " + nextOf(fl, p) + ", exit guard " + ExitGuardKey(fl, p) + ") is possible for a scope whose BypassChecks are present and " + strings.TrimPrefix(st, "workflow.") + " and does not evaluate them: after a restart a scope whose bypass checks had all succeeded is executed"
				for _, e := range p.Ev {
					if e.Kind == EvReturn && !e.Deferred && e.Depth == 0 {
						bpos = e.Pos
					}
				}
			}
		}
	}
	if n == 0 {
		r.Unresolved(rule, ShortFn(fnKey)+" returning path for a present bypass group")
		return
	}
	r.Check(rule, ShortFn(fnKey)+":present-bypass-group-is-evaluated", bpos, bad == "", "%s", orOK(bad, "present ∧ not Failed ⇒ runBypasses consulted on every path"))
}

// ruleStatusChangeWritten (C08-R1, round-3 seed C06-5): a state of the plan machine that changes the status of the plan
// or of the head block makes that change durable before the machine moves on — on every returning path an
// assignment to X.State.Status is followed (in place or by a deferred function) by the update call for X's kind, or
// by a call of a function that writes every kind. A status that exists only in memory while the next state acts
// on it is exactly what persist-before-act forbids, and after a crash the store shows a state the engine had
// already left (a block still NotStarted whose bypass checks are Completed).
func ruleStatusChangeWritten(r *Run, rule string, m *Machine) {
	want := map[string]string{"workflow.Block": "UpdateBlock", "workflow.Plan": "UpdatePlan"}
	n := 0
	var states []string
	for st := range m.States {
		states = append(states, st)
	}
	sort.Strings(states)
	for _, st := range states {
		fn := m.States[st]
		if fn == nil {
			continue
		}
		fl, paths, ok := r.flowPaths(rule, fn)
		if !ok {
			continue
		}
		info := fl.Info
		for owner, upd := range want {
			bad := ""
			var bpos token.Pos = fn.Decl.Pos()
			seen := false
			for i := range paths {
				p := &paths[i]
				if p.Exit != ExitReturn {
					continue
				}
				last := -1
				for j, e := range p.Ev {
					if e.Depth > 0 && !strings.HasPrefix(e.From, pkgSM+".finalStates.") {
						continue
					}
					// entering: the object becomes Running. (A failure verdict is deliberately not written by the state that
					// reaches it but by the scope's end state, after its deferred checks — C10-R4.)
					if v, ok := StatusAssign(info, e, owner); ok && v == "workflow.Running" {
						last = j
					}
				}
				if last < 0 {
					continue
				}
				seen = true
				written := false
				for j := last + 1; j < len(p.Ev); j++ {
					e := p.Ev[j]
					if e.Maybe {
						continue
					}
					if name, isU := isUpdaterCall(e); isU && name == upd {
						written = true
					}
					if e.Kind == EvCall && !e.Inlined {
						if k := CalleeKey(e); strings.HasPrefix(k, pkgSM+".") && updatesReachedFrom(r, k)[upd] {
							written = true
						}
					}
				}
				if !written && bad == "" {
					bad = "a path of " + st + " marks the " + strings.TrimPrefix(owner, "workflow.") + " Running and returns without " + upd + " (exit guard " + ExitGuardKey(fl, p) + "): the next state acts on a status that is not durable"
					bpos = p.Ev[last].Pos
				}
			}
			if seen {
				n++
				r.Check(rule, "status-change-written:"+st+":"+strings.TrimPrefix(owner, "workflow."), bpos, bad == "", "%s", orOK(bad, "every status change is followed by the write of the object"))
			}
		}
	}
	if n == 0 {
		r.Unresolved(rule, "state functions assigning a status")
	}
}

// ruleFixFailedGate (round-3 seed C06-6): a gate of a scope (PreChecks, ContChecks, PostChecks) that was durably Failed at the
// crash fails the scope on recovery, whatever else is true of it. Assume "scope Running ∧ G present ∧ G Failed" for
// each gate G in turn and refute: every returning path of the repair function that stays possible leaves the scope
// Failed. Otherwise a block whose first ContChecks run failed while its PreChecks were still running starts over,
// and with a check that passes the second time its sequences run.
func ruleFixFailedGate(r *Run, rule, fnKey, owner string) {
	fn := r.fnByKey(rule, fnKey)
	if fn == nil {
		return
	}
	fl, paths, ok := r.flowPaths(rule, fn)
	if !ok {
		return
	}
	info := fl.Info
	paths = fl.OwnOnly(paths) // the pieces a repair function was split into belong to it
	var subj types.Object
	if ps := fn.Decl.Type.Params; ps != nil && len(ps.List) >= 1 && len(ps.List[len(ps.List)-1].Names) == 1 {
		subj = info.ObjectOf(ps.List[len(ps.List)-1].Names[0])
	}
	if subj == nil {
		r.Unresolved(rule, ShortFn(fnKey)+" subject parameter")
		return
	}
	for _, group := range []string{"PreChecks", "ContChecks", "PostChecks"} {
		isG := func(e ast.Expr) bool {
			b, m := FieldPath(info, e, owner, group)
			return m && ObjOf(info, ast.Unparen(b)) == subj
		}
		gAtom := groupAtoms(info, isG)
		// a scope with a failed gate was not bypassed: its bypass group, if any, is not Completed
		byAtom := groupAtoms(info, func(e ast.Expr) bool {
			b, m := FieldPath(info, e, owner, "BypassChecks")
			return m && ObjOf(info, ast.Unparen(b)) == subj
		})
		atom := func(e ast.Expr) (string, bool, bool) {
			if k, neg, ok := gAtom(e); ok {
				return k, neg, ok
			}
			if k, neg, ok := byAtom(e); ok && (k == "st:workflow.Completed" || k == "absent-or-completed") {
				return "bypass-completed", neg, true
			}
			// the subject itself is Running (the prologue returns otherwise)
			if neg, ok := EqAtom(info, e, func(x ast.Expr) bool {
				b, m := FieldPath(info, x, owner, "State", "Status")
				return m && ObjOf(info, ast.Unparen(b)) == subj
			}, "workflow.Running"); ok {
				return "subject-running", neg, true
			}
			return "", false, false
		}
		asg := groupAssume(true, "workflow.Failed")
		asg["subject-running"] = true
		asg["bypass-completed"] = false
		bad := ""
		var bpos token.Pos = fn.Decl.Pos()
		n := 0
		for i := range paths {
			p := &paths[i]
			if p.Exit != ExitReturn || PathRefuted(fl, p, -1, asg, atom) {
				continue
			}
			last := ""
			infeasible := false
			for _, e := range p.Ev {
				if e.Kind == EvBranch && last != "" && e.Depth == 0 {
					// the path tests the status it has itself assigned to the subject: only the agreeing direction is possible
					for _, l := range EventLiterals(info, e) {
						if b, m := FieldPath(info, l.X, owner, "State", "Status"); m && ObjOf(info, ast.Unparen(b)) == subj && strings.HasPrefix(l.Val, "workflow.") && (l.Val == last) != l.Eq {
							infeasible = true
						}
					}
				}
				if e.Kind != EvAssign || len(e.Lhs) != len(e.Rhs) || e.Depth > 0 {
					continue
				}
				for k, l := range e.Lhs {
					if b, m := FieldPath(info, l, owner, "State", "Status"); m && ObjOf(info, ast.Unparen(b)) == subj {
						last = ValueKey(info, e.Rhs[k])
					}
				}
			}
			if infeasible {
				continue
			}
			n++
			if last != "workflow.Failed" && last != "workflow.Stopped" && bad == "" {
				bad = "a path of " + ShortFn(fnKey) + " is possible for a Running scope whose " + group + " are present and Failed and leaves the scope " + orOK(strings.TrimPrefix(last, "workflow."), "Running") + " (exit guard " + ExitGuardKey(fl, p) + "): the failed gate is forgotten, the scope starts over or goes on, and its sequences can run"
				for _, e := range p.Ev {
					if e.Kind == EvReturn && !e.Deferred && e.Depth == 0 {
						bpos = e.Pos
					}
				}
			}
		}
		if n == 0 {
			r.Unresolved(rule, ShortFn(fnKey)+" returning path for Failed "+group)
			continue
		}
		r.Check(rule, ShortFn(fnKey)+":failed-"+group+"-fails-the-scope", bpos, bad == "", "%s", orOK(bad, "Running ∧ "+group+" Failed ⇒ scope Failed on every path"))
	}
}

// ruleMarksRunning (mutation sweep, session 2): whoever starts a piece of work marks its object Running first. Start-up
// recovery resumes exactly what the store shows as Running (C11-R1) and repairs only Running objects (C09-R3), so an object
// that is being executed while still stored NotStarted is invisible to both: after a crash the plan is never resumed.
// On every path of fn on which `acts` holds (the path goes on to execute), X.State.Status = Running is assigned for an
// X of type owner before the act.
func ruleMarksRunning(r *Run, rule, fnKey, owner string, acts func(fl *Flow, p *Path) int, what string) {
	fn := r.fnByKey(rule, fnKey)
	if fn == nil {
		return
	}
	fl, paths, ok := r.flowPaths(rule, fn)
	if !ok {
		return
	}
	info := fl.Info
	bad := ""
	var bpos token.Pos = fn.Decl.Pos()
	n := 0
	for i := range paths {
		p := &paths[i]
		at := acts(fl, p)
		if at < 0 {
			continue
		}
		n++
		marked := false
		for j := 0; j < at && j < len(p.Ev); j++ {
			if v, ok := StatusAssign(info, p.Ev[j], owner); ok {
				marked = v == "workflow.Running"
			}
		}
		// already Running (a recovered object): a test that established it counts
		if !marked {
			for j := 0; j < at && j < len(p.Ev); j++ {
				if st, ok := statusTest(info, p.Ev[j], owner); ok && st == "workflow.Running" && p.Ev[j].Taken {
					marked = true
				}
			}
		}
		if !marked && bad == "" {
			bad = "a path of " + ShortFn(fnKey) + " " + what + " without having marked the " + strings.TrimPrefix(owner, "workflow.") + " Running (exit guard " + ExitGuardKey(fl, p) + "): it executes while the store still shows it as not started, which crash recovery neither resumes nor repairs"
		}
	}
	if n == 0 {
		r.Unresolved(rule, ShortFn(fnKey)+" path that "+what)
		return
	}
	r.Check(rule, "marks-running-before-acting:"+ShortFn(fnKey), bpos, bad == "", "%s", orOK(bad, "Running is assigned before the work starts on every such path"))
}

func ruleMarksRunningAll(r *Run, rule string) {
	nextIs := func(states ...string) func(fl *Flow, p *Path) int {
		return func(fl *Flow, p *Path) int {
			if p.Exit != ExitReturn {
				return -1
			}
			nx := nextOf(fl, p)
			for _, s := range states {
				if nx == s {
					return len(p.Ev)
				}
			}
			return -1
		}
	}
	firstCall := func(key string) func(fl *Flow, p *Path) int {
		return func(fl *Flow, p *Path) int {
			for j, e := range p.Ev {
				if IsCall(e, key) && !e.Deferred {
					return j
				}
			}
			return -1
		}
	}
	ruleMarksRunning(r, rule, smKey("Start"), "workflow.Plan", nextIs("PlanBypassChecks"), "goes on to execute the plan")
	ruleMarksRunning(r, rule, smKey("ExecuteBlock"), "workflow.Block", nextIs("BlockBypassChecks"), "enters the block")
	ruleMarksRunning(r, rule, smKey("execSeq"), "workflow.Sequence", firstCall(smKey("runAction")), "runs the actions of the sequence")
}

// ruleGroupRunsWhenPending (mutation sweep, session 2): a check state runs its group whenever the group is present and has
// not run yet. Assume "present ∧ NotStarted" and refute: every returning path of the state that stays possible calls
// runChecksOnce on the group (or runPreChecks with the group as its pre-check argument). The rules that existed only
// asked that the state *can* run its group; negating the skip guard of PlanDeferredChecks, or comparing the status of
// a block's PreChecks the wrong way round, skipped the group for every ordinary plan and was silent.
func ruleGroupRunsWhenPending(r *Run, rule, fnKey, owner, group string) {
	fn := r.fnByKey(rule, fnKey)
	if fn == nil {
		return
	}
	fl, paths, ok := r.flowPaths(rule, fn)
	if !ok {
		return
	}
	info := fl.Info
	isG := fieldMatcher(info, owner, group)
	atom := groupAtoms(info, isG)
	asg := groupAssume(true, "workflow.NotStarted")
	bad := ""
	var bpos token.Pos = fn.Decl.Pos()
	n := 0
	for i := range paths {
		p := &paths[i]
		if p.Exit != ExitReturn || PathRefuted(fl, p, -1, asg, atom) {
			continue
		}
		n++
		ran := false
		for _, e := range p.Ev {
			if e.Kind != EvCall || e.Call == nil || e.Deferred {
				continue
			}
			if IsCall(e, smKey("runChecksOnce")) {
				for _, a := range e.Call.Args {
					if isG(ast.Unparen(a)) {
						ran = true
					}
				}
			}
			if IsCall(e, smKey("runPreChecks")) && len(e.Call.Args) >= 2 && isG(ast.Unparen(e.Call.Args[1])) {
				ran = true
			}
			if IsCall(e, smKey("runBypasses")) && len(e.Call.Args) >= 2 && isG(ast.Unparen(e.Call.Args[1])) {
				ran = true
			}
		}
		// post-checks are what a scope runs when everything else went well: a path on which the scope has already failed
		// (it records a non-nil error in Data.err or marks the scope Failed) may leave them out. Deferred checks and
		// pre-checks have no such excuse.
		if !ran && group == "PostChecks" {
			for j, e := range p.Ev {
				if e.Kind != EvAssign || len(e.Lhs) != len(e.Rhs) {
					continue
				}
				for k, l := range e.Lhs {
					if _, m := FieldPath(info, l, "sm.Data", "err"); m && NilnessAt(info, p, j, e.Rhs[k]) != "nil" {
						ran = true
					}
				}
				if v, ok := StatusAssign(info, e, owner); ok && v == "workflow.Failed" {
					ran = true
				}
			}
		}
		if !ran && bad == "" {
			bad = "a path of " + ShortFn(fnKey) + " (successor " + nextOf(fl, p) + ", exit guard " + ExitGuardKey(fl, p) + ") is possible for a scope whose " + group + " are present and have not run, and does not run them"
			for _, e := range p.Ev {
				if e.Kind == EvReturn && !e.Deferred && e.Depth == 0 {
					bpos = e.Pos
				}
			}
		}
	}
	if n == 0 {
		r.Unresolved(rule, ShortFn(fnKey)+" returning path for pending "+group)
		return
	}
	r.Check(rule, ShortFn(fnKey)+":pending-"+group+"-always-run", bpos, bad == "", "%s", orOK(bad, "present ∧ NotStarted ⇒ the group is run on every path"))
}

func ruleGroupsRunWhenPendingAll(r *Run, rule string, which ...string) {
	all := [][3]string{
		{"PlanPreChecks", "workflow.Plan", "PreChecks"}, {"BlockPreChecks", "workflow.Block", "PreChecks"},
		{"PlanPostChecks", "workflow.Plan", "PostChecks"}, {"BlockPostChecks", "workflow.Block", "PostChecks"},
		{"PlanDeferredChecks", "workflow.Plan", "DeferredChecks"}, {"BlockDeferredChecks", "workflow.Block", "DeferredChecks"},
	}
	for _, a := range all {
		if len(which) > 0 && !inSet(which, a[2]) {
			continue
		}
		ruleGroupRunsWhenPending(r, rule, smKey(a[0]), a[1], a[2])
	}
}

// ruleSelfLoopMakesProgress (mutation sweep): ExecuteBlock follows itself when the head block is already finished (after
// recovery). On every path that takes this self-edge the queue of blocks shrinks — Data.blocks is assigned its tail or
// nil — otherwise the machine spins on the same finished block for ever and the plan never ends.
func ruleSelfLoopMakesProgress(r *Run, rule string) {
	fn := r.fnByKey(rule, smKey("ExecuteBlock"))
	if fn == nil {
		return
	}
	fl, paths, ok := r.flowPaths(rule, fn)
	if !ok {
		return
	}
	info := fl.Info
	bad := ""
	n := 0
	for i := range paths {
		p := &paths[i]
		if p.Exit != ExitReturn || nextOf(fl, p) != "ExecuteBlock" {
			continue
		}
		n++
		shrinks := false
		for _, e := range p.Ev {
			if e.Kind != EvAssign || len(e.Lhs) != len(e.Rhs) {
				continue
			}
			for k, l := range e.Lhs {
				if _, m := FieldPath(info, l, "sm.Data", "blocks"); !m {
					continue
				}
				// what is assigned: in place, or every value a small helper can return (popBlock)
				alts := r.P.Alternatives(info, e.Rhs[k], 0)
				all := len(alts) > 0
				for _, a := range alts {
					rhs := ast.Unparen(a)
					okA := ValueKey(info, rhs) == "nil"
					if se, ok := rhs.(*ast.SliceExpr); ok && se.Low != nil {
						if k, isC := ConstInt(info, se.Low); isC && k >= 1 {
							okA = true
						}
					}
					if !okA {
						all = false
					}
				}
				if all {
					shrinks = true
				}
			}
		}
		if !shrinks && bad == "" {
			bad = "a path of ExecuteBlock goes back to ExecuteBlock without removing the head block from Data.blocks (exit guard " + ExitGuardKey(fl, p) + "): the machine spins on the same block, the plan never ends"
		}
	}
	if n == 0 {
		r.Unresolved(rule, "ExecuteBlock path that follows itself")
		return
	}
	r.Check(rule, "ExecuteBlock:self-loop-shrinks-the-queue", fn.Decl.Pos(), bad == "", "%s", orOK(bad, "the head block is removed on every self-edge"))
}

// ruleCancelStoredBack (mutation sweep): the cancel function of the block's continuous checks must end up where BlockEnd will
// look for it. The head block is a struct VALUE in Data.blocks; BlockStartContChecks works on a copy, so on every path
// that submits the continuous checks either the cancel function is assigned through Data.blocks[0] directly or the
// modified copy is assigned back to Data.blocks[0]. Without it BlockEnd finds no cancel function, neither cancels nor
// drains, and the continuous checks keep running — and writing — after the block and the plan have ended.
func ruleCancelStoredBack(r *Run, rule string) {
	fn := r.fnByKey(rule, smKey("BlockStartContChecks"))
	if fn == nil {
		return
	}
	fl, paths, ok := r.flowPaths(rule, fn)
	if !ok {
		return
	}
	info := fl.Info
	bad := ""
	n := 0
	for i := range paths {
		p := &paths[i]
		if p.Exit != ExitReturn {
			continue
		}
		submits := false
		for _, e := range p.Ev {
			if IsCall(e, keySubmit) || IsCall(e, keyGroupGo) || e.Kind == EvGo {
				submits = true
			}
		}
		if !submits {
			continue
		}
		n++
		var copyObj types.Object
		stored := false
		for _, e := range p.Ev {
			if e.Kind != EvAssign {
				continue
			}
			for k, l := range e.Lhs {
				if sel, ok := ast.Unparen(l).(*ast.SelectorExpr); ok && sel.Sel.Name == "contCancel" {
					if o := ObjOf(info, sel.X); o != nil {
						if _, isPtr := o.Type().Underlying().(*types.Pointer); isPtr {
							stored = true // through a pointer to the block in the queue
						} else {
							copyObj = o
						}
					} else if strings.Contains(ExprStr(sel.X), "blocks[") {
						stored = true
					}
				}
				if ix, ok := ast.Unparen(l).(*ast.IndexExpr); ok && len(e.Rhs) == len(e.Lhs) {
					if _, m := FieldPath(info, ix.X, "sm.Data", "blocks"); m && copyObj != nil && ObjOf(info, e.Rhs[k]) == copyObj {
						stored = true
					}
				}
			}
		}
		if !stored && bad == "" {
			bad = "a path of BlockStartContChecks starts the block's continuous checks but the cancel function stays in a local copy of the block (never assigned back to Data.blocks[0]; exit guard " + ExitGuardKey(fl, p) + "): BlockEnd finds contCancel nil, does not cancel or drain, the checks run on after the block and the plan have ended"
		}
	}
	if n == 0 {
		r.Unresolved(rule, "BlockStartContChecks path that submits the continuous checks")
		return
	}
	r.Check(rule, "BlockStartContChecks:cancel-stored-in-the-queue", fn.Decl.Pos(), bad == "", "%s", orOK(bad, "the cancel function reaches Data.blocks[0] on every spawning path"))
}

// ruleLaunchLoopPassesFinished (mutation sweep): in the launch loop of ExecuteSequences a sequence that is already finished
// (after recovery) is passed over and the loop goes on with the next one. Assume "sequence Completed" / "sequence Failed"
// and look at the loop iterations that stay possible: they end at the loop header, never by leaving the loop or
// returning — `break` instead of `continue` ended the block with its remaining sequences never started.
func ruleLaunchLoopPassesFinished(r *Run, rule string) {
	fn := r.fnByKey(rule, smKey("ExecuteSequences"))
	if fn == nil {
		return
	}
	fl, paths, ok := r.flowPaths(rule, fn)
	if !ok {
		return
	}
	info := fl.Info
	var rs *ast.RangeStmt
	ast.Inspect(fn.Decl.Body, func(x ast.Node) bool {
		if l, ok := x.(*ast.RangeStmt); ok && rs == nil {
			if _, m := FieldPath(info, l.X, "workflow.Block", "Sequences"); m {
				// the launch loop, not the loop that pre-counts stored failures
				launches := false
				ast.Inspect(l.Body, func(y ast.Node) bool {
					if c, ok := y.(*ast.CallExpr); ok {
						if f, ok := calleeFunc(info, c); ok && FuncKey(f) == keyGroupGo {
							launches = true
						}
					}
					return !launches
				})
				if launches {
					rs = l
				}
			}
		}
		return true
	})
	if rs == nil {
		r.Unresolved(rule, "ExecuteSequences loop over the block's Sequences")
		return
	}
	isStatus := func(x ast.Expr) bool {
		b, m := FieldPath(info, x, "workflow.Sequence", "State", "Status")
		return m && IsLoopElem(info, rs, ast.Unparen(b))
	}
	statuses := []string{"workflow.Completed", "workflow.Failed", "workflow.NotStarted", "workflow.Running", "workflow.Stopped"}
	atom := func(e ast.Expr) (string, bool, bool) {
		for _, st := range statuses {
			if neg, ok := EqAtom(info, e, isStatus, st); ok {
				return "st:" + st, neg, true
			}
		}
		return "", false, false
	}
	bad := ""
	var bpos token.Pos = rs.Pos()
	n := 0
	all := append(append([]Path{}, paths...), fl.Truncated()...)
	for _, fin := range []string{"workflow.Completed", "workflow.Failed"} {
		asg := map[string]bool{}
		for _, st := range statuses {
			asg["st:"+st] = st == fin
		}
		for i := range all {
			p := &all[i]
			for _, sg := range scanSegments(p, rs) {
				if sg.end == "cut" || PathRefutedRange(fl, p, sg.from, sg.to, asg, atom) {
					continue
				}
				// only iterations that actually tested the status are about this rule
				tested := false
				for j := sg.from; j < sg.to; j++ {
					if p.Ev[j].Kind == EvBranch && p.Ev[j].Cond != nil {
						ast.Inspect(p.Ev[j].Cond, func(y ast.Node) bool {
							if x, ok := y.(ast.Expr); ok && isStatus(x) {
								tested = true
							}
							return !tested
						})
					}
				}
				if !tested {
					continue
				}
				n++
				launched := false
				for j := sg.from; j < sg.to; j++ {
					if IsCall(p.Ev[j], keyGroupGo) {
						launched = true
					}
				}
				if sg.end != "next" && !launched && bad == "" {
					bad = "an iteration of the launch loop that is possible for a sequence already " + strings.TrimPrefix(fin, "workflow.") + " ends with '" + sg.end + "' instead of going on with the next sequence: after a restart the sequences behind a finished one are never started and the block ends as if they had run"
					bpos = p.Ev[sg.from-1].Pos
				}
			}
		}
	}
	if n == 0 {
		r.Unresolved(rule, "launch-loop iterations that test the sequence status")
		return
	}
	r.Check(rule, "ExecuteSequences:finished-sequence-does-not-end-the-loop", bpos, bad == "", "%s", orOK(bad, "a finished sequence sends the loop on to the next one"))
}

// ruleFixSeqVerdicts (mutation sweep): fixSeq classifies a sequence caught Running by counting its actions by status. The
// counters are recognised by the status case they are incremented under. On every path: the sequence is given the status
// Completed only after the path established `<completed counter> == len(Actions)`; a path that established `<failed
// counter> > 0` gives it Failed (swapping the constant, or dropping the assignment, made a sequence with a failed action
// Completed — the failure no longer counts against the block's tolerance).
func ruleFixSeqVerdicts(r *Run, rule string) {
	fn := r.fnByKey(rule, pkgSM+".fixSeq")
	if fn == nil {
		return
	}
	fl, paths, ok := r.flowPaths(rule, fn)
	if !ok {
		return
	}
	paths = OwnOnly(paths)
	info := fl.Info
	// counters by the status case they are incremented under
	counter := map[types.Object]string{}
	ast.Inspect(fn.Decl.Body, func(x ast.Node) bool {
		cc, ok := x.(*ast.CaseClause)
		if !ok {
			return true
		}
		st := ""
		for _, v := range cc.List {
			if k := ValueKey(info, v); strings.HasPrefix(k, "workflow.") {
				st = k
			}
		}
		if st == "" {
			return true
		}
		for _, s := range cc.Body {
			if id, ok := s.(*ast.IncDecStmt); ok && id.Tok == token.INC {
				if o := ObjOf(info, id.X); o != nil {
					counter[o] = st
				}
			}
		}
		return true
	})
	var failedC, completedC types.Object
	for o, st := range counter {
		switch st {
		case "workflow.Failed":
			failedC = o
		case "workflow.Completed":
			completedC = o
		}
	}
	if failedC == nil || completedC == nil {
		r.Unresolved(rule, "fixSeq counts its Failed and Completed actions")
		return
	}
	mentions := func(e ast.Expr, o types.Object) bool { return mentionsObj(info, e, o) }
	badF, badC := "", ""
	var pF, pC token.Pos = fn.Decl.Pos(), fn.Decl.Pos()
	nF, nC := 0, 0
	for i := range paths {
		p := &paths[i]
		if p.Exit != ExitReturn {
			continue
		}
		failedSeen, allCompleted := false, false
		last := ""
		var lastPos token.Pos
		for _, e := range p.Ev {
			if e.Kind == EvBranch && e.Cond != nil && e.Taken {
				c := ast.Unparen(e.Cond)
				if be, ok := c.(*ast.BinaryExpr); ok {
					if be.Op == token.GTR && mentions(be.X, failedC) {
						if k, isC := ConstInt(info, be.Y); isC && k == 0 {
							failedSeen = true
						}
					}
					if be.Op == token.EQL && mentions(be.X, completedC) && strings.HasPrefix(ExprStr(be.Y), "len(") {
						allCompleted = true
					}
				}
			}
			if v, ok := StatusAssign(info, e, "workflow.Sequence"); ok {
				last, lastPos = v, e.Pos
			}
		}
		if failedSeen {
			nF++
			if last != "workflow.Failed" && badF == "" {
				badF, pF = "on the path that established "+failedC.Name()+" > 0 the sequence is left "+orOK(strings.TrimPrefix(last, "workflow."), "Running")+": a sequence with a durably failed action is not recorded as Failed, its failure does not count against the tolerance of the block", fn.Decl.Pos()
				if lastPos.IsValid() {
					pF = lastPos
				}
			}
		}
		if last == "workflow.Completed" {
			nC++
			if !allCompleted && badC == "" {
				badC, pC = "the sequence is given the status Completed on a path that did not establish "+completedC.Name()+" == len(Actions) (exit guard "+ExitGuardKey(fl, p)+")", lastPos
			}
		}
	}
	if nF == 0 || nC == 0 {
		r.Unresolved(rule, "fixSeq paths for failed / all-completed actions")
		return
	}
	r.Check(rule, "fixSeq:failed-action-fails-the-sequence", pF, badF == "", "%s", orOK(badF, "failed > 0 ⇒ Failed"))
	r.Check(rule, "fixSeq:completed-only-if-every-action-completed", pC, badC == "", "%s", orOK(badC, "Completed ⇒ completed == len(Actions)"))
}

// ruleFixPlanCompletedOnlyIfChecksDone (mutation sweep): recovery declares a plan Completed — and thereby sends it straight to
// End — only if its PostChecks and its DeferredChecks are both absent or Completed. Assume "G present ∧ NotStarted" for
// each of the two and refute: no path that stays possible assigns Completed to the plan (`&&` → `||` completed a plan
// whose deferred checks had never run).
func ruleFixPlanCompletedOnlyIfChecksDone(r *Run, rule string) {
	fn := r.fnByKey(rule, smKey("fixPlan"))
	if fn == nil {
		return
	}
	fl, paths, ok := r.flowPaths(rule, fn)
	if !ok {
		return
	}
	paths = fl.OwnOnly(paths)
	info := fl.Info
	var subj types.Object
	if ps := fn.Decl.Type.Params; ps != nil && len(ps.List) >= 1 && len(ps.List[len(ps.List)-1].Names) == 1 {
		subj = info.ObjectOf(ps.List[len(ps.List)-1].Names[0])
	}
	for _, group := range []string{"PostChecks", "DeferredChecks"} {
		isG := func(e ast.Expr) bool {
			b, m := FieldPath(info, e, "workflow.Plan", group)
			return m && (subj == nil || ObjOf(info, ast.Unparen(b)) == subj)
		}
		gAtom := groupAtoms(info, isG)
		byAtom := groupAtoms(info, fieldMatcher(info, "workflow.Plan", "BypassChecks"))
		atom := func(e ast.Expr) (string, bool, bool) {
			if k, neg, ok := gAtom(e); ok {
				return k, neg, ok
			}
			if k, neg, ok := byAtom(e); ok && (k == "st:workflow.Completed" || k == "absent-or-completed") {
				return "bypass-completed", neg, true
			}
			return "", false, false
		}
		asg := groupAssume(true, "workflow.NotStarted")
		asg["bypass-completed"] = false // a bypassed plan is Completed without its other groups, rightly
		bad := ""
		var bpos token.Pos = fn.Decl.Pos()
		n := 0
		for i := range paths {
			p := &paths[i]
			if p.Exit != ExitReturn || PathRefuted(fl, p, -1, asg, atom) {
				continue
			}
			n++
			for _, e := range p.Ev {
				if v, ok := StatusAssign(info, e, "workflow.Plan"); ok && v == "workflow.Completed" && bad == "" {
					bad, bpos = "a path of fixPlan is possible for a plan whose "+group+" are present and have not run, and declares the plan Completed (exit guard "+ExitGuardKey(fl, p)+"): Recovery sends it to End, the "+group+" never run", e.Pos
				}
			}
		}
		if n == 0 {
			r.Unresolved(rule, "fixPlan returning path for pending "+group)
			continue
		}
		r.Check(rule, "fixPlan:completed-only-with-"+group+"-done", bpos, bad == "", "%s", orOK(bad, "pending "+group+" ⇒ the plan is not declared Completed"))
	}
}

// ruleExecSeqFailedReturnsError (mutation sweep): execSeq answers for a sequence that is already Failed with an error — the
// one recorded for an action the path established to be Failed, or a fresh one. Returning the last attempt's error of
// some other action hands back nil (or indexes an empty attempt list): the launcher then counts the failed sequence as
// a success.
func ruleExecSeqFailedReturnsError(r *Run, rule string) {
	fn := r.fnByKey(rule, smKey("execSeq"))
	if fn == nil {
		return
	}
	fl, paths, ok := r.flowPaths(rule, fn)
	if !ok {
		return
	}
	paths = OwnOnly(paths)
	info := fl.Info
	bad := ""
	var bpos token.Pos = fn.Decl.Pos()
	n := 0
	for i := range paths {
		p := &paths[i]
		if p.Exit != ExitReturn {
			continue
		}
		seqFailed := false
		var failedAction types.Object
		for j, e := range p.Ev {
			if st, ok := statusTest(info, e, "workflow.Sequence"); ok && st == "workflow.Failed" && e.Taken {
				seqFailed = true
			}
			if seqFailed {
				for _, l := range EventLiterals(info, e) {
					if b, m := FieldPath(info, l.X, "workflow.Action", "State", "Status"); m && l.Val == "workflow.Failed" && l.Eq {
						failedAction = ObjOf(info, ast.Unparen(b))
					}
				}
			}
			if !seqFailed || e.Kind != EvReturn || e.Deferred || len(e.Rhs) != 1 {
				continue
			}
			n++
			res := e.Rhs[0]
			okR := freshNonNil(info, res) || NilnessAt(info, p, j, res) == "nonnil"
			if !okR && failedAction != nil && mentionsObj(info, res, failedAction) {
				okR = true
			}
			if !okR && bad == "" {
				bad, bpos = "for a sequence that is already Failed execSeq returns "+ExprStr(res)+", which is neither a fresh error nor the error of an action the path established to be Failed: it can be nil, and the failed sequence then counts as a success", e.Pos
			}
		}
	}
	if n == 0 {
		r.Unresolved(rule, "execSeq return for an already Failed sequence")
		return
	}
	r.Check(rule, "execSeq:failed-sequence-returns-its-failure", bpos, bad == "", "%s", orOK(bad, "the error of a Failed action, or a fresh one"))
}

// ruleRunnerStartSilentStop (mutation sweep): the action machine may stop in Start without an error only for an action the
// path established to be Completed or Failed (runAction reports those itself). Any other silent stop — a recovered
// Running action whose successor was dropped, an unsupported status whose error was dropped — makes runAction answer
// nil for an action that never ran: the sequence goes on to the next action.
func ruleRunnerStartSilentStop(r *Run, rule string) {
	fn := r.fnByKey(rule, actKey("Runner.Start"))
	if fn == nil {
		return
	}
	fl, paths, ok := r.flowPaths(rule, fn)
	if !ok {
		return
	}
	info := fl.Info
	bad := ""
	var bpos token.Pos = fn.Decl.Pos()
	n := 0
	for i := range paths {
		p := &paths[i]
		if p.Exit != ExitReturn {
			continue
		}
		next, errSet, _ := PathNext(fl, p)
		if next != "nil" || errSet {
			continue
		}
		n++
		terminal := false
		for _, e := range p.Ev {
			if st, ok := statusTest(info, e, "workflow.Action"); ok && e.Taken && (st == "workflow.Completed" || st == "workflow.Failed") {
				terminal = true
			}
		}
		if !terminal && bad == "" {
			bad = "a path of Runner.Start stops the action machine with neither a successor nor an error although it did not establish that the action is Completed or Failed (exit guard " + ExitGuardKey(fl, p) + "): runAction answers nil for an action that never ran"
			for _, e := range p.Ev {
				if e.Kind == EvReturn && !e.Deferred {
					bpos = e.Pos
				}
			}
		}
	}
	if n == 0 {
		r.Unresolved(rule, "Runner.Start path that stops without an error")
		return
	}
	r.Check(rule, "Runner.Start:silent-stop-only-for-finished-actions", bpos, bad == "", "%s", orOK(bad, "stops silently only for Completed/Failed"))
}

// ruleRunStartsFromEmptyAttempts (blind spot of the first mutation sweep, closed in session 4): a check group is run many
// times — its ContChecks for the whole life of the scope — and every run goes through Runner.exec, whose only bound is
// `len(Attempts) > Retries`. The attempts recorded by the previous run therefore have to be gone before the next one starts:
// otherwise the (Retries+2)-th run of a continuous check is refused with a permanent error although its plugin never failed,
// the scope is failed for a check that passed, and the attempts of one run are reported as those of another. On every path of
// runChecksOnce that reaches runActionsParallel, every iteration of a loop over the group's actions that precedes the call
// empties the element's Attempts, and such a loop exists (in place, in resetActions, or in any helper: the events are inlined).
func ruleRunStartsFromEmptyAttempts(r *Run, rule string) {
	fn := r.fnByKey(rule, smKey("runChecksOnce"))
	if fn == nil {
		return
	}
	fl, paths, ok := r.flowPaths(rule, fn)
	if !ok {
		return
	}
	info := fl.Info
	empties := func(e ast.Expr) bool {
		e = ast.Unparen(e)
		if ValueKey(info, e) == "nil" {
			return true
		}
		switch x := e.(type) {
		case *ast.CompositeLit:
			return len(x.Elts) == 0
		case *ast.SliceExpr:
			return x.Low == nil && x.High != nil && ValueKey(info, x.High) == "0" || isZeroLit(x.High)
		case *ast.CallExpr:
			if id, ok := x.Fun.(*ast.Ident); ok && id.Name == "make" && len(x.Args) >= 2 {
				return isZeroLit(x.Args[1])
			}
		}
		return false
	}
	bad := ""
	var bpos token.Pos = fn.Decl.Pos()
	n, withLoop := 0, 0
	for i := range paths {
		p := &paths[i]
		if p.Exit != ExitReturn {
			continue
		}
		hook, ci := false, -1
		for j, e := range p.Ev {
			if Establishes(info, e, fieldMatcher(info, "", "testChecksRunner"), "nil", false) {
				hook = true
			}
			if ci < 0 && IsCall(e, smKey("runActionsParallel")) {
				ci = j
			}
		}
		if hook || ci < 0 {
			continue
		}
		n++
		// iterations of loops over []*workflow.Action before the call
		type iter struct {
			rs      *ast.RangeStmt
			cleared bool
			pos     token.Pos
		}
		var its []iter
		cur := map[*ast.RangeStmt]int{}
		for j := 0; j < ci; j++ {
			e := p.Ev[j]
			if e.Kind == EvRange {
				rs, _ := e.Clause.(*ast.RangeStmt)
				if rs == nil {
					continue
				}
				if !e.Taken {
					delete(cur, rs)
					continue
				}
				if tv, ok := info.Types[rs.X]; ok && isSliceOf(tv.Type, "workflow.Action") {
					its = append(its, iter{rs: rs, pos: e.Pos})
					cur[rs] = len(its) - 1
				}
				continue
			}
			if e.Kind != EvAssign || len(e.Lhs) != len(e.Rhs) {
				continue
			}
			for k, l := range e.Lhs {
				base, m := FieldPath(info, l, "", "Attempts")
				if !m || !empties(e.Rhs[k]) {
					continue
				}
				for rs, idx := range cur {
					if IsLoopElem(info, rs, base) {
						its[idx].cleared = true
					}
				}
			}
		}
		if len(its) > 0 {
			withLoop++
		}
		for _, it := range its {
			if !it.cleared && bad == "" {
				bad, bpos = "on a path of runChecksOnce (exit guard "+ExitGuardKey(fl, p)+") an action of the group keeps the attempts of its previous run when runActionsParallel starts the next one: Runner.exec counts them against Retries, so the run after the "+
					"(Retries+1)-th is refused with a permanent error although the plugin never failed", it.pos
			}
		}
	}
	if n == 0 {
		r.Unresolved(rule, "runChecksOnce path that reaches runActionsParallel")
		return
	}
	if withLoop == 0 && bad == "" {
		bad = "no path of runChecksOnce empties the Attempts of the group's actions before runActionsParallel: every run of a check group is counted against the Retries of the runs before it"
	}
	r.Check(rule, "runChecksOnce:run-starts-from-empty-attempts", bpos, bad == "", "%s", orOK(bad, "every action's Attempts are emptied before the group is run"))
}

func isZeroLit(e ast.Expr) bool {
	if e == nil {
		return false
	}
	bl, ok := ast.Unparen(e).(*ast.BasicLit)
	return ok && bl.Value == "0"
}

func isSliceOf(t types.Type, elem string) bool {
	sl, ok := t.Underlying().(*types.Slice)
	return ok && ShortType(sl.Elem()) == elem
}

// ruleTerminalGroupNotRerun (round-4 seed C09-7): a plan-level post- or deferred-check state never runs a group again whose
// verdict is already durable. The plan's verdict is derived in End from the stored statuses of its groups, and fixPlan does
// not look at the outcome of the deferred checks: a Failed (or Completed) group found by a restarted plan is the verdict —
// running it again invokes the check plugins a second time, resets the group, and a check that passes this time turns a plan
// whose deferred checks had durably failed into a Completed one. Assume "present ∧ Failed" / "present ∧ Completed" and
// refute: no returning path that stays possible calls runChecksOnce on the group.
func ruleTerminalGroupNotRerun(r *Run, rule, fnKey, group string) {
	fn := r.fnByKey(rule, fnKey)
	if fn == nil {
		return
	}
	fl, paths, ok := r.flowPaths(rule, fn)
	if !ok {
		return
	}
	info := fl.Info
	isG := fieldMatcher(info, "workflow.Plan", group)
	atom := groupAtoms(info, isG)
	for _, st := range []string{"workflow.Failed", "workflow.Completed"} {
		asg := groupAssume(true, st)
		bad := ""
		var bpos token.Pos = fn.Decl.Pos()
		n := 0
		for i := range paths {
			p := &paths[i]
			if p.Exit != ExitReturn || PathRefuted(fl, p, -1, asg, atom) {
				continue
			}
			n++
			for _, e := range p.Ev {
				if IsCall(e, smKey("runChecksOnce")) && e.Call != nil && bad == "" {
					for _, a := range e.Call.Args {
						if isG(ast.Unparen(a)) {
							bad, bpos = "a path of "+ShortFn(fnKey)+" that is possible for a plan whose "+group+" are present and already "+strings.TrimPrefix(st, "workflow.")+" runs them again (exit guard "+ExitGuardKey(fl, p)+"): after a crash behind the write of the group its durable verdict is thrown away and the check plugins are invoked a second time", e.Pos
						}
					}
				}
			}
		}
		if n == 0 {
			r.Unresolved(rule, ShortFn(fnKey)+" has a returning path for a present, "+st+" "+group)
			continue
		}
		r.Check(rule, ShortFn(fnKey)+":"+strings.TrimPrefix(st, "workflow.")+"-"+group+"-not-run-again", bpos, bad == "", "%s", orOK(bad, "a group whose verdict is durable is not run again"))
	}
}

// ruleRunActionWritesVerdict (round-4 seed C08-8): whatever runAction answers for an action is durable when it answers. After a
// crash fixAction gives an action stored Running with a finished attempt its verdict in memory only, fixBlock goes on with
// the sequence at once, and runAction returns immediately for such an action: its write is the only thing that makes the
// verdict durable before the next action of the sequence is invoked. Every returning path of runAction (the test hook aside)
// writes the action, in place or deferred, or hands it to the action machine, whose End writes it.
func ruleRunActionWritesVerdict(r *Run, rule string) {
	fn := r.fnByKey(rule, smKey("runAction"))
	if fn == nil {
		return
	}
	fl, paths, ok := r.flowPaths(rule, fn)
	if !ok {
		return
	}
	info := fl.Info
	bad := ""
	var bpos token.Pos = fn.Decl.Pos()
	n := 0
	for i := range paths {
		p := &paths[i]
		if p.Exit != ExitReturn {
			continue
		}
		hook, wrote := false, false
		for _, e := range p.Ev {
			if Establishes(info, e, fieldMatcher(info, "", "testActionRunner"), "nil", false) {
				hook = true
			}
			if name, ok := isUpdaterCall(e); ok && name == "UpdateAction" && !e.Maybe {
				wrote = true
			}
			// a path that hands the action to the action machine is written by that machine (Runner.End, C08-R2)
			if e.Kind == EvCall && strings.HasSuffix(CalleeKey(e), "statemachine.Run") {
				wrote = true
			}
		}
		if hook {
			continue
		}
		n++
		if !wrote && bad == "" {
			bad = "a path of runAction returns without writing the action (exit guard " + ExitGuardKey(fl, p) + "): a verdict recovery gave the action in memory is acted upon — the next action of the sequence is invoked — while the store still shows the action Running"
			for _, e := range p.Ev {
				if e.Kind == EvReturn && !e.Deferred && e.Depth == 0 {
					bpos = e.Pos
				}
			}
		}
	}
	if n == 0 {
		r.Unresolved(rule, "returning paths of runAction")
		return
	}
	r.Check(rule, "runAction:verdict-written-on-every-exit", bpos, bad == "", "%s", orOK(bad, "UpdateAction on every returning path"))
}
