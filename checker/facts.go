package main

import (
	"go/ast"
	"go/token"
	"go/types"
	"strings"
)

// facts is the tiny abstract store used to prune infeasible paths: for an
// identifier or selector chain (rendered as text) it remembers "nil", "nonnil"
// or the key of the constant last assigned/compared equal.
type facts map[string]string

func (fa facts) clone() facts {
	out := make(facts, len(fa))
	for k, v := range fa {
		out[k] = v
	}
	return out
}

func chainKey(e ast.Expr) string {
	e = ast.Unparen(e)
	switch x := e.(type) {
	case *ast.Ident:
		if x.Name == "_" {
			return ""
		}
		return x.Name
	case *ast.SelectorExpr:
		b := chainKey(x.X)
		if b == "" {
			return ""
		}
		return b + "." + x.Sel.Name
	}
	return ""
}

func (fa facts) kill(key string) {
	if key == "" {
		return
	}
	for k := range fa {
		if k == key || strings.HasPrefix(k, key+".") {
			delete(fa, k)
		}
	}
}

func (fa facts) killFields() {
	for k := range fa {
		if strings.Contains(k, ".") {
			delete(fa, k)
		}
	}
}

func absValue(info *types.Info, e ast.Expr) string {
	e = ast.Unparen(e)
	switch x := e.(type) {
	case *ast.UnaryExpr:
		if x.Op == token.AND {
			return "nonnil"
		}
	case *ast.CompositeLit:
		if tv, ok := info.Types[x]; ok {
			switch tv.Type.Underlying().(type) {
			case *types.Slice, *types.Map:
				return "nonnil"
			}
		}
		return ""
	case *ast.CallExpr:
		if f, ok := calleeFunc(info, x); ok {
			switch FuncKey(f) {
			case "fmt.Errorf", "errors.New":
				return "nonnil"
			}
		}
		return ""
	}
	v := ValueKey(info, e)
	if v == "nil" {
		return "nil"
	}
	if v != "" && !strings.HasPrefix(v, "method:") && !strings.HasPrefix(v, "func:") {
		return "const:" + v
	}
	return ""
}

func calleeFunc(info *types.Info, call *ast.CallExpr) (*types.Func, bool) {
	var id *ast.Ident
	switch fn := ast.Unparen(call.Fun).(type) {
	case *ast.Ident:
		id = fn
	case *ast.SelectorExpr:
		id = fn.Sel
	}
	if id == nil {
		return nil, false
	}
	f, ok := info.Uses[id].(*types.Func)
	return f, ok
}

// apply updates the facts with an event; it returns false if the event is a
// branch that contradicts what is known (the path prefix is infeasible).
func (fa facts) apply(info *types.Info, e Event) bool {
	switch e.Kind {
	case EvAssign:
		for i, l := range e.Lhs {
			k := chainKey(l)
			if k == "" {
				continue
			}
			fa.kill(k)
			if len(e.Rhs) == len(e.Lhs) && (e.Tok == token.ASSIGN || e.Tok == token.DEFINE) {
				if v := absValue(info, e.Rhs[i]); v != "" {
					fa[k] = v
				}
				// fields of a composite literal with constant values
				rh := ast.Unparen(e.Rhs[i])
				if u, ok := rh.(*ast.UnaryExpr); ok && u.Op == token.AND {
					rh = ast.Unparen(u.X)
				}
				if cl, ok := rh.(*ast.CompositeLit); ok {
					for _, el := range cl.Elts {
						if kv, ok := el.(*ast.KeyValueExpr); ok {
							if id, ok := kv.Key.(*ast.Ident); ok {
								if v := absValue(info, kv.Value); v != "" {
									fa[k+"."+id.Name] = v
								}
							}
						}
					}
				}
			}
		}
	case EvCall:
		if _, isBuiltin := e.Callee.(*types.Builtin); isBuiltin {
			return true
		}
		switch CalleeKey(e) {
		case "fmt.Errorf", "fmt.Sprintf", "errors.New":
			return true
		}
		fa.killFields()
	case EvRecv, EvSend, EvSelect, EvGo, EvDefer:
		fa.killFields()
	case EvRange:
		if rs, ok := e.Clause.(*ast.RangeStmt); ok {
			fa.kill(chainKey(rs.Key))
			fa.kill(chainKey(rs.Value))
		}
	case EvBranch:
		if e.Cond == nil {
			return true
		}
		if e.Tag != nil {
			// switch tag == case value
			k := chainKey(e.Tag)
			v := absValue(info, e.Cond)
			if k == "" || !strings.HasPrefix(v, "const:") {
				return true
			}
			return fa.assume(k, v, e.Taken)
		}
		return fa.assumeCond(info, e.Cond, e.Taken)
	}
	return true
}

// assume records/checks "key == v" (eq) or "key != v".
func (fa facts) assume(key, v string, eq bool) bool {
	cur, known := fa[key]
	if eq {
		if known {
			if cur == v {
				return true
			}
			if cur == "nonnil" && v != "nil" {
				fa[key] = v
				return true
			}
			if strings.HasPrefix(cur, "not:") {
				if cur == "not:"+v {
					return false
				}
				fa[key] = v
				return true
			}
			return false
		}
		fa[key] = v
		return true
	}
	// key != v
	if known && cur == v {
		return false
	}
	if !known {
		if v == "nil" {
			fa[key] = "nonnil"
		} else {
			fa[key] = "not:" + v
		}
	}
	return true
}

func (fa facts) assumeCond(info *types.Info, cond ast.Expr, truth bool) bool {
	cond = ast.Unparen(cond)
	switch x := cond.(type) {
	case *ast.UnaryExpr:
		if x.Op == token.NOT {
			return fa.assumeCond(info, x.X, !truth)
		}
	case *ast.BinaryExpr:
		switch x.Op {
		case token.LAND:
			if truth {
				return fa.assumeCond(info, x.X, true) && fa.assumeCond(info, x.Y, true)
			}
			return true
		case token.LOR:
			if !truth {
				return fa.assumeCond(info, x.X, false) && fa.assumeCond(info, x.Y, false)
			}
			return true
		case token.EQL, token.NEQ:
			k, v := chainKey(x.X), absValue(info, x.Y)
			if k == "" || v == "" || v == "nonnil" {
				k, v = chainKey(x.Y), absValue(info, x.X)
			}
			if k == "" || v == "" || v == "nonnil" {
				return true
			}
			return fa.assume(k, v, (x.Op == token.EQL) == truth)
		}
		return true
	case *ast.Ident, *ast.SelectorExpr:
		k := chainKey(cond)
		if k == "" {
			return true
		}
		if tv, ok := info.Types[cond]; ok {
			if b, isBasic := tv.Type.Underlying().(*types.Basic); !isBasic || b.Kind() != types.Bool {
				return true
			}
		}
		v := "const:false"
		if truth {
			v = "const:true"
		}
		return fa.assume(k, v, true)
	}
	return true
}
