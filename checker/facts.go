package main

import (
	"go/ast"
	"go/constant"
	"strconv"
	"go/token"
	"go/types"
	"strings"
)

// facts is the tiny abstract store used to prune infeasible paths: for an
// identifier or selector chain (rendered as text) it remembers "nil", "nonnil"
// or the key of the constant last assigned/compared equal.
type facts map[string]string

// volatile names may change behind the path's back (assigned inside a nested
// literal, or their address is taken): no facts are kept about them.
var volatile = map[string]bool{}

func computeVolatile(info *types.Info, body ast.Node) map[string]bool {
	out := map[string]bool{}
	var lits []*ast.FuncLit
	ast.Inspect(body, func(n ast.Node) bool {
		switch x := n.(type) {
		case *ast.FuncLit:
			if ast.Node(x) != body {
				lits = append(lits, x)
			}
		case *ast.UnaryExpr:
			if x.Op == token.AND {
				if k := chainKey(x.X); k != "" {
					out[k] = true
				}
			}
		}
		return true
	})
	for _, l := range lits {
		ast.Inspect(l.Body, func(n ast.Node) bool {
			switch x := n.(type) {
			case *ast.AssignStmt:
				for _, lh := range x.Lhs {
					root := ast.Unparen(lh)
					for {
						if s, ok := root.(*ast.SelectorExpr); ok {
							root = ast.Unparen(s.X)
							continue
						}
						break
					}
					if id, ok := root.(*ast.Ident); ok {
						if o := info.ObjectOf(id); o != nil && (o.Pos() < l.Pos() || o.Pos() > l.End()) {
							out[id.Name] = true
						}
					}
				}
			case *ast.IncDecStmt:
				if id, ok := ast.Unparen(x.X).(*ast.Ident); ok {
					out[id.Name] = true
				}
			}
			return true
		})
	}
	return out
}

func isVolatile(key string) bool {
	if key == "" {
		return false
	}
	root := key
	if i := strings.Index(key, "."); i >= 0 {
		root = key[:i]
	}
	return volatile[root] || volatile[key]
}

func (fa facts) clone() facts {
	out := make(facts, len(fa))
	for k, v := range fa {
		out[k] = v
	}
	return out
}

func chainKey(e ast.Expr) string {
	e = ast.Unparen(e)
	switch x := e.(type) {
	case *ast.Ident:
		if x.Name == "_" {
			return ""
		}
		return x.Name
	case *ast.SelectorExpr:
		b := chainKey(x.X)
		if b == "" {
			return ""
		}
		return b + "." + x.Sel.Name
	}
	return ""
}

func (fa facts) kill(key string) {
	if key == "" {
		return
	}
	for k, v := range fa {
		if k == key || strings.HasPrefix(k, key+".") {
			delete(fa, k)
		}
		// an alias whose defining expression reads key no longer equals that expression
		if strings.HasPrefix(k, "alias:") && mentionsChain(v, key) {
			delete(fa, k)
		}
	}
}

// staleAlias: e contains an expression that replaced an alias variable (canon.go) whose defining
// expression may have changed value since the definition on this path.
func (fa facts) staleAlias(e ast.Expr) bool {
	if e == nil || len(substOrigin) == 0 {
		return false
	}
	stale := false
	ast.Inspect(e, func(n ast.Node) bool {
		if x, ok := n.(ast.Expr); ok {
			if id, ok := substOrigin[x]; ok {
				if _, live := fa["alias:"+id.Name]; !live {
					stale = true
				}
			}
		}
		return !stale
	})
	return stale
}

// killConds forgets memoised conditions that mention name.
func (fa facts) killConds(name string) {
	if name == "" {
		return
	}
	for k := range fa {
		if strings.HasPrefix(k, "cond:") && containsWord(k[5:], name) {
			delete(fa, k)
		}
	}
}

func containsWord(s, w string) bool {
	for i := 0; i+len(w) <= len(s); i++ {
		if s[i:i+len(w)] != w {
			continue
		}
		before := i == 0 || !isIdentChar(s[i-1])
		after := i+len(w) == len(s) || !isIdentChar(s[i+len(w)])
		if before && after {
			return true
		}
	}
	return false
}

func isIdentChar(c byte) bool {
	return c == '_' || c == '.' || (c >= '0' && c <= '9') || (c >= 'a' && c <= 'z') || (c >= 'A' && c <= 'Z')
}

// pureCond: only identifiers, selectors, literals, len() and operators.
func pureCond(e ast.Expr) bool {
	pure := true
	ast.Inspect(e, func(n ast.Node) bool {
		switch x := n.(type) {
		case *ast.CallExpr:
			if id, ok := x.Fun.(*ast.Ident); !ok || id.Name != "len" {
				pure = false
			}
		case *ast.FuncLit, *ast.UnaryExpr:
			if u, ok := x.(*ast.UnaryExpr); ok && (u.Op == token.NOT || u.Op == token.SUB) {
				return true
			}
			pure = false
		case *ast.IndexExpr, *ast.SliceExpr, *ast.StarExpr, *ast.TypeAssertExpr:
			pure = false
		}
		return pure
	})
	return pure
}

func (fa facts) killFields() {
	for k := range fa {
		if strings.Contains(k, ".") && !strings.HasPrefix(k, "cond:") && !strings.HasPrefix(k, "alias:") {
			delete(fa, k)
		}
	}
}

func absValue(info *types.Info, e ast.Expr) string {
	e = ast.Unparen(e)
	switch x := e.(type) {
	case *ast.UnaryExpr:
		if x.Op == token.AND {
			return "nonnil"
		}
	case *ast.CompositeLit:
		if tv, ok := info.Types[x]; ok {
			switch tv.Type.Underlying().(type) {
			case *types.Slice, *types.Map:
				return "nonnil"
			}
		}
		return ""
	case *ast.CallExpr:
		if f, ok := calleeFunc(info, x); ok {
			switch FuncKey(f) {
			case "fmt.Errorf", "errors.New":
				return "nonnil"
			}
		}
		return ""
	}
	if tv, ok := info.Types[e]; ok && tv.Value != nil && tv.Value.Kind() == constant.Int {
		if _, isLit := e.(*ast.BasicLit); isLit {
			if n, exact := constant.Int64Val(tv.Value); exact {
				return "int:" + strconv.FormatInt(n, 10)
			}
		}
	}
	v := ValueKey(info, e)
	if v == "nil" {
		return "nil"
	}
	if v != "" && !strings.HasPrefix(v, "method:") && !strings.HasPrefix(v, "func:") {
		return "const:" + v
	}
	return ""
}

func calleeFunc(info *types.Info, call *ast.CallExpr) (*types.Func, bool) {
	var id *ast.Ident
	switch fn := ast.Unparen(call.Fun).(type) {
	case *ast.Ident:
		id = fn
	case *ast.SelectorExpr:
		id = fn.Sel
	}
	if id == nil {
		return nil, false
	}
	f, ok := info.Uses[id].(*types.Func)
	return f, ok
}

// apply updates the facts with an event; it returns false if the event is a
// branch that contradicts what is known (the path prefix is infeasible).
func (fa facts) apply(info *types.Info, e Event) bool {
	switch e.Kind {
	case EvAssign:
		// `var x T` without a value: x is the zero value (nil for channels, pointers, maps, slices, funcs, interfaces)
		if e.Tok == token.DEFINE && len(e.Rhs) == 0 {
			for _, l := range e.Lhs {
				k := chainKey(l)
				if k == "" || isVolatile(k) {
					continue
				}
				fa.kill(k)
				fa.killConds(k)
				if tv, ok := info.Types[l]; ok || true {
					var t types.Type
					if ok {
						t = tv.Type
					} else if id, isID := l.(*ast.Ident); isID {
						if o := info.ObjectOf(id); o != nil {
							t = o.Type()
						}
					}
					if t != nil {
						switch t.Underlying().(type) {
						case *types.Chan, *types.Pointer, *types.Map, *types.Slice, *types.Signature, *types.Interface:
							fa[k] = "nil"
						}
					}
				}
			}
			return true
		}
		for i, l := range e.Lhs {
			k := chainKey(l)
			if k == "" {
				continue
			}
			if e.Tok == token.INC || e.Tok == token.DEC {
				if cur, ok := fa[k]; ok && strings.HasPrefix(cur, "int:") {
					n, _ := strconv.Atoi(strings.TrimPrefix(cur, "int:"))
					if e.Tok == token.INC {
						n++
					} else {
						n--
					}
					fa.kill(k)
					fa.killConds(k)
					fa[k] = "int:" + strconv.Itoa(n)
					continue
				}
			}
			fa.kill(k)
			fa.killConds(k)
			if len(e.Rhs) == len(e.Lhs) && e.Tok == token.DEFINE {
				if id, ok := l.(*ast.Ident); ok && aliasVars[info.Defs[id]] && !fa.staleAlias(e.Rhs[i]) {
					fa["alias:"+k] = ExprStr(e.Rhs[i])
				}
			}
			if len(e.Rhs) == len(e.Lhs) && (e.Tok == token.ASSIGN || e.Tok == token.DEFINE) {
				if v := absValue(info, e.Rhs[i]); v != "" && !isVolatile(k) {
					fa[k] = v
				} else if rk := chainKey(e.Rhs[i]); rk != "" && rk != k && !isVolatile(k) && !isVolatile(rk) {
					// a copy carries what is known about the source
					if cur, ok := fa[rk]; ok && (cur == "nil" || cur == "nonnil" || strings.HasPrefix(cur, "const:") || strings.HasPrefix(cur, "int:")) {
						fa[k] = cur
					}
				}
				// x = x[:0]  ⇒  len(x) == 0
				if se, ok := ast.Unparen(e.Rhs[i]).(*ast.SliceExpr); ok && se.Low == nil && se.High != nil && !isVolatile(k) {
					if n, isC := ConstInt(info, se.High); isC && n == 0 {
						fa["cond:len("+k+") == 0"] = "const:true"
					}
				}
				// fields of a composite literal with constant values
				rh := ast.Unparen(e.Rhs[i])
				if u, ok := rh.(*ast.UnaryExpr); ok && u.Op == token.AND {
					rh = ast.Unparen(u.X)
				}
				if cl, ok := rh.(*ast.CompositeLit); ok {
					for _, el := range cl.Elts {
						if kv, ok := el.(*ast.KeyValueExpr); ok {
							if id, ok := kv.Key.(*ast.Ident); ok {
								if v := absValue(info, kv.Value); v != "" {
									fa[k+"."+id.Name] = v
								}
							}
						}
					}
				}
			}
		}
	case EvCall:
		if _, isBuiltin := e.Callee.(*types.Builtin); isBuiltin {
			return true
		}
		switch CalleeKey(e) {
		case "fmt.Errorf", "fmt.Sprintf", "errors.New":
			return true
		}
		fa.killFields()
	case EvSelect:
		// a receive from (or send on) a channel known to be nil is never ready: that case cannot be taken
		if cc, ok := e.Clause.(*ast.CommClause); ok && e.Taken && cc.Comm != nil {
			var ch ast.Expr
			switch c := cc.Comm.(type) {
			case *ast.SendStmt:
				ch = c.Chan
			case *ast.ExprStmt:
				if u, ok := ast.Unparen(c.X).(*ast.UnaryExpr); ok && u.Op == token.ARROW {
					ch = u.X
				}
			case *ast.AssignStmt:
				if len(c.Rhs) == 1 {
					if u, ok := ast.Unparen(c.Rhs[0]).(*ast.UnaryExpr); ok && u.Op == token.ARROW {
						ch = u.X
					}
				}
			}
			if k := chainKey(ch); ch != nil && k != "" && fa[k] == "nil" {
				return false
			}
		}
		fa.killFields()
	case EvRecv, EvSend, EvGo, EvDefer:
		fa.killFields()
	case EvRange:
		if rs, ok := e.Clause.(*ast.RangeStmt); ok {
			fa.kill(chainKey(rs.Key))
			fa.killConds(chainKey(rs.Key))
			fa.kill(chainKey(rs.Value))
			fa.killConds(chainKey(rs.Value))
			ck := "rangecount:" + strconv.Itoa(nodeID(rs))

			n := 0
			if cur, ok := fa[ck]; ok {
				n, _ = strconv.Atoi(cur)
			}
			// relate the iteration count to memoised `len(X) > k` conditions
			for k := 0; k <= 2; k++ {
				memo, known := fa["cond:len("+ExprStr(rs.X)+") > "+strconv.Itoa(k)]
				if !known {
					continue
				}
				if e.Taken && memo == "const:false" && n+1 > k {
					return false // iteration n+1 exists, so len > k
				}
				if !e.Taken && memo == "const:true" && n <= k {
					return false // only n iterations although len > k
				}
			}
			if e.Taken {
				if k := chainKey(rs.Key); k != "" {
					if tv, ok := info.Types[rs.X]; ok {
						switch tv.Type.Underlying().(type) {
						case *types.Slice, *types.Array:
							fa[k] = "int:" + strconv.Itoa(n)
						}
					}
				}
				fa[ck] = strconv.Itoa(n + 1)
			} else if n == 0 {
				// the loop body is never entered: infeasible if the collection is known non-empty
				if fa["cond:len("+ExprStr(rs.X)+") > 0"] == "const:true" {
					return false
				}
			}
		}
	case EvBranch:
		if e.Cond == nil {
			return true
		}
		if fa.staleAlias(e.Cond) || fa.staleAlias(e.Tag) {
			return true
		}
		if e.CondVal != nil && e.Tag == nil {
			return fa.assumeCond(info, e.CondVal, e.Taken)
		}
		if e.Tag != nil {
			// switch tag == case value
			k := chainKey(e.Tag)
			v := absValue(info, e.Cond)
			if k == "" || !strings.HasPrefix(v, "const:") {
				return true
			}
			return fa.assume(k, v, e.Taken)
		}
		return fa.assumeCond(info, e.Cond, e.Taken)
	}
	return true
}

// assume records/checks "key == v" (eq) or "key != v".
func (fa facts) assume(key, v string, eq bool) bool {
	if isVolatile(key) {
		return true
	}
	cur, known := fa[key]
	if eq {
		if known {
			if cur == v {
				return true
			}
			if cur == "nonnil" && v != "nil" {
				fa[key] = v
				return true
			}
			if strings.HasPrefix(cur, "not:") {
				if cur == "not:"+v {
					return false
				}
				fa[key] = v
				return true
			}
			return false
		}
		fa[key] = v
		return true
	}
	// key != v
	if known && cur == v {
		return false
	}
	if !known {
		if v == "nil" {
			fa[key] = "nonnil"
		} else {
			fa[key] = "not:" + v
		}
	}
	return true
}

// memo remembers the outcome of a pure condition so that re-evaluating the same
// condition (with none of its variables assigned in between) must agree.
func (fa facts) memo(cond ast.Expr, truth bool) bool {
	if !pureCond(cond) {
		return true
	}
	for name := range volatile {
		if containsWord(ExprStr(cond), name) {
			return true
		}
	}
	k := "cond:" + ExprStr(cond)
	v := "const:false"
	if truth {
		v = "const:true"
	}
	if cur, ok := fa[k]; ok {
		return cur == v
	}
	fa[k] = v
	return true
}

func (fa facts) assumeCond(info *types.Info, cond ast.Expr, truth bool) bool {
	cond = ast.Unparen(cond)
	if tv, ok := info.Types[cond]; ok && tv.Value != nil && tv.Value.Kind() == constant.Bool {
		return constant.BoolVal(tv.Value) == truth
	}
	switch x := cond.(type) {
	case *ast.UnaryExpr:
		if x.Op == token.NOT {
			return fa.assumeCond(info, x.X, !truth)
		}
	case *ast.BinaryExpr:
		switch x.Op {
		case token.LAND:
			if truth {
				return fa.assumeCond(info, x.X, true) && fa.assumeCond(info, x.Y, true)
			}
			return true
		case token.LOR:
			if !truth {
				return fa.assumeCond(info, x.X, false) && fa.assumeCond(info, x.Y, false)
			}
			return true
		case token.LSS, token.GTR, token.LEQ, token.GEQ:
			if k := chainKey(x.X); k != "" {
				if cur, ok := fa[k]; ok && strings.HasPrefix(cur, "int:") {
					if c, isC := ConstInt(info, x.Y); isC {
						n, _ := strconv.ParseInt(strings.TrimPrefix(cur, "int:"), 10, 64)
						var holds bool
						switch x.Op {
						case token.LSS:
							holds = n < c
						case token.GTR:
							holds = n > c
						case token.LEQ:
							holds = n <= c
						case token.GEQ:
							holds = n >= c
						}
						return holds == truth
					}
				}
			}
			return fa.memo(cond, truth)
		case token.EQL, token.NEQ:
			if k := chainKey(x.X); k != "" {
				if cur, ok := fa[k]; ok && strings.HasPrefix(cur, "int:") {
					if c, isC := ConstInt(info, x.Y); isC {
						n, _ := strconv.ParseInt(strings.TrimPrefix(cur, "int:"), 10, 64)
						return ((n == c) == (x.Op == token.EQL)) == truth
					}
				}
			}
			k, v := chainKey(x.X), absValue(info, x.Y)
			if k == "" || v == "" || v == "nonnil" {
				k, v = chainKey(x.Y), absValue(info, x.X)
			}
			if k == "" || v == "" || v == "nonnil" {
				if x.Op == token.EQL {
					return fa.memo(cond, truth)
				}
				// a != b is remembered as the negation of a == b
				eq := &ast.BinaryExpr{X: x.X, Op: token.EQL, Y: x.Y}
				return fa.memo(eq, !truth)
			}
			return fa.assume(k, v, (x.Op == token.EQL) == truth)
		}
		return true
	case *ast.Ident, *ast.SelectorExpr:
		k := chainKey(cond)
		if k == "" {
			return true
		}
		if tv, ok := info.Types[cond]; ok {
			if b, isBasic := tv.Type.Underlying().(*types.Basic); !isBasic || b.Kind() != types.Bool {
				return true
			}
		}
		v := "const:false"
		if truth {
			v = "const:true"
		}
		return fa.assume(k, v, true)
	}
	return true
}

// nodeID numbers syntax nodes by identity (two copies of one loop are different loops).
var nodeIDs = map[ast.Node]int{}

func nodeID(n ast.Node) int {
	id, ok := nodeIDs[n]
	if !ok {
		id = len(nodeIDs) + 1
		nodeIDs[n] = id
	}
	return id
}

// mentionsChain: text s reads the variable/selector chain key or something selected from it
// (key at the start of a chain, followed by '.' or a non-identifier character).
func mentionsChain(s, key string) bool {
	for i := 0; i+len(key) <= len(s); i++ {
		if s[i:i+len(key)] != key {
			continue
		}
		if i > 0 && isIdentChar(s[i-1]) {
			continue
		}
		if j := i + len(key); j < len(s) && isIdentChar(s[j]) && s[j] != '.' {
			continue
		}
		return true
	}
	return false
}
