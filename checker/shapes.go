package main

import (
	"go/ast"
	"go/token"
	"go/types"
)

// Shared idiom recognisers. Rules ask these questions instead of matching one spelling.

// IsLoopElem reports whether e denotes the element of the current iteration of rs:
// the range value, `X[key]`, `&X[key]`-free forms, or a local defined once in the body from one of those.
func IsLoopElem(info *types.Info, rs *ast.RangeStmt, e ast.Expr) bool {
	e = ast.Unparen(e)
	if rs.Value != nil && SameObj(info, rs.Value, e) {
		return true
	}
	if ie, ok := e.(*ast.IndexExpr); ok && rs.Key != nil {
		if ExprStr(ie.X) == ExprStr(rs.X) && SameObj(info, ie.Index, rs.Key) {
			return true
		}
	}
	if obj := ObjOf(info, e); obj != nil {
		defs, good := 0, 0
		ast.Inspect(rs.Body, func(n ast.Node) bool {
			if as, ok := n.(*ast.AssignStmt); ok {
				for i, l := range as.Lhs {
					if ObjOf(info, l) == obj {
						defs++
						if len(as.Rhs) == len(as.Lhs) {
							if _, isId := ast.Unparen(as.Rhs[i]).(*ast.Ident); !isId || !SameObj(info, as.Rhs[i], e) {
								if IsLoopElem(info, rs, as.Rhs[i]) {
									good++
								}
							}
						}
					}
				}
			}
			return true
		})
		return defs == 1 && good == 1
	}
	return false
}

// EnclosingLoops returns the range statements of body that enclose pos, innermost first.
func EnclosingLoops(body ast.Node, pos token.Pos) []*ast.RangeStmt {
	var out []*ast.RangeStmt
	ast.Inspect(body, func(n ast.Node) bool {
		if n == nil {
			return true
		}
		if n.Pos() > pos || n.End() < pos {
			return false
		}
		if rs, ok := n.(*ast.RangeStmt); ok && rs.Body.Pos() <= pos && pos <= rs.Body.End() {
			out = append([]*ast.RangeStmt{rs}, out...)
		}
		return true
	})
	return out
}
