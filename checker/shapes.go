package main

import (
	"strings"
	"go/ast"
	"go/token"
	"go/types"
)

// Shared idiom recognisers. Rules ask these questions instead of matching one spelling.

// IsLoopElem reports whether e denotes the element of the current iteration of rs:
// the range value, `X[key]`, `&X[key]`-free forms, or a local defined once in the body from one of those.
func IsLoopElem(info *types.Info, rs *ast.RangeStmt, e ast.Expr) bool {
	e = ast.Unparen(e)
	if rs.Value != nil && SameObj(info, rs.Value, e) {
		return true
	}
	if ie, ok := e.(*ast.IndexExpr); ok && rs.Key != nil {
		if ExprStr(ie.X) == ExprStr(rs.X) && SameObj(info, ie.Index, rs.Key) {
			return true
		}
	}
	if obj := ObjOf(info, e); obj != nil {
		defs, good := 0, 0
		ast.Inspect(rs.Body, func(n ast.Node) bool {
			if as, ok := n.(*ast.AssignStmt); ok {
				for i, l := range as.Lhs {
					if ObjOf(info, l) == obj {
						defs++
						if len(as.Rhs) == len(as.Lhs) {
							if _, isId := ast.Unparen(as.Rhs[i]).(*ast.Ident); !isId || !SameObj(info, as.Rhs[i], e) {
								if IsLoopElem(info, rs, as.Rhs[i]) {
									good++
								}
							}
						}
					}
				}
			}
			return true
		})
		return defs == 1 && good == 1
	}
	return false
}

// EnclosingLoops returns the range statements of body that enclose pos, innermost first.
func EnclosingLoops(body ast.Node, pos token.Pos) []*ast.RangeStmt {
	var out []*ast.RangeStmt
	ast.Inspect(body, func(n ast.Node) bool {
		if n == nil {
			return true
		}
		if n.Pos() > pos || n.End() < pos {
			return false
		}
		if rs, ok := n.(*ast.RangeStmt); ok && rs.Body.Pos() <= pos && pos <= rs.Body.End() {
			out = append([]*ast.RangeStmt{rs}, out...)
		}
		return true
	})
	return out
}

// Alternatives lists the expressions a value expression can stand for: the expression itself, or,
// when it is a call of a small repository function, what that function returns with its parameters
// replaced by the arguments (recursively, two levels). ok is false when the callee cannot be
// summarised (written parameters, complex arguments, multiple results, no body).
func (p *Prog) Alternatives(info *types.Info, e ast.Expr, depth int) []ast.Expr {
	call, isCall := ast.Unparen(e).(*ast.CallExpr)
	if !isCall || depth >= 2 {
		return []ast.Expr{e}
	}
	f, ok := calleeFunc(info, call)
	if !ok {
		return []ast.Expr{e}
	}
	callee := p.DeclOf(f)
	if callee == nil || callee.Decl.Body == nil || countStmts(callee.Decl.Body) > inlineMaxStmts {
		return []ast.Expr{e}
	}
	sig, _ := f.Type().(*types.Signature)
	if sig == nil || sig.Variadic() || sig.Results().Len() != 1 || sig.TypeParams().Len() > 0 {
		return []ast.Expr{e}
	}
	cinfo := callee.Pkg.TypesInfo
	subst := map[types.Object]ast.Expr{}
	ai := 0
	for _, fld := range callee.Decl.Type.Params.List {
		for _, nm := range fld.Names {
			if ai >= len(call.Args) {
				return []ast.Expr{e}
			}
			if !simpleArg(info, call.Args[ai]) {
				return []ast.Expr{e}
			}
			if o := cinfo.Defs[nm]; o != nil {
				subst[o] = call.Args[ai]
			}
			ai++
		}
		if len(fld.Names) == 0 {
			ai++
		}
	}
	if callee.Decl.Recv != nil {
		sel, ok := ast.Unparen(call.Fun).(*ast.SelectorExpr)
		if !ok || !simpleArg(info, sel.X) {
			return []ast.Expr{e}
		}
		if names := callee.Decl.Recv.List[0].Names; len(names) == 1 {
			if o := cinfo.Defs[names[0]]; o != nil {
				subst[o] = sel.X
			}
		}
	}
	// parameters must not be written in the callee
	written := false
	ast.Inspect(callee.Decl.Body, func(n ast.Node) bool {
		switch x := n.(type) {
		case *ast.AssignStmt:
			for _, l := range x.Lhs {
				if o := ObjOf(cinfo, l); o != nil {
					if _, is := subst[o]; is {
						written = true
					}
				}
			}
		case *ast.IncDecStmt:
			if o := ObjOf(cinfo, x.X); o != nil {
				if _, is := subst[o]; is {
					written = true
				}
			}
		}
		return !written
	})
	if written {
		return []ast.Expr{e}
	}
	var out []ast.Expr
	okAll := true
	ast.Inspect(callee.Decl.Body, func(n ast.Node) bool {
		switch x := n.(type) {
		case *ast.FuncLit:
			return false
		case *ast.ReturnStmt:
			if len(x.Results) != 1 {
				okAll = false
				return false
			}
			cl := &cloner{info: info, src: cinfo, subst: subst, foreignSubst: true, substSrc: info, at: call.Pos()}
			out = append(out, p.Alternatives(info, cl.Expr(x.Results[0]), depth+1)...)
		}
		return okAll
	})
	if !okAll || len(out) == 0 {
		return []ast.Expr{e}
	}
	return out
}

// OriginOnPath resolves an identifier used at event index idx of path p to the expression it was
// most recently assigned from on that path (following chains of plain copies); other expressions
// are returned unchanged.
func OriginOnPath(info *types.Info, p *Path, idx int, e ast.Expr) ast.Expr {
	for depth := 0; depth < 4; depth++ {
		id, ok := ast.Unparen(e).(*ast.Ident)
		if !ok {
			return e
		}
		obj := info.ObjectOf(id)
		if obj == nil {
			return e
		}
		found := false
		for j := idx - 1; j >= 0 && !found; j-- {
			a := p.Ev[j]
			if a.Kind != EvAssign || len(a.Lhs) != len(a.Rhs) {
				continue
			}
			for k, l := range a.Lhs {
				if ObjOf(info, l) == obj {
					e, idx, found = a.Rhs[k], j, true
					break
				}
			}
		}
		if !found {
			return e
		}
	}
	return e
}

// Literal is one atomic fact a branch establishes: X == Val (Eq) or X != Val (!Eq).
// Val is a ValueKey ("workflow.Completed", "nil", "true"), or "int:N" for an integer constant.
type Literal struct {
	X   ast.Expr
	Val string
	Eq  bool
}

func valOf(info *types.Info, e ast.Expr) string {
	if v := ValueKey(info, e); v != "" && !strings.HasPrefix(v, "method:") && !strings.HasPrefix(v, "func:") {
		if tv, ok := info.Types[e]; ok && tv.Value == nil && v != "nil" {
			return "" // a package-level variable, not a constant
		}
		return v
	}
	if n, ok := ConstInt(info, e); ok {
		return "int:" + itoa(int(n))
	}
	return ""
}

// condLiterals lists what `cond` being `truth` establishes.
func condLiterals(info *types.Info, cond ast.Expr, truth bool) []Literal {
	cond = ast.Unparen(cond)
	switch x := cond.(type) {
	case *ast.UnaryExpr:
		if x.Op == token.NOT {
			return condLiterals(info, x.X, !truth)
		}
	case *ast.BinaryExpr:
		switch x.Op {
		case token.LAND:
			if truth {
				return append(condLiterals(info, x.X, true), condLiterals(info, x.Y, true)...)
			}
			return nil
		case token.LOR:
			if !truth {
				return append(condLiterals(info, x.X, false), condLiterals(info, x.Y, false)...)
			}
			return nil
		case token.EQL, token.NEQ:
			eq := (x.Op == token.EQL) == truth
			if v := valOf(info, x.Y); v != "" {
				return []Literal{{ast.Unparen(x.X), v, eq}}
			}
			if v := valOf(info, x.X); v != "" {
				return []Literal{{ast.Unparen(x.Y), v, eq}}
			}
			return nil
		}
		return nil
	}
	if tv, ok := info.Types[cond]; ok {
		if b, isBasic := tv.Type.Underlying().(*types.Basic); isBasic && b.Info()&types.IsBoolean != 0 {
			return []Literal{{cond, "true", truth}}
		}
	}
	return nil
}

// EventLiterals lists what a branch event establishes in the direction the path took
// (switch case: tag == value when taken, tag != value when passed over).
func EventLiterals(info *types.Info, e Event) []Literal {
	if e.Kind != EvBranch || e.Cond == nil {
		return nil
	}
	if e.Tag != nil {
		if v := valOf(info, e.Cond); v != "" {
			return []Literal{{ast.Unparen(e.Tag), v, e.Taken}}
		}
		return nil
	}
	return condLiterals(info, e.Cond, e.Taken)
}

// Establishes: the event establishes X == val (eq) / X != val (!eq) for an X accepted by match.
func Establishes(info *types.Info, e Event, match func(ast.Expr) bool, val string, eq bool) bool {
	for _, l := range EventLiterals(info, e) {
		if l.Val == val && l.Eq == eq && match(l.X) {
			return true
		}
	}
	return false
}

// fieldMatcher: expressions ending in the given field selections on a value of type owner ("" = any).
func fieldMatcher(info *types.Info, owner string, names ...string) func(ast.Expr) bool {
	return func(e ast.Expr) bool {
		_, ok := FieldPath(info, e, owner, names...)
		return ok
	}
}

// mentionsField: the expression selects a struct field with this name somewhere.
func mentionsField(info *types.Info, e ast.Node, name string) bool {
	found := false
	ast.Inspect(e, func(n ast.Node) bool {
		if sel, ok := n.(*ast.SelectorExpr); ok && sel.Sel.Name == name {
			if s := info.Selections[sel]; s != nil && s.Kind() == types.FieldVal {
				found = true
			}
		}
		return !found
	})
	return found
}

// AgeTest is a boolean expression over three times-and-durations: true exactly when time T lies
// more than D before N ("T is older than D"), however it is spelled:
//
//	T.Add(D).Before(N)   N.After(T.Add(D))   N.Sub(T) > D   D < N.Sub(T)   time.Since(T) > D   D < time.Since(T)
//
// Older is false for the opposite direction (After/Before swapped, < for >): the test then says "younger".
// OrEqual marks the non-strict comparisons. N is nil for time.Since.
type AgeTest struct {
	T, D, N ast.Expr
	Older   bool
	OrEqual bool
}

func timeMethod(info *types.Info, e ast.Expr, name string) (recv ast.Expr, args []ast.Expr, ok bool) {
	c, isCall := ast.Unparen(e).(*ast.CallExpr)
	if !isCall {
		return nil, nil, false
	}
	sel, isSel := ast.Unparen(c.Fun).(*ast.SelectorExpr)
	if !isSel || sel.Sel.Name != name {
		return nil, nil, false
	}
	if f, isF := info.Uses[sel.Sel].(*types.Func); !isF || !strings.HasPrefix(FuncKey(f), "time.Time.") {
		return nil, nil, false
	}
	return sel.X, c.Args, true
}

func ageTest(info *types.Info, e ast.Expr) (AgeTest, bool) {
	e = ast.Unparen(e)
	// X.Before(Y) / X.After(Y) with one side T.Add(D)
	for _, m := range []string{"Before", "After"} {
		if x, args, ok := timeMethod(info, e, m); ok && len(args) == 1 {
			y := args[0]
			if t, d, ok := timeMethod(info, x, "Add"); ok && len(d) == 1 {
				return AgeTest{T: t, D: d[0], N: y, Older: m == "Before"}, true
			}
			if t, d, ok := timeMethod(info, y, "Add"); ok && len(d) == 1 {
				return AgeTest{T: t, D: d[0], N: x, Older: m == "After"}, true
			}
		}
	}
	be, isBin := e.(*ast.BinaryExpr)
	if !isBin {
		return AgeTest{}, false
	}
	age := func(x ast.Expr) (t, n ast.Expr, ok bool) {
		if nn, args, ok := timeMethod(info, x, "Sub"); ok && len(args) == 1 {
			return args[0], nn, true
		}
		if c, isCall := ast.Unparen(x).(*ast.CallExpr); isCall && len(c.Args) == 1 {
			if f, ok := calleeFunc(info, c); ok && FuncKey(f) == "time.Since" {
				return c.Args[0], nil, true
			}
		}
		return nil, nil, false
	}
	switch be.Op {
	case token.GTR, token.GEQ, token.LSS, token.LEQ:
		if t, n, ok := age(be.X); ok { // age OP D
			return AgeTest{T: t, D: be.Y, N: n, Older: be.Op == token.GTR || be.Op == token.GEQ, OrEqual: be.Op == token.GEQ || be.Op == token.LEQ}, true
		}
		if t, n, ok := age(be.Y); ok { // D OP age
			return AgeTest{T: t, D: be.X, N: n, Older: be.Op == token.LSS || be.Op == token.LEQ, OrEqual: be.Op == token.GEQ || be.Op == token.LEQ}, true
		}
	}
	return AgeTest{}, false
}

// isNowOnPath: the expression is time.Now() or a local assigned from it on the path (nil = time.Since).
func isNowOnPath(info *types.Info, p *Path, idx int, e ast.Expr) bool {
	if e == nil {
		return true
	}
	if c, ok := ast.Unparen(OriginOnPath(info, p, idx, e)).(*ast.CallExpr); ok {
		if f, ok := calleeFunc(info, c); ok {
			k := FuncKey(f)
			return k == "time.Now" || strings.HasSuffix(k, ".now") || strings.HasSuffix(k, ".timeNow")
		}
		// a package-level `var now = time.Now` indirection
		if v, ok := ObjOf(info, c.Fun).(*types.Var); ok && v.Pkg() != nil && v.Parent() == v.Pkg().Scope() {
			return true
		}
	}
	return false
}

// branchConds: the conditions to examine for a branch event — as written and, when calls in it were
// inlined, with their results put in; each split into its conjuncts.
func branchConds(e Event) []ast.Expr {
	var out []ast.Expr
	for _, c := range []ast.Expr{e.Cond, e.CondVal} {
		if c != nil {
			out = append(out, c)
			if cj := conjuncts(c); len(cj) > 1 {
				out = append(out, cj...)
			}
		}
	}
	return out
}

// PlaceID identifies the storage an lvalue expression denotes, coarsely: the variable for an
// identifier, the struct field (whatever the base) for a field selection. Two spellings of one piece
// of state — a local `limiter`, or `t.limiter` / `tracker.limiter` after the state moved into a
// struct — get one identity each.
func PlaceID(info *types.Info, e ast.Expr) types.Object {
	e = ast.Unparen(e)
	for {
		if u, ok := e.(*ast.UnaryExpr); ok && u.Op == token.AND {
			e = ast.Unparen(u.X)
			continue
		}
		if st, ok := e.(*ast.StarExpr); ok {
			e = ast.Unparen(st.X)
			continue
		}
		break
	}
	switch x := e.(type) {
	case *ast.Ident:
		return info.ObjectOf(x)
	case *ast.SelectorExpr:
		if s := info.Selections[x]; s != nil && s.Kind() == types.FieldVal {
			return s.Obj()
		}
		return info.Uses[x.Sel]
	}
	return nil
}

// recvPlace: the place of the receiver of a method call.
func recvPlace(info *types.Info, call *ast.CallExpr) types.Object {
	if sel, ok := ast.Unparen(call.Fun).(*ast.SelectorExpr); ok {
		return PlaceID(info, sel.X)
	}
	return nil
}

// privateHelpers: the declared functions that are private helpers of fn (CallGraph.PrivateTo), sorted by key.
func (p *Prog) privateHelpers(fn *Func) []*Func {
	var out []*Func
	for _, h := range p.sortedFuncs() {
		if h != fn && h.Pkg == fn.Pkg && h.Decl.Body != nil && p.CallGraph().PrivateTo(h.Key, fn.Key) {
			out = append(out, h)
		}
	}
	return out
}
