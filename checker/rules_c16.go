package main

import (
	"go/ast"
	"go/token"
	"go/types"
	"sort"
	"strings"
)

func init() {
	register(PropInfo{
		ID: "C16",
		Explanation: "All-paths decision of the structural clauses of C16 (DESIGN.md section 4, C16): (R1) Submit's pipeline: the store is touched only by Create, which is reached only after populateRegistry, requestDefaults, a successful workflow.Validate, Defaults on every walked object and the SubmitTime stamp; (R2) requirement table: every accepting path of each validate method has passed a rejecting test of every field the statement names (Plan{ID,State,Name,Descr,Blocks,Reason,SubmitTime}, Checks{ID,Key,Actions,State}, Block{…}, Sequence{…}, Action{ID,Key,State,Timeout,Name,Descr,Plugin,Attempts,plugin lookup,ValidateReq}); (R3) each validate hands on validators for every child-bearing field of its type; (R4) the context given to every validate call carries one shared, initialised key set (otherwise key uniqueness cannot be enforced); (R5) Timeout == 0 ⇒ 30s, Timeout < 5s ⇒ error, key version compared with 7; (R6) all five Defaults assign a fresh v7 ID and a pristine NotStarted state; (R7) validateAction rejects a non-check plugin under a Checks parent and an unknown plugin, and every registered Start validator's failure rejects the plan; (R8) a plan the store cannot take leaves no trace: sqlite's create runs inside a transaction watching the error every failing call assigns, and no error of the create scope is dropped.",
		NotDecided:  []string{"'if and only if' over the whole input space", "pairwise distinctness of generated ids"},
		Assumptions: []string{"uuid.NewV7 yields distinct ids", "walk.Plan yields every object (C19)"},
		Rules:       rulesC16,
	})
}

func wfKey(name string) string { return "workflow." + name }

func rulesC16(r *Run) {
	r.Kind("R1", "K3")
	ruleSubmitPipeline(r, "R1")
	r.Expect("R1", 2)

	r.Kind("R2", "K2")
	req := map[string][]string{
		"Plan":     {"ID", "State", "Name", "Descr", "Blocks", "Reason", "SubmitTime"},
		"Checks":   {"ID", "Key", "Actions", "State"},
		"Block":    {"ID", "Key", "Name", "Descr", "State", "Sequences"},
		"Sequence": {"ID", "Key", "Name", "Descr", "State", "Actions"},
		"Action":   {"ID", "Key", "State", "Timeout", "Name", "Descr", "Plugin", "Attempts", "<plugin-lookup>", "<ValidateReq>"},
	}
	for _, t := range []string{"Plan", "Checks", "Block", "Sequence", "Action"} {
		ruleRequiredFields(r, "R2", t, req[t])
	}
	r.Expect("R2", 33)

	r.Kind("R3", "K7")
	for _, t := range []string{"Plan", "Checks", "Block", "Sequence"} {
		ruleChildValidators(r, "R3", t)
	}
	ruleValidateDriver(r, "R3")
	r.Expect("R3", 8)

	r.Kind("R4", "K11")
	ruleSharedKeySet(r, "R4")
	r.Expect("R4", 2)

	r.Kind("R5", "K5")
	ruleTimeoutAndKeyVersion(r, "R5")
	r.Expect("R5", 3)

	r.Kind("R6", "K7")
	for _, t := range []string{"Plan", "Checks", "Block", "Sequence", "Action"} {
		ruleDefaults(r, "R6", t)
	}
	r.Expect("R6", 5)

	r.Kind("R7", "K2")
	ruleValidateAction(r, "R7")
	{
		sub := NewRun(r.P, r.Prop, r.Tier)
		sub.ruleKinds = r.ruleKinds
		ruleValidateStartState(sub, "R7")
		for _, o := range sub.Obls {
			if strings.Contains(o.Key, "validators:all-registered-and-run") || o.Status == StUnresolved {
				r.Obls = append(r.Obls, o)
			}
		}
		r.Paths += sub.Paths
	}
	ruleRegisterContract(r, "R7")
	r.Expect("R7", 8)

	// R8: a plan rejected by storage leaves no trace (same constructs as C14-R1/R2, create scope only)
	r.Kind("R8", "K6")
	createScope := sqliteCreateScope(r)
	for _, k := range createScope {
		if fn := r.P.Funcs[k]; fn != nil && registersTransaction(fn) {
			ruleTransactionScope(r, "R8", k, createScope)
		}
	}
	for _, k := range createScope {
		if fn := r.P.Funcs[k]; fn != nil && hasErrorResult(fn) && executesOrCreates(r, k) {
			r.Funcs[k] = true
			errorDiscipline(r, "R8", fn)
		}
	}

	// R9 (mutation sweep): "accepts a plan if and only if it is well formed" needs every refusal to reach the caller. The K6
	// error-discipline rule over the admission path: Submit and Start with what they reach in the API package, in
	// internal/execute's validators and in package workflow's Validate chain, and the registry's Register.
	r.Kind("R9", "K6")
	{
		in := func(e CallEdge) bool {
			return strings.HasPrefix(e.Callee, "coercion.") || strings.HasPrefix(e.Callee, "workflow.") || strings.HasPrefix(e.Callee, pkgExec+".") || strings.HasPrefix(e.Callee, "plugins/registry.")
		}
		reach := r.P.CallGraph().Reach([]string{"coercion.Workstream.Submit", "coercion.Workstream.Start", wfKey("Validate"), execKey("Plans.Start"), "plugins/registry.Register.Register"}, in)
		var keys []string
		for k := range reach {
			keys = append(keys, k)
		}
		sort.Strings(keys)
		for _, k := range keys {
			fn := r.P.Funcs[k]
			if fn == nil || fn.Decl.Body == nil || !hasErrorResult(fn) {
				continue
			}
			if rel := relPkg(fn.Pkg.PkgPath); rel != "" && rel != "workflow" && rel != pkgExec && rel != "plugins/registry" {
				continue
			}
			r.Funcs[k] = true
			errorDiscipline(r, "R9", fn)
		}
		r.Expect("R9", 40)
	}
	r.Expect("R8", 30)
}

func ruleSubmitPipeline(r *Run, rule string) {
	fn := r.fnByKey(rule, "coercion.Workstream.Submit")
	if fn == nil {
		return
	}
	fl, paths, ok := r.flowPaths(rule, fn)
	if !ok {
		return
	}
	info := fl.Info
	isStoreCall := func(e Event) (string, bool) {
		if e.Kind != EvCall {
			return "", false
		}
		k := CalleeKey(e)
		if strings.HasPrefix(k, "workflow/storage.") {
			return k[strings.LastIndex(k, ".")+1:], true
		}
		return "", false
	}
	bad, badRet := "", ""
	badOrder := ""
	n := 0
	for i := range paths {
		p := &paths[i]
		if p.Exit != ExitReturn {
			continue
		}
		ci := -1
		for j, e := range p.Ev {
			if name, ok := isStoreCall(e); ok {
				if name != "Create" && bad == "" {
					bad = "Submit calls store." + name + ": a rejected plan must leave nothing in storage and an accepted one is written by Create alone"
				}
				if name == "Create" {
					if ci >= 0 && bad == "" {
						bad = "Submit calls Create twice on one path"
					}
					ci = j
				}
			}
		}
		var ret *Event
		for j := range p.Ev {
			if p.Ev[j].Kind == EvReturn {
				ret = &p.Ev[j]
			}
		}
		if ci < 0 {
			// without Create the path must return an error
			if ret != nil {
				if isNil, has := ReturnsNilLast(info, *ret); has && isNil && badRet == "" {
					badRet = "Submit returns success on a path that never called Create (guard " + ExitGuardKey(fl, p) + ")"
				}
			}
			continue
		}
		n++
		pop, def, val, dfl, st := false, false, false, false, false
		defAt, valAt := -1, -1
		for j := 0; j < ci; j++ {
			e := p.Ev[j]
			switch {
			case IsCall(e, "coercion.Workstream.populateRegistry"):
				pop = UseOfResult(fl, p, j).Verdict == "nil"
			case IsCall(e, "coercion.Workstream.requestDefaults"):
				def = true
				defAt = j
			case IsCall(e, wfKey("Validate")):
				val = UseOfResult(fl, p, j).Verdict == "nil"
				valAt = j
			case e.Kind == EvCall && CalleeKey(e) == "coercion.defaulter.Defaults":
				// inside a range over walk.Plan(plan)
				for x := j - 1; x >= 0; x-- {
					if p.Ev[x].Kind == EvRange && p.Ev[x].Taken {
						if c, ok := ast.Unparen(p.Ev[x].Chan).(*ast.CallExpr); ok {
							if f, ok := calleeFunc(info, c); ok && FuncKey(f) == "workflow/utils/walk.Plan" {
								dfl = true
							}
						}
						break
					}
				}
			case e.Kind == EvAssign:
				for _, l := range e.Lhs {
					if _, m := FieldPath(info, l, "workflow.Plan", "SubmitTime"); m {
						st = true
					}
				}
			}
		}
		// the Defaults loop may have zero iterations on an enumerated path: accept the loop's presence
		if !dfl {
			for j := 0; j < ci; j++ {
				if p.Ev[j].Kind == EvRange {
					if c, ok := ast.Unparen(p.Ev[j].Chan).(*ast.CallExpr); ok {
						if f, ok := calleeFunc(info, c); ok && FuncKey(f) == "workflow/utils/walk.Plan" {
							rs := p.Ev[j].Clause.(*ast.RangeStmt)
							ast.Inspect(rs.Body, func(n ast.Node) bool {
								if cc, ok := n.(*ast.CallExpr); ok {
									if sel, ok := ast.Unparen(cc.Fun).(*ast.SelectorExpr); ok && sel.Sel.Name == "Defaults" {
										dfl = true
									}
								}
								return true
							})
						}
					}
				}
			}
		}
		if !(pop && def && val && dfl && st) && bad == "" {
			bad = "Create is reached on a path with populateRegistry ok=" + boolStr(pop) + ", requestDefaults=" + boolStr(def) + ", Validate ok=" + boolStr(val) + ", Defaults over the walked plan=" + boolStr(dfl) + ", SubmitTime stamped=" + boolStr(st)
		}
		// the requests get their defaults BEFORE they are shown to the plugins' ValidateReq (round-3 seed C16-5: a request
		// that is only valid once defaulted was refused, and what got stored had never been validated)
		if defAt >= 0 && valAt >= 0 && defAt > valAt && badOrder == "" {
			badOrder = "Submit applies the request defaults after Validate: ValidateReq sees requests without their defaults (well-formed plans are refused), and the defaulted request that is stored was never validated"
		}
		// after Create: success returns plan.ID; failure returns the error
		u := UseOfResult(fl, p, ci)
		if ret != nil {
			isNil, _ := ReturnsNilLast(info, *ret)
			if u.Verdict == "nonnil" && isNil && badRet == "" {
				badRet = "Submit reports success although Create failed"
			}
			if u.Verdict == "untested" && badRet == "" {
				badRet = "the result of Create is not tested"
			}
		}
	}
	if n == 0 {
		r.Unresolved(rule, "Submit calls store.Create")
		return
	}
	r.Check(rule, "Submit:validated-defaulted-then-created", fn.Decl.Pos(), bad == "", "%s", orOK(bad, "populateRegistry, requestDefaults, Validate ok, Defaults, SubmitTime, then Create — nothing else touches the store"))
	r.Check(rule, "Submit:request-defaults-before-validation", fn.Decl.Pos(), badOrder == "", "%s", orOK(badOrder, "requestDefaults precedes Validate on every path"))
	rulePopulateRegistryRejects(r, rule)
	r.Check(rule, "Submit:result-follows-create", fn.Decl.Pos(), badRet == "", "%s", orOK(badRet, "success only after a successful Create"))
}

// fieldsTested: the receiver fields mentioned by a branch condition.
func fieldsOfRecvIn(info *types.Info, e ast.Node, owner string) []string {
	set := map[string]bool{}
	ast.Inspect(e, func(n ast.Node) bool {
		if sel, ok := n.(*ast.SelectorExpr); ok {
			if tv, ok := info.Types[sel.X]; ok && ShortType(tv.Type) == owner {
				if s := info.Selections[sel]; s != nil && s.Kind() == types.FieldVal {
					set[sel.Sel.Name] = true
				}
			}
		}
		return true
	})
	return sortedKeys(set)
}

func ruleRequiredFields(r *Run, rule, typ string, required []string) {
	fn := r.Fn(rule, "workflow", typ, "validate")
	if fn == nil {
		return
	}
	fl, paths, ok := r.flowPaths(rule, fn)
	if !ok {
		return
	}
	info := fl.Info
	owner := "workflow." + typ
	// per field: passed on every accepting path? rejecting arm exists?
	passedAll := map[string]bool{}
	rejects := map[string]bool{}
	for _, f := range required {
		passedAll[f] = true
	}
	nAccept := 0
	for i := range paths {
		p := &paths[i]
		if p.Exit != ExitReturn {
			continue
		}
		var ret *Event
		for j := range p.Ev {
			if p.Ev[j].Kind == EvReturn {
				ret = &p.Ev[j]
			}
		}
		if ret == nil {
			continue
		}
		isNil, _ := ReturnsNilLast(info, *ret)
		// nil receiver paths are exempt
		nilRecv := false
		tested := map[string]string{} // field → "passed" | "rejected"
		lastBranchFields := []string{}
		for ci, e := range p.Ev {
			switch e.Kind {
			case EvBranch:
				if e.Cond == nil {
					continue
				}
				if x, op, ok := IsNilCompare(info, e.Cond); ok {
					if id, ok := x.(*ast.Ident); ok && isReceiver(fn, info, id) && (op == token.EQL) == e.Taken {
						nilRecv = true
					}
				}
				fs := fieldsOfRecvIn(info, e.Cond, owner)
				if len(fs) > 0 {
					lastBranchFields = fs
				}
				for _, f := range fs {
					tested[f] = "seen"
				}
				// plugin lookup: plug == nil
				if x, _, ok := IsNilCompare(info, e.Cond); ok {
					if o := ObjOf(info, x); o != nil && ShortType(o.Type()) == "plugins.Plugin" {
						tested["<plugin-lookup>"] = "seen"
						lastBranchFields = append(lastBranchFields, "<plugin-lookup>")
					}
				}
			case EvCall:
				k := CalleeKey(e)
				if k == wfKey("addOrErrKey") && len(e.Call.Args) == 2 {
					if _, m := FieldPath(info, e.Call.Args[1], owner, "Key"); m {
						if v := UseOfResult(fl, p, ci).Verdict; v == "nil" || v == "nonnil" {
							tested["Key"] = "seen"
							if v == "nonnil" {
								lastBranchFields = []string{"Key"}
							}
						}
					}
				}
				if k == "plugins.Plugin.ValidateReq" {
					if v := UseOfResult(fl, p, ci).Verdict; v == "nil" || v == "nonnil" {
						tested["<ValidateReq>"] = "seen"
						if v == "nonnil" {
							lastBranchFields = []string{"<ValidateReq>"}
						}
					}
				}
			}
		}
		if nilRecv {
			continue
		}
		if isNil {
			nAccept++
			for _, f := range required {
				if tested[f] == "" {
					passedAll[f] = false
				}
			}
		} else {
			for _, f := range lastBranchFields {
				rejects[f] = true
			}
		}
	}
	if nAccept == 0 {
		r.Unresolved(rule, owner+".validate accepting path")
		return
	}
	for _, f := range required {
		r.Evals++
		msg := ""
		switch {
		case !passedAll[f]:
			msg = owner + ".validate accepts an object on a path that never tests " + f + ": a plan violating that requirement would be admitted by Submit"
		case !rejects[f]:
			msg = "no path of " + owner + ".validate rejects on " + f + " (the test exists but neither arm returns an error)"
		}
		r.Check(rule, "requires:"+typ+"."+f, fn.Decl.Pos(), msg == "", "%s", orOK(msg, f+" is tested on every accepting path and has a rejecting arm"))
	}
}

func ruleChildValidators(r *Run, rule, typ string) {
	fn := r.Fn(rule, "workflow", typ, "validate")
	if fn == nil {
		return
	}
	info := fn.Pkg.TypesInfo
	owner := "workflow." + typ
	st, _ := r.P.StructOf("workflow", typ)
	var need []string
	for i := 0; st != nil && i < st.NumFields(); i++ {
		f := st.Field(i)
		t := f.Type()
		if sl, ok := t.(*types.Slice); ok {
			t = sl.Elem()
		}
		if workflowObjTypes[ShortType(t)] && f.Exported() {
			need = append(need, f.Name())
		}
	}
	got := map[string]bool{}
	ast.Inspect(fn.Decl.Body, func(n ast.Node) bool {
		switch x := n.(type) {
		case *ast.CompositeLit:
			if tv, ok := info.Types[x]; ok {
				if sl, ok := tv.Type.Underlying().(*types.Slice); ok && ShortType(sl.Elem()) == "workflow.validator" {
					for _, el := range x.Elts {
						for _, f := range need {
							if _, m := FieldPath(info, el, owner, f); m {
								got[f] = true
							}
						}
					}
				}
			}
		case *ast.RangeStmt:
			for _, f := range need {
				if _, m := FieldPath(info, x.X, owner, f); m && storesElemAsValidator(info, x) {
					got[f] = true
				}
			}
		}
		return true
	})
	// the same through a helper (appendValidators(vals, p.Blocks)): on the paths, with the helper spliced in, the
	// loop over the field stores its element as a validator
	if fl, paths, ok := r.flowPaths(rule, fn); ok {
		for i := range paths {
			p := &paths[i]
			for j, e := range p.Ev {
				if e.Kind != EvAssign && e.Kind != EvCall {
					continue
				}
				for _, rs := range loopsOnPath(p, j) {
					for _, f := range need {
						if got[f] {
							continue
						}
						if _, m := FieldPath(fl.Info, rs.X, owner, f); m && storesElemAsValidator(fl.Info, rs) {
							got[f] = true
						}
					}
				}
			}
		}
	}
	var missing []string
	for _, f := range need {
		if !got[f] {
			missing = append(missing, f)
		}
	}
	sort.Strings(missing)
	r.Check(rule, "children-validated:"+typ, fn.Decl.Pos(), len(missing) == 0 && len(need) > 0, "%s.validate does not hand on validators for %v: the objects held there are never validated (nor their keys checked)", owner, missing)
}

// storesElemAsValidator: the body of the loop hands the current element on as a validator
// (appended to, or stored by index in, a []validator).
func storesElemAsValidator(info *types.Info, rs *ast.RangeStmt) bool {
	isValidator := func(e ast.Expr) bool {
		tv, ok := info.Types[e]
		return ok && ShortType(tv.Type) == "workflow.validator"
	}
	found := false
	ast.Inspect(rs.Body, func(n ast.Node) bool {
		switch x := n.(type) {
		case *ast.CallExpr:
			if id, ok := x.Fun.(*ast.Ident); ok && id.Name == "append" && len(x.Args) >= 2 {
				if tv, ok := info.Types[x.Args[0]]; ok {
					if sl, ok := tv.Type.Underlying().(*types.Slice); ok && ShortType(sl.Elem()) == "workflow.validator" {
						for _, a := range x.Args[1:] {
							if IsLoopElem(info, rs, a) {
								found = true
							}
						}
					}
				}
			}
		case *ast.AssignStmt:
			for i, l := range x.Lhs {
				if len(x.Rhs) == len(x.Lhs) && isValidator(l) && IsLoopElem(info, rs, x.Rhs[i]) {
					found = true
				}
			}
		}
		return !found
	})
	return found
}

// ruleSharedKeySet: every validate call in Validate gets a context that carries one initialised key set.
func ruleSharedKeySet(r *Run, rule string) {
	fn := r.fnByKey(rule, wfKey("Validate"))
	if fn == nil {
		return
	}
	info := fn.Pkg.TypesInfo
	var ctxArg ast.Expr
	ast.Inspect(fn.Decl.Body, func(n ast.Node) bool {
		if c, ok := n.(*ast.CallExpr); ok {
			if f, ok := calleeFunc(info, c); ok && FuncKey(f) == "workflow.validator.validate" && len(c.Args) == 1 {
				ctxArg = c.Args[0]
			}
		}
		return true
	})
	if ctxArg == nil {
		r.Unresolved(rule, "Validate calls validator.validate(ctx)")
		return
	}
	def := ctxArg
	if d := localDef(info, fn.Decl.Body, ctxArg); d != nil {
		def = d
	}
	okSet, msg := false, "the context given to every validate call is "+ExprStr(def)+": it carries no key set, so getKeySet hands each object a fresh empty set and two objects with the same Key are both accepted (key uniqueness is never enforced)"
	if c, ok := ast.Unparen(def).(*ast.CallExpr); ok {
		if f, ok := calleeFunc(info, c); ok && strings.HasSuffix(FuncKey(f), "context.WithValue") && len(c.Args) == 3 {
			if cl, ok := ast.Unparen(c.Args[1]).(*ast.CompositeLit); ok {
				if tv, ok := info.Types[cl]; ok && ShortType(tv.Type) == "workflow.keysSet" {
					if tv2, ok := info.Types[c.Args[2]]; ok {
						switch tv2.Type.Underlying().(type) {
						case *types.Map, *types.Pointer:
							if ValueKey(info, c.Args[2]) != "nil" {
								okSet, msg = true, ""
							} else {
								msg = "the key set stored in the context is nil"
							}
						default:
							// a struct around a lazily created map (sets.Set): it is copied by value on every
							// lookup, so its map must exist before it is stored — an Add/init call on the variable
							obj := ObjOf(info, c.Args[2])
							inited := false
							ast.Inspect(fn.Decl.Body, func(n ast.Node) bool {
								if cc, ok := n.(*ast.CallExpr); ok && cc.Pos() < c.Pos() {
									if sel, ok := ast.Unparen(cc.Fun).(*ast.SelectorExpr); ok && obj != nil && ObjOf(info, sel.X) == obj && (sel.Sel.Name == "Add" || sel.Sel.Name == "Init") {
										inited = true
									}
								}
								return true
							})
							if inited {
								okSet, msg = true, ""
							} else {
								msg = "the key set stored in the context is a zero-value sets.Set: it is copied by value at every lookup and creates its map lazily in the copy, so additions made for one object are invisible to the next (initialise it before storing it)"
							}
						}
					}
				}
			}
		}
	}
	r.Check(rule, "Validate:shared-key-set", ctxArg.Pos(), okSet, "%s", orOK(msg, "ctx = WithValue(…, keysSet{}, <initialised set>) shared by all objects"))
	// addOrErrKey: rejects a key already in the set and adds new ones
	ak := r.fnByKey(rule, wfKey("addOrErrKey"))
	if ak == nil {
		return
	}
	fl, paths, ok := r.flowPaths(rule, ak)
	if !ok {
		return
	}
	bad := ""
	nAdd, nDup := 0, 0
	for i := range paths {
		p := &paths[i]
		if p.Exit != ExitReturn {
			continue
		}
		contains := ""
		added := false
		for ci, e := range p.Ev {
			if e.Kind == EvCall && strings.HasSuffix(CalleeKey(e), ".Contains") {
				contains = UseOfResult(fl, p, ci).Verdict
			}
			if e.Kind == EvCall && strings.HasSuffix(CalleeKey(e), ".Add") {
				added = true
			}
		}
		var ret *Event
		for j := range p.Ev {
			if p.Ev[j].Kind == EvReturn {
				ret = &p.Ev[j]
			}
		}
		if ret == nil {
			continue
		}
		isNil, _ := ReturnsNilLast(fl.Info, *ret)
		if contains == "true" {
			nDup++
			if isNil && bad == "" {
				bad = "a key that is already in the set is accepted"
			}
		}
		if contains == "false" {
			nAdd++
			if !added && bad == "" {
				bad = "a new key is not added to the set"
			}
		}
	}
	if nAdd == 0 || nDup == 0 {
		bad = orOK(bad, "addOrErrKey does not test set membership both ways")
	}
	r.Check(rule, "addOrErrKey:duplicate-rejected-new-added", ak.Decl.Pos(), bad == "", "%s", orOK(bad, "Contains ⇒ error; otherwise Add"))
}

func ruleTimeoutAndKeyVersion(r *Run, rule string) {
	fn := r.Fn(rule, "workflow", "Action", "validate")
	if fn == nil {
		return
	}
	fl, paths, ok := r.flowPaths(rule, fn)
	if !ok {
		return
	}
	info := fl.Info
	isTO := func(e ast.Expr) bool {
		_, m := FieldPath(info, e, "workflow.Action", "Timeout")
		return m
	}
	const sec = int64(1000000000)
	badDef, badMin := "", ""
	sawDef, sawMin := false, false
	for i := range paths {
		p := &paths[i]
		for j, e := range p.Ev {
			if e.Kind != EvBranch || e.Cond == nil {
				continue
			}
			for _, c := range FindCmps(info, e.Cond, isTO, nil) {
				if ast.Unparen(e.Cond) != c.Expr {
					continue
				}
				k, isC := ConstInt(info, c.B)
				if !isC {
					continue
				}
				switch {
				case c.Op == token.EQL && k == 0:
					sawDef = true
					if e.Taken {
						okA := false
						for x := j + 1; x < len(p.Ev) && p.Ev[x].Kind != EvBranch; x++ {
							a := p.Ev[x]
							if a.Kind == EvAssign && len(a.Lhs) == 1 && len(a.Rhs) == 1 && isTO(a.Lhs[0]) {
								if v, isC := ConstInt(info, a.Rhs[0]); isC && v == 30*sec {
									okA = true
								}
							}
						}
						if !okA && badDef == "" {
							badDef = "a zero Timeout is not replaced by the 30 s default"
						}
					}
				case c.Op == token.LSS || c.Op == token.LEQ:
					sawMin = true
					if !(c.Op == token.LSS && k == 5*sec) && badMin == "" {
						badMin = "the minimum-timeout test is `Timeout " + c.Op.String() + " " + ExprStr(c.B) + "`; timeouts of at least five seconds must be accepted and shorter ones rejected (Timeout < 5*time.Second)"
					}
					if e.Taken && p.Exit == ExitReturn {
						ri := FirstAfter(p, j, func(x Event) bool { return x.Kind == EvReturn })
						if ri >= 0 {
							if isNil, has := ReturnsNilLast(info, p.Ev[ri]); has && isNil && badMin == "" {
								badMin = "a too-short Timeout is accepted"
							}
						}
					}
				}
			}
		}
	}
	if !sawDef {
		badDef = "Action.validate has no `Timeout == 0` default"
	}
	if !sawMin {
		badMin = "Action.validate has no minimum-timeout test"
	}
	r.Check(rule, "Action.validate:zero-timeout-defaults-to-30s", fn.Decl.Pos(), badDef == "", "%s", orOK(badDef, "Timeout == 0 ⇒ 30 s"))
	r.Check(rule, "Action.validate:timeout-at-least-5s", fn.Decl.Pos(), badMin == "", "%s", orOK(badMin, "Timeout < 5 s ⇒ error"))
	// key version
	ak := r.fnByKey(rule, wfKey("addOrErrKey"))
	if ak == nil {
		return
	}
	ainfo := ak.Pkg.TypesInfo
	okV := false
	ast.Inspect(ak.Decl.Body, func(n ast.Node) bool {
		be, ok := n.(*ast.BinaryExpr)
		if !ok || be.Op != token.NEQ {
			return true
		}
		if c, ok := ast.Unparen(be.X).(*ast.CallExpr); ok {
			if f, ok := calleeFunc(ainfo, c); ok && FuncKey(f) == "github.com/google/uuid.UUID.Version" {
				if v, isC := ConstInt(ainfo, be.Y); isC && v == 7 {
					okV = true
				}
			}
		}
		return true
	})
	r.Check(rule, "addOrErrKey:key-version-7", ak.Decl.Pos(), okV, "addOrErrKey must reject keys whose Version() != 7")
}

func ruleDefaults(r *Run, rule, typ string) {
	fn := r.Fn(rule, "workflow", typ, "Defaults")
	if fn == nil {
		return
	}
	fl, paths, ok := r.flowPaths(rule, fn)
	if !ok {
		return
	}
	info := fl.Info
	owner := "workflow." + typ
	bad := ""
	n := 0
	for i := range paths {
		p := &paths[i]
		if p.Exit != ExitReturn {
			continue
		}
		nilRecv := false
		idOK, stOK := false, false
		for _, e := range p.Ev {
			if e.Kind == EvBranch && e.Cond != nil {
				if x, op, ok := IsNilCompare(info, e.Cond); ok {
					if id, ok := x.(*ast.Ident); ok && isReceiver(fn, info, id) && (op == token.EQL) == e.Taken {
						nilRecv = true
					}
				}
			}
			if e.Kind == EvAssign && len(e.Lhs) == 1 && len(e.Rhs) == 1 {
				if _, m := FieldPath(info, e.Lhs[0], owner, "ID"); m {
					if c, ok := ast.Unparen(e.Rhs[0]).(*ast.CallExpr); ok { // (a wrapper around NewV7 is followed by the call graph below)
						if f, ok := calleeFunc(info, c); ok && (FuncKey(f) == wfKey("NewV7") || FuncKey(f) == "github.com/google/uuid.NewV7") {
							idOK = true
						}
					}
				}
				if _, m := FieldPath(info, e.Lhs[0], owner, "State"); m && len(e.Results()) == 1 {
					if cl := compositeOf(e.Results()[0]); cl != nil {
						v := keyValue(cl, "Status")
						onlyStatus := len(cl.Elts) == 1
						if v != nil && ValueKey(info, v) == "workflow.NotStarted" && onlyStatus {
							stOK = true
						}
					}
				}
			}
		}
		if nilRecv {
			continue
		}
		n++
		if (!idOK || !stOK) && bad == "" {
			bad = owner + ".Defaults leaves ID fresh=" + boolStr(idOK) + ", State pristine NotStarted=" + boolStr(stOK) + ": an accepted plan must get a fresh v7 id and a pristine NotStarted state on every object"
		}
	}
	if n == 0 {
		r.Unresolved(rule, owner+".Defaults path")
		return
	}
	r.Check(rule, "Defaults:"+typ, fn.Decl.Pos(), bad == "", "%s", orOK(bad, "ID = NewV7(); State = &State{Status: NotStarted}"))
}

func ruleValidateAction(r *Run, rule string) {
	fn := r.fnByKey(rule, execKey("Plans.validateAction"))
	if fn == nil {
		return
	}
	fl, paths, ok := r.flowPaths(rule, fn)
	if !ok {
		return
	}
	info := fl.Info
	isTypeCall := func(e ast.Expr) bool {
		c, ok := e.(*ast.CallExpr)
		if !ok {
			return false
		}
		sel, ok := ast.Unparen(c.Fun).(*ast.SelectorExpr)
		return ok && sel.Sel.Name == "Type" && len(c.Args) == 0
	}
	// the walked item's own Type() is selected from .Value, the parent's from the chain
	isItemType := func(e ast.Expr) bool {
		if !isTypeCall(e) {
			return false
		}
		recv := ast.Unparen(e.(*ast.CallExpr).Fun.(*ast.SelectorExpr).X)
		_, isIdx := recv.(*ast.IndexExpr)
		return !isIdx
	}
	isParentType := func(e ast.Expr) bool {
		if !isTypeCall(e) {
			return false
		}
		recv := ast.Unparen(e.(*ast.CallExpr).Fun.(*ast.SelectorExpr).X)
		_, isIdx := recv.(*ast.IndexExpr)
		return isIdx
	}
	atom := func(e ast.Expr) (string, bool, bool) {
		if neg, ok := EqAtom(info, e, isItemType, "workflow.OTAction"); ok {
			return "is-action", neg, true
		}
		if neg, ok := EqAtom(info, e, isParentType, "workflow.OTCheck"); ok {
			return "under-checks", neg, true
		}
		if CallAtom(info, e, "plugins.Plugin.IsCheck") {
			return "is-check-plugin", false, true
		}
		if x, op, ok := IsNilCompare(info, e); ok {
			if tv, ok := info.Types[x]; ok && ShortType(tv.Type) == "plugins.Plugin" {
				return "plugin-unknown", op == token.NEQ, true
			}
		}
		return "", false, false
	}
	// the situations validateAction must reject: no accepting path may be possible under them
	situations := []struct {
		key, what string
		asg       map[string]bool
	}{
		{"validateAction:unknown-plugin-rejected", "an action naming a plugin the registry does not know", map[string]bool{"is-action": true, "plugin-unknown": true}},
		{"validateAction:check-parent-requires-check-plugin", "an action under a Checks object whose plugin is not a check plugin", map[string]bool{"is-action": true, "plugin-unknown": false, "under-checks": true, "is-check-plugin": false}},
	}
	for _, s := range situations {
		bad := ""
		var bpos = fn.Decl.Pos()
		nAccept, nReject := 0, 0
		for i := range paths {
			p := &paths[i]
			if p.Exit != ExitReturn {
				continue
			}
			var ret *Event
			for j := range p.Ev {
				if p.Ev[j].Kind == EvReturn && !p.Ev[j].Deferred {
					ret = &p.Ev[j]
				}
			}
			if ret == nil {
				continue
			}
			isNil, _ := ReturnsNilLast(info, *ret)
			refuted := PathRefuted(fl, p, -1, s.asg, atom)
			if isNil {
				nAccept++
				if !refuted && bad == "" {
					bad, bpos = "validateAction accepts "+s.what+" (an accepting path is possible in that situation; exit guard "+ExitGuardKey(fl, p)+")", ret.Pos
				}
			} else if !refuted {
				nReject++
			}
		}
		if nAccept == 0 {
			r.Unresolved(rule, "validateAction accepting path")
			return
		}
		if nReject == 0 && bad == "" {
			bad = "validateAction has no rejecting path for " + s.what
		}
		r.Check(rule, s.key, bpos, bad == "", "%s", orOK(bad, "never accepted: "+s.what))
	}
}

// rulePopulateRegistryRejects (round-3 seed C16-6): an action that arrives with a register already set is refused, never
// honoured. Action.validate looks its plugin up through the action's own register, so a foreign or stale one would
// decide whether the plan is well formed: Submit would admit plans naming plugins this Workstream does not have.
// On every path of populateRegistry a branch that found HasRegister() true leads to a return of a non-nil error before
// anything else happens to the plan.
func rulePopulateRegistryRejects(r *Run, rule string) {
	fn := r.fnByKey(rule, "coercion.Workstream.populateRegistry")
	if fn == nil {
		return
	}
	fl, paths, ok := r.flowPaths(rule, fn)
	if !ok {
		return
	}
	info := fl.Info
	all := append(append([]Path{}, paths...), fl.Truncated()...)
	n := 0
	bad := ""
	var bpos token.Pos = fn.Decl.Pos()
	for i := range all {
		p := &all[i]
		for j, e := range p.Ev {
			if e.Kind != EvBranch || e.Cond == nil || e.Depth != 0 {
				continue
			}
			has := false
			for _, l := range EventLiterals(info, e) {
				if c, ok := ast.Unparen(l.X).(*ast.CallExpr); ok {
					if sel, ok := ast.Unparen(c.Fun).(*ast.SelectorExpr); ok && sel.Sel.Name == "HasRegister" && l.Val == "true" && l.Eq {
						has = true
					}
				}
			}
			if !has {
				continue
			}
			n++
			rejected := false
			for x := j + 1; x < len(p.Ev); x++ {
				ev := p.Ev[x]
				if ev.Depth > 0 || ev.Deferred {
					continue
				}
				if ev.Kind == EvReturn {
					if len(ev.Rhs) == 1 && ValueKey(info, ev.Rhs[0]) != "nil" {
						rejected = true
					}
					break
				}
				if ev.Kind == EvRange || (ev.Kind == EvCall && strings.HasSuffix(CalleeKey(ev), ".SetRegister")) {
					break
				}
			}
			if !rejected && bad == "" {
				bad, bpos = "an action whose register is already set is not refused (the path goes on after HasRegister() answered true): the foreign register decides what Validate accepts for this action", e.Pos
			}
		}
	}
	if n == 0 {
		r.Unresolved(rule, "populateRegistry tests HasRegister()")
		return
	}
	r.Check(rule, "populateRegistry:preset-register-is-refused", bpos, bad == "", "%s", orOK(bad, "HasRegister() ⇒ error returned at once"))
}

// ruleValidateDriver (second mutation sweep): the objects of a plan are validated by a work-list loop in workflow.Validate —
// the plan is pushed, and every object popped pushes the children its validate() returned. The per-object rules (R2, R3)
// say nothing if that loop never runs or drops children: deleting `q.push(p)` admitted every plan and passed every test.
// Decided here: (a) on every path of Validate that returns nil the root parameter was pushed before the loop; (b) the loop
// takes its element from pop() in its init and post statements and runs while it is non-nil; (c) every iteration that is
// possible with "validate returned children" pushes exactly those before the next pop (assume-and-refute on
// len(children) tests); (d) queue.push appends its arguments to the items on every path, queue.pop returns the first item
// and removes it on every path that did not establish the queue empty.
func ruleValidateDriver(r *Run, rule string) {
	fn := r.fnByKey(rule, wfKey("Validate"))
	if fn == nil {
		return
	}
	fl, paths, ok := r.flowPaths(rule, fn)
	if !ok {
		return
	}
	paths = OwnOnly(paths)
	info := fl.Info
	pushKey, popKey := "workflow.queue.push", "workflow.queue.pop"
	var root types.Object
	if ps := fn.Decl.Type.Params; ps != nil && len(ps.List) == 1 && len(ps.List[0].Names) == 1 {
		root = info.ObjectOf(ps.List[0].Names[0])
	}
	// (b) the loop
	var loop *ast.ForStmt
	ast.Inspect(fn.Decl.Body, func(x ast.Node) bool {
		if l, ok := x.(*ast.ForStmt); ok && loop == nil {
			loop = l
		}
		return true
	})
	isCallOf := func(e ast.Expr, key string) bool {
		c, ok := ast.Unparen(e).(*ast.CallExpr)
		if !ok {
			return false
		}
		f, ok := calleeFunc(info, c)
		return ok && FuncKey(f) == key
	}
	// (b) semantically, whatever the spelling of the loop: Validate answers nil only on a path whose last pop() was
	// established to have returned nil — the queue was drained
	badLoop := ""
	nLoop := 0
	for i := range paths {
		p := &paths[i]
		if p.Exit != ExitReturn {
			continue
		}
		var ret *Event
		ri := -1
		for j := range p.Ev {
			if p.Ev[j].Kind == EvReturn && !p.Ev[j].Deferred {
				ret, ri = &p.Ev[j], j
			}
		}
		if ret == nil || len(ret.Rhs) != 1 || ValueKey(info, ret.Rhs[0]) != "nil" {
			continue
		}
		nLoop++
		var lastPopVar ast.Expr
		for j := 0; j < ri; j++ {
			e := p.Ev[j]
			if e.Kind == EvAssign && len(e.Lhs) == 1 && len(e.Rhs) == 1 && isCallOf(e.Rhs[0], popKey) {
				lastPopVar = e.Lhs[0]
			}
		}
		if (lastPopVar == nil || NilnessAt(info, p, ri, lastPopVar) != "nil") && badLoop == "" {
			badLoop = "Validate returns nil on a path that did not establish that the last pop() answered nil (exit guard " + ExitGuardKey(fl, p) + "): it can accept a plan while objects are still waiting in the queue, unvalidated"
		}
	}
	if nLoop == 0 {
		badLoop = "Validate has no accepting path"
	}
	r.Check(rule, "Validate:accepts-only-with-the-queue-drained", fn.Decl.Pos(), badLoop == "", "%s", orOK(badLoop, "nil is returned only after pop() answered nil"))
	// (a) root pushed first, (c) children pushed
	badRoot, badKids := "", ""
	nRoot, nKids := 0, 0
	all := append(append([]Path{}, paths...), OwnOnly(fl.Truncated())...)
	for i := range all {
		p := &all[i]
		firstPop, pushedRoot := -1, false
		for j, e := range p.Ev {
			if IsCall(e, popKey) && firstPop < 0 {
				firstPop = j
			}
			if IsCall(e, pushKey) && firstPop < 0 && e.Call != nil {
				for _, a := range e.Call.Args {
					if ObjOf(info, a) == root && root != nil {
						pushedRoot = true
					}
				}
			}
		}
		if firstPop >= 0 {
			nRoot++
			if !pushedRoot && badRoot == "" {
				badRoot = "Validate starts popping without having pushed the plan it was given: nothing is validated, every plan is admitted"
			}
		}
		// iterations: from a validate call to the next pop
		for j, e := range p.Ev {
			if e.Kind != EvCall || e.Call == nil || !strings.HasSuffix(CalleeKey(e), ".validate") {
				continue
			}
			u := UseOfResult(fl, p, j)
			if u.Verdict != "nil" {
				continue
			}
			// the children variable: first result of the call
			var kids types.Object
			for x := j; x < len(p.Ev) && x <= j+1; x++ {
				if a := p.Ev[x]; a.Kind == EvAssign && len(a.Lhs) == 2 && len(a.Rhs) == 1 {
					if c, ok := ast.Unparen(a.Rhs[0]).(*ast.CallExpr); ok && c == e.Call {
						kids = ObjOf(info, a.Lhs[0])
					}
				}
			}
			if kids == nil {
				continue
			}
			end := len(p.Ev)
			for x := j + 1; x < len(p.Ev); x++ {
				if IsCall(p.Ev[x], popKey) {
					end = x
					break
				}
			}
			if end == len(p.Ev) && p.Exit != ExitTruncated {
				continue // the path left the loop by returning
			}
			atom := func(c ast.Expr) (string, bool, bool) {
				be, ok := ast.Unparen(c).(*ast.BinaryExpr)
				if !ok {
					return "", false, false
				}
				isLen := func(x ast.Expr) bool {
					cc, ok := ast.Unparen(x).(*ast.CallExpr)
					return ok && len(cc.Args) == 1 && ExprStr(cc.Fun) == "len" && ObjOf(info, cc.Args[0]) == kids
				}
				k, isC := ConstInt(info, be.Y)
				if !isLen(be.X) || !isC || k != 0 {
					return "", false, false
				}
				switch be.Op {
				case token.NEQ, token.GTR:
					return "has-children", false, true
				case token.EQL:
					return "has-children", true, true
				}
				return "", false, false
			}
			if PathRefutedRange(fl, p, j+1, end, map[string]bool{"has-children": true}, atom) {
				continue
			}
			nKids++
			pushed := false
			for x := j + 1; x < end; x++ {
				if IsCall(p.Ev[x], pushKey) && p.Ev[x].Call != nil {
					for _, a := range p.Ev[x].Call.Args {
						if ObjOf(info, a) == kids {
							pushed = true
						}
					}
				}
			}
			if !pushed && badKids == "" {
				badKids = "an iteration of Validate that is possible when validate() returned children goes on to the next pop without pushing them: the objects below are never validated"
			}
		}
	}
	if nRoot == 0 || nKids == 0 {
		r.Unresolved(rule, "Validate paths through the work-list loop")
	} else {
		r.Check(rule, "Validate:root-pushed-before-the-loop", fn.Decl.Pos(), badRoot == "", "%s", orOK(badRoot, "push(plan) precedes the first pop"))
		r.Check(rule, "Validate:children-pushed", fn.Decl.Pos(), badKids == "", "%s", orOK(badKids, "children returned by validate() are pushed before the next pop"))
	}
	// (d) the queue
	if push := r.fnByKey(rule, pushKey); push != nil {
		okPush := false
		pinfo := push.Pkg.TypesInfo
		ast.Inspect(push.Decl.Body, func(x ast.Node) bool {
			as, ok := x.(*ast.AssignStmt)
			if !ok || len(as.Lhs) != 1 || len(as.Rhs) != 1 {
				return true
			}
			if sel, ok := ast.Unparen(as.Lhs[0]).(*ast.SelectorExpr); ok && sel.Sel.Name == "items" {
				if c, ok := ast.Unparen(as.Rhs[0]).(*ast.CallExpr); ok && ExprStr(c.Fun) == "append" && len(c.Args) == 2 && ExprStr(c.Args[0]) == ExprStr(as.Lhs[0]) && c.Ellipsis.IsValid() {
					if v, isVar := pinfo.ObjectOf(rootIdent(c.Args[1])).(*types.Var); isVar && v != nil {
						okPush = true
					}
				}
			}
			return true
		})
		// unconditional: the assignment is a top-level statement of the body
		top := false
		for _, st := range push.Decl.Body.List {
			if as, ok := st.(*ast.AssignStmt); ok && len(as.Lhs) == 1 {
				if sel, ok := ast.Unparen(as.Lhs[0]).(*ast.SelectorExpr); ok && sel.Sel.Name == "items" {
					top = true
				}
			}
		}
		r.Check(rule, "queue.push:appends-its-arguments", push.Decl.Pos(), okPush && top, "queue.push must append all its arguments to the items, unconditionally (append seen=%s, unconditional=%s): what is not queued is never validated", boolStr(okPush), boolStr(top))
	}
	if pop := r.fnByKey(rule, popKey); pop != nil {
		pfl, ppaths, ok := r.flowPaths(rule, pop)
		if ok {
			bad := ""
			n := 0
			for i := range ppaths {
				p := &ppaths[i]
				if p.Exit != ExitReturn {
					continue
				}
				empty := false
				removes, first := false, false
				for _, e := range p.Ev {
					if e.Kind == EvBranch && e.Cond != nil {
						if be, ok := ast.Unparen(e.Cond).(*ast.BinaryExpr); ok && strings.HasPrefix(ExprStr(be.X), "len(") && strings.HasSuffix(ExprStr(be.X), ".items)") {
							if k, isC := ConstInt(pfl.Info, be.Y); isC && k == 0 && ((be.Op == token.EQL) == e.Taken) {
								empty = true
							}
						}
					}
					if e.Kind == EvAssign && len(e.Lhs) == len(e.Rhs) {
						for k, l := range e.Lhs {
							rhs := ast.Unparen(e.Rhs[k])
							if sel, ok := ast.Unparen(l).(*ast.SelectorExpr); ok && sel.Sel.Name == "items" {
								if se, ok := rhs.(*ast.SliceExpr); ok && se.Low != nil && se.High == nil {
									if k, isC := ConstInt(pfl.Info, se.Low); isC && k == 1 {
										removes = true
									}
								}
							}
							if ix, ok := rhs.(*ast.IndexExpr); ok && strings.HasSuffix(ExprStr(ix.X), ".items") {
								if k, isC := ConstInt(pfl.Info, ix.Index); isC && k == 0 {
									first = true
								}
							}
						}
					}
				}
				n++
				if !empty && (!removes || !first) && bad == "" {
					bad = "a path of queue.pop that did not establish the queue empty does not hand out items[0] and remove it (first taken=" + boolStr(first) + ", removed=" + boolStr(removes) + "): the loop of Validate then spins on one object or skips objects"
				}
			}
			if n > 0 {
				r.Check(rule, "queue.pop:first-item-removed", pop.Decl.Pos(), bad == "", "%s", orOK(bad, "non-empty ⇒ items[0] returned and removed"))
			}
		}
	}
}

func rootIdent(e ast.Expr) *ast.Ident {
	for {
		switch x := ast.Unparen(e).(type) {
		case *ast.Ident:
			return x
		case *ast.SelectorExpr:
			e = x.X
		case *ast.IndexExpr:
			e = x.X
		default:
			return &ast.Ident{Name: "_"}
		}
	}
}

// ruleRegisterContract (second mutation sweep): what it means for a plugin to be registered. On every path of Register that
// returns nil — assume-and-refute on the three guards, events for the rest: the plugin is not nil and its name not
// blank (the path is impossible under "p == nil", and under "name blank"), no plugin of that name was there (impossible
// under "the map lookup found one"), the retry policy was validated, and the plugin was stored under its name
// (`r.m[p.Name()] = p`). "Every action naming a registered plugin" and the secret-field refusal of C17 both stand on it;
// deleting the store, or negating the duplicate test, passed every test.
func ruleRegisterContract(r *Run, rule string) {
	fn := r.fnByKey(rule, "plugins/registry.Register.Register")
	if fn == nil {
		return
	}
	fl, paths, ok := r.flowPaths(rule, fn)
	if !ok {
		return
	}
	paths = OwnOnly(paths)
	info := fl.Info
	var plug types.Object
	if ps := fn.Decl.Type.Params; ps != nil && len(ps.List) == 1 && len(ps.List[0].Names) == 1 {
		plug = info.ObjectOf(ps.List[0].Names[0])
	}
	if plug == nil {
		r.Unresolved(rule, "Register's plugin parameter")
		return
	}
	// the ok variable of a map lookup `_, ok := r.m[…]`
	lookupOK := map[types.Object]bool{}
	ast.Inspect(fn.Decl.Body, func(x ast.Node) bool {
		if as, ok := x.(*ast.AssignStmt); ok && len(as.Lhs) == 2 && len(as.Rhs) == 1 {
			if ix, isIx := ast.Unparen(as.Rhs[0]).(*ast.IndexExpr); isIx {
				if tv, ok := info.Types[ix.X]; ok {
					if _, isMap := tv.Type.Underlying().(*types.Map); isMap {
						if o := ObjOf(info, as.Lhs[1]); o != nil {
							lookupOK[o] = true
						}
					}
				}
			}
		}
		return true
	})
	// the plugin's name, asked for in place or once into a local that is never written again (`name := p.Name()`)
	nameLocals := map[types.Object]bool{}
	defs := map[types.Object]int{}
	ast.Inspect(fn.Decl.Body, func(n ast.Node) bool {
		as, ok := n.(*ast.AssignStmt)
		if !ok {
			return true
		}
		for k, l := range as.Lhs {
			o := ObjOf(info, l)
			if o == nil {
				continue
			}
			defs[o]++
			if len(as.Rhs) == len(as.Lhs) && strings.Contains(ExprStr(as.Rhs[k]), ".Name()") {
				nameLocals[o] = true
			}
		}
		return true
	})
	isName := func(e ast.Expr) bool {
		if strings.Contains(ExprStr(e), ".Name()") {
			return true
		}
		for o := range nameLocals {
			if defs[o] == 1 && mentionsObj(info, e, o) {
				return true
			}
		}
		return false
	}
	atom := func(e ast.Expr) (string, bool, bool) {
		e = ast.Unparen(e)
		if x, op, ok := IsNilCompare(info, e); ok && ObjOf(info, x) == plug {
			return "plugin-nil", op == token.NEQ, true
		}
		if be, ok := e.(*ast.BinaryExpr); ok && (be.Op == token.EQL || be.Op == token.NEQ) {
			for _, pair := range [][2]ast.Expr{{be.X, be.Y}, {be.Y, be.X}} {
				if v, isS := ConstString(info, pair[1]); isS && v == "" && isName(pair[0]) {
					return "name-blank", be.Op == token.NEQ, true
				}
			}
		}
		if id, ok := e.(*ast.Ident); ok && lookupOK[info.ObjectOf(id)] {
			return "already-there", false, true
		}
		return "", false, false
	}
	bad := map[string]string{}
	n := 0
	for i := range paths {
		p := &paths[i]
		if p.Exit != ExitReturn {
			continue
		}
		var ret *Event
		for j := range p.Ev {
			if p.Ev[j].Kind == EvReturn && !p.Ev[j].Deferred {
				ret = &p.Ev[j]
			}
		}
		if ret == nil || len(ret.Rhs) != 1 || ValueKey(info, ret.Rhs[0]) != "nil" {
			continue
		}
		n++
		for _, sit := range []struct{ key, what string }{
			{"plugin-nil", "a nil plugin"}, {"name-blank", "a plugin with a blank name"}, {"already-there", "a plugin whose name is already taken"},
		} {
			if !PathRefuted(fl, p, -1, map[string]bool{sit.key: true}, atom) && bad[sit.key] == "" {
				bad[sit.key] = "Register accepts " + sit.what + " (an accepting path stays possible)"
			}
		}
		policy, stored := false, false
		for _, e := range p.Ev {
			if IsCall(e, "plugins/registry.validatePolicy") && e.Depth == 0 {
				policy = true
			}
			if e.Kind == EvAssign && len(e.Lhs) == len(e.Rhs) {
				for k, l := range e.Lhs {
					if ix, ok := ast.Unparen(l).(*ast.IndexExpr); ok && ObjOf(info, e.Rhs[k]) == plug && isName(ix.Index) {
						if tv, ok := info.Types[ix.X]; ok {
							if _, isMap := tv.Type.Underlying().(*types.Map); isMap {
								stored = true
							}
						}
					}
				}
			}
		}
		if !policy && bad["policy"] == "" {
			bad["policy"] = "Register accepts a plugin without validating its retry policy"
		}
		if !stored && bad["stored"] == "" {
			bad["stored"] = "Register answers nil without storing the plugin under its name: the plugin is \"registered\" but every plan naming it is refused"
		}
	}
	if n == 0 {
		r.Unresolved(rule, "Register accepting path")
		return
	}
	for _, k := range []string{"plugin-nil", "name-blank", "already-there", "policy", "stored"} {
		r.Check(rule, "Register:"+map[string]string{"plugin-nil": "refuses-nil-plugin", "name-blank": "refuses-blank-name", "already-there": "refuses-duplicate-name", "policy": "validates-retry-policy", "stored": "stores-the-plugin"}[k], fn.Decl.Pos(), bad[k] == "", "%s", orOK(bad[k], "holds on every accepting path"))
	}
}
