package main

import (
	"go/ast"
	"go/token"
	"go/types"
	"sort"
	"strings"

	"golang.org/x/tools/go/packages"
)

const pkgSqlite = "workflow/storage/sqlite"

var workflowObjTypes = map[string]bool{"workflow.Plan": true, "workflow.Block": true, "workflow.Checks": true, "workflow.Sequence": true, "workflow.Action": true}

// binding is one `stmt.SetX("$param", expr)`.
type binding struct {
	Param, Class string
	Expr         ast.Expr
	Pos          token.Pos
	Src          string // field of the workflow object the value comes from, "param:<name>", or ""
	Always       bool   // bound on every path that reaches Prepare
}

// stmtWriter is a function that fills and prepares one statement.
type stmtWriter struct {
	Fn      *Func
	SQL     SQLStmt
	Binds   map[string]*binding
	ObjType string // workflow.X written
	QueryAt token.Pos
}

type colRead struct {
	Col, Class, Dest string
	Pos              token.Pos
	Fn               string
}

// rowReader is a query whose rows are read by a ResultFunc.
type rowReader struct {
	Fn    *Func
	SQL   SQLStmt
	Reads []colRead
	Pos   token.Pos
	Lit   *ast.FuncLit
}

type sqliteModel struct {
	pkg     *packages.Package
	info    *types.Info
	queries map[types.Object]SQLStmt
	qpos    map[types.Object]token.Pos
	tables  map[string]SQLStmt
	writers []*stmtWriter
	readers []*rowReader
	r       *Run
}

func stmtClassOfSetter(name string) string {
	switch name {
	case "SetText":
		return "text"
	case "SetInt64", "SetBool":
		return "int"
	case "SetBytes":
		return "bytes"
	case "SetFloat":
		return "float"
	case "SetNull":
		return "null"
	}
	return ""
}

func buildSqliteModel(r *Run, rule string) *sqliteModel {
	pkg := r.P.Pkgs[pkgSqlite]
	if pkg == nil {
		r.Unresolved(rule, pkgSqlite)
		return nil
	}
	m := &sqliteModel{pkg: pkg, info: pkg.TypesInfo, queries: map[types.Object]SQLStmt{}, qpos: map[types.Object]token.Pos{}, tables: map[string]SQLStmt{}, r: r}
	// package-level and function-level string constants/variables holding SQL
	for _, f := range pkg.Syntax {
		ast.Inspect(f, func(n ast.Node) bool {
			vs, ok := n.(*ast.ValueSpec)
			if !ok || len(vs.Values) != len(vs.Names) {
				return true
			}
			for i, nm := range vs.Names {
				if s, ok := ConstString(m.info, vs.Values[i]); ok {
					st := ParseSQL(s)
					if st.Kind != "other" {
						obj := m.info.ObjectOf(nm)
						m.queries[obj] = st
						m.qpos[obj] = nm.Pos()
						if st.Kind == "create" {
							m.tables[st.Table] = st
						}
					}
				}
			}
			return true
		})
	}
	for _, fn := range r.P.sortedFuncs() {
		if fn.Pkg != pkg || fn.Decl.Body == nil {
			continue
		}
		m.findWriters(fn)
		m.findReaders(fn)
	}
	return m
}

func (m *sqliteModel) queryOf(e ast.Expr) (SQLStmt, types.Object, bool) {
	if o := ObjOf(m.info, e); o != nil {
		if s, ok := m.queries[o]; ok {
			return s, o, true
		}
	}
	return SQLStmt{}, nil, false
}

func (m *sqliteModel) findWriters(fn *Func) {
	info := m.info
	type wkey struct{ recv types.Object }
	writers := map[types.Object]*stmtWriter{}
	ast.Inspect(fn.Decl.Body, func(n ast.Node) bool {
		c, ok := n.(*ast.CallExpr)
		if !ok {
			return true
		}
		f, ok := calleeFunc(info, c)
		if !ok || !strings.HasPrefix(FuncKey(f), pkgSqlite+".Stmt.") {
			return true
		}
		recv := recvObj(info, c)
		if recv == nil {
			return true
		}
		name := f.Name()
		if name == "Query" && len(c.Args) == 1 {
			if sql, _, ok := m.queryOf(c.Args[0]); ok {
				writers[recv] = &stmtWriter{Fn: fn, SQL: sql, Binds: map[string]*binding{}, QueryAt: c.Pos()}
			}
			return true
		}
		if cl := stmtClassOfSetter(name); cl != "" && len(c.Args) >= 1 {
			w := writers[recv]
			if w == nil {
				return true
			}
			p, _ := ConstString(info, c.Args[0])
			b := &binding{Param: p, Class: cl, Pos: c.Pos()}
			if len(c.Args) > 1 {
				b.Expr = c.Args[1]
				b.Src = m.sourceField(fn, b.Expr, 0)
			}
			if old := w.Binds[p]; old != nil && old.Src != b.Src {
				switch {
				case b.Src == "":
					b.Src = old.Src
				case old.Src != "":
					b.Src = old.Src + "|" + b.Src
				}
			}
			w.Binds[p] = b
		}
		return true
	})
	if len(writers) == 0 {
		return
	}
	// which params are bound on every path reaching Prepare
	fl := m.r.P.FlowOf(fn)
	paths, ok := fl.Paths()
	// bindings made in a helper (a method of Stmt, a function taking the statement) appear on the paths
	// with the helper's parameters replaced by the arguments: collect those too
	if ok {
		for i := range paths {
			for _, e := range paths[i].Ev {
				if e.Kind != EvCall || e.Depth == 0 {
					continue
				}
				k := CalleeKey(e)
				if !strings.HasPrefix(k, pkgSqlite+".Stmt.") || len(e.Call.Args) < 1 {
					continue
				}
				cl := stmtClassOfSetter(k[strings.LastIndex(k, ".")+1:])
				w := writers[recvObj(info, e.Call)]
				if cl == "" || w == nil {
					continue
				}
				pn, isC := ConstString(info, e.Call.Args[0])
				if !isC {
					continue
				}
				if _, have := w.Binds[pn]; have {
					continue
				}
				b := &binding{Param: pn, Class: cl, Pos: e.Call.Pos()}
				if len(e.Call.Args) > 1 {
					b.Expr = e.Call.Args[1]
					b.Src = m.sourceField(fn, b.Expr, 0)
				}
				w.Binds[pn] = b
			}
		}
	}
	for recv, w := range writers {
		always := map[string]int{}
		nPrep := 0
		if ok {
			for i := range paths {
				p := &paths[i]
				bound := map[string]bool{}
				for _, e := range p.Ev {
					if e.Kind != EvCall {
						continue
					}
					if recvObj(info, e.Call) != recv {
						continue
					}
					k := CalleeKey(e)
					if cl := stmtClassOfSetter(k[strings.LastIndex(k, ".")+1:]); cl != "" && strings.HasPrefix(k, pkgSqlite+".Stmt.") && len(e.Call.Args) >= 1 {
						if pn, ok := ConstString(info, e.Call.Args[0]); ok {
							bound[pn] = true
						}
					}
					if k == pkgSqlite+".Stmt.Prepare" {
						nPrep++
						for pn := range bound {
							always[pn]++
						}
					}
				}
			}
		}
		for pn, b := range w.Binds {
			b.Always = nPrep > 0 && always[pn] == nPrep
		}
		// object type: the most frequent workflow type among sources
		w.ObjType = m.objTypeOf(fn)
		m.writers = append(m.writers, w)
	}
	sort.Slice(m.writers, func(i, j int) bool { return m.writers[i].QueryAt < m.writers[j].QueryAt })
}

func (m *sqliteModel) objTypeOf(fn *Func) string {
	for _, f := range fn.Decl.Type.Params.List {
		for _, nm := range f.Names {
			if t := ShortType(m.info.ObjectOf(nm).Type()); workflowObjTypes[t] {
				return t
			}
		}
	}
	return ""
}

// sourceField finds the field of a workflow object an expression is computed from.
func (m *sqliteModel) sourceField(fn *Func, e ast.Expr, depth int) string {
	info := m.info
	found := ""
	own := m.objTypeOf(fn)
	type cand struct {
		base  string
		field string
	}
	var cands []cand
	ast.Inspect(e, func(n ast.Node) bool {
		sel, ok := n.(*ast.SelectorExpr)
		if !ok {
			return true
		}
		if tv, ok := info.Types[sel.X]; ok && workflowObjTypes[ShortType(tv.Type)] {
			if s := info.Selections[sel]; s != nil && s.Kind() == types.FieldVal {
				f := sel.Sel.Name
				if f == "State" {
					if parent := selectorParent(e, sel); parent != nil {
						f = "State." + parent.Sel.Name
					}
				}
				cands = append(cands, cand{ShortType(tv.Type), f})
			}
		}
		return true
	})
	for _, c := range cands {
		if c.base == own {
			found = c.field
		}
	}
	if found == "" && len(cands) > 0 {
		found = cands[len(cands)-1].field
	}
	if found != "" {
		return found
	}
	// a local variable: follow its single definition
	if depth < 2 {
		var id *ast.Ident
		ast.Inspect(e, func(n ast.Node) bool {
			if x, ok := n.(*ast.Ident); ok && id == nil {
				if v, ok := info.ObjectOf(x).(*types.Var); ok && !v.IsField() && v.Parent() != v.Pkg().Scope() {
					id = x
				}
			}
			return id == nil
		})
		if id != nil {
			obj := info.ObjectOf(id)
			// parameter?
			for _, f := range fn.Decl.Type.Params.List {
				for _, nm := range f.Names {
					if info.ObjectOf(nm) == obj {
						return "param:" + nm.Name
					}
				}
			}
			var def ast.Expr
			ast.Inspect(fn.Decl.Body, func(n ast.Node) bool {
				as, ok := n.(*ast.AssignStmt)
				if !ok {
					return true
				}
				for i, l := range as.Lhs {
					if ObjOf(info, l) == obj && def == nil {
						if len(as.Rhs) == len(as.Lhs) {
							def = as.Rhs[i]
						} else if len(as.Rhs) == 1 {
							def = as.Rhs[0]
						}
					}
				}
				return true
			})
			if def != nil {
				return m.sourceField(fn, def, depth+1)
			}
		}
	}
	return ""
}

func selectorParent(root ast.Expr, child *ast.SelectorExpr) *ast.SelectorExpr {
	var out *ast.SelectorExpr
	ast.Inspect(root, func(n ast.Node) bool {
		if s, ok := n.(*ast.SelectorExpr); ok && ast.Unparen(s.X) == ast.Expr(child) {
			out = s
		}
		return out == nil
	})
	return out
}

// ---------------------------------------------------------------------------
// readers

var sqliteExecKeys = map[string]bool{
	"zombiezen.com/go/sqlite/sqlitex.Execute":          true,
	"zombiezen.com/go/sqlite/sqlitex.ExecuteTransient": true,
	"zombiezen.com/go/sqlite/sqlitex.Exec":             true,
}

func (m *sqliteModel) findReaders(fn *Func) {
	info := m.info
	ast.Inspect(fn.Decl.Body, func(n ast.Node) bool {
		c, ok := n.(*ast.CallExpr)
		if !ok {
			return true
		}
		f, ok := calleeFunc(info, c)
		if !ok || !sqliteExecKeys[FuncKey(f)] || len(c.Args) < 3 {
			return true
		}
		sql, ok := m.resolveQuery(fn, c.Args[1])
		if !ok {
			return true
		}
		// ResultFunc literal
		var lit *ast.FuncLit
		ast.Inspect(c.Args[2], func(x ast.Node) bool {
			if kv, ok := x.(*ast.KeyValueExpr); ok {
				if id, ok := kv.Key.(*ast.Ident); ok && id.Name == "ResultFunc" {
					lit, _ = ast.Unparen(kv.Value).(*ast.FuncLit)
				}
			}
			return lit == nil
		})
		rr := &rowReader{Fn: fn, SQL: sql, Pos: c.Pos(), Lit: lit}
		if lit != nil && len(lit.Type.Params.List) == 1 && len(lit.Type.Params.List[0].Names) == 1 {
			stmtObj := info.ObjectOf(lit.Type.Params.List[0].Names[0])
			rr.Reads = m.colsRead(fn, lit.Body, stmtObj, nil, 0)
		}
		m.readers = append(m.readers, rr)
		return true
	})
}

// resolveQuery resolves the query argument: a SQL constant, or a local assigned
// from replaceWithIDs(<const>, ...) / a constant.
func (m *sqliteModel) resolveQuery(fn *Func, e ast.Expr) (SQLStmt, bool) {
	if s, _, ok := m.queryOf(e); ok {
		return s, true
	}
	obj := ObjOf(m.info, e)
	if obj == nil {
		return SQLStmt{}, false
	}
	var out SQLStmt
	found := false
	ast.Inspect(fn.Decl.Body, func(n ast.Node) bool {
		as, ok := n.(*ast.AssignStmt)
		if !ok || found {
			return true
		}
		for _, l := range as.Lhs {
			if ObjOf(m.info, l) != obj || len(as.Rhs) != 1 {
				continue
			}
			if c, ok := ast.Unparen(as.Rhs[0]).(*ast.CallExpr); ok && len(c.Args) >= 1 {
				if s, _, ok := m.queryOf(c.Args[0]); ok {
					out, found = s, true
				}
			} else if s, _, ok := m.queryOf(as.Rhs[0]); ok {
				out, found = s, true
			}
		}
		return true
	})
	return out, found
}

func readClass(method string) string {
	switch method {
	case "GetText", "ColumnText":
		return "text"
	case "GetInt64", "ColumnInt64", "ColumnInt", "GetBool":
		return "int"
	case "GetBytes", "GetLen", "ColumnBytes", "GetReader":
		return "bytes"
	case "GetFloat":
		return "float"
	}
	return ""
}

// colsRead lists the columns read from stmtObj in body; subst maps string parameters to constants.
func (m *sqliteModel) colsRead(fn *Func, body ast.Node, stmtObj types.Object, subst map[types.Object]string, depth int) []colRead {
	info := m.info
	var out []colRead
	if depth > 4 || stmtObj == nil {
		return nil
	}
	parents := parentMap(body)
	colName := func(e ast.Expr) string {
		if s, ok := ConstString(info, e); ok {
			return s
		}
		if o := ObjOf(info, e); o != nil && subst != nil {
			return subst[o]
		}
		return ""
	}
	ast.Inspect(body, func(n ast.Node) bool {
		c, ok := n.(*ast.CallExpr)
		if !ok {
			return true
		}
		// direct read
		if sel, ok := ast.Unparen(c.Fun).(*ast.SelectorExpr); ok && ObjOf(info, sel.X) == stmtObj {
			if cl := readClass(sel.Sel.Name); cl != "" && len(c.Args) >= 1 {
				col := colName(c.Args[0])
				if col == "" {
					if _, isC := ConstInt(info, c.Args[0]); isC {
						col = "#" + ExprStr(c.Args[0])
					}
				}
				out = append(out, colRead{Col: col, Class: cl, Dest: m.destOf(fn, body, parents, c), Pos: c.Pos(), Fn: fn.Key})
			}
			return true
		}
		// helper taking the stmt
		f, ok := calleeFunc(info, c)
		if !ok {
			return true
		}
		callee := m.r.P.DeclOf(f)
		if callee == nil || callee.Pkg != m.pkg || callee.Decl.Body == nil {
			return true
		}
		argIdx := -1
		for i, a := range c.Args {
			if ObjOf(info, a) == stmtObj {
				argIdx = i
			}
		}
		if argIdx < 0 {
			return true
		}
		// map callee params
		var params []*ast.Ident
		for _, fl := range callee.Decl.Type.Params.List {
			params = append(params, fl.Names...)
		}
		if argIdx >= len(params) {
			return true
		}
		sub := map[types.Object]string{}
		for i, a := range c.Args {
			if i < len(params) {
				if s := colName(a); s != "" {
					sub[info.ObjectOf(params[i])] = s
				}
			}
		}
		inner := m.colsRead(callee, callee.Decl.Body, info.ObjectOf(params[argIdx]), sub, depth+1)
		dest := m.destOf(fn, body, parents, c)
		for _, r := range inner {
			if r.Dest == "" || r.Dest == "<ret>" {
				r.Dest = dest
			} else if strings.HasPrefix(r.Dest, "State.") && dest == "State" {
				// keep State.X
			}
			out = append(out, r)
		}
		return true
	})
	return out
}

// destOf finds the workflow field the value of read node c ends up in (within body).
func (m *sqliteModel) destOf(fn *Func, body ast.Node, parents map[ast.Node]ast.Node, c ast.Node) string {
	info := m.info
	fieldOfLHS := func(l ast.Expr) string {
		sel, ok := ast.Unparen(l).(*ast.SelectorExpr)
		if !ok {
			return ""
		}
		if tv, ok := info.Types[sel.X]; ok {
			t := ShortType(tv.Type)
			if workflowObjTypes[t] || t == "storage.ListResult" {
				return sel.Sel.Name
			}
		}
		return ""
	}
	var viaVarFrom func(obj types.Object, from token.Pos, depth int) string
	viaVarFrom = func(obj types.Object, from token.Pos, depth int) string {
		// the variable is live from `from` to its next (re)definition
		until := token.Pos(1 << 40)
		ast.Inspect(body, func(n ast.Node) bool {
			if as, ok := n.(*ast.AssignStmt); ok && as.Pos() > from {
				for _, l := range as.Lhs {
					if ObjOf(info, l) == obj && as.Pos() < until {
						until = as.Pos()
					}
				}
			}
			return true
		})
		dest := ""
		var second types.Object
		var secondPos token.Pos
		ast.Inspect(body, func(n ast.Node) bool {
			if dest != "" || n == nil {
				return false
			}
			if n.Pos() <= from && n.End() <= from {
				return true
			}
			if n.Pos() >= until {
				return false
			}
			switch x := n.(type) {
			case *ast.AssignStmt:
				if x.Pos() <= from {
					return true
				}
				for i, l := range x.Lhs {
					f := fieldOfLHS(l)
					if f == "" {
						continue
					}
					var rhs ast.Expr
					if len(x.Rhs) == len(x.Lhs) {
						rhs = x.Rhs[i]
					} else if len(x.Rhs) == 1 {
						rhs = x.Rhs[0]
					}
					if rhs != nil && mentionsObj(info, rhs, obj) {
						dest = f
					}
				}
			case *ast.KeyValueExpr:
				if id, ok := x.Key.(*ast.Ident); ok && x.Pos() > from && mentionsObj(info, x.Value, obj) {
					if cl, ok := parents[x].(*ast.CompositeLit); ok {
						if tv, ok := info.Types[cl]; ok && ShortType(tv.Type) == "workflow.State" {
							dest = "State." + id.Name
						} else if ok && (workflowObjTypes[ShortType(tv.Type)] || ShortType(tv.Type) == "storage.ListResult") {
							dest = id.Name
						}
					}
				}
			case *ast.CallExpr:
				if x.Pos() <= from {
					return true
				}
				if sel, ok := ast.Unparen(x.Fun).(*ast.SelectorExpr); ok && sel.Sel.Name == "SetPlanID" && len(x.Args) == 1 && mentionsObj(info, x.Args[0], obj) {
					dest = "planID"
					return false
				}
				// decoded into another variable: json.Unmarshal(b, &req)
				if second == nil && len(x.Args) == 2 && mentionsObj(info, x.Args[0], obj) {
					a := ast.Unparen(x.Args[1])
					if u, ok := a.(*ast.UnaryExpr); ok && u.Op == token.AND {
						a = ast.Unparen(u.X)
					}
					if o := ObjOf(info, a); o != nil && o != obj {
						second = o
						secondPos = x.Pos()
					}
				}
			}
			return true
		})
		if dest == "" && second != nil && depth < 1 {
			return viaVarFrom(second, secondPos, depth+1)
		}
		return dest
	}
	viaVar := func(obj types.Object) string { return viaVarFrom(obj, c.Pos(), 0) }
	for n := parents[c]; n != nil; n = parents[n] {
		switch x := n.(type) {
		case *ast.KeyValueExpr:
			if id, ok := x.Key.(*ast.Ident); ok {
				if cl, ok := parents[x].(*ast.CompositeLit); ok {
					if tv, ok := info.Types[cl]; ok {
						switch t := ShortType(tv.Type); {
						case t == "workflow.State":
							return "State." + id.Name
						case workflowObjTypes[t] || t == "storage.ListResult":
							return id.Name
						}
					}
				}
			}
		case *ast.AssignStmt:
			idx := 0
			if len(x.Rhs) == len(x.Lhs) {
				for i, r := range x.Rhs {
					if containsNode(r, c) {
						idx = i
					}
				}
			}
			l := x.Lhs[idx]
			if f := fieldOfLHS(l); f != "" {
				return f
			}
			if obj := ObjOf(info, l); obj != nil {
				return viaVar(obj)
			}
			return ""
		case *ast.ValueSpec:
			if len(x.Names) > 0 {
				return viaVar(info.ObjectOf(x.Names[0]))
			}
		case *ast.ReturnStmt:
			return "<ret>"
		case *ast.CallExpr:
			if sel, ok := ast.Unparen(x.Fun).(*ast.SelectorExpr); ok && sel.Sel.Name == "SetPlanID" {
				return "planID"
			}
		case *ast.BlockStmt:
			return ""
		}
	}
	return ""
}
