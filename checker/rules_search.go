package main

import (
	"fmt"
	"go/ast"
	"go/token"
	"go/types"
	"regexp"
	"sort"
	"strings"
)

// searchTemplate is one query text the builder can produce, with the named parameters bound on that path.
type searchTemplate struct {
	Text    string
	Named   map[string]bool
	Filters []string // which filters were non-empty on the path
	Unknown string   // non-empty when the evaluator met a construct it cannot interpret
	Infeasible bool  // the path contradicts what the evaluator knows (e.g. len(list) > 0 not taken with a non-empty list)
	ArgPos  []int    // for each id-list expansion, in call order, where its placeholder was in the query
}

// evalSearchBuilder interprets the string-building statements of a query builder along one path.
func evalSearchBuilder(fl *Flow, p *Path) searchTemplate {
	info := fl.Info
	t := searchTemplate{Named: map[string]bool{}}
	builders := map[types.Object]*strings.Builder{}
	strs := map[types.Object]string{}
	lists := map[types.Object][]string{} // []string locals built by append
	iter := map[ast.Stmt]int{}
	idxOf := map[types.Object]ast.Stmt{} // range key variable → its loop
	var eval func(e ast.Expr) (string, bool)
	eval = func(e ast.Expr) (string, bool) {
		e = ast.Unparen(e)
		if s, ok := ConstString(info, e); ok {
			return s, true
		}
		switch x := e.(type) {
		case *ast.Ident:
			o := info.ObjectOf(x)
			if s, ok := strs[o]; ok {
				return s, true
			}
			if loop, ok := idxOf[o]; ok {
				return fmt.Sprint(iter[loop] - 1), true
			}
		case *ast.BinaryExpr:
			if x.Op == token.ADD {
				a, ok1 := eval(x.X)
				b, ok2 := eval(x.Y)
				return a + b, ok1 && ok2
			}
		case *ast.CallExpr:
			if f, ok := calleeFunc(info, x); ok {
				switch FuncKey(f) {
				case "fmt.Sprintf":
					format, ok := eval(x.Args[0])
					if !ok {
						return "", false
					}
					out := format
					for _, a := range x.Args[1:] {
						v, ok := eval(a)
						if !ok {
							v = "<?>"
						}
						i := strings.Index(out, "%")
						if i < 0 || i+1 >= len(out) {
							return "", false
						}
						out = out[:i] + v + out[i+2:]
					}
					return out, true
				case "strings.Builder.String":
					if b := builders[recvObj(info, x)]; b != nil {
						return b.String(), true
					}
				case "strings.Join":
					if len(x.Args) == 2 {
						if l, ok := lists[ObjOf(info, x.Args[0])]; ok {
							if sep, ok := eval(x.Args[1]); ok {
								return strings.Join(l, sep), true
							}
						}
					}
					return "<joined>", true
				}
			}
		}
		return "", false
	}
	for _, e := range p.Ev {
		switch e.Kind {
		case EvRange:
			rs := e.Clause.(*ast.RangeStmt)
			if e.Taken {
				iter[rs]++
				if rs.Key != nil {
					if o := ObjOf(info, rs.Key); o != nil {
						idxOf[o] = rs
					}
				}
			}
		case EvBranch:
			// a test of the length of a list the evaluator tracks is decided, not guessed
			if e.Cond != nil {
				if be, ok := ast.Unparen(e.Cond).(*ast.BinaryExpr); ok {
					if lc, ok := ast.Unparen(be.X).(*ast.CallExpr); ok && len(lc.Args) == 1 {
						if id, ok := lc.Fun.(*ast.Ident); ok && id.Name == "len" {
							if l, tracked := lists[ObjOf(info, lc.Args[0])]; tracked {
								if k, isC := ConstInt(info, be.Y); isC {
									n := int64(len(l))
									var holds, known bool
									switch be.Op {
									case token.GTR:
										holds, known = n > k, true
									case token.GEQ:
										holds, known = n >= k, true
									case token.EQL:
										holds, known = n == k, true
									case token.NEQ:
										holds, known = n != k, true
									case token.LSS:
										holds, known = n < k, true
									case token.LEQ:
										holds, known = n <= k, true
									}
									if known && holds != e.Taken {
										t.Infeasible = true
									}
								}
							}
						}
					}
				}
			}
			if e.Cond != nil && e.Taken {
				s := ExprStr(e.Cond)
				for _, f := range []string{"ByIDs", "ByGroupIDs", "ByStatus"} {
					if strings.Contains(s, "len(filters."+f+") > 0") {
						found := false
						for _, x := range t.Filters {
							if x == f {
								found = true
							}
						}
						if !found {
							t.Filters = append(t.Filters, f)
						}
					}
				}
			}
		case EvAssign:
			// a []string local: declared empty, extended by append
			if len(e.Lhs) == 1 {
				if o, isVar := ObjOf(info, e.Lhs[0]).(*types.Var); isVar {
					if sl, ok := o.Type().Underlying().(*types.Slice); ok {
						if b, ok := sl.Elem().Underlying().(*types.Basic); ok && b.Info()&types.IsString != 0 {
							switch {
							case len(e.Rhs) == 0:
								lists[o] = []string{}
							case len(e.Rhs) == 1:
								if c, ok := ast.Unparen(e.Rhs[0]).(*ast.CallExpr); ok {
									if id, ok := c.Fun.(*ast.Ident); ok && id.Name == "make" {
										lists[o] = []string{}
									} else if ok && id.Name == "append" && len(c.Args) >= 1 && ObjOf(info, c.Args[0]) == o {
										cur := append([]string{}, lists[o]...)
										for _, a := range c.Args[1:] {
											v, ok := eval(a)
											if !ok {
												v = "<?>"
												t.Unknown = "append(" + ExprStr(a) + ") cannot be evaluated"
											}
											cur = append(cur, v)
										}
										lists[o] = cur
									} else {
										delete(lists, o)
									}
								} else if ValueKey(info, e.Rhs[0]) == "nil" {
									lists[o] = []string{}
								} else if _, isLit := ast.Unparen(e.Rhs[0]).(*ast.CompositeLit); isLit {
									lists[o] = []string{}
								} else {
									delete(lists, o)
								}
							}
							continue
						}
					}
				}
			}
			if len(e.Lhs) >= 1 && len(e.Rhs) == 1 {
				// builder declaration
				if o := ObjOf(info, e.Lhs[0]); o != nil {
					if TypeKey(o.Type()) == "strings.Builder" {
						builders[o] = &strings.Builder{}
						continue
					}
				}
				// named[name] = v
				if ie, ok := ast.Unparen(e.Lhs[0]).(*ast.IndexExpr); ok {
					if k, ok := eval(ie.Index); ok {
						t.Named[k] = true
					}
					continue
				}
				// query, args = replaceWithIDs(query, "$x", ids)
				if c, ok := ast.Unparen(e.Rhs[0]).(*ast.CallExpr); ok {
					if f, ok := calleeFunc(info, c); ok && strings.HasSuffix(FuncKey(f), ".replaceWithIDs") && len(c.Args) == 3 {
						q, ok1 := eval(c.Args[0])
						tok, ok2 := eval(c.Args[1])
						if ok1 && ok2 {
							if o := ObjOf(info, e.Lhs[0]); o != nil {
								t.ArgPos = append(t.ArgPos, strings.Index(q, tok))
								// keep later positions comparable: the replacement has the token's length
								strs[o] = strings.Replace(q, tok, "(?)"+strings.Repeat(" ", max(0, len(tok)-3)), 1)
							}
						} else {
							t.Unknown = "replaceWithIDs with non-constant arguments"
						}
						continue
					}
				}
				if o := ObjOf(info, e.Lhs[0]); o != nil {
					if b, isBasic := o.Type().Underlying().(*types.Basic); isBasic && b.Info()&types.IsString != 0 {
						if v, ok := eval(e.Rhs[0]); ok {
							if e.Tok == token.ADD_ASSIGN {
								strs[o] += v
							} else {
								strs[o] = v
							}
						} else {
							delete(strs, o)
						}
					}
				}
			}
		case EvCall:
			if f, ok := e.Callee.(*types.Func); ok && FuncKey(f) == "strings.Builder.WriteString" && len(e.Call.Args) == 1 {
				b := builders[recvObj(info, e.Call)]
				if b == nil {
					b = &strings.Builder{}
					builders[recvObj(info, e.Call)] = b
				}
				if v, ok := eval(e.Call.Args[0]); ok {
					b.WriteString(v)
				} else {
					t.Unknown = "WriteString(" + ExprStr(e.Call.Args[0]) + ") cannot be evaluated"
				}
			}
		case EvReturn:
			if len(e.Rhs) >= 1 {
				if v, ok := eval(e.Rhs[0]); ok {
					t.Text = v
				} else {
					t.Unknown = "returned query " + ExprStr(e.Rhs[0]) + " cannot be evaluated"
				}
			}
		}
	}
	return t
}

var (
	reOrderTail = regexp.MustCompile(`(?i)\s+order\s+by\s+submit_time\s+desc\s*;?\s*$`)
	reWherePart = regexp.MustCompile(`(?is)\bwhere\b(.*?)(\border\s+by\b.*)?$`)
	reSimplePred = regexp.MustCompile(`(?i)^\s*([a-z_]+)\s*(=|in)\s*(\(\?\)|\$\w+|\?)\s*$`)
	reStray     = regexp.MustCompile(`\)[A-Za-z0-9_]`)
	reDollar    = regexp.MustCompile(`\$\w+`)
)

func splitTopWord(s, word string) []string {
	var out []string
	depth := 0
	low := strings.ToLower(s)
	w := " " + word + " "
	start := 0
	for i := 0; i < len(s); i++ {
		switch s[i] {
		case '(':
			depth++
		case ')':
			depth--
		}
		if depth == 0 && strings.HasPrefix(low[i:], w) {
			out = append(out, s[start:i])
			start = i + len(w)
			i += len(w) - 1
		}
	}
	out = append(out, s[start:])
	return out
}

// lintSearchTemplate returns the problems of one template.
func lintSearchTemplate(t searchTemplate) []string {
	var probs []string
	q := t.Text
	if !reOrderTail.MatchString(q) {
		probs = append(probs, "does not end with ORDER BY submit_time DESC")
	}
	if reStray.MatchString(q) {
		probs = append(probs, "the expanded id list is followed by stray characters ("+reStray.FindString(q)+"…): the token replaced is not the whole placeholder, the statement is a syntax error")
	}
	for _, d := range reDollar.FindAllString(q, -1) {
		if !t.Named[d] {
			probs = append(probs, "placeholder "+d+" is left in the query but never bound")
		}
	}
	for i := 1; i < len(t.ArgPos); i++ {
		if t.ArgPos[i] >= 0 && t.ArgPos[i-1] >= 0 && t.ArgPos[i] < t.ArgPos[i-1] {
			probs = append(probs, "the id lists are expanded (and their positional arguments appended) in a different order than their placeholders appear in the query: the values are bound to the wrong IN lists")
		}
	}
	for _, pos := range t.ArgPos {
		if pos < 0 {
			probs = append(probs, "an id list is expanded for a placeholder that does not occur in the query")
		}
	}
	m := reWherePart.FindStringSubmatch(q)
	if m == nil {
		probs = append(probs, "no WHERE clause")
		return probs
	}
	where := strings.TrimSpace(m[1])
	colsSeen := map[string]int{}
	for _, part := range splitTopWord(" "+where+" ", "and") {
		part = strings.TrimSpace(part)
		if part == "" {
			probs = append(probs, "empty predicate between ANDs")
			continue
		}
		col := ""
		if pm := reSimplePred.FindStringSubmatch(part); pm != nil {
			col = strings.ToLower(pm[1])
		} else if strings.HasPrefix(part, "(") && strings.HasSuffix(part, ")") {
			inner := part[1 : len(part)-1]
			for _, alt := range splitTopWord(" "+inner+" ", "or") {
				pm := reSimplePred.FindStringSubmatch(strings.TrimSpace(alt))
				if pm == nil {
					probs = append(probs, "unparsable alternative `"+strings.TrimSpace(alt)+"`")
					continue
				}
				c := strings.ToLower(pm[1])
				if col != "" && col != c {
					probs = append(probs, "an OR group mixes columns "+col+" and "+c)
				}
				col = c
			}
		} else if strings.Contains(strings.ToLower(part), " or ") {
			probs = append(probs, "an OR at the top level of the WHERE clause is not parenthesised: `"+part+"` (AND binds tighter, other filters would not apply to every alternative)")
			continue
		} else {
			probs = append(probs, "unparsable predicate `"+part+"`")
			continue
		}
		colsSeen[col]++
	}
	for c, n := range colsSeen {
		if n > 1 {
			probs = append(probs, fmt.Sprintf("%d equalities on column %s are joined by AND: with different values the conjunction is unsatisfiable, so a search for several values returns nothing (several values of one filter must be alternatives: OR / IN)", n, c))
		}
	}
	return probs
}

func ruleSearchTemplates(r *Run, rule string) {
	fn := r.fnByKey(rule, sqlKey("reader.buildSearchQuery"))
	if fn == nil {
		return
	}
	fl, paths, ok := r.flowPaths(rule, fn)
	if !ok {
		return
	}
	paths = OwnOnly(paths) // the evaluator models the helpers it knows (replaceWithIDs) itself
	type agg struct {
		templates map[string]bool
		probs     map[string]bool
		n         int
	}
	byFilters := map[string]*agg{}
	for i := range paths {
		p := &paths[i]
		if p.Exit != ExitReturn {
			continue
		}
		t := evalSearchBuilder(fl, p)
		if t.Infeasible {
			continue
		}
		if len(t.Filters) == 0 {
			continue // Filters.Validate rejects an empty filter before the builder runs
		}
		sort.Strings(t.Filters)
		key := strings.Join(t.Filters, "+")
		a := byFilters[key]
		if a == nil {
			a = &agg{templates: map[string]bool{}, probs: map[string]bool{}}
			byFilters[key] = a
		}
		a.n++
		if t.Unknown != "" {
			a.probs["UNDECIDED: "+t.Unknown] = true
			continue
		}
		a.templates[t.Text] = true
		for _, pr := range lintSearchTemplate(t) {
			a.probs[pr+" — template: "+strings.TrimSpace(t.Text)] = true
		}
	}
	r.Evals += len(paths)
	var keys []string
	for k := range byFilters {
		keys = append(keys, k)
	}
	sort.Strings(keys)
	for _, k := range keys {
		a := byFilters[k]
		var probs []string
		for p := range a.probs {
			probs = append(probs, p)
		}
		sort.Strings(probs)
		undec := false
		for _, p := range probs {
			if strings.HasPrefix(p, "UNDECIDED") {
				undec = true
			}
		}
		if undec {
			r.Undecided(rule, "search-templates:"+k, fn.Decl.Pos(), "%s", strings.Join(probs, "; "))
			continue
		}
		r.Check(rule, "search-templates:"+k, fn.Decl.Pos(), len(probs) == 0, "%d template(s) for filters {%s}: %s", len(a.templates), k, orOK(strings.Join(probs, "; "), "all well-formed"))
	}
	if len(keys) < 7 {
		r.Note("C15-R2: only %d filter combinations were reached by path enumeration (7 expected: each non-empty subset of ByIDs, ByGroupIDs, ByStatus)", len(keys))
	}
}
