package main

import (
	"fmt"
	"go/ast"
	"go/token"
	"go/types"
	"os"
)

// Call inlining in the path engine. When a path reaches a statically resolved call of a small
// repository function, the events of each path through (a copy of) the callee's body are spliced
// into the caller's path right after the call event: the callee's parameters are replaced by the
// argument expressions (or bound by an assignment event when that is not possible), its locals are
// renamed apart, and what it returns is attached to the caller's assignment/return/condition that
// consumes the call (Event.Vals). A rule therefore sees the same events whether a piece of code is
// written in place or moved into a helper.
//
// Bounds: callee declared in the repository, not variadic, not generic, not recursive, at most
// inlineMaxPaths paths, nesting depth inlineMaxDepth. Beyond the bounds the call stays opaque,
// exactly as before.
const (
	inlineMaxPaths = 16
	inlineMaxDepth = 2
	inlineMaxStmts = 40
	// private helpers (CallGraph.Owner == the analysed function)
	inlinePrivStmts = 150
	inlinePrivPaths = 2500
	inlinePrivDepth = 4
)

var inlineOff = os.Getenv("COERLINT_NOINLINE") != ""

// inlined is the prepared copy of a callee for one call site.
type inlined struct {
	flow    *Flow
	binds   []Event // parameter bindings that could not be substituted
	results []*ast.Ident // named results (renamed copies), nil if unnamed
	key     string
}

var inlineSeq int

func countStmts(b *ast.BlockStmt) int {
	n := 0
	ast.Inspect(b, func(x ast.Node) bool {
		if _, ok := x.(ast.Stmt); ok {
			n++
		}
		return true
	})
	return n
}

// simpleArg: an argument that can replace a parameter textually (no evaluation, no side effect).
func simpleArg(info *types.Info, e ast.Expr) bool {
	switch x := ast.Unparen(e).(type) {
	case *ast.Ident:
		return true
	case *ast.BasicLit:
		return true
	case *ast.SelectorExpr:
		if s := info.Selections[x]; s != nil {
			return s.Kind() == types.FieldVal && simpleArg(info, x.X)
		}
		return true // package-qualified name
	case *ast.UnaryExpr:
		return x.Op == token.AND && simpleArg(info, x.X)
	case *ast.IndexExpr:
		return simpleArg(info, x.X) && simpleArg(info, x.Index)
	case *ast.FuncLit:
		return true // a callback handed to a helper: substituted where the helper calls it, and inlined there
	}
	return false
}

// inlineOf prepares (once per call site) the callee copy for a call event, or returns nil.
func (f *Flow) inlineOf(e Event) (res *inlined) {
	if os.Getenv("COERLINT_DEBUGINL") != "" && e.Call != nil {
		defer func() {
			fmt.Fprintf(os.Stderr, "INL %s: %s -> %v (mode %d, stack %d)\n", f.Name, ExprStr(e.Call.Fun)[:min(40, len(ExprStr(e.Call.Fun)))], res != nil, f.inlMode, len(f.inlStack))
		}()
	}
	if inlineOff || e.Call == nil || len(f.inlStack) >= inlinePrivDepth {
		dbgInl(85)
		return nil
	}
	if in, ok := f.inl[e.Call]; ok {
		return in
	}
	f.inl[e.Call] = nil
	if lit, isLit := ast.Unparen(e.Call.Fun).(*ast.FuncLit); isLit {
		in := f.inlineLit(e, lit)
		f.inl[e.Call] = in
		return in
	}
	// a call of a local closure: `fail := func(err error) T {…}; …; return fail(e)` (defined once, never reassigned)
	if v, isVar := e.Callee.(*types.Var); isVar && !v.IsField() {
		if lit := f.closureOf(v); lit != nil {
			in := f.inlineLit(e, lit)
			f.inl[e.Call] = in
			return in
		}
		return nil
	}
	fnObj, ok := e.Callee.(*types.Func)
	if !ok {
		dbgInl(98)
		return nil
	}
	callee := f.P.DeclOf(fnObj)
	if callee == nil || callee.Decl.Body == nil {
		dbgInl(102)
		return nil
	}
	for _, s := range f.inlStack {
		if s == callee {
			dbgInl(106)
			return nil
		}
	}
	if f.self != nil && f.self == callee {
		dbgInl(110)
		return nil
	}
	sig, _ := fnObj.Type().(*types.Signature)
	if sig == nil || sig.Variadic() || sig.RecvTypeParams().Len() > 0 {
		dbgInl(114)
		return nil
	}
	// a private helper of the analysed function (a piece it was split into) is inlined generously:
	// splicing it back recreates the function as it was, paths and all
	priv := f.inlMode == 0 && f.self != nil && callee.Key != f.self.Key && f.P.CallGraph().PrivateTo(callee.Key, f.self.Key)
	maxStmts, maxPaths := inlineMaxStmts, inlineMaxPaths
	if priv {
		maxStmts, maxPaths = inlinePrivStmts, inlinePrivPaths
	} else if len(f.inlStack) >= inlineMaxDepth {
		dbgInl(123)
		return nil
	}
	if f.inlMode >= 2 {
		// last resort before giving up on inlining: only what cannot multiply paths — a call that is the
		// whole operand of a return (its paths end there) and callees with at most two paths
		if rs, isRet := e.Node.(*ast.ReturnStmt); isRet && len(rs.Results) == 1 && ast.Unparen(rs.Results[0]) == ast.Expr(e.Call) {
			maxPaths = inlineMaxPaths
		} else {
			maxPaths = 2
		}
	}
	if countStmts(callee.Decl.Body) > maxStmts {
		dbgInl(135)
		return nil
	}
	// the callee's own (memoised) analysis tells cheaply whether it has too many paths to splice in
	if own := f.P.FlowOf(callee); own != f && !own.busy {
		if ps, ok := own.Paths(); !ok || len(ps) > maxPaths {
			dbgInl(140)
			return nil
		}
	}
	// an interface method call is not statically resolved
	var recvArg ast.Expr
	if sel, ok := ast.Unparen(e.Call.Fun).(*ast.SelectorExpr); ok {
		if s := f.Info.Selections[sel]; s != nil {
			if s.Kind() != types.MethodVal {
				dbgInl(148)
				return nil
			}
			if _, isIface := s.Recv().Underlying().(*types.Interface); isIface {
				dbgInl(151)
				return nil
			}
			recvArg = sel.X
		}
	}
	decl := callee.Decl
	cinfo := callee.Pkg.TypesInfo
	// parameters in order (receiver first)
	type par struct {
		id  *ast.Ident
		arg ast.Expr
	}
	var pars []par
	if decl.Recv != nil && len(decl.Recv.List) == 1 {
		if recvArg == nil {
			dbgInl(166)
			return nil
		}
		if len(decl.Recv.List[0].Names) == 1 {
			pars = append(pars, par{decl.Recv.List[0].Names[0], recvArg})
		}
	} else if recvArg != nil {
		dbgInl(172)
		return nil
	}
	ai := 0
	for _, fld := range decl.Type.Params.List {
		if len(fld.Names) == 0 {
			ai++
			continue
		}
		for _, nm := range fld.Names {
			if ai >= len(e.Call.Args) {
				dbgInl(182)
				return nil
			}
			pars = append(pars, par{nm, e.Call.Args[ai]})
			ai++
		}
	}
	if ai != len(e.Call.Args) {
		dbgInl(189)
		return nil
	}
	// objects written or address-taken in the callee
	written := map[types.Object]bool{}
	ast.Inspect(decl.Body, func(n ast.Node) bool {
		root := func(x ast.Expr) types.Object {
			x = ast.Unparen(x)
			if id, ok := x.(*ast.Ident); ok {
				return cinfo.Uses[id]
			}
			dbgInl(199)
			return nil
		}
		switch x := n.(type) {
		case *ast.AssignStmt:
			for _, l := range x.Lhs {
				if o := root(l); o != nil {
					written[o] = true
				}
			}
		case *ast.IncDecStmt:
			if o := root(x.X); o != nil {
				written[o] = true
			}
		case *ast.UnaryExpr:
			if x.Op == token.AND {
				if o := root(x.X); o != nil {
					written[o] = true
				}
			}
		case *ast.RangeStmt:
			for _, kv := range []ast.Expr{x.Key, x.Value} {
				if kv != nil {
					if o := root(kv); o != nil {
						written[o] = true
					}
				}
			}
		}
		return true
	})
	inlineSeq++
	suffix := fmt.Sprintf("__%d", inlineSeq)
	rename := map[types.Object]string{}
	ast.Inspect(decl, func(n ast.Node) bool {
		if id, ok := n.(*ast.Ident); ok {
			if o := cinfo.Defs[id]; o != nil {
				if _, isVar := o.(*types.Var); isVar && id.Name != "_" {
					rename[o] = id.Name + suffix
				}
			}
		}
		return true
	})
	subst := map[types.Object]ast.Expr{}
	in := &inlined{key: callee.Key}
	cl := &cloner{info: f.Info, src: cinfo, rename: rename, foreignSubst: true, substSrc: f.Info,
		onLit: func(old, new *ast.FuncLit) { f.P.enclosing[new] = f.P.enclosing[old] }}
	for _, pr := range pars {
		if pr.id.Name == "_" {
			continue
		}
		obj := cinfo.Defs[pr.id]
		if obj == nil {
			continue
		}
		if simpleArg(f.Info, pr.arg) && !written[obj] {
			subst[obj] = pr.arg
			continue
		}
		// bind by an assignment event: <renamed param> := arg
		id := cl.defIdent(pr.id)
		in.binds = append(in.binds, Event{Kind: EvAssign, Pos: e.Call.Pos(), Lhs: []ast.Expr{id}, Rhs: []ast.Expr{pr.arg}, Tok: token.DEFINE, Block: e.Block})
	}
	cl.subst = subst
	if decl.Type.Results != nil {
		named := false
		for _, fld := range decl.Type.Results.List {
			for _, nm := range fld.Names {
				named = true
				in.results = append(in.results, cl.defIdent(nm))
			}
		}
		if !named {
			in.results = nil
		}
	}
	body := cl.Block(decl.Body)
	sub := &Flow{P: f.P, Pkg: f.Pkg, Info: f.Info, Node: body, Body: body, Name: callee.Key + "@inl" + suffix,
		comm: map[ast.Node]bool{}, caseTag: map[ast.Expr]*ast.SwitchStmt{}, inl: map[*ast.CallExpr]*inlined{},
		inlStack: append(append([]*Func{}, f.inlStack...), callee), self: f.self, inlMode: f.inlMode}
	sub.prepare()
	paths, ok := sub.Paths()
	// too big with what is spliced into it (a callback handed to this helper may call private helpers of the
	// analysed function, or mid-sized functions): once more with less and less inlining inside it
	for mode := sub.inlMode + 1; (!ok || len(paths) > maxPaths) && mode <= 2; mode++ {
		sub = &Flow{P: f.P, Pkg: f.Pkg, Info: f.Info, Node: body, Body: body, Name: callee.Key + "@inl" + suffix,
			comm: map[ast.Node]bool{}, caseTag: map[ast.Expr]*ast.SwitchStmt{}, inl: map[*ast.CallExpr]*inlined{},
			inlStack: append(append([]*Func{}, f.inlStack...), callee), self: f.self, inlMode: mode}
		sub.prepare()
		paths, ok = sub.Paths()
	}
	if !ok || len(paths) > maxPaths || len(paths) == 0 {
		dbgInl(282)
		return nil
	}
	in.flow = sub
	f.inl[e.Call] = in
	return in
}

// retVals gives the expressions an inlined callee path returns.
func (in *inlined) retVals(p *Path) []ast.Expr {
	for i := len(p.Ev) - 1; i >= 0; i-- {
		e := p.Ev[i]
		if e.Kind == EvReturn && !e.Deferred && e.Depth == 0 {
			if len(e.Rhs) > 0 {
				return e.Rhs
			}
			break
		}
	}
	var out []ast.Expr
	for _, id := range in.results {
		out = append(out, id)
	}
	return out
}

// inlineLit prepares the body of a function literal that is called on the spot — `func(){…}()`, which is
// what remains when a callback handed to a helper (withLock(func() error {…})) is substituted where the
// helper calls it. Free variables are the caller's own; parameters are bound to the arguments.
func (f *Flow) inlineLit(e Event, lit *ast.FuncLit) *inlined {
	if lit.Type.Params != nil {
		n := 0
		for _, fld := range lit.Type.Params.List {
			n += len(fld.Names)
			if len(fld.Names) == 0 {
				n++
			}
		}
		if n != len(e.Call.Args) {
			return nil
		}
	} else if len(e.Call.Args) != 0 {
		return nil
	}
	for _, s := range f.inlLits {
		if s == lit {
			return nil
		}
	}
	inlineSeq++
	suffix := fmt.Sprintf("__%d", inlineSeq)
	rename := map[types.Object]string{}
	ast.Inspect(lit, func(n ast.Node) bool {
		if id, ok := n.(*ast.Ident); ok {
			if o := f.Info.Defs[id]; o != nil {
				if _, isVar := o.(*types.Var); isVar && id.Name != "_" {
					rename[o] = id.Name + suffix
				}
			}
		}
		return true
	})
	in := &inlined{key: f.Name + "$lit"}
	if f.self != nil {
		in.key = f.self.Key // the literal is part of the function it is written in
	}
	cl := &cloner{info: f.Info, rename: rename, onLit: func(old, new *ast.FuncLit) { f.P.enclosing[new] = f.P.enclosing[old] }}
	ai := 0
	if lit.Type.Params != nil {
		for _, fld := range lit.Type.Params.List {
			for _, nm := range fld.Names {
				if nm.Name != "_" {
					in.binds = append(in.binds, Event{Kind: EvAssign, Pos: e.Call.Pos(), Lhs: []ast.Expr{cl.defIdent(nm)}, Rhs: []ast.Expr{e.Call.Args[ai]}, Tok: token.DEFINE, Block: e.Block})
				}
				ai++
			}
			if len(fld.Names) == 0 {
				ai++
			}
		}
	}
	if lit.Type.Results != nil {
		named := false
		for _, fld := range lit.Type.Results.List {
			for _, nm := range fld.Names {
				named = true
				in.results = append(in.results, cl.defIdent(nm))
			}
		}
		if !named {
			in.results = nil
		}
	}
	body := cl.Block(lit.Body)
	sub := &Flow{P: f.P, Pkg: f.Pkg, Info: f.Info, Node: body, Body: body, Name: f.Name + "$lit@inl" + suffix,
		comm: map[ast.Node]bool{}, caseTag: map[ast.Expr]*ast.SwitchStmt{}, inl: map[*ast.CallExpr]*inlined{},
		inlStack: f.inlStack, self: f.self, inlMode: f.inlMode, inlLits: append(append([]*ast.FuncLit{}, f.inlLits...), lit)}
	sub.prepare()
	paths, ok := sub.Paths()
	if !ok || len(paths) > inlinePrivPaths || len(paths) == 0 {
		return nil
	}
	in.flow = sub
	return in
}

func dbgInl(line int) {
	if os.Getenv("COERLINT_DEBUGINL") != "" {
		fmt.Fprintf(os.Stderr, "  INL-REJECT at inline.go:%d\n", line)
	}
}

// closureOf: the function literal a local variable is defined with, if that is its only definition and
// it is never assigned again or address-taken (looked up in the declared function the flow belongs to).
func (f *Flow) closureOf(v *types.Var) *ast.FuncLit {
	if f.self == nil || f.self.Decl.Body == nil {
		return nil
	}
	if f.P.closures == nil {
		f.P.closures = map[*Func]map[*types.Var]*ast.FuncLit{}
	}
	m, ok := f.P.closures[f.self]
	if !ok {
		m = map[*types.Var]*ast.FuncLit{}
		info := f.self.Pkg.TypesInfo
		writes := map[*types.Var]int{}
		ast.Inspect(f.self.Decl.Body, func(n ast.Node) bool {
			switch x := n.(type) {
			case *ast.AssignStmt:
				for i, l := range x.Lhs {
					id, ok := ast.Unparen(l).(*ast.Ident)
					if !ok {
						continue
					}
					if d, ok := info.Defs[id].(*types.Var); ok && x.Tok == token.DEFINE && len(x.Rhs) == len(x.Lhs) {
						if lit, ok := ast.Unparen(x.Rhs[i]).(*ast.FuncLit); ok {
							m[d] = lit
							continue
						}
					}
					if u, ok := info.Uses[id].(*types.Var); ok {
						writes[u]++
					}
				}
			case *ast.UnaryExpr:
				if x.Op == token.AND {
					if id, ok := ast.Unparen(x.X).(*ast.Ident); ok {
						if u, ok := info.Uses[id].(*types.Var); ok {
							writes[u]++
						}
					}
				}
			}
			return true
		})
		for d := range m {
			if writes[d] > 0 {
				delete(m, d)
			}
		}
		f.P.closures[f.self] = m
	}
	return m[v]
}
