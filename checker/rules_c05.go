package main

import (
	"go/ast"
	"go/token"
	"go/types"
	"strings"
)

func init() {
	register(PropInfo{
		ID: "C05",
		Explanation: "All-paths decision of the structural clauses of C05 in internal/execute/sm/actions (DESIGN.md section 4, C05): (R1) the guard `len(Attempts) > Retries ⇒ ErrPermanent` is the only comparison of those operands and precedes the plugin call on every path (with an uncapped Retry loop it is the only bound); (R2) exactly one attempt is appended per invocation, after the plugin returned, and written (fatal on error) before exec returns; Start/End are stamped around the call; (R3) outcome mapping: timeout ⇒ retryable error returned; a non-nil response is type-checked on every path and a mismatch becomes a permanent error with the response dropped; nil error ⇒ nil, permanent ⇒ wraps ErrPermanent with %w, otherwise the error itself; (R4) the plugin runs under a context derived from WithTimeout(action.Timeout) that is cancelled after the call, and run() races the plugin against that context; (R5) the action machine is Start→GetPlugin→Execute→End with exec called once per Retry iteration; (R6) both vaults decode every stored attempt into a value of its own (no memory shared between the attempts of an action); (R7) after a crash fixAction gives an action whose last recorded attempt finished the verdict of that attempt (it is never resumed for further attempts), resets only actions without attempts and drops an unfinished attempt; R4 also requires the channel the plugin's result arrives on to be made by run() for that invocation. Decides these necessary conditions, not invocation counts as numbers.",
		NotDecided:  []string{"the number of invocations as a runtime count", "attempt ordering as data (append order is R2)", "start<=end as wall-clock values"},
		Assumptions: []string{"exponential.Backoff.Retry calls op until it returns nil or an error wrapping ErrPermanent; no attempt cap (read in Azure/retry)"},
		Rules:       rulesC05,
	})
}

func actKey(name string) string { return pkgActions + "." + name }

func rulesC05(r *Run) {
	fn := r.fnByKey("R1", actKey("Runner.exec"))
	if fn == nil {
		return
	}
	fl, paths, ok := r.flowPaths("R1", fn)
	if !ok {
		return
	}
	info := fl.Info
	isLenAttempts := func(e ast.Expr) bool {
		c, ok := ast.Unparen(e).(*ast.CallExpr)
		if !ok || len(c.Args) != 1 {
			return false
		}
		if id, ok := c.Fun.(*ast.Ident); !ok || id.Name != "len" {
			return false
		}
		_, m := FieldPath(info, c.Args[0], "workflow.Action", "Attempts")
		return m
	}
	isRetries := func(e ast.Expr) bool {
		_, m := FieldPath(info, e, "workflow.Action", "Retries")
		return m
	}
	isRun := func(e Event) bool { return IsCall(e, actKey("run")) }

	// ---- R1
	r.Kind("R1", "K5+K3")
	cmps := FindCmps(info, fn.Decl.Body, isLenAttempts, isRetries)
	if len(cmps) == 0 {
		r.Fail("R1", "exec:retry-guard", fn.Decl.Pos(), "no comparison of len(action.Attempts) with action.Retries in exec: nothing bounds the number of plugin invocations (Retry has no attempt cap)")
	}
	for _, c := range cmps {
		r.Check("R1", "exec:retry-guard-shape", c.Expr.Pos(), c.Op == token.GTR, "guard is `len(Attempts) %s Retries`; at most Retries+1 invocations requires refusing exactly when len(Attempts) > Retries", c.Op)
	}
	// also no other comparison anywhere in the package
	if pkg := r.P.Pkgs[pkgActions]; pkg != nil {
		for _, f := range pkg.Syntax {
			for _, c := range FindCmps(info, f, isLenAttempts, isRetries) {
				if !containsNode(fn.Decl, c.Expr) {
					r.Fail("R1", "retry-guard-elsewhere", c.Expr.Pos(), "a second comparison of attempts and retries exists outside exec")
				}
			}
		}
	}
	bad := ""
	var bpos token.Pos = fn.Decl.Pos()
	nRun := 0
	for i := range paths {
		p := &paths[i]
		guardFalse, guardTrue := false, false
		for _, e := range p.Ev {
			if e.Kind == EvBranch && e.Cond != nil {
				for _, c := range cmps {
					if ast.Unparen(e.Cond) == c.Expr {
						if e.Taken {
							guardTrue = true
						} else {
							guardFalse = true
						}
					}
				}
			}
			if isRun(e) {
				nRun++
				if !guardFalse && bad == "" {
					bad, bpos = "the plugin is run on a path that did not pass the retry guard", e.Pos
				}
			}
			if guardTrue && e.Kind == EvReturn {
				if len(e.Rhs) != 1 || !strings.HasSuffix(ValueKey(info, e.Rhs[0]), "exponential.ErrPermanent") {
					if bad == "" {
						bad, bpos = "when the retry budget is used up exec must return exponential.ErrPermanent (anything else makes Retry loop forever or lose the failure)", e.Pos
					}
				}
			}
		}
	}
	if nRun == 0 {
		r.Unresolved("R1", "exec calls run")
		return
	}
	r.Check("R1", "exec:guard-dominates-run", bpos, bad == "", "%s", orOK(bad, "every path to run() passed the guard; the refusing branch returns ErrPermanent"))
	r.Expect("R1", 2)

	// ---- R2
	r.Kind("R2", "K3")
	isAppend := func(e Event) (ast.Expr, bool) {
		if e.Kind != EvAssign || len(e.Lhs) != 1 || len(e.Rhs) != 1 {
			return nil, false
		}
		if _, m := FieldPath(info, e.Lhs[0], "workflow.Action", "Attempts"); !m {
			return nil, false
		}
		c, ok := ast.Unparen(e.Rhs[0]).(*ast.CallExpr)
		if !ok || len(c.Args) != 2 {
			return nil, false
		}
		if id, ok := c.Fun.(*ast.Ident); !ok || id.Name != "append" {
			return nil, false
		}
		if _, m := FieldPath(info, c.Args[0], "workflow.Action", "Attempts"); !m {
			return nil, false
		}
		return c.Args[1], true
	}
	// any other write to Attempts is a violation
	otherWrite := token.NoPos
	ast.Inspect(fn.Decl.Body, func(n ast.Node) bool {
		as, ok := n.(*ast.AssignStmt)
		if !ok {
			return true
		}
		for _, l := range as.Lhs {
			if _, m := FieldPath(info, l, "workflow.Action", "Attempts"); m {
				if _, isApp := isAppend(Event{Kind: EvAssign, Lhs: as.Lhs, Rhs: as.Rhs}); !isApp {
					otherWrite = as.Pos()
				}
			}
		}
		return true
	})
	badA, badW, badT := "", "", ""
	var posA, posW, posT token.Pos = fn.Decl.Pos(), fn.Decl.Pos(), fn.Decl.Pos()
	var attemptObj types.Object
	for i := range paths {
		p := &paths[i]
		if p.Exit != ExitReturn {
			continue
		}
		ri, ai, ui := -1, -1, -1
		appends := 0
		for j, e := range p.Ev {
			if isRun(e) {
				ri = j
			}
			if el, ok := isAppend(e); ok {
				appends++
				if e.Maybe {
					appends += 100
				}
				ai = j
				if o := ObjOf(info, el); o != nil {
					if attemptObj == nil {
						attemptObj = o
					}
					if o != attemptObj && badA == "" {
						badA, posA = "different values are appended as the attempt on different paths", e.Pos
					}
				} else if badA == "" {
					badA, posA = "the appended attempt is not a local attempt variable", e.Pos
				}
			}
			if name, ok := isUpdaterCall(e); ok && name == "UpdateAction" && !e.Maybe {
				ui = j
			}
		}
		if ri < 0 {
			if appends != 0 && badA == "" {
				badA = "an attempt is recorded on a path that did not invoke the plugin"
			}
			continue
		}
		if appends != 1 && badA == "" {
			badA = "a path that invokes the plugin records " + itoa(appends%100) + " attempts (must be exactly one, unconditionally; guard " + ExitGuardKey(fl, p) + ")"
		}
		if ai >= 0 && ai < ri && badA == "" {
			badA, posA = "the attempt is appended before the plugin ran", p.Ev[ai].Pos
		}
		if ui < 0 {
			if badW == "" {
				badW = "a path that invokes the plugin returns without writing the action (guard " + ExitGuardKey(fl, p) + ")"
			}
		} else if ai >= 0 && ui < ai && badW == "" {
			badW, posW = "UpdateAction runs before the attempt is appended: the stored record lags one attempt behind, so after a crash the plugin is invoked again for a finished attempt", p.Ev[ui].Pos
		}
		// Start before run, End after run
		startOK, endOK := false, false
		for j, e := range p.Ev {
			if e.Kind != EvAssign {
				continue
			}
			for k, l := range e.Lhs {
				if _, m := FieldPath(info, l, "workflow.Attempt", "End"); m && j > ri && !e.Deferred {
					endOK = true
				}
				if _, m := FieldPath(info, l, "workflow.Attempt", "Start"); m && j < ri {
					startOK = true
				}
				if j < ri && len(e.Rhs) == len(e.Lhs) {
					if cl := compositeOf(e.Rhs[k]); cl != nil && hasKey(cl, "Start") {
						startOK = true
					}
				}
			}
		}
		if (!startOK || !endOK) && badT == "" {
			badT = "attempt.Start must be stamped before and attempt.End after the plugin call on every path (start=" + boolStr(startOK) + " end=" + boolStr(endOK) + ")"
		}
	}
	if otherWrite.IsValid() && badA == "" {
		badA, posA = "Attempts is written other than by append(action.Attempts, attempt)", otherWrite
	}
	r.Check("R2", "exec:one-attempt-per-invocation", posA, badA == "", "%s", orOK(badA, "exactly one unconditional append after run() on every invoking path"))
	r.Check("R2", "exec:attempt-written-after-append", posW, badW == "", "%s", orOK(badW, "UpdateAction follows the append on every invoking path"))
	r.Check("R2", "exec:start-end-stamped", posT, badT == "", "%s", orOK(badT, "Start before, End after"))
	fatalUpdates(r, "R2", fn, "exec")
	r.Expect("R2", 4)

	// ---- R3
	r.Kind("R3", "K2")
	ruleExecOutcome(r, "R3", fn, fl, paths, attemptObj)
	ruleErrPermanent(r, "R3")
	ruleIsTypeExact(r, "R3")
	r.Expect("R3", 6)

	// ---- R4
	r.Kind("R4", "K11")
	ruleExecContext(r, "R4", fn, fl, paths)
	ruleRunRace(r, "R4")
	r.Expect("R4", 4)

	// ---- R5
	r.Kind("R5", "K1")
	ruleRunnerGraph(r, "R5")
	ruleRunnerStartSilentStop(r, "R5")
	r.Expect("R5", 6)

	// ---- R6: recorded attempts stay distinct records when read back from the vaults
	r.Kind("R6", "K7")
	ruleDecodeAttempts(r, "R6", sqlKey("decodeAttempts"))
	ruleDecodeAttempts(r, "R6", cosKey("decodeAttempts"))
	r.Expect("R6", 2)

	// ---- R7: the bound survives a crash (round-3 seed C05-6): recovery never leaves an action whose last
	// recorded attempt is finished in a state from which the plugin is invoked again
	r.Kind("R7", "K2")
	ruleFixAction(r, "R7")
	r.Expect("R7", 3)
}

func compositeOf(e ast.Expr) *ast.CompositeLit {
	e = ast.Unparen(e)
	if u, ok := e.(*ast.UnaryExpr); ok && u.Op == token.AND {
		e = ast.Unparen(u.X)
	}
	cl, _ := e.(*ast.CompositeLit)
	return cl
}

func hasKey(cl *ast.CompositeLit, key string) bool {
	return keyValue(cl, key) != nil
}

func keyValue(cl *ast.CompositeLit, key string) ast.Expr {
	for _, el := range cl.Elts {
		if kv, ok := el.(*ast.KeyValueExpr); ok {
			if id, ok := kv.Key.(*ast.Ident); ok && id.Name == key {
				return kv.Value
			}
		}
	}
	return nil
}

// fatalUpdates: every updater call in fn (including literals) has its error tested
// and the non-nil branch does not return (K6). One obligation per call site.
func fatalUpdates(r *Run, rule string, fn *Func, label string) int {
	n := 0
	check := func(fl *Flow, paths []Path) {
		type site struct {
			pos            token.Pos
			name           string
			fatal, tested  bool
			bad            string
		}
		sites := map[token.Pos]*site{}
		for i := range paths {
			p := &paths[i]
			for ci, e := range p.Ev {
				name, ok := isUpdaterCall(e)
				if !ok || e.Deferred {
					continue
				}
				s := sites[e.Pos]
				if s == nil {
					s = &site{pos: e.Pos, name: name}
					sites[e.Pos] = s
				}
				u := UseOfResult(fl, p, ci)
				switch u.Verdict {
				case "nonnil":
					s.tested = true
					if p.Exit == ExitNoReturn {
						s.fatal = true
					} else if s.bad == "" {
						s.bad = "the failing branch of " + name + " continues (guard " + ExitGuardKey(fl, p) + "); a storage write failure must be fatal so that the engine never runs ahead of storage"
					}
				case "nil":
					s.tested = true
				default:
					if s.bad == "" {
						s.bad = "the error of " + name + " is " + u.Kind + "/" + u.Verdict
					}
				}
			}
		}
		for _, s := range sites {
			n++
			okS := s.bad == "" && s.tested && s.fatal
			msg := s.bad
			if msg == "" && !s.fatal {
				msg = "no path shows the failing branch of " + s.name + " ending in log.Fatalf"
			}
			r.Check(rule, "fatal-write:"+label+":"+s.name+"#"+itoa(ordinal(sites, s.pos)), s.pos, okS, "%s", orOK(msg, s.name+" error is tested and fatal"))
		}
	}
	fl := r.P.FlowOf(fn)
	if paths, ok := fl.Paths(); ok {
		check(fl, paths)
	}
	var lits []*ast.FuncLit
	ast.Inspect(fn.Decl.Body, func(nn ast.Node) bool {
		if l, ok := nn.(*ast.FuncLit); ok {
			lits = append(lits, l)
		}
		return true
	})
	for _, l := range lits {
		if lf, lp, ok := r.litPaths(rule, l); ok {
			check(lf, lp)
		}
	}
	return n
}

func ordinal[T any](m map[token.Pos]T, pos token.Pos) int {
	n := 1
	for p := range m {
		if p < pos {
			n++
		}
	}
	return n
}

func ruleExecOutcome(r *Run, rule string, fn *Func, fl *Flow, paths []Path, attempt types.Object) {
	info := fl.Info
	isAttemptField := func(e ast.Expr, f string) bool {
		_, m := FieldPath(info, e, "workflow.Attempt", f)
		return m
	}
	badTO, badTC, badMap := "", "", ""
	var pTO, pTC, pMap token.Pos = fn.Decl.Pos(), fn.Decl.Pos(), fn.Decl.Pos()
	nTO, nTC, nMap := 0, 0, 0
	for i := range paths {
		p := &paths[i]
		if p.Exit != ExitReturn {
			continue
		}
		ri := -1
		for j, e := range p.Ev {
			if IsCall(e, actKey("run")) {
				ri = j
			}
		}
		if ri < 0 {
			continue
		}
		timeout := false
		respNil, respNonNil := false, false
		typeVerdict := "" // "", "match", "mismatch"
		errNilV := ""     // "", "nil", "nonnil"
		perm := ""        // "", "true", "false"
		var lastErrLit *ast.CompositeLit
		respCleared := false
		respAssigned := false
		var ret *Event
		for j := ri + 1; j < len(p.Ev); j++ {
			e := p.Ev[j]
			if e.Deferred {
				continue
			}
			switch e.Kind {
			case EvBranch:
				if e.Cond == nil {
					continue
				}
				c := ast.Unparen(e.Cond)
				if sel, ok := c.(*ast.SelectorExpr); ok && sel.Sel.Name == "timeout" && e.Taken {
					timeout = true
				}
				fa := facts{}
				fa.assumeCond(info, e.Cond, e.Taken)
				for k, v := range fa {
					switch {
					case strings.HasSuffix(k, ".Resp"):
						if v == "nil" {
							respNil = true
						} else if v == "nonnil" {
							respNonNil = true
						}
					case strings.HasSuffix(k, ".Err.Permanent"):
						perm = strings.TrimPrefix(v, "const:")
					case strings.HasSuffix(k, ".Err"):
						errNilV = v
					}
				}
				// !isType(...)
				neg := false
				cc := c
				for {
					if u, ok := cc.(*ast.UnaryExpr); ok && u.Op == token.NOT {
						neg = !neg
						cc = ast.Unparen(u.X)
						continue
					}
					break
				}
				if call, ok := cc.(*ast.CallExpr); ok {
					if f, ok := calleeFunc(info, call); ok && FuncKey(f) == actKey("isType") {
						if e.Taken != neg {
							typeVerdict = "match"
						} else {
							typeVerdict = "mismatch"
						}
					}
				}
			case EvAssign:
				for k, l := range e.Lhs {
					if len(e.Rhs) != len(e.Lhs) {
						continue
					}
					if isAttemptField(l, "Err") {
						lastErrLit = compositeOf(e.Rhs[k])
						if lastErrLit != nil {
							errNilV = "nonnil"
						}
					}
					if isAttemptField(l, "Resp") {
						if ValueKey(info, e.Rhs[k]) == "nil" {
							respCleared = true
						} else {
							respAssigned = true
							respCleared = false
						}
					}
				}
			case EvReturn:
				ret = &p.Ev[j]
			}
		}
		if ret == nil || len(ret.Rhs) != 1 {
			continue
		}
		retExpr := ast.Unparen(ret.Rhs[0])
		retKind := "other"
		switch {
		case ValueKey(info, retExpr) == "nil":
			retKind = "nil"
		case isAttemptField(retExpr, "Err"):
			retKind = "attempt.Err"
		default:
			if c, ok := retExpr.(*ast.CallExpr); ok {
				if f, ok := calleeFunc(info, c); ok && FuncKey(f) == actKey("errPermanent") {
					retKind = "errPermanent"
				}
			}
		}
		if timeout {
			nTO++
			permLit := false
			if lastErrLit != nil {
				if v := keyValue(lastErrLit, "Permanent"); v != nil && ValueKey(info, v) == "true" {
					permLit = true
				}
			}
			if (lastErrLit == nil || permLit || retKind != "attempt.Err" || respAssigned) && badTO == "" {
				badTO, pTO = "on the timeout branch the attempt must get a fresh non-permanent *plugins.Error, no response, and that error must be returned as retryable (literal="+boolStr(lastErrLit != nil)+" permanent="+boolStr(permLit)+" returns "+retKind+")", ret.Pos
			}
			continue
		}
		// type check coverage
		nTC++
		if !respNil && typeVerdict == "" && badTC == "" {
			badTC, pTC = "a path returns after the plugin ran without either establishing attempt.Resp == nil or type-checking it against plugin.Response() (guard "+ExitGuardKey(fl, p)+"): a wrong-typed response would be stored and the action retried or completed", ret.Pos
		}
		_ = respNonNil
		if typeVerdict == "mismatch" {
			permLit := false
			if lastErrLit != nil {
				if v := keyValue(lastErrLit, "Permanent"); v != nil && ValueKey(info, v) == "true" {
					permLit = true
				}
			}
			if (!permLit || !respCleared) && badTC == "" {
				badTC, pTC = "on a response type mismatch the attempt must get a permanent error and its response must be dropped (permanent="+boolStr(permLit)+" response cleared="+boolStr(respCleared)+")", ret.Pos
			}
			if retKind != "errPermanent" && badTC == "" {
				badTC, pTC = "a response type mismatch must fail the action permanently (returns "+retKind+")", ret.Pos
			}
		}
		// outcome mapping
		nMap++
		switch {
		case errNilV == "nil":
			if retKind != "nil" && badMap == "" {
				badMap, pMap = "attempt.Err == nil must return nil (returns "+retKind+")", ret.Pos
			}
		case perm == "true":
			if retKind != "errPermanent" && badMap == "" {
				badMap, pMap = "a permanent plugin error must be returned through errPermanent (returns "+retKind+"): Retry would call the plugin again", ret.Pos
			}
		case perm == "false":
			if retKind != "attempt.Err" && badMap == "" {
				badMap, pMap = "a transient plugin error must be returned as is (returns "+retKind+")", ret.Pos
			}
		default:
			if retKind == "nil" && badMap == "" {
				badMap, pMap = "exec returns nil without having established attempt.Err == nil (guard "+ExitGuardKey(fl, p)+")", ret.Pos
			}
			if retKind == "attempt.Err" && typeVerdict != "mismatch" && errNilV != "nonnil" && badMap == "" {
				badMap, pMap = "exec returns attempt.Err without testing it", ret.Pos
			}
		}
	}
	if nTO == 0 {
		r.Fail(rule, "exec:timeout-is-retryable", pTO, "no path handles plugResp.timeout")
	} else {
		r.Check(rule, "exec:timeout-is-retryable", pTO, badTO == "", "%s", orOK(badTO, "timeout ⇒ fresh non-permanent error recorded and returned"))
	}
	if nTC == 0 {
		r.Unresolved(rule, "exec non-timeout path")
		return
	}
	r.Check(rule, "exec:response-type-checked", pTC, badTC == "", "%s", orOK(badTC, "every non-nil response is type-checked; mismatch ⇒ permanent error, response dropped"))
	r.Check(rule, "exec:outcome-mapping", pMap, badMap == "", "%s", orOK(badMap, "nil ⇒ nil; permanent ⇒ errPermanent; transient ⇒ the error"))
	// attempt.Resp and attempt.Err come from the plugin's result on the non-timeout branch
	assignedFrom := map[string]bool{}
	ast.Inspect(fn.Decl.Body, func(n ast.Node) bool {
		as, ok := n.(*ast.AssignStmt)
		if !ok || len(as.Lhs) != len(as.Rhs) {
			return true
		}
		for k, l := range as.Lhs {
			for _, f := range []string{"Resp", "Err"} {
				if isAttemptField(l, f) {
					if _, m := FieldPath(info, as.Rhs[k], "actions.plugResp", f); m {
						assignedFrom[f] = true
					}
				}
			}
		}
		return true
	})
	r.Check(rule, "exec:attempt-carries-plugin-result", fn.Decl.Pos(), assignedFrom["Resp"] && assignedFrom["Err"], "attempt.Resp/attempt.Err must be assigned from the plugin's result (Resp=%v Err=%v)", assignedFrom["Resp"], assignedFrom["Err"])
}

func ruleErrPermanent(r *Run, rule string) {
	fn := r.fnByKey(rule, actKey("errPermanent"))
	if fn == nil {
		return
	}
	info := fn.Pkg.TypesInfo
	okW := false
	msg := "errPermanent does not wrap exponential.ErrPermanent with %w"
	ast.Inspect(fn.Decl.Body, func(n ast.Node) bool {
		c, ok := n.(*ast.CallExpr)
		if !ok {
			return true
		}
		f, ok := calleeFunc(info, c)
		if !ok || FuncKey(f) != "fmt.Errorf" || len(c.Args) < 2 {
			return true
		}
		format, isC := ConstString(info, c.Args[0])
		if !isC {
			return true
		}
		verbs := formatVerbs(format)
		for i, a := range c.Args[1:] {
			if strings.HasSuffix(ValueKey(info, a), "exponential.ErrPermanent") {
				if i < len(verbs) && verbs[i] == 'w' {
					okW = true
				} else {
					msg = "exponential.ErrPermanent is formatted with a verb other than %w: errors.Is(err, ErrPermanent) is false and Retry keeps invoking the plugin"
				}
			}
		}
		return true
	})
	r.Check(rule, "errPermanent:wraps-with-%w", fn.Decl.Pos(), okW, "%s", orOK(map[bool]string{true: "", false: msg}[okW], "wraps ErrPermanent with %w"))
}

func formatVerbs(f string) []byte {
	var out []byte
	for i := 0; i < len(f); i++ {
		if f[i] != '%' {
			continue
		}
		i++
		for i < len(f) && strings.ContainsRune("+-# 0123456789.[]*", rune(f[i])) {
			i++
		}
		if i < len(f) && f[i] != '%' {
			out = append(out, f[i])
		}
	}
	return out
}

func ruleExecContext(r *Run, rule string, fn *Func, fl *Flow, paths []Path) {
	info := fl.Info
	bad := ""
	var bpos token.Pos = fn.Decl.Pos()
	n := 0
	for i := range paths {
		p := &paths[i]
		if p.Exit != ExitReturn {
			continue
		}
		var ctxObj, cancelObj types.Object
		ri := -1
		for j, e := range p.Ev {
			if e.Kind == EvAssign && len(e.Rhs) == 1 && len(e.Lhs) == 2 {
				if c, ok := ast.Unparen(e.Rhs[0]).(*ast.CallExpr); ok {
					if f, ok := calleeFunc(info, c); ok && (FuncKey(f) == "workflow/context.WithTimeout" || FuncKey(f) == "context.WithTimeout") && len(c.Args) == 2 {
						if _, m := FieldPath(info, c.Args[1], "workflow.Action", "Timeout"); m {
							ctxObj, cancelObj = ObjOf(info, e.Lhs[0]), ObjOf(info, e.Lhs[1])
						} else if bad == "" {
							bad, bpos = "the plugin context's timeout is "+ExprStr(c.Args[1])+", not action.Timeout", e.Pos
						}
					}
				}
			}
			if IsCall(e, actKey("run")) {
				ri = j
				n++
				if (ctxObj == nil || len(e.Call.Args) < 1 || ObjOf(info, e.Call.Args[0]) != ctxObj) && bad == "" {
					bad, bpos = "run() is not given the context derived from WithTimeout(…, action.Timeout): an overrunning plugin would never be timed out", e.Pos
				}
			}
		}
		if ri < 0 {
			continue
		}
		cancelled := false
		for j := ri + 1; j < len(p.Ev); j++ {
			e := p.Ev[j]
			if e.Kind == EvCall && cancelObj != nil && ObjOf(info, e.Call.Fun) == cancelObj && !e.Maybe {
				cancelled = true
			}
		}
		if !cancelled && bad == "" {
			bad = "the plugin's context is not cancelled after the attempt on every path (guard " + ExitGuardKey(fl, p) + "): an overrunning plugin keeps running with a live context"
		}
	}
	if n == 0 {
		r.Unresolved(rule, "exec run() call")
		return
	}
	r.Check(rule, "exec:timeout-context", bpos, bad == "", "%s", orOK(bad, "run(ctx) with ctx = WithTimeout(…, action.Timeout), cancelled after the call on every path"))
}

func ruleRunRace(r *Run, rule string) {
	fn := r.fnByKey(rule, actKey("run"))
	if fn == nil {
		return
	}
	fl, paths, ok := r.flowPaths(rule, fn)
	if !ok {
		return
	}
	info := fl.Info
	var ctxParam types.Object
	if ps := fn.Decl.Type.Params.List; len(ps) > 0 && len(ps[0].Names) > 0 {
		ctxParam = info.ObjectOf(ps[0].Names[0])
	}
	// the plugin is executed in the submitted literal with the same ctx
	okExec, msg := false, "run() does not call plugin.Execute inside a literal handed to Pool.Submit"
	ast.Inspect(fn.Decl.Body, func(n ast.Node) bool {
		c, ok := n.(*ast.CallExpr)
		if !ok {
			return true
		}
		f, ok := calleeFunc(info, c)
		if !ok || FuncKey(f) != keyPluginExe || len(c.Args) != 2 {
			return true
		}
		if ObjOf(info, c.Args[0]) == ctxParam && ctxParam != nil {
			okExec, msg = true, ""
		} else {
			msg = "plugin.Execute is called with " + ExprStr(c.Args[0]) + ", not the timeout context of run(): cancellation would not reach the plugin"
		}
		return true
	})
	r.Check(rule, "run:plugin-gets-timeout-context", fn.Decl.Pos(), okExec, "%s", orOK(msg, "plugin.Execute(ctx, req) with run's ctx"))
	// select: ctx.Done ⇒ timeout result; channel ⇒ the plugin's result
	bad := ""
	sawDone, sawRes := false, false
	for i := range paths {
		p := &paths[i]
		if p.Exit != ExitReturn {
			continue
		}
		var which string
		for _, e := range p.Ev {
			if e.Kind == EvSelect && e.Taken {
				cc := e.Clause.(*ast.CommClause)
				if cc.Comm == nil {
					which = "default"
					continue
				}
				s := ExprStr(commRecv(cc.Comm))
				if strings.HasSuffix(s, ".Done()") {
					which = "done"
				} else {
					which = "chan"
				}
			}
		}
		var ret *Event
		for j := range p.Ev {
			if p.Ev[j].Kind == EvReturn {
				ret = &p.Ev[j]
			}
		}
		if ret == nil || len(ret.Rhs) != 1 {
			continue
		}
		cl := compositeOf(ret.Rhs[0])
		isTimeout := cl != nil && keyValue(cl, "timeout") != nil && ValueKey(info, keyValue(cl, "timeout")) == "true"
		switch which {
		case "done":
			sawDone = true
			if !isTimeout && bad == "" {
				bad = "the ctx.Done() case of run() does not return the timeout result"
			}
		case "chan":
			sawRes = true
			if isTimeout && bad == "" {
				bad = "the plugin-result case of run() reports a timeout"
			}
		default:
			if bad == "" {
				bad = "run() has a path that returns without waiting for either the plugin or the timeout"
			}
		}
	}
	r.Check(rule, "run:races-plugin-against-timeout", fn.Decl.Pos(), bad == "" && sawDone && sawRes, "%s", orOK(bad, "select{ctx.Done ⇒ timeout; result channel ⇒ plugin result}"))

	// the channel the result arrives on belongs to this invocation alone (round-3 seed C05-5: a pooled channel
	// let the late answer of an overrun invocation be taken for the answer of the next attempt): every
	// channel run() receives a plugin result from is a local of run() whose only definitions are make(chan …)
	var chObjs []types.Object
	var chPos token.Pos = fn.Decl.Pos()
	ast.Inspect(fn.Decl.Body, func(n ast.Node) bool {
		var x ast.Expr
		switch v := n.(type) {
		case *ast.UnaryExpr:
			if v.Op == token.ARROW {
				x = v.X
			}
		case *ast.RangeStmt:
			if tv, ok := info.Types[v.X]; ok {
				if _, isCh := tv.Type.Underlying().(*types.Chan); isCh {
					x = v.X
				}
			}
		}
		if x == nil || strings.HasSuffix(ExprStr(x), ".Done()") {
			return true
		}
		if tv, ok := info.Types[x]; ok {
			if ch, isCh := tv.Type.Underlying().(*types.Chan); isCh && strings.HasSuffix(ShortType(ch.Elem()), "plugResp") {
				if o := ObjOf(info, x); o != nil {
					chObjs = append(chObjs, o)
				} else {
					chObjs = append(chObjs, nil)
				}
				chPos = x.Pos()
			}
		}
		return true
	})
	if len(chObjs) == 0 {
		r.Unresolved(rule, "run() receives the plugin result from a channel")
		return
	}
	badCh := ""
	for _, o := range chObjs {
		v, isVar := o.(*types.Var)
		if o == nil || !isVar || v.IsField() || v.Parent() == nil || v.Pkg() == nil || v.Parent() == v.Pkg().Scope() || !(fn.Decl.Body.Pos() <= o.Pos() && o.Pos() <= fn.Decl.Body.End()) {
			badCh = "run() receives the plugin's result from a channel that is not a local of this invocation"
			break
		}
		nDef := 0
		ast.Inspect(fn.Decl.Body, func(n ast.Node) bool {
			check := func(l ast.Expr, rhs ast.Expr) {
				if ObjOf(info, l) != o {
					return
				}
				nDef++
				c, isCall := ast.Unparen(rhs).(*ast.CallExpr)
				isMake := false
				if isCall {
					if id, ok := ast.Unparen(c.Fun).(*ast.Ident); ok {
						if b, ok := info.ObjectOf(id).(*types.Builtin); ok && b.Name() == "make" {
							isMake = true
						}
					}
				}
				if !isMake && badCh == "" {
					badCh = "the channel run() receives the plugin's result from is defined as " + ExprStr(rhs) + ", not made for this invocation: the late answer of an invocation that overran its timeout can be received as the result of a later attempt (or of another action)"
				}
			}
			switch v := n.(type) {
			case *ast.AssignStmt:
				if len(v.Lhs) == len(v.Rhs) {
					for k := range v.Lhs {
						check(v.Lhs[k], v.Rhs[k])
					}
				} else {
					for k := range v.Lhs {
						if ObjOf(info, v.Lhs[k]) == o && badCh == "" {
							nDef++
							badCh = "the result channel of run() is defined by a multi-value assignment, not made for this invocation"
						}
					}
				}
			case *ast.ValueSpec:
				for k, nm := range v.Names {
					if info.ObjectOf(nm) == o {
						if k < len(v.Values) {
							check(nm, v.Values[k])
						}
					}
				}
			}
			return true
		})
		if nDef == 0 && badCh == "" {
			badCh = "the result channel of run() is never made in run()"
		}
	}
	r.Check(rule, "run:result-channel-fresh-per-invocation", chPos, badCh == "", "%s", orOK(badCh, "the result channel is made by run() for this invocation"))
}

func commRecv(s ast.Stmt) ast.Expr {
	var out ast.Expr
	ast.Inspect(s, func(n ast.Node) bool {
		if u, ok := n.(*ast.UnaryExpr); ok && u.Op == token.ARROW && out == nil {
			out = u.X
		}
		return out == nil
	})
	return out
}

func ruleRunnerGraph(r *Run, rule string) {
	m := r.ExtractMachine(rule, "action", pkgActions, "Runner", "Start")
	r.Note("action graph: %s", m.Dump())
	sub := func(st string, allowed ...string) {
		got := m.Succs(st)
		al := map[string]bool{}
		for _, a := range allowed {
			al[a] = true
		}
		okS := len(got) > 0
		for _, g := range got {
			if !al[g] {
				okS = false
			}
		}
		var pos token.Pos
		if f := m.States[st]; f != nil {
			pos = f.Decl.Pos()
		}
		r.Check(rule, "action-succs("+st+")", pos, okS, "succs(%s) = %v, allowed %v", st, got, allowed)
	}
	sub("Start", "GetPlugin", Terminal)
	sub("GetPlugin", "End", "Execute")
	sub("Execute", "End")
	sub("End", Terminal)
	// Execute: the Retry op calls exec once and returns its result; the Retry result lands in Data.err
	fn := m.States["Execute"]
	if fn == nil {
		return
	}
	fl, paths, ok := r.flowPaths(rule, fn)
	if !ok {
		return
	}
	var lit *ast.FuncLit
	errStored := false
	for i := range paths {
		for _, e := range paths[i].Ev {
			if IsCall(e, keyRetry) {
				lit = LitArg(e.Call)
				if as, ok := e.Node.(*ast.AssignStmt); ok && len(as.Lhs) == 1 {
					if _, m := FieldPath(fl.Info, as.Lhs[0], "actions.Data", "err"); m {
						errStored = true
					}
				}
			}
		}
	}
	if lit == nil {
		r.Unresolved(rule, "Execute calls Backoff.Retry with a literal")
		return
	}
	lf, lp, ok := r.litPaths(rule, lit)
	if !ok {
		return
	}
	n, bad, pos := propagation(lf, lp, actKey("Runner.exec"))
	calls := 0
	ast.Inspect(lit.Body, func(nn ast.Node) bool {
		if c, ok := nn.(*ast.CallExpr); ok {
			if f, ok := calleeFunc(lf.Info, c); ok && FuncKey(f) == actKey("Runner.exec") {
				calls++
			}
		}
		return true
	})
	if pos == 0 {
		pos = lit.Pos()
	}
	r.Check(rule, "Execute:retry-op-is-exec", pos, n > 0 && calls == 1 && bad == "" && errStored, "%s", orOK(bad, "Retry op calls exec "+itoa(calls)+" time(s) per iteration and returns its error; Retry's result stored in Data.err="+boolStr(errStored)))
}

// ruleIsTypeExact (round-4 seed C05-8): "a response whose type differs from the declared response type" is decided by isType, and
// the rules of R3 take its answer for exact. isType compares reflect.TypeOf of its two arguments and nothing else: a comparison
// after stripping a pointer level, of kinds, or of names accepts a response the storage layer then decodes into the wrong type.
func ruleIsTypeExact(r *Run, rule string) {
	fn := r.fnByKey(rule, actKey("isType"))
	if fn == nil {
		return
	}
	info := fn.Pkg.TypesInfo
	params := map[types.Object]bool{}
	if fn.Decl.Type.Params != nil {
		for _, f := range fn.Decl.Type.Params.List {
			for _, n := range f.Names {
				params[info.ObjectOf(n)] = true
			}
		}
	}
	isTypeOfParam := func(e ast.Expr) bool {
		c, ok := ast.Unparen(e).(*ast.CallExpr)
		if !ok || len(c.Args) != 1 {
			return false
		}
		f, ok := calleeFunc(info, c)
		if !ok || FuncKey(f) != "reflect.TypeOf" {
			return false
		}
		return params[ObjOf(info, c.Args[0])]
	}
	bad := ""
	var bpos token.Pos = fn.Decl.Pos()
	cmps := 0
	ast.Inspect(fn.Decl.Body, func(n ast.Node) bool {
		switch x := n.(type) {
		case *ast.BinaryExpr:
			if x.Op != token.EQL && x.Op != token.NEQ {
				return true
			}
			tv, ok := info.Types[x.X]
			if !ok || TypeKey(tv.Type) != "reflect.Type" {
				return true
			}
			cmps++
			if (!isTypeOfParam(x.X) || !isTypeOfParam(x.Y)) && bad == "" {
				bad, bpos = "isType compares "+ExprStr(x.X)+" with "+ExprStr(x.Y)+": the declared response type and the type of the response must be compared as they are (reflect.TypeOf of each argument)", x.Pos()
			}
		case *ast.CallExpr:
			if f, ok := calleeFunc(info, x); ok && FuncKey(f) != "reflect.TypeOf" && bad == "" {
				bad, bpos = "isType calls "+FuncKey(f)+": the types it compares are worked on first, so a response of another type than the declared one can pass for a match", x.Pos()
			}
		}
		return true
	})
	if cmps == 0 && bad == "" {
		bad = "isType does not compare reflect.TypeOf of its arguments"
	}
	r.Check(rule, "isType:exact-type-comparison", bpos, bad == "", "%s", orOK(bad, "reflect.TypeOf(a) == reflect.TypeOf(b)"))
}
