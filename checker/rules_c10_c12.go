package main

import (
	"sort"
	"go/ast"
	"go/token"
	"go/types"
	"strings"
)

func init() {
	register(PropInfo{
		ID: "C10",
		Explanation: "Decides only structural necessary conditions of C10 (DESIGN.md section 4, C10): (R1) wiring: execute.New runs recover() when recovery is enabled, recover() hands every plan that came out of the recovery machine to runPlan, runPlan enters the plan machine at Recovery exactly when the stored status is Running, and the recovery machine is start→fetchPlans→filterPlans→agedOut→done with errors surfaced; (R2) Recovery dispatches every plan status after fixPlan (terminal ⇒ End, NotStarted ⇒ Start, Running ⇒ PlanBypassChecks); (R3) the resumed machine inherits the engine's structure: from Recovery every path to termination passes End, an entered scope passes its deferred checks, continuous-check goroutines are joined, fixBlock joins what it launches, and the C09 guards hold. (R4) deferred checks of an entered scope still run when the scope's failure was already durable at the crash: Recovery must not send a Failed plan to End without its deferred checks, and no block state before BlockDeferredChecks may store a terminal block status. Convergence, absence of hangs and equality of outcomes over all crash points are not decided.",
		NotDecided:  []string{"convergence over all crash points × schedules", "absence of hangs as liveness", "equality of the recovered and the uninterrupted outcome"},
		Assumptions: []string{"statemachine.Run semantics", "the vault returns what was durably written (C13)"},
		Rules:       rulesC10,
	})
	register(PropInfo{
		ID: "C11",
		Explanation: "All-paths decision of the structural clauses of C11 (DESIGN.md section 4, C11): (R1) the start-up search filters on exactly {ByStatus: [Running]}; (R2) the staleness test is lastUpdate(plan)+maxAge before now, and lastUpdate takes the maximum over Start and End of every walked object; (R3) agedOut marks the plan Failed with FRExceedRecovery and an end time, turns every Running object Failed, and persists every object kind it may have changed; (R4) with recovery disabled New never calls recover()/runPlan; (R5) runPlan is called only from Start (after validateStartState) and from recover() with the plans filterPlans kept, and filterPlans removes exactly the aged-out plans from that list.",
		NotDecided:  []string{"disjointness of the two lists as data", "ages at the boundary as values"},
		Assumptions: []string{"walk.Plan yields every object of the plan (C19)"},
		Rules:       rulesC11,
	})
	register(PropInfo{
		ID: "C12",
		Explanation: "All-paths decision of the structural clauses of C12 (DESIGN.md section 4, C12): (R1) check-then-act: between entering Plans.Start and registering/launching the plan there is a point only one of two concurrent callers can pass (a lock held across the waiter lookup, Read, validation and registration, or an insert-if-absent whose result is branched on) — its absence is a sound refutation; (R2) validateStartState rejects a zero maxSubmit, a zero or stale SubmitTime and runs the four registered validators over every object, validateState requires NotStarted and zero times; (R3) the API layer contains no panic/Fatal/Exit site other than the enumerated storage-write-failure sites, and no close() of a channel obtained from a map lookup whose ok result is ignored; (R4) exported Workstream methods nil-check pointer parameters before first use; (R5) library calls that panic on a non-positive argument (time.NewTicker) are reached only with an argument established positive; (R6) the Status iterator tests every yield result and stops at once (continuing after the consumer stopped panics the runtime). R2 also decides that each public option forwards to the internal option of the same name and that it sets the field it is named after.",
		NotDecided:  []string{"exactly-once under real races beyond the necessary condition", "arbitrary API call histories"},
		Assumptions: []string{"ShardedMap Get/Set/Del are individually atomic but not jointly", "time.NewTicker panics for d <= 0", "storage.*.Read answers (nil, err) or (plan, nil): the plan that comes with a non-nil error is nil"},
		Rules:       rulesC12,
	})
}

func execKey(name string) string { return pkgExec + "." + name }

// ---------------------------------------------------------------------------
// C10

func rulesC10(r *Run) {
	r.Kind("R1", "K4+K11")
	ruleNewRecovers(r, "R1", true)
	ruleRecoverRunsPlans(r, "R1")
	ruleRunPlanEntry(r, "R1")
	ruleRecoverMachine(r, "R1")
	ruleNoVaultCallInStreamLoop(r, "R1")
	r.Expect("R1", 10)

	r.Kind("R2", "K7")
	ruleRecoveryTerminal(r, "R2")
	r.Expect("R2", 1)

	r.Kind("R3", "K1+K3")
	m := planMachine(r, "R3")
	r.Check("R3", "End-before-termination:Recovery", posOfState(m, "Recovery"), m.MustPass("Recovery", "End", Terminal) && m.reach("Recovery", nil)[Terminal], "every path from Recovery to the end of the machine must pass End; witness avoiding End: %s", m.Witness("Recovery", "End", Terminal))
	{
		avoid := map[string]bool{"PlanDeferredChecks": true}
		reach := m.reach("PlanPreChecks", avoid)
		r.Check("R3", "entered-plan-runs-deferred", posOfState(m, "PlanPreChecks"), !reach["End"] && !reach[Terminal], "a resumed plan that passed its bypass gate must pass PlanDeferredChecks before End; witness: %s", witnessAvoiding(m, "PlanPreChecks", avoid, "End"))
		avoid = map[string]bool{"BlockDeferredChecks": true}
		reach = m.reach("BlockPreChecks", avoid)
		r.Check("R3", "entered-block-runs-deferred", posOfState(m, "BlockPreChecks"), !reach["BlockEnd"] && !reach["End"] && !reach["ExecuteBlock"], "a resumed block that passed its bypass gate must pass BlockDeferredChecks")
	}
	ruleContJoin(r, "R3", m)
	ruleContChannelsMade(r, "R3")
	ruleJoinJ1(r, "R3", smKey("fixBlock"))
	ruleFixAction(r, "R3")
	for _, k := range []string{pkgSM + ".fixAction", pkgSM + ".fixChecks", pkgSM + ".fixSeq", smKey("fixBlock"), smKey("fixPlan")} {
		ruleFixPrologue(r, "R3", k)
	}
	ruleFixNotStarted(r, "R3")
	ruleRunActionGuards(r, "R3")
	ruleStartGuard(r, "R3")
	ruleExecSeqGuard(r, "R3")
	ruleLaunchGuard(r, "R3")
	ruleSkipBlock(r, "R3")
	ruleIsCompleted(r, "R3")
	ruleFixBlockLaunch(r, "R3")
	ruleSkipRecoveredChecks(r, "R3")
	ruleRecoveryNoEarlyWrite(r, "R3")
	ruleRecoveryPersistsFixes(r, "R3")
	ruleEndWritesChildrenFirst(r, "R3")
	ruleRepairThenClassifyAll(r, "R3")
	ruleFixVerdictStickyAll(r, "R3")
	ruleFailedGroupNotPassed(r, "R3", smKey("BlockPostChecks"), "PostChecks")
	ruleFailedGroupNotPassed(r, "R3", smKey("BlockDeferredChecks"), "DeferredChecks")
	// round-4 seed C10-7: the gate's run of the ContChecks is also what repairs a ContChecks group a crash interrupted in the
	// middle of a periodic re-run (the group itself is never stored Running, so fixChecks passes over it while its actions
	// are): a recovered scope without PreChecks must not skip it because the group is "Completed" (= C06-R4)
	ruleGateRunsContChecks(r, "R3", smKey("PlanPreChecks"), "workflow.Plan")
	ruleGateRunsContChecks(r, "R3", smKey("BlockPreChecks"), "workflow.Block")
	ruleToleranceComparisonsGuarded(r, "R3") // recovery reaches the verdict the uninterrupted run would have reached (round-4 seed C10-8)
	ruleTerminalGroupNotRerun(r, "R3", smKey("PlanPostChecks"), "PostChecks")
	ruleTerminalGroupNotRerun(r, "R3", smKey("PlanDeferredChecks"), "DeferredChecks")
	ruleSelfLoopMakesProgress(r, "R3")
	ruleLaunchLoopPassesFinished(r, "R3")
	ruleFixSeqVerdicts(r, "R3")
	ruleFixPlanCompletedOnlyIfChecksDone(r, "R3")
	ruleRunnerStartSilentStop(r, "R3")
	r.Expect("R3", 46)

	r.Kind("R4", "K1+K3")
	ruleRecoveryDeferred(r, "R4", m)
	r.Expect("R4", 6)
}

// ruleNewRecovers: New calls recover() iff the recovery flag is set.
func ruleNewRecovers(r *Run, rule string, wantPositive bool) {
	fn := r.fnByKey(rule, execKey("New"))
	if fn == nil {
		return
	}
	fl, paths, ok := r.flowPaths(rule, fn)
	if !ok {
		return
	}
	badOn, badOff := "", ""
	nOn, nOff := 0, 0
	for i := range paths {
		p := &paths[i]
		if p.Exit != ExitReturn {
			continue
		}
		// only the success paths (return e, nil)
		var ret *Event
		for j := range p.Ev {
			if p.Ev[j].Kind == EvReturn {
				ret = &p.Ev[j]
			}
		}
		if ret == nil {
			continue
		}
		if isNil, has := ReturnsNilLast(fl.Info, *ret); !has || !isNil {
			continue
		}
		flag := ""
		for _, e := range p.Ev {
			if e.Kind == EvBranch && e.Cond != nil {
				c := ast.Unparen(e.Cond)
				neg := false
				if u, ok := c.(*ast.UnaryExpr); ok && u.Op == token.NOT {
					neg = true
					c = ast.Unparen(u.X)
				}
				if _, m := FieldPath(fl.Info, c, "execute.Plans", "recovery"); m {
					if e.Taken != neg {
						flag = "on"
					} else {
						flag = "off"
					}
				}
			}
		}
		called := false
		for _, e := range p.Ev {
			if IsCall(e, execKey("Plans.recover")) || IsCall(e, execKey("Plans.runPlan")) {
				called = true
			}
		}
		switch flag {
		case "on":
			nOn++
			if !called && badOn == "" {
				badOn = "New returns successfully with recovery enabled without calling recover(): Running plans would never be resumed"
			}
		case "off":
			nOff++
			if called && badOff == "" {
				badOff = "New resumes plans although recovery is disabled"
			}
		default:
			if called && badOff == "" {
				badOff = "New calls recover() on a path that does not test the recovery flag"
			}
			if !called && badOn == "" {
				badOn = "New has a successful path that neither tests the recovery flag nor recovers"
			}
		}
	}
	if nOn == 0 || nOff == 0 {
		r.Unresolved(rule, "execute.New tests Plans.recovery both ways")
		return
	}
	if wantPositive {
		r.Check(rule, "New:recovers-when-enabled", fn.Decl.Pos(), badOn == "", "%s", orOK(badOn, "recovery enabled ⇒ recover() on every successful path"))
		// D47: and a recovery that could not run is reported. recover() answers with the error of the search for Running plans
		// and of reading them; New must not answer nil on top of it — the plans stay Running in the store with nobody
		// executing them and nothing says so.
		n, b, pos := propagation(fl, paths, execKey("Plans.recover"))
		if pos == 0 {
			pos = fn.Decl.Pos()
		}
		if n > 0 {
			r.Check(rule, "New:recovery-failure-reported", pos, b == "", "%s", orOK(b, "the error of recover() reaches the caller of New"))
		}
	} else {
		r.Check(rule, "New:nothing-resumed-when-disabled", fn.Decl.Pos(), badOff == "", "%s", orOK(badOff, "recovery disabled ⇒ neither recover() nor runPlan"))
	}
	// the default must be enabled and WithNoRecovery must clear it
	if wantPositive {
		def := false
		ast.Inspect(fn.Decl.Body, func(n ast.Node) bool {
			if cl, ok := n.(*ast.CompositeLit); ok {
				if v := keyValue(cl, "recovery"); v != nil && ValueKey(fl.Info, v) == "true" {
					def = true
				}
			}
			return true
		})
		r.Check(rule, "New:recovery-enabled-by-default", fn.Decl.Pos(), def, "Plans.recovery must default to true in New")
	} else {
		wn := r.fnByKey(rule, execKey("WithNoRecovery"))
		if wn != nil {
			cleared := false
			ast.Inspect(wn.Decl.Body, func(n ast.Node) bool {
				if as, ok := n.(*ast.AssignStmt); ok && len(as.Lhs) == 1 && len(as.Rhs) == 1 {
					if _, m := FieldPath(wn.Pkg.TypesInfo, as.Lhs[0], "execute.Plans", "recovery"); m && ValueKey(wn.Pkg.TypesInfo, as.Rhs[0]) == "false" {
						cleared = true
					}
				}
				return true
			})
			r.Check(rule, "WithNoRecovery:clears-flag", wn.Decl.Pos(), cleared, "WithNoRecovery must set Plans.recovery = false")
		}
	}
}

// ruleRecoverRunsPlans: recover() runs the recovery machine from start and hands every resulting plan to runPlan.
func ruleRecoverRunsPlans(r *Run, rule string) {
	fn := r.fnByKey(rule, execKey("Plans.recover"))
	if fn == nil {
		return
	}
	info := fn.Pkg.TypesInfo
	okLoop, msg := false, "recover() does not range over the recovery machine's plans handing each to runPlan"
	ast.Inspect(fn.Decl.Body, func(n ast.Node) bool {
		rs, ok := n.(*ast.RangeStmt)
		if !ok {
			return true
		}
		if _, m := FieldPath(info, rs.X, "execute.recoverData", "plans"); !m {
			return true
		}
		ast.Inspect(rs.Body, func(m ast.Node) bool {
			c, ok := m.(*ast.CallExpr)
			if !ok {
				return true
			}
			if f, ok := calleeFunc(info, c); ok && FuncKey(f) == execKey("Plans.runPlan") && len(c.Args) == 2 {
				if IsLoopElem(info, rs, c.Args[1]) {
					okLoop, msg = true, ""
				} else {
					msg = "runPlan is not given the element of the iteration"
				}
			}
			return true
		})
		return true
	})
	r.Check(rule, "recover:every-kept-plan-is-run", fn.Decl.Pos(), okLoop, "%s", orOK(msg, "for _, plan := range req.Data.plans { runPlan(ctx, plan) }"))
	// machine entry is recover.start and maxAge/store are wired from Plans
	entryOK, wired := false, 0
	ast.Inspect(fn.Decl.Body, func(n ast.Node) bool {
		cl, ok := n.(*ast.CompositeLit)
		if !ok {
			return true
		}
		if v := keyValue(cl, "Next"); v != nil && ValueKey(info, v) == "method:"+execKey("recover.start") {
			entryOK = true
		}
		if v := keyValue(cl, "maxAge"); v != nil {
			if _, m := FieldPath(info, v, "execute.Plans", "maxLastUpdate"); m {
				wired++
			}
		}
		if v := keyValue(cl, "store"); v != nil {
			if _, m := FieldPath(info, v, "execute.Plans", "store"); m {
				wired++
			}
		}
		return true
	})
	r.Check(rule, "recover:machine-wired", fn.Decl.Pos(), entryOK && wired == 2, "the recovery machine must start at recover.start with maxAge = Plans.maxLastUpdate and the Plans' store (entry=%v, wired fields=%d/2)", entryOK, wired)
}

// ruleRunPlanEntry: the submitted literal enters at Recovery iff the stored status is Running.
func ruleRunPlanEntry(r *Run, rule string) {
	fn := r.fnByKey(rule, execKey("Plans.runPlan"))
	if fn == nil {
		return
	}
	var lit *ast.FuncLit
	info := fn.Pkg.TypesInfo
	ast.Inspect(fn.Decl.Body, func(n ast.Node) bool {
		if c, ok := n.(*ast.CallExpr); ok {
			if f, ok := calleeFunc(info, c); ok && FuncKey(f) == keySubmit {
				lit = LitArg(c)
			}
		}
		return true
	})
	if lit == nil {
		r.Unresolved(rule, "runPlan submits a literal")
		return
	}
	lf, lp, ok := r.litPaths(rule, lit)
	if !ok {
		return
	}
	bad := ""
	seen := map[string]bool{}
	for i := range lp {
		p := &lp[i]
		if p.Exit != ExitReturn {
			continue
		}
		running := "untested"
		entry := ""
		var entryObj types.Object
		for _, e := range p.Ev {
			if e.Kind == EvBranch {
				if st, ok := statusTest(lf.Info, e, "workflow.Plan"); ok && st == "workflow.Running" {
					if e.Taken {
						running = "yes"
					} else {
						running = "no"
					}
				}
			}
			if res := e.Results(); e.Kind == EvAssign && len(e.Lhs) == len(res) {
				for k := range e.Lhs {
					if v := ValueKey(lf.Info, res[k]); strings.HasPrefix(v, "method:"+pkgSM+".States.") {
						entry = strings.TrimPrefix(v, "method:"+pkgSM+".States.")
						entryObj = ObjOf(lf.Info, e.Lhs[k])
					}
					if cl := compositeOf(res[k]); cl != nil {
						if v := keyValue(cl, "Next"); v != nil {
							if vk := ValueKey(lf.Info, v); strings.HasPrefix(vk, "method:") {
								entry = strings.TrimPrefix(vk, "method:"+pkgSM+".States.")
							} else if entryObj == nil || ObjOf(lf.Info, v) != entryObj {
								entry = "?"
							}
						}
					}
				}
			}
		}
		seen[running] = true
		want := map[string]string{"yes": "Recovery", "no": "Start"}[running]
		if entry != want && bad == "" {
			bad = "with stored status Running=" + running + " the plan machine is entered at " + orOK(entry, "nothing") + " (expected " + orOK(want, "a status test") + "): a resumed plan must start at Recovery and a fresh one at Start"
		}
	}
	if !seen["yes"] || !seen["no"] {
		bad = orOK(bad, "runPlan does not test the stored plan status for Running both ways")
	}
	r.Check(rule, "runPlan:Recovery-iff-Running", lit.Pos(), bad == "", "%s", orOK(bad, "Next = Recovery exactly when plan.State.Status == Running, else Start"))
}

func ruleRecoverMachine(r *Run, rule string) {
	m := r.ExtractMachine(rule, "recover", pkgExec, "recover", "start")
	r.Note("recover graph: %s", m.Dump())
	sub := func(st string, allowed ...string) {
		got := m.Succs(st)
		okS := len(got) > 0
		for _, g := range got {
			if !inSet(allowed, g) {
				okS = false
			}
		}
		var pos token.Pos
		if f := m.States[st]; f != nil {
			pos = f.Decl.Pos()
		}
		r.Check(rule, "recover-succs("+st+")", pos, okS && inSet(got, allowed[0]), "succs(%s) = %v, allowed %v", st, got, allowed)
	}
	sub("start", "fetchPlans", Terminal)
	sub("fetchPlans", "filterPlans", Terminal)
	sub("filterPlans", "agedOut")
	sub("agedOut", "done", Terminal)
	// an edge to the terminal from start/fetchPlans/agedOut must carry Err (failure surfaced, not silently empty)
	for _, e := range m.Edges {
		if e.To == Terminal && e.From != "done" && !e.ErrSet {
			r.Fail(rule, "recover-silent-stop:"+e.From, e.Site, "the recovery machine can stop in %s without an error and without reaching done: plans would silently not be resumed", e.From)
		}
	}
}

// ruleFixNotStarted: inside fix* a scope is put back to NotStarted only when nothing
// in it completed, and only the function's own subject is reset.
func ruleFixNotStarted(r *Run, rule string) {
	subjects := map[string]string{pkgSM + ".fixSeq": "workflow.Sequence", smKey("fixBlock"): "workflow.Block", smKey("fixPlan"): "workflow.Plan"}
	for key, subj := range subjects {
		fn := r.fnByKey(rule, key)
		if fn == nil {
			continue
		}
		fl, paths, ok := r.flowPaths(rule, fn)
		if !ok {
			continue
		}
		paths = fl.OwnOnly(paths)
		bad := ""
		n := 0
		var bpos token.Pos = fn.Decl.Pos()
		for i := range paths {
			p := &paths[i]
			for j, e := range p.Ev {
				for _, ow := range []string{"workflow.Plan", "workflow.Block", "workflow.Sequence", "workflow.Action"} {
					v, ok := StatusAssign(fl.Info, e, ow)
					if !ok || v != "workflow.NotStarted" {
						continue
					}
					n++
					if ow != subj && bad == "" {
						bad, bpos = ShortFn(key)+" resets a "+ow+" to NotStarted; only "+subj+" (its own subject) may be reset here — work recovery has just driven to completion would be run again", e.Pos
					}
					guarded := false
					for x := j - 1; x >= 0; x-- {
						b := p.Ev[x]
						// `completed == 0`: a local counter of finished children found zero
						if Establishes(fl.Info, b, func(x ast.Expr) bool {
							v, ok := ObjOf(fl.Info, x).(*types.Var)
							return ok && !v.IsField() && v.Pkg() != nil && v.Parent() != v.Pkg().Scope()
						}, "int:0", true) {
							guarded = true
						}
					}
					if !guarded && bad == "" {
						bad, bpos = ShortFn(key)+" resets its subject to NotStarted on a path that did not establish `completed == 0`", e.Pos
					}
				}
			}
		}
		// resetAction from here?
		for _, e := range r.P.CallGraph().Callees(key) {
			if e.Callee == pkgSM+".resetAction" && bad == "" {
				bad, bpos = ShortFn(key)+" calls resetAction directly; actions are reset only by fixAction (no attempts) and fixChecks", e.Pos
			}
		}
		if n == 0 {
			r.Unresolved(rule, key+" NotStarted branch")
			continue
		}
		r.Check(rule, "fix-notstarted:"+ShortFn(key), bpos, bad == "", "%s", orOK(bad, "reset only of the own subject and only when nothing completed"))
	}
}

// ---------------------------------------------------------------------------
// C11

func rulesC11(r *Run) {
	r.Kind("R1", "K11")
	ruleSearchFilter(r, "R1")
	r.Expect("R1", 1)

	r.Kind("R2", "K5")
	ruleStaleness(r, "R2")
	r.Expect("R2", 2)

	r.Kind("R3", "K2+K6")
	ruleAgedOut(r, "R3")
	ruleAgedOutWritesChildrenFirst(r, "R3")
	r.Expect("R3", 4)

	r.Kind("R4", "K2")
	ruleNewRecovers(r, "R4", false)
	ruleOptionWiring(r, "R4")
	r.Expect("R4", 8)

	r.Kind("R5", "K4")
	r.CallersWithin("R5", execKey("Plans.runPlan"), execKey("Plans.Start"), execKey("Plans.recover"))
	ruleStartValidates(r, "R5")
	ruleFilterCompaction(r, "R5")
	ruleRecoverRunsPlans(r, "R5")
	r.Expect("R5", 6)
}

func ruleSearchFilter(r *Run, rule string) {
	fn := r.Fn(rule, pkgExec, "recover", "start")
	if fn == nil {
		return
	}
	info := fn.Pkg.TypesInfo
	found := false
	ast.Inspect(fn.Decl.Body, func(n ast.Node) bool {
		c, ok := n.(*ast.CallExpr)
		if !ok {
			return true
		}
		f, ok := calleeFunc(info, c)
		if !ok || !strings.HasSuffix(FuncKey(f), ".Search") || !strings.HasPrefix(FuncKey(f), "workflow/storage.") || len(c.Args) != 2 {
			return true
		}
		found = true
		cl := compositeOf(c.Args[1])
		okF, msg := false, "the filter is not a literal storage.Filters{ByStatus: []Status{Running}}"
		if cl != nil && len(cl.Elts) == 1 {
			if v := keyValue(cl, "ByStatus"); v != nil {
				if sl := compositeOf(v); sl != nil && len(sl.Elts) == 1 && ValueKey(info, sl.Elts[0]) == "workflow.Running" {
					okF, msg = true, ""
				} else {
					msg = "ByStatus is " + ExprStr(v) + "; exactly the Running plans must be considered at start-up"
				}
			}
		} else if cl != nil {
			msg = "the start-up filter has " + itoa(len(cl.Elts)) + " keys (" + ExprStr(c.Args[1]) + "); exactly {ByStatus: [Running]} is required"
		}
		r.Check(rule, "recover.start:filter-is-running-only", c.Pos(), okF, "%s", orOK(msg, "Filters{ByStatus: [Running]}"))
		return true
	})
	if !found {
		r.Unresolved(rule, "recover.start calls store.Search")
	}
}

func ruleStaleness(r *Run, rule string) {
	fn := r.Fn(rule, pkgExec, "recover", "filterPlans")
	if fn == nil {
		return
	}
	fl, paths, okp := r.flowPaths(rule, fn)
	if !okp {
		return
	}
	info := fl.Info
	// the staleness test, in any spelling: lastUpdate(plan) older than maxAge relative to now
	okC, msg := false, "no staleness test (lastUpdate(plan) older than maxAge relative to now) in filterPlans"
	var pos token.Pos = fn.Decl.Pos()
	for i := range paths {
		p := &paths[i]
		for j, e := range p.Ev {
			if e.Kind != EvBranch || e.Cond == nil {
				continue
			}
			for _, c := range branchConds(e) {
				at, isAge := ageTest(info, c)
				if !isAge || !originIsCall(info, p, j, at.T, execKey("lastUpdate")) {
					continue
				}
				pos = e.Pos
				_, ageOK := FieldPath(info, OriginOnPath(info, p, j, at.D), "execute.recover", "maxAge")
				switch {
				case !at.Older:
					msg = "the staleness test is reversed (" + ExprStr(c) + "): a plan is stale when lastUpdate+maxAge lies before now"
				case !ageOK:
					msg = "the staleness test uses " + ExprStr(at.D) + " instead of the configured maxAge"
				case !isNowOnPath(info, p, j, at.N):
					msg = "the staleness test does not compare with time.Now()"
				default:
					okC, msg = true, ""
				}
			}
		}
	}
	r.Check(rule, "filterPlans:staleness-test", pos, okC, "%s", orOK(msg, "lastUpdate(plan).Add(maxAge).Before(now)"))

	lu := r.fnByKey(rule, execKey("lastUpdate"))
	if lu == nil {
		return
	}
	fl, paths, ok := r.flowPaths(rule, lu)
	if !ok {
		return
	}
	fields := map[string]bool{}
	walks := false
	bad := ""
	ast.Inspect(lu.Decl.Body, func(n ast.Node) bool {
		if rs, ok := n.(*ast.RangeStmt); ok {
			if c, ok := ast.Unparen(rs.X).(*ast.CallExpr); ok {
				if f, ok := calleeFunc(fl.Info, c); ok && FuncKey(f) == "workflow/utils/walk.Plan" {
					walks = true
				}
			}
		}
		return true
	})
	for i := range paths {
		p := &paths[i]
		for j, e := range p.Ev {
			if e.Kind != EvBranch || e.Cond == nil || !e.Taken {
				continue
			}
			c, ok := ast.Unparen(e.Cond).(*ast.CallExpr)
			if !ok {
				continue
			}
			sel, ok := c.Fun.(*ast.SelectorExpr)
			if !ok {
				continue
			}
			for _, f := range []string{"Start", "End"} {
				if _, m := FieldPath(fl.Info, sel.X, "workflow.State", f); m && len(c.Args) == 1 {
					if sel.Sel.Name != "After" && bad == "" {
						bad = "lastUpdate compares State." + f + " with ." + sel.Sel.Name + "(last); the most recent activity is the maximum (After)"
					}
					// the taken branch assigns last = state.<f>
					assigned := false
					for x := j + 1; x < len(p.Ev) && p.Ev[x].Kind != EvBranch && p.Ev[x].Kind != EvRange; x++ {
						a := p.Ev[x]
						if a.Kind == EvAssign && len(a.Lhs) == 1 && len(a.Results()) == 1 && SameObj(fl.Info, a.Lhs[0], c.Args[0]) {
							if _, m := FieldPath(fl.Info, a.Results()[0], "workflow.State", f); m {
								assigned = true
							}
						}
					}
					if assigned {
						fields[f] = true
					} else if bad == "" {
						bad = "the branch State." + f + ".After(last) does not assign last = State." + f
					}
				}
			}
		}
	}
	// both comparisons are evaluated for every object (independent tests, not else-if)
	isTimeTest := func(e Event, f string) bool {
		if e.Kind != EvBranch || e.Cond == nil {
			return false
		}
		c, ok := ast.Unparen(e.Cond).(*ast.CallExpr)
		if !ok {
			return false
		}
		sel, ok := c.Fun.(*ast.SelectorExpr)
		if !ok {
			return false
		}
		_, m := FieldPath(fl.Info, sel.X, "workflow.State", f)
		return m
	}
	for i := range paths {
		p := &paths[i]
		for j, e := range p.Ev {
			if e.Kind != EvRange || !e.Taken {
				continue
			}
			// iterations of the loop over the walk (an inner loop, e.g. over the attempts of an action, belongs to the iteration)
			if rs, isR := e.Clause.(*ast.RangeStmt); isR {
				if c, isC := ast.Unparen(rs.X).(*ast.CallExpr); !isC {
					continue
				} else if f, ok := calleeFunc(fl.Info, c); !ok || FuncKey(f) != "workflow/utils/walk.Plan" {
					continue
				}
			}
			sawS, sawE := false, false
			end := false
			for x := j + 1; x < len(p.Ev) && !end; x++ {
				if p.Ev[x].Kind == EvRange && p.Ev[x].Clause == e.Clause {
					end = true
					break
				}
				if isTimeTest(p.Ev[x], "Start") {
					sawS = true
				}
				if isTimeTest(p.Ev[x], "End") {
					sawE = true
				}
			}
			if end && (!sawS || !sawE) && bad == "" {
				bad = "for some object only one of State.Start/State.End is compared with the running maximum (Start tested=" + boolStr(sawS) + ", End tested=" + boolStr(sawE) + "): the two tests must be independent, otherwise an End newer than every Start is ignored and a live plan is closed as stale"
			}
		}
	}
	// round-4 seed C11-8: the maximum is taken over EVERY walked object — the walk yields the plan's PostChecks and DeferredChecks
	// after all the blocks, and a plan whose early block failed runs its deferred checks while later blocks are still
	// NotStarted: a scan that stops at some object (break, return) judges a live plan by the age of its first blocks.
	badScan := ""
	var scanPos token.Pos = lu.Decl.Pos()
	for i := range paths {
		p := &paths[i]
		if p.Exit != ExitReturn || badScan != "" {
			continue
		}
		last := -1
		for j, e := range p.Ev {
			if e.Kind != EvRange {
				continue
			}
			rs, isR := e.Clause.(*ast.RangeStmt)
			if !isR {
				continue
			}
			c, isC := ast.Unparen(rs.X).(*ast.CallExpr)
			if !isC {
				continue
			}
			if f, ok := calleeFunc(fl.Info, c); !ok || FuncKey(f) != "workflow/utils/walk.Plan" {
				continue
			}
			if e.Taken {
				last = j
			} else {
				last = -1
			}
		}
		if last >= 0 {
			g := ""
			for x := last + 1; x < len(p.Ev); x++ {
				if p.Ev[x].Kind == EvBranch && p.Ev[x].Cond != nil && p.Ev[x].Depth == 0 {
					g = ExprStr(p.Ev[x].Cond)
				}
			}
			badScan, scanPos = "lastUpdate leaves its loop over the walk before the last object (last test: "+g+"): what comes later in the walk — later blocks, the plan's post and deferred checks, their actions and attempts — is not looked at, a live plan is closed as stale", p.Ev[last].Pos
		}
	}
	if walks {
		r.Check(rule, "lastUpdate:scan-complete", scanPos, badScan == "", "%s", orOK(badScan, "the loop over the walk runs to its end on every path"))
	}
	if !walks && bad == "" {
		bad = "lastUpdate does not range over walk.Plan(p): activity of sub-objects would be ignored and a live plan closed as stale"
	}
	if (!fields["Start"] || !fields["End"]) && bad == "" {
		bad = "lastUpdate does not take both State.Start and State.End into account (Start=" + boolStr(fields["Start"]) + " End=" + boolStr(fields["End"]) + ")"
	}
	r.Check(rule, "lastUpdate:max-over-all-objects", lu.Decl.Pos(), bad == "", "%s", orOK(bad, "maximum of Start and End over every walked object"))

	// D45: the attempts of an action are recorded activity too — an action that is being retried does not change its own
	// state, so a live plan in a long retry loop was judged stale. lastUpdate ranges over the Attempts of the actions and
	// compares both the Start and the End of an attempt with the running maximum.
	luInfo := lu.Pkg.TypesInfo
	attStart, attEnd := false, false
	ast.Inspect(lu.Decl.Body, func(x ast.Node) bool {
		rs, ok := x.(*ast.RangeStmt)
		if !ok {
			return true
		}
		if _, m := FieldPath(luInfo, rs.X, "workflow.Action", "Attempts"); !m {
			return true
		}
		// both times of the attempt are read in the loop (compared in place, or handed to a helper that takes the maximum)
		ast.Inspect(rs.Body, func(y ast.Node) bool {
			if s2, ok := y.(*ast.SelectorExpr); ok && IsLoopElem(luInfo, rs, s2.X) {
				switch s2.Sel.Name {
				case "Start":
					attStart = true
				case "End":
					attEnd = true
				}
			}
			return true
		})
		return true
	})
	r.Check(rule, "lastUpdate:counts-attempts", lu.Decl.Pos(), attStart && attEnd,
		"lastUpdate does not take the attempts of the actions into account (attempt Start compared=%s, End compared=%s): an action that is being retried records its activity only there, so a live plan with a long retry loop is closed as Failed/ExceedRecovery at start-up", boolStr(attStart), boolStr(attEnd))
}

func ruleAgedOut(r *Run, rule string) {
	fn := r.Fn(rule, pkgExec, "recover", "agedOut")
	if fn == nil {
		return
	}
	fl, paths, ok := r.flowPaths(rule, fn)
	if !ok {
		return
	}
	info := fl.Info
	badMark, badPersist := "", ""
	nIter := 0
	kindsWritten := map[string]bool{}
	for i := range paths {
		p := &paths[i]
		// every loop iteration
		for j, e := range p.Ev {
			if e.Kind != EvRange || !e.Taken {
				continue
			}
			if _, m := FieldPath(info, e.Chan, "execute.recoverData", "agedOut"); !m {
				continue
			}
			nIter++
			st, reason, end, r2f := "", "", false, false
			wrote := map[string]bool{}
			for x := j + 1; x < len(p.Ev); x++ {
				a := p.Ev[x]
				if a.Kind == EvRange {
					if _, m := FieldPath(info, a.Chan, "execute.recoverData", "agedOut"); m {
						break
					}
				}
				if v, ok := StatusAssign(info, a, "workflow.Plan"); ok {
					st = v
				}
				if a.Kind == EvAssign && len(a.Lhs) == len(a.Rhs) {
					for k, l := range a.Lhs {
						if _, m := FieldPath(info, l, "workflow.Plan", "Reason"); m {
							reason = ValueKey(info, a.Rhs[k])
						}
						if _, m := FieldPath(info, l, "workflow.Plan", "State", "End"); m {
							end = true
						}
					}
				}
				if IsCall(a, execKey("runningToFailed")) {
					r2f = true
				}
				if name, ok := isUpdaterCall(a); ok {
					wrote[name] = true
					kindsWritten[name] = true
				}
				// a same-package helper that writes (one level of inlining)
				if a.Kind == EvCall && a.Callee != nil {
					if callee := r.P.DeclOf(a.Callee); callee != nil && callee.Key != execKey("runningToFailed") && callee.Pkg == fn.Pkg {
						for _, e2 := range r.P.CallGraph().Callees(callee.Key) {
							if i := strings.LastIndex(e2.Callee, "."); i >= 0 && strings.HasPrefix(e2.Callee, "workflow/storage.") && strings.HasPrefix(e2.Callee[i+1:], "Update") {
								wrote[e2.Callee[i+1:]] = true
								kindsWritten[e2.Callee[i+1:]] = true
							}
						}
						if u := UseOfResult(fl, p, x); u.Verdict == "untested" || u.Kind == "discarded" {
							if badPersist == "" {
								badPersist = "the error of " + ShortFn(callee.Key) + " is not tested: a failed write of the closed plan would go unnoticed"
							}
						}
					}
				}
			}
			if (st != "workflow.Failed" || reason != "workflow.FRExceedRecovery" || !end || !r2f) && badMark == "" {
				badMark = "an aged-out plan is left with status " + orOK(st, "unassigned") + ", reason " + orOK(reason, "unassigned") + ", end stamped=" + boolStr(end) + ", runningToFailed called=" + boolStr(r2f)
			}
			if !wrote["UpdatePlan"] && badPersist == "" {
				badPersist = "the aged-out plan is not written (UpdatePlan)"
			}
		}
	}
	if nIter == 0 {
		r.Unresolved(rule, "agedOut ranges over recoverData.agedOut")
		return
	}
	r.Check(rule, "agedOut:marks-plan-failed", fn.Decl.Pos(), badMark == "", "%s", orOK(badMark, "Failed, FRExceedRecovery, End stamped, runningToFailed"))
	// runningToFailed may change any object kind: all of them must be persisted
	var missing []string
	for _, k := range []string{"UpdatePlan", "UpdateBlock", "UpdateChecks", "UpdateSequence", "UpdateAction"} {
		if !kindsWritten[k] {
			missing = append(missing, k)
		}
	}
	if badPersist == "" && len(missing) > 0 {
		badPersist = "runningToFailed turns every Running block, checks group, sequence and action of the plan Failed in memory, but agedOut never calls " + strings.Join(missing, ", ") + ": those objects stay Running in the store although the plan is closed"
	}
	r.Check(rule, "agedOut:persists-every-changed-kind", fn.Decl.Pos(), badPersist == "", "%s", orOK(badPersist, "every object kind runningToFailed may change is written"))

	// runningToFailed: every walked Running object becomes Failed
	rf := r.fnByKey(rule, execKey("runningToFailed"))
	if rf == nil {
		return
	}
	rfl, rp, ok := r.flowPaths(rule, rf)
	if !ok {
		return
	}
	bad := ""
	seen := false
	for i := range rp {
		p := &rp[i]
		for j, e := range p.Ev {
			if Establishes(rfl.Info, e, fieldMatcher(rfl.Info, "", "Status"), "workflow.Running", true) {
				seen = true
				okA := false
				for x := j + 1; x < len(p.Ev) && p.Ev[x].Kind != EvRange; x++ {
					a := p.Ev[x]
					if a.Kind != EvAssign || len(a.Lhs) != 1 || len(a.Rhs) != 1 {
						continue
					}
					if _, isStatus := FieldPath(rfl.Info, a.Lhs[0], "", "Status"); isStatus && ValueKey(rfl.Info, a.Rhs[0]) == "workflow.Failed" {
						okA = true
					}
				}
				if !okA && bad == "" {
					bad = "a Running object is not turned Failed by runningToFailed"
				}
			}
		}
	}
	walks := callsFunc(rfl.Info, rf.Decl.Body, "workflow/utils/walk.Plan")
	r.Check(rule, "runningToFailed:nothing-left-running", rf.Decl.Pos(), seen && walks && bad == "", "%s", orOK(bad, "walks the whole plan; Running ⇒ Failed (walks="+boolStr(walks)+", test seen="+boolStr(seen)+")"))
}

// ruleStartValidates: Plans.Start calls runPlan only after validateStartState returned nil.
func ruleStartValidates(r *Run, rule string) {
	fn := r.fnByKey(rule, execKey("Plans.Start"))
	if fn == nil {
		return
	}
	fl, paths, ok := r.flowPaths(rule, fn)
	if !ok {
		return
	}
	bad := ""
	n := 0
	for i := range paths {
		p := &paths[i]
		for j, e := range p.Ev {
			if !IsCall(e, execKey("Plans.runPlan")) {
				continue
			}
			n++
			vOK, rOK := false, false
			for ci := 0; ci < j; ci++ {
				if IsCall(p.Ev[ci], execKey("Plans.validateStartState")) && UseOfResult(fl, p, ci).Verdict == "nil" {
					vOK = true
				}
				if k := CalleeKey(p.Ev[ci]); p.Ev[ci].Kind == EvCall && strings.HasPrefix(k, "workflow/storage.") && strings.HasSuffix(k, ".Read") && UseOfResult(fl, p, ci).Verdict == "nil" {
					rOK = true
				}
			}
			if (!vOK || !rOK) && bad == "" {
				bad = "Start launches the plan on a path where the stored plan was not read successfully (" + boolStr(rOK) + ") or validateStartState did not succeed (" + boolStr(vOK) + ")"
			}
		}
	}
	if n == 0 {
		r.Unresolved(rule, "Plans.Start calls runPlan")
		return
	}
	r.Check(rule, "Start:validated-before-run", fn.Decl.Pos(), bad == "", "%s", orOK(bad, "Read ok, validateStartState nil, then runPlan"))
}

// ruleFilterCompaction: exactly the aged-out plans are removed from the list that is resumed.
func ruleFilterCompaction(r *Run, rule string) {
	fn := r.Fn(rule, pkgExec, "recover", "filterPlans")
	if fn == nil {
		return
	}
	fl, paths, ok := r.flowPaths(rule, fn)
	if !ok {
		return
	}
	info := fl.Info
	bad := ""
	nStale, nLive := 0, 0
	type staleRec struct{ stale, aged, removed, kept bool }
	var recs []staleRec
	for i := range paths {
		p := &paths[i]
		for j, e := range p.Ev {
			if e.Kind != EvBranch || e.Cond == nil || e.Depth > 0 {
				continue
			}
			isStale := callsFunc(info, e.Cond, execKey("lastUpdate"))
			for _, c := range branchConds(e) {
				if at, ok := ageTest(info, c); ok && originIsCall(info, p, j, at.T, execKey("lastUpdate")) {
					isStale = true
				}
			}
			if !isStale {
				continue
			}
			aged, removed, kept := false, false, false
			for x := j + 1; x < len(p.Ev) && p.Ev[x].Kind != EvRange; x++ {
				a := p.Ev[x]
				if a.Kind != EvAssign || len(a.Lhs) != len(a.Rhs) {
					continue
				}
				for k, l := range a.Lhs {
					if _, m := FieldPath(info, l, "execute.recoverData", "agedOut"); m {
						aged = true
					}
					if ie, ok := ast.Unparen(l).(*ast.IndexExpr); ok {
						if _, m := FieldPath(info, ie.X, "execute.recoverData", "plans"); m && ValueKey(info, a.Rhs[k]) == "nil" {
							removed = true
						}
					}
					// the partition form: the plan is appended to the local list that becomes the list to resume
					if lo, isLocal := ObjOf(info, l).(*types.Var); isLocal && !lo.IsField() {
						if c, isCall := ast.Unparen(a.Rhs[k]).(*ast.CallExpr); isCall {
							if id, ok := c.Fun.(*ast.Ident); ok && id.Name == "append" && len(c.Args) >= 2 && ObjOf(info, c.Args[0]) == lo {
								if sl, ok := lo.Type().Underlying().(*types.Slice); ok && ShortType(sl.Elem()) == "workflow.Plan" {
									kept = true
								}
							}
						}
					}
				}
			}
			// an element found nil on this segment is no plan at all: whatever happens to it is not judged
			nilElem := false
			for x := j + 1; x < len(p.Ev) && p.Ev[x].Kind != EvRange; x++ {
				if b := p.Ev[x]; b.Kind == EvBranch && b.Cond != nil {
					for _, l := range EventLiterals(info, b) {
						if l.Val == "nil" && l.Eq {
							if tv, ok := info.Types[l.X]; ok && ShortType(tv.Type) == "workflow.Plan" {
								nilElem = true
							}
						}
					}
				}
			}
			if nilElem {
				continue
			}
			recs = append(recs, staleRec{e.Taken, aged, removed, kept})
		}
	}
	partition := false
	for _, rc := range recs {
		if rc.kept {
			partition = true
		}
	}
	for _, rc := range recs {
		if rc.stale {
			nStale++
			gone := rc.removed || (partition && !rc.kept)
			if (!rc.aged || !gone) && bad == "" {
				bad = "a stale plan is recorded as aged out=" + boolStr(rc.aged) + " and removed from the list to resume=" + boolStr(gone) + ": it must be both, or it would be closed as Failed and then executed again"
			}
		} else {
			nLive++
			if (rc.aged || rc.removed || (partition && !rc.kept)) && bad == "" {
				bad = "a live plan is treated as aged out (aged=" + boolStr(rc.aged) + ", dropped from the list to resume=" + boolStr(rc.removed || (partition && !rc.kept)) + ")"
			}
		}
	}
	if nStale == 0 || nLive == 0 {
		r.Unresolved(rule, "filterPlans staleness branch")
		return
	}
	// compaction: plans rebuilt from the non-nil entries and stored back
	compacted := false
	ast.Inspect(fn.Decl.Body, func(n ast.Node) bool {
		if as, ok := n.(*ast.AssignStmt); ok && len(as.Lhs) == 1 && len(as.Rhs) == 1 {
			if _, m := FieldPath(info, as.Lhs[0], "execute.recoverData", "plans"); m {
				if _, isIdent := ast.Unparen(as.Rhs[0]).(*ast.Ident); isIdent {
					compacted = true
				}
			}
		}
		return true
	})
	if !compacted && bad == "" {
		bad = "filterPlans does not store the compacted list back into recoverData.plans"
	}
	r.Check(rule, "filterPlans:aged-out-removed-from-resume-list", fn.Decl.Pos(), bad == "", "%s", orOK(bad, "stale ⇒ appended to agedOut and removed; live ⇒ kept"))
}

// ---------------------------------------------------------------------------
// C12

func rulesC12(r *Run) {
	r.Kind("R1", "K3")
	ruleStartExclusion(r, "R1")
	ruleWaiterRelease(r, "R1")
	ruleJobSubmittedDetached(r, "R1")
	ruleRejectedStartNoWrite(r, "R1")
	r.Expect("R1", 4)

	r.Kind("R2", "K5+K2")
	ruleValidateStartState(r, "R2")
	ruleOptionWiring(r, "R2")
	r.Expect("R2", 11)

	r.Kind("R3", "K4")
	ruleNoPanicSites(r, "R3")
	ruleCloseOfLookup(r, "R3")
	r.Expect("R3", 2)

	r.Kind("R4", "K10")
	ruleNilParams(r, "R4")
	ruleWalkSkipsNilChildren(r, "R4")
	r.Expect("R4", 4)

	r.Kind("R5", "K5")
	rulePositiveArgs(r, "R5")
	r.Expect("R5", 2)

	r.Kind("R6", "K6")
	if fn := r.fnByKey("R6", "coercion.Workstream.Status"); fn != nil {
		ruleYieldDiscipline(r, "R6", fn, nil)
	}
	r.Expect("R6", 2)

	// R7: the contradiction rule over everything the five API calls can reach
	r.Kind("R7", "K10")
	ruleNilContradiction(r, "R7", "", "internal/execute", "internal/execute/sm", "internal/execute/sm/actions", "workflow", "workflow/utils/walk", "workflow/storage/sqlite", "plugins/registry", "plugins", "workflow/context")
	ruleIndexPastEnd(r, "R7", "", "internal/execute", "internal/execute/sm", "internal/execute/sm/actions", "workflow", "workflow/utils/walk", "workflow/storage/sqlite", "plugins/registry", "plugins", "workflow/context")
	r.Expect("R7", 10)
}

// ruleStartExclusion: a lock (or insert-if-absent) makes Read+validate+register atomic per plan.
func ruleStartExclusion(r *Run, rule string) {
	fn := r.fnByKey(rule, execKey("Plans.Start"))
	if fn == nil {
		return
	}
	fl, paths, ok := r.flowPaths(rule, fn)
	if !ok {
		return
	}
	info := fl.Info
	isMutexOp := func(e Event, op string) bool {
		if e.Kind != EvCall {
			return false
		}
		k := CalleeKey(e)
		return k == "sync.Mutex."+op || k == "sync.RWMutex."+op
	}
	bad := ""
	n := 0
	for i := range paths {
		p := &paths[i]
		for j, e := range p.Ev {
			if !IsCall(e, execKey("Plans.runPlan")) {
				continue
			}
			n++
			// (a) a mutex locked before the read and not released before runPlan
			li, ri, ui, gi := -1, -1, -1, -1
			for x := 0; x < j; x++ {
				a := p.Ev[x]
				if isMutexOp(a, "Lock") && li < 0 {
					li = x
				}
				if isMutexOp(a, "Unlock") && !a.Deferred {
					ui = x
				}
				if k := CalleeKey(a); a.Kind == EvCall && strings.HasPrefix(k, "workflow/storage.") && strings.HasSuffix(k, ".Read") && ri < 0 {
					ri = x
				}
				if a.Kind == EvCall {
					if sel, ok := ast.Unparen(a.Call.Fun).(*ast.SelectorExpr); ok && (sel.Sel.Name == "Get" || sel.Sel.Name == "CompareAndSwap" || sel.Sel.Name == "SetIfAbsent" || sel.Sel.Name == "LoadOrStore") {
						if _, m := FieldPath(info, sel.X, "execute.Plans", "waiters"); m {
							u := UseOfResult(fl, p, x)
							if u.Verdict == "false" || u.Verdict == "true" {
								gi = x
							}
						}
					}
				}
			}
			locked := li >= 0 && (ri < 0 || li < ri) && ui < li
			if !(locked && gi > li) && bad == "" {
				switch {
				case li < 0:
					bad = "nothing makes Read + validateStartState + waiter registration atomic: two concurrent Start calls for the same plan both read NotStarted, both pass validation and both launch the plan (the second launch also overwrites the first waiter, and the first finisher's deferred close then closes a nil channel)"
				case !locked:
					bad = "the lock does not cover the stored-plan read up to the launch"
				default:
					bad = "the lock is held but Start does not test whether the plan is already registered (waiters lookup branched on): between registration and the first status write the stored plan still reads NotStarted, so a second Start would pass validation"
				}
			}
		}
	}
	if n == 0 {
		r.Unresolved(rule, "Plans.Start calls runPlan")
		return
	}
	r.Check(rule, "Plans.Start:check-then-act-exclusion", fn.Decl.Pos(), bad == "", "%s", orOK(bad, "lock held across registered-check, Read, validation and launch"))
}

func ruleValidateStartState(r *Run, rule string) {
	fn := r.fnByKey(rule, execKey("Plans.validateStartState"))
	if fn == nil {
		return
	}
	fl, paths, ok := r.flowPaths(rule, fn)
	if !ok {
		return
	}
	info := fl.Info
	// The situations validateStartState must reject, whatever the shape of the tests (if ladder, tagless
	// switch, helper predicates): assume the situation and require every accepting path to be impossible.
	isMaxSubmit := fieldMatcher(info, "execute.Plans", "maxSubmit")
	isSubmitTime := fieldMatcher(info, "workflow.Plan", "SubmitTime")
	atom := func(e ast.Expr) (string, bool, bool) {
		e = ast.Unparen(e)
		if be, ok := e.(*ast.BinaryExpr); ok && isMaxSubmit(ast.Unparen(be.X)) {
			if v, isC := ConstInt(info, be.Y); isC && v == 0 {
				switch be.Op {
				case token.EQL, token.LEQ:
					return "maxSubmit-zero", false, true
				case token.NEQ, token.GTR:
					return "maxSubmit-zero", true, true
				}
			}
		}
		if recv, args, ok := timeMethod(info, e, "IsZero"); ok && len(args) == 0 && isSubmitTime(ast.Unparen(recv)) {
			return "submit-time-zero", false, true
		}
		if at, ok := ageTest(info, e); ok && isSubmitTime(ast.Unparen(at.T)) && isMaxSubmit(ast.Unparen(at.D)) {
			return "submit-time-stale", !at.Older, true
		}
		return "", false, false
	}
	for _, name := range []string{"maxSubmit-zero", "submit-time-zero", "submit-time-stale"} {
		bad := ""
		nAccept, nReject := 0, 0
		for i := range paths {
			p := &paths[i]
			if p.Exit != ExitReturn {
				continue
			}
			var ret *Event
			for j := range p.Ev {
				if p.Ev[j].Kind == EvReturn && !p.Ev[j].Deferred {
					ret = &p.Ev[j]
				}
			}
			if ret == nil {
				continue
			}
			isNil, _ := ReturnsNilLast(info, *ret)
			refuted := PathRefuted(fl, p, -1, map[string]bool{name: true}, atom)
			if isNil {
				nAccept++
				if !refuted && bad == "" {
					bad = "validateStartState accepts a plan on a path that is possible in the situation " + name + " (exit guard " + ExitGuardKey(fl, p) + ")"
				}
			} else if !refuted {
				nReject++
			}
		}
		if nAccept == 0 {
			r.Unresolved(rule, "validateStartState accepting path")
			return
		}
		if nReject == 0 && bad == "" {
			bad = "validateStartState has no rejecting path for " + name
		}
		r.Check(rule, "validateStartState:"+name, fn.Decl.Pos(), bad == "", "%s", orOK(bad, "rejects on "+name))
	}
	// validators: all four registered, and run over every walked item with error returned
	av := r.fnByKey(rule, execKey("Plans.addValidators"))
	if av != nil {
		got := map[string]bool{}
		ast.Inspect(av.Decl.Body, func(n ast.Node) bool {
			if e, ok := n.(ast.Expr); ok {
				if v := ValueKey(av.Pkg.TypesInfo, e); strings.HasPrefix(v, "method:"+pkgExec+".Plans.validate") {
					got[strings.TrimPrefix(v, "method:"+pkgExec+".Plans.")] = true
				}
			}
			return true
		})
		var missing []string
		for _, w := range []string{"validateID", "validateState", "validatePlan", "validateAction"} {
			if !got[w] {
				missing = append(missing, w)
			}
		}
		n, b, _ := propagationDyn(fl, paths)
		r.Check(rule, "validators:all-registered-and-run", av.Decl.Pos(), len(missing) == 0 && n > 0 && b == "", "validators missing from addValidators: %v; validator loop: %s", missing, orOK(b, "every validator's error is returned"))
	}
	// validateState
	vs := r.fnByKey(rule, execKey("Plans.validateState"))
	if vs != nil {
		vfl, vp, ok := r.flowPaths(rule, vs)
		if ok {
			bad := ""
			for i := range vp {
				p := &vp[i]
				if p.Exit != ExitReturn {
					continue
				}
				var ret *Event
				for j := range p.Ev {
					if p.Ev[j].Kind == EvReturn {
						ret = &p.Ev[j]
					}
				}
				if ret == nil {
					continue
				}
				if isNil, _ := ReturnsNilLast(vfl.Info, *ret); !isNil {
					continue
				}
				need := map[string]bool{"status": false, "start": false, "end": false, "nil": false}
				for _, e := range p.Ev {
					if e.Kind != EvBranch || e.Cond == nil || e.Taken {
						continue
					}
					s := ExprStr(e.Cond)
					switch {
					case strings.HasSuffix(s, ".Status != workflow.NotStarted"):
						need["status"] = true
					case strings.HasSuffix(s, ".Start.IsZero()") && strings.HasPrefix(s, "!"):
						need["start"] = true
					case strings.HasSuffix(s, ".End.IsZero()") && strings.HasPrefix(s, "!"):
						need["end"] = true
					case strings.HasSuffix(s, "== nil"):
						need["nil"] = true
					}
				}
				for k, v := range need {
					if !v && bad == "" {
						bad = "validateState accepts an object on a path that did not pass the " + k + " test: a plan that already ran (or is running) could be started again"
					}
				}
			}
			r.Check(rule, "validateState:pristine-required", vs.Decl.Pos(), bad == "", "%s", orOK(bad, "NotStarted, zero Start, zero End, non-nil State"))
		}
	}
}

// propagationDyn: calls through a function-typed range variable (validators) must propagate their error.
func propagationDyn(fl *Flow, paths []Path) (n int, bad string, pos token.Pos) {
	paths = append(append([]Path{}, paths...), fl.Truncated()...)
	for i := range paths {
		p := &paths[i]
		for ci, e := range p.Ev {
			if e.Kind != EvCall || e.Deferred {
				continue
			}
			// a dynamic call of a value of type validator, however the value is spelled (v, vs[i], p.f)
			tv, ok := fl.Info.Types[e.Call.Fun]
			if !ok || ShortType(tv.Type) != "execute.validator" {
				continue
			}
			n++
			u := UseOfResult(fl, p, ci)
			switch u.Verdict {
			case "nil", "returned":
			case "nonnil":
				if lost := LostAfterNonNil(fl, p, u); lost != "" && bad == "" {
					bad, pos = "a failing validator does not reject the plan: "+lost, e.Pos
				}
			default:
				if bad == "" && p.Exit == ExitReturn {
					bad, pos = "a validator's result is "+u.Kind+"/"+u.Verdict, e.Pos
				}
			}
		}
	}
	return
}

// ruleNoPanicSites: every non-returning call in the API and engine packages is an enumerated
// storage-write-failure site (or the backoff-policy / unknown-kind defensive sites).
func ruleNoPanicSites(r *Run, rule string) {
	pkgs := map[string]bool{"": true, pkgExec: true, pkgSM: true, pkgActions: true, "workflow/utils/walk": true}
	bad := ""
	var bpos token.Pos
	sites, exemptSites := 0, 0
	for _, fn := range r.P.sortedFuncs() {
		if !pkgs[relPkg(fn.Pkg.PkgPath)] || fn.Decl.Body == nil {
			continue
		}
		flows := []*Flow{r.P.FlowOf(fn)}
		ast.Inspect(fn.Decl.Body, func(n ast.Node) bool {
			if l, ok := n.(*ast.FuncLit); ok {
				if f := r.P.FlowOfLit(l); f != nil {
					flows = append(flows, f)
				}
			}
			return true
		})
		for _, fl := range flows {
			paths, ok := fl.Paths()
			if !ok {
				continue
			}
			r.Paths += len(paths)
			seen := map[token.Pos]bool{}
			for i := range paths {
				p := &paths[i]
				if p.Exit != ExitNoReturn {
					continue
				}
				last := p.Ev[len(p.Ev)-1]
				if seen[last.Pos] {
					continue
				}
				seen[last.Pos] = true
				if last.Depth > 0 {
					continue // written in a callee whose body was spliced in: judged where it is written
				}
				sites++
				// exempt: the most recent tested result is a storage updater / exponential.New, non-nil branch
				exempt := false
				for ci := len(p.Ev) - 1; ci >= 0 && !exempt; ci-- {
					e := p.Ev[ci]
					if e.Kind != EvCall {
						continue
					}
					_, isU := isUpdaterCall(e)
					if isU || IsCall(e, "github.com/gostdlib/base/retry/exponential.New") {
						if UseOfResult(fl, p, ci).Verdict == "nonnil" {
							exempt = true
						}
					}
				}
				// the default case of a switch over the object kind: an unknown kind cannot be produced by walk.Plan
				// (C04-R1 checks that every kind has its case), wherever that switch is written
				for ci := len(p.Ev) - 2; ci >= 0 && !exempt; ci-- {
					e := p.Ev[ci]
					if e.Kind != EvBranch {
						continue // (the arguments of the fatal call)
					}
					if e.Tag != nil && !e.Taken {
						if tv, ok := fl.Info.Types[e.Tag]; ok && ShortType(tv.Type) == "workflow.ObjectType" {
							exempt = true
						}
					}
					break
				}
				if exempt {
					exemptSites++
					continue
				}
				if bad == "" {
					bad, bpos = "a call that never returns ("+ExprStr(last.Call.Fun)+") is reachable in "+fn.Key+" outside the enumerated storage-write-failure sites: an API call could take the process down", last.Pos
				}
			}
		}
	}
	r.Evals += sites
	r.Check(rule, "api+engine:no-unlisted-panic-or-exit", bpos, bad == "", "%s", orOK(bad, itoa(sites)+" non-returning sites, all of them failing-write/defensive sites"))
}

// ruleCloseOfLookup: close(x) where x comes from a map lookup whose ok result is ignored.
func ruleCloseOfLookup(r *Run, rule string) {
	bad := ""
	var bpos token.Pos
	n := 0
	for _, fn := range r.P.sortedFuncs() {
		rel := relPkg(fn.Pkg.PkgPath)
		if (rel != pkgExec && rel != "") || fn.Decl.Body == nil {
			continue
		}
		info := fn.Pkg.TypesInfo
		ast.Inspect(fn.Decl.Body, func(nd ast.Node) bool {
			c, ok := nd.(*ast.CallExpr)
			if !ok {
				return true
			}
			id, ok := c.Fun.(*ast.Ident)
			if !ok || id.Name != "close" || len(c.Args) != 1 {
				return true
			}
			if _, isB := info.Uses[id].(*types.Builtin); !isB {
				return true
			}
			n++
			obj := ObjOf(info, c.Args[0])
			if obj == nil {
				return true
			}
			// definition `x, _ := m.Get(k)`
			ast.Inspect(fn.Decl.Body, func(m ast.Node) bool {
				as, ok := m.(*ast.AssignStmt)
				if !ok || len(as.Lhs) != 2 || len(as.Rhs) != 1 || ObjOf(info, as.Lhs[0]) != obj {
					return true
				}
				if id2, ok := as.Lhs[1].(*ast.Ident); ok && id2.Name == "_" {
					// is the close guarded by a nil test of x?
					guarded := false
					parents := parentMap(fn.Decl.Body)
					for p := parents[ast.Node(c)]; p != nil; p = parents[p] {
						if is, ok := p.(*ast.IfStmt); ok {
							if x, op, ok := IsNilCompare(info, is.Cond); ok && ObjOf(info, x) == obj && op == token.NEQ && containsNode(is.Body, c) {
								guarded = true
							}
						}
					}
					if !guarded && bad == "" {
						bad, bpos = "close("+ExprStr(c.Args[0])+") where "+ExprStr(c.Args[0])+" comes from "+ExprStr(as.Rhs[0])+" with the found-flag discarded: if the entry is missing (second execution of the same plan deleted it) this is `close of nil channel` and the process panics", c.Pos()
					}
				}
				return true
			})
			return true
		})
	}
	if n == 0 {
		r.Unresolved(rule, "close() in the API layer")
		return
	}
	r.Check(rule, "api:no-close-of-unchecked-lookup", bpos, bad == "", "%s", orOK(bad, "every closed channel comes from a checked lookup or a local"))
}

// ruleNilParams: exported Workstream methods test pointer parameters for nil before first use.
func ruleNilParams(r *Run, rule string) {
	pkg := r.P.Pkgs[""]
	if pkg == nil {
		r.Unresolved(rule, "root package")
		return
	}
	n := 0
	for _, fn := range r.P.sortedFuncs() {
		if fn.Pkg != pkg || fn.Decl.Recv == nil || !fn.Decl.Name.IsExported() || fn.Decl.Body == nil {
			continue
		}
		if !strings.HasPrefix(fn.Key, "coercion.Workstream.") {
			continue
		}
		info := pkg.TypesInfo
		for _, f := range fn.Decl.Type.Params.List {
			for _, nm := range f.Names {
				obj := info.ObjectOf(nm)
				if _, isPtr := obj.Type().(*types.Pointer); !isPtr {
					continue
				}
				n++
				fl, paths, ok := r.flowPaths(rule, fn)
				if !ok {
					continue
				}
				bad := ""
				var bpos token.Pos = fn.Decl.Pos()
				for i := range paths {
					p := &paths[i]
					checked := false
					for _, e := range p.Ev {
						if e.Kind == EvBranch && e.Cond != nil {
							if x, op, ok := IsNilCompare(info, e.Cond); ok && ObjOf(info, x) == obj && (op == token.NEQ) == e.Taken {
								checked = true
							}
						}
						if checked {
							break
						}
						used := false
						switch e.Kind {
						case EvCall:
							for _, a := range e.Call.Args {
								if mentionsObj(info, a, obj) {
									used = true
								}
							}
						case EvAssign:
							for _, x := range e.Rhs {
								if mentionsObj(info, x, obj) {
									used = true
								}
							}
						}
						if used && bad == "" {
							bad, bpos = "parameter "+nm.Name+" of "+fn.Key+" is used ("+ExprStr(e.Call.Fun)+") before any nil test: a nil argument panics inside the walk instead of being rejected", e.Pos
						}
						if used {
							break
						}
					}
				}
				_ = fl
				r.Check(rule, "nil-param:"+ShortFn(fn.Key)+":"+nm.Name, bpos, bad == "", "%s", orOK(bad, "nil-tested before first use"))
			}
		}
	}
	if n == 0 {
		r.Unresolved(rule, "exported Workstream method with a pointer parameter")
	}
}

// rulePositiveArgs: time.NewTicker(d) only with d established positive on every path.
func rulePositiveArgs(r *Run, rule string) {
	n := 0
	for _, fn := range r.P.sortedFuncs() {
		rel := relPkg(fn.Pkg.PkgPath)
		if rel != "" && rel != pkgExec && rel != pkgSM && rel != pkgActions {
			continue
		}
		if fn.Decl.Body == nil {
			continue
		}
		flows := []*Flow{r.P.FlowOf(fn)}
		ast.Inspect(fn.Decl.Body, func(nd ast.Node) bool {
			if l, ok := nd.(*ast.FuncLit); ok {
				if f := r.P.FlowOfLit(l); f != nil {
					flows = append(flows, f)
				}
			}
			return true
		})
		for _, fl := range flows {
			paths, ok := fl.Paths()
			if !ok {
				continue
			}
			type res struct {
				bad string
				pos token.Pos
			}
			sites := map[token.Pos]*res{}
			for i := range paths {
				p := &paths[i]
				for j, e := range p.Ev {
					if !IsCall(e, "time.NewTicker") || len(e.Call.Args) != 1 {
						continue
					}
					s := sites[e.Pos]
					if s == nil {
						s = &res{pos: e.Pos}
						sites[e.Pos] = s
					}
					arg := stripConv(fl.Info, e.Call.Args[0])
					if v, isC := ConstInt(fl.Info, arg); isC {
						if v <= 0 && s.bad == "" {
							s.bad = "time.NewTicker with a non-positive constant"
						}
						continue
					}
					obj := ObjOf(fl.Info, arg)
					established := false
					if obj != nil {
						for x := 0; x < j; x++ {
							b := p.Ev[x]
							switch b.Kind {
							case EvBranch:
								if b.Cond == nil {
									continue
								}
								for _, c := range FindCmps(fl.Info, b.Cond, func(ex ast.Expr) bool { return ObjOf(fl.Info, ex) == obj }, nil) {
									if ast.Unparen(b.Cond) != c.Expr {
										continue
									}
									if m, ok := c.ImpliesGE(fl.Info, b.Taken); ok && m >= 1 {
										established = true
									}
								}
							case EvAssign:
								for k, l := range b.Lhs {
									if ObjOf(fl.Info, l) == obj && len(b.Rhs) == len(b.Lhs) {
										tv, ok := fl.Info.Types[b.Rhs[k]]
										established = false
										if ok && tv.Value != nil {
											if v, isC := ConstInt(fl.Info, b.Rhs[k]); isC && v >= 1 {
												established = true
											}
										}
									}
								}
							}
						}
					}
					if !established && s.bad == "" {
						s.bad = "time.NewTicker(" + ExprStr(e.Call.Args[0]) + ") is reached on a path that did not establish the argument positive (time.NewTicker panics for d <= 0; runContChecks clamps its delay for exactly that reason)"
					}
				}
			}
			for _, s := range sites {
				n++
				r.Check(rule, "positive-arg:NewTicker:"+ShortFn(strings.Split(fl.Name, "$")[0]), s.pos, s.bad == "", "%s", orOK(s.bad, "argument established > 0 on every path"))
			}
		}
	}
	if n == 0 {
		r.Unresolved(rule, "time.NewTicker call")
	}
}

// ruleRecoveryDeferred (C10-R4): deferred checks of a scope that was entered still run
// when the scope's failure was already durable at the crash.
// (a) Recovery sends a plan that fixPlan found Failed/Stopped straight to End; unless the path
//     established that the plan's DeferredChecks completed, they never run (and a deferred
//     check action caught Running stays Running).
// (b) a block state that comes before BlockDeferredChecks and writes the block with a
//     terminal status opens the same window for the block's DeferredChecks, because
//     fixBlock leaves non-Running blocks untouched.
func ruleRecoveryDeferred(r *Run, rule string, m *Machine) {
	fn := r.fnByKey(rule, smKey("Recovery"))
	if fn != nil {
		fl, paths, ok := r.flowPaths(rule, fn)
		if ok {
			bad := ""
			n := 0
			for i := range paths {
				p := &paths[i]
				if p.Exit != ExitReturn || nextOf(fl, p) != "End" {
					continue
				}
				st := ""
				deferredDone := false
				for _, e := range p.Ev {
					if e.Kind == EvBranch && e.Taken {
						if v, ok := statusTest(fl.Info, e, "workflow.Plan"); ok {
							st = v
						}
						if e.Cond != nil && mentionsField(fl.Info, e.Cond, "DeferredChecks") {
							deferredDone = true
						}
					}
				}
				if st == "workflow.Failed" || st == "workflow.Stopped" {
					n++
					if !deferredDone && bad == "" {
						bad = "a recovered plan that fixPlan finds " + strings.TrimPrefix(st, "workflow.") + " is sent straight to End: its DeferredChecks (and those of its failed block) never run after the crash although the plan was entered, and a deferred-check action that was in flight stays Running"
					}
				}
			}
			if n > 0 {
				r.Check(rule, "Recovery:failed-plan-goes-to-End-without-deferred-checks", fn.Decl.Pos(), bad == "", "%s", orOK(bad, "deferred checks established complete before End"))
			} else {
				r.Unresolved(rule, "Recovery path to End for a Failed plan")
			}
		}
	}
	// (b)
	before := map[string]bool{}
	for st := range m.States {
		if st == "BlockDeferredChecks" || st == "BlockEnd" || st == "ExecuteBlock" {
			continue // ExecuteBlock: the block has not been entered yet (a cancelled entrance delay goes to the plan's deferred checks)
		}
		if m.reach(st, map[string]bool{"ExecuteBlock": true, "End": true, "PlanDeferredChecks": true})["BlockDeferredChecks"] {
			before[st] = true
		}
	}
	var names []string
	for st := range before {
		names = append(names, st)
	}
	sort.Strings(names)
	for _, st := range names {
		sf := m.States[st]
		if sf == nil {
			continue
		}
		fl, paths, ok := r.flowPaths(rule, sf)
		if !ok {
			continue
		}
		writes, terminal := false, ""
		var pos token.Pos = sf.Decl.Pos()
		for i := range paths {
			p := &paths[i]
			if p.Exit != ExitReturn {
				continue
			}
			last := ""
			si := -1
			for j, e := range p.Ev {
				if v, ok := StatusAssign(fl.Info, e, "workflow.Block"); ok && !e.Deferred && (v == "workflow.Failed" || v == "workflow.Completed" || v == "workflow.Stopped") {
					last, si = v, j
					pos = e.Pos
				}
			}
			if si < 0 {
				continue
			}
			for j := si + 1; j < len(p.Ev); j++ {
				if name, ok := isUpdaterCall(p.Ev[j]); ok && name == "UpdateBlock" {
					writes = true
					terminal = last
				}
			}
		}
		if terminal == "" {
			r.Pass(rule, "early-terminal-write:"+st, sf.Decl.Pos(), "%s never writes the block with a terminal status", st)
			continue
		}
		r.Check(rule, "early-terminal-write:"+st, pos, !writes, "%s stores the block as %s before the block's DeferredChecks have run: after a crash in that window fixBlock leaves the (no longer Running) block untouched and recovery ends the plan without ever running the block's deferred checks", st, strings.TrimPrefix(terminal, "workflow."))
	}
}

// originIsCall: on this path the expression is (or was assigned from) a call of the function with this key.
func originIsCall(info *types.Info, p *Path, idx int, e ast.Expr, key string) bool {
	c, ok := ast.Unparen(OriginOnPath(info, p, idx, e)).(*ast.CallExpr)
	if !ok {
		return false
	}
	f, ok := calleeFunc(info, c)
	return ok && FuncKey(f) == key
}

// ruleWaiterRelease: the waiter of a plan is released (closed, removed from the map) only by the
// goroutine that ran the plan — in runPlan or in helpers only runPlan reaches. Anything else (a rejected
// Start "cleaning up", a Stop, a Wait) releasing it lets Wait return while the plan executes and lets a
// further Start slip past the already-running test.
func ruleWaiterRelease(r *Run, rule string) {
	g := r.P.CallGraph()
	n := 0
	for _, fn := range r.P.sortedFuncs() {
		if relPkg(fn.Pkg.PkgPath) != pkgExec || fn.Decl.Body == nil {
			continue
		}
		info := fn.Pkg.TypesInfo
		isWaiters := func(e ast.Expr) bool {
			_, m := FieldPath(info, e, "execute.Plans", "waiters")
			return m
		}
		fromWaiters := map[types.Object]bool{} // locals obtained from waiters.Get
		var sites []token.Pos
		var what []string
		ast.Inspect(fn.Decl.Body, func(x ast.Node) bool {
			switch c := x.(type) {
			case *ast.AssignStmt:
				if len(c.Rhs) == 1 {
					if call, ok := ast.Unparen(c.Rhs[0]).(*ast.CallExpr); ok {
						if sel, ok := ast.Unparen(call.Fun).(*ast.SelectorExpr); ok && sel.Sel.Name == "Get" && isWaiters(sel.X) && len(c.Lhs) >= 1 {
							if o := ObjOf(info, c.Lhs[0]); o != nil {
								fromWaiters[o] = true
							}
						}
					}
				}
			case *ast.CallExpr:
				if sel, ok := ast.Unparen(c.Fun).(*ast.SelectorExpr); ok && isWaiters(sel.X) && (sel.Sel.Name == "Del" || sel.Sel.Name == "Delete" || sel.Sel.Name == "Clear") {
					sites = append(sites, c.Pos())
					what = append(what, "removes a waiter")
				}
				if id, ok := c.Fun.(*ast.Ident); ok && id.Name == "close" && len(c.Args) == 1 {
					if o := ObjOf(info, c.Args[0]); o != nil && fromWaiters[o] {
						sites = append(sites, c.Pos())
						what = append(what, "closes a waiter")
					}
				}
			}
			return true
		})
		if len(sites) == 0 {
			continue
		}
		n++
		ok := g.OnlyCalledFrom(fn.Key, func(k string) bool { return k == execKey("Plans.runPlan") })
		r.Check(rule, "waiter-released-only-by-runner:"+ShortFn(fn.Key), sites[0], ok,
			"%s %s but is reachable from other callers than runPlan (%v): only the goroutine that ran the plan may release its waiter, after the state machine returned — otherwise Wait returns while the plan executes and a further Start is accepted", ShortFn(fn.Key), what[0], callerNames(g, fn.Key))
	}
	if n == 0 {
		r.Unresolved(rule, "a function releasing Plans.waiters")
	}
}

func callerNames(g *CallGraph, key string) []string {
	set := map[string]bool{}
	for _, e := range g.Callers(key) {
		set[ShortFn(e.Caller)] = true
	}
	return sortedKeys(set)
}

// ruleRecoveryPersistsFixes (D29): fixPlan repairs the recovered plan only in memory. On the path that
// resumes execution, Recovery must make those repairs durable for every kind of object before it goes on —
// a sub-object repaired there is never written again once its parent has been stored as finished, so a second
// crash would leave it Running for good — and it must write children before their parents, or a crash during
// these very writes leaves a finished parent over an unwritten child.
func ruleRecoveryPersistsFixes(r *Run, rule string) {
	fn := r.fnByKey(rule, smKey("Recovery"))
	if fn == nil {
		return
	}
	fl, paths, ok := r.flowPaths(rule, fn)
	if !ok {
		return
	}
	all := allUpdaters
	updatesReached := func(key string) map[string]bool { return updatesReachedFrom(r, key) }
	bad := ""
	var bpos = fn.Decl.Pos()
	n := 0
	writers := map[string]bool{}
	for i := range paths {
		p := &paths[i]
		if p.Exit != ExitReturn {
			continue
		}
		next := nextOf(fl, p)
		if next == "Start" || next == "End" || next == "" || next == "nil" {
			continue
		}
		n++
		got := map[string]bool{}
		for _, e := range p.Ev {
			if name, isU := isUpdaterCall(e); isU {
				got[name] = true
			}
			if e.Kind == EvCall && !e.Inlined {
				if k := CalleeKey(e); strings.HasPrefix(k, pkgSM+".") {
					ur := updatesReached(k)
					for name := range ur {
						got[name] = true
					}
					if len(ur) == len(all) {
						writers[k] = true
					}
				}
			}
		}
		var missing []string
		for _, name := range all {
			if !got[name] {
				missing = append(missing, name)
			}
		}
		if len(missing) > 0 && bad == "" {
			bad, bpos = "the path of Recovery that resumes execution (successor "+next+") does not write every kind of object fixPlan may have repaired (missing: "+strings.Join(missing, ", ")+"): a sub-object repaired only in memory is never written again once its parent is stored as finished, and a second crash leaves it Running in a plan that ends Completed", fn.Decl.Pos()
		}
	}
	if n == 0 {
		r.Unresolved(rule, "Recovery path that resumes execution")
		return
	}
	r.Check(rule, "Recovery:repairs-made-durable", bpos, bad == "", "%s", orOK(bad, "every object kind is written on the resuming path"))
	// children before parents: the function doing these writes must not write in walk order (parents first)
	badOrder := ""
	var opos = fn.Decl.Pos()
	for k := range writers {
		if msg, pos := writerOrderProblem(r, k); msg != "" && badOrder == "" {
			badOrder = msg
			if pos.IsValid() {
				opos = pos
			}
		}
	}
	if len(writers) == 0 {
		badOrder = "Recovery has no write-back of the repairs at all on its resuming path, so they are not written children first either"
	}
	r.Check(rule, "Recovery:repairs-written-children-first", opos, badOrder == "", "%s", orOK(badOrder, "written from the end of the walk backwards"))
}

var allUpdaters = []string{"UpdatePlan", "UpdateBlock", "UpdateChecks", "UpdateSequence", "UpdateAction"}

// updatesReachedFrom: the storage Update* methods reachable from an sm function through sm functions.
func updatesReachedFrom(r *Run, key string) map[string]bool {
	g := r.P.CallGraph()
	out := map[string]bool{}
	for k := range g.Reach([]string{key}, func(e CallEdge) bool {
		return strings.HasPrefix(e.Callee, pkgSM+".") || strings.HasPrefix(e.Callee, pkgExec+".") || strings.HasPrefix(e.Callee, "workflow/storage.")
	}) {
		if strings.HasPrefix(k, "workflow/storage.") {
			out[k[strings.LastIndex(k, ".")+1:]] = true
		}
	}
	return out
}

// ruleAgedOutWritesChildrenFirst (D39): closing a stale plan at start-up stores the plan after everything it contains,
// for the same reason End does (D33): a plan stored as Failed is never looked at again.
func ruleAgedOutWritesChildrenFirst(r *Run, rule string) {
	fn := r.fnByKey(rule, pkgExec+".recover.agedOut")
	if fn == nil {
		return
	}
	info := fn.Pkg.TypesInfo
	writer := ""
	ast.Inspect(fn.Decl.Body, func(x ast.Node) bool {
		if c, ok := x.(*ast.CallExpr); ok && writer == "" {
			if f, ok := calleeFunc(info, c); ok {
				if k := FuncKey(f); r.P.Funcs[k] != nil && len(updatesReachedFrom(r, k)) == len(allUpdaters) {
					writer = k
				}
			}
		}
		return writer == ""
	})
	if writer == "" {
		// the writes may be written in agedOut itself
		if len(updatesReachedFrom(r, fn.Key)) == len(allUpdaters) {
			writer = fn.Key
		} else {
			r.Unresolved(rule, "agedOut calls a function that writes every kind of object")
			return
		}
	}
	msg, pos := writerOrderProblem(r, writer)
	if !pos.IsValid() {
		pos = fn.Decl.Pos()
	}
	r.Check(rule, "agedOut:closed-plan-written-children-first", pos, msg == "", "%s", orOK(msg, "the plan is written after everything it contains"))
	// and nothing the walk yields is left out of the close-out (the rule of C04-R1 for End's writer, round-4 seed C04-7):
	// runningToFailed can change any object, a Running one left unwritten stays Running under a plan nobody looks at again
	if w := r.P.Funcs[writer]; w != nil && w.Decl.Body != nil {
		if wfl, wpaths, ok := r.flowPaths(rule, w); ok {
			walksPlan := false
			ast.Inspect(w.Decl.Body, func(n ast.Node) bool {
				if rs, ok := n.(*ast.RangeStmt); ok {
					if c, ok := ast.Unparen(rs.X).(*ast.CallExpr); ok {
						if f, ok := calleeFunc(w.Pkg.TypesInfo, c); ok && FuncKey(f) == "workflow/utils/walk.Plan" {
							walksPlan = true
						}
					}
				}
				return true
			})
			if walksPlan {
				ruleWalkLoopHandsOn(r, rule, "agedOut", writer, w, wfl, wpaths)
			}
		}
	}
}

// writerOrderProblem: does the function that writes a whole plan write an object before what it contains?
// walk.Plan yields parents first, so a writer is accepted when its writes happen in a descending loop (over the
// collected walk) and not in a loop that ranges over walk.Plan directly.
func writerOrderProblem(r *Run, k string) (string, token.Pos) {
	w := r.P.Funcs[k]
	if w == nil || w.Decl.Body == nil {
		return "", 0
	}
	var opos token.Pos = w.Decl.Pos()
	info := w.Pkg.TypesInfo
	descending, walkOrder := false, false
	writesIn := func(body ast.Node) bool {
		found := false
		ast.Inspect(body, func(x ast.Node) bool {
			if c, ok := x.(*ast.CallExpr); ok {
				if f, ok := calleeFunc(info, c); ok {
					fk := FuncKey(f)
					if strings.HasPrefix(fk, "workflow/storage.") && strings.Contains(fk, ".Update") {
						found = true
					} else if (strings.HasPrefix(fk, pkgSM+".") || strings.HasPrefix(fk, pkgExec+".")) && len(updatesReachedFrom(r, fk)) > 0 {
						found = true
					}
				}
			}
			return !found
		})
		return found
	}
	ast.Inspect(w.Decl.Body, func(x ast.Node) bool {
		switch l := x.(type) {
		case *ast.RangeStmt:
			if c, ok := ast.Unparen(l.X).(*ast.CallExpr); ok {
				if f, ok := calleeFunc(info, c); ok && FuncKey(f) == "workflow/utils/walk.Plan" && writesIn(l.Body) {
					walkOrder = true
					opos = l.Pos()
				}
			}
		case *ast.ForStmt:
			if post, ok := l.Post.(*ast.IncDecStmt); ok && post.Tok == token.DEC && writesIn(l.Body) {
				descending = true
			}
		}
		return true
	})
	if walkOrder || !descending {
		return ShortFn(k) + " writes the objects in walk order (an object before what it contains): a crash during these writes can leave a parent stored as finished over a child that was not written yet, which the next recovery then never looks at again — children must be written first", opos
	}
	return "", 0
}

// endWriterKey: the sm function End calls (in place or deferred) that reaches every storage updater.
func endWriterKey(r *Run) string {
	fn := r.P.Funcs[smKey("End")]
	if fn == nil || fn.Decl.Body == nil {
		return ""
	}
	info := fn.Pkg.TypesInfo
	key := ""
	ast.Inspect(fn.Decl.Body, func(x ast.Node) bool {
		if c, ok := x.(*ast.CallExpr); ok && key == "" {
			if f, ok := calleeFunc(info, c); ok {
				if k := FuncKey(f); strings.HasPrefix(k, pkgSM+".") && len(updatesReachedFrom(r, k)) == len(allUpdaters) {
					key = k
				}
			}
		}
		return key == ""
	})
	return key
}

// ruleEndWritesChildrenFirst (D33): the final state is stored children first, the plan last. A plan stored as ended
// is never looked at again, so everything it contains must be durable before it — on the way from Recovery to End
// what fixPlan repaired exists only in memory until these writes.
func ruleEndWritesChildrenFirst(r *Run, rule string) {
	fn := r.fnByKey(rule, smKey("End"))
	if fn == nil {
		return
	}
	k := endWriterKey(r)
	if k == "" {
		r.Unresolved(rule, "End calls a function that writes every kind of object")
		return
	}
	msg, pos := writerOrderProblem(r, k)
	if !pos.IsValid() {
		pos = fn.Decl.Pos()
	}
	r.Check(rule, "End:final-state-written-children-first", pos, msg == "", "%s", orOK(msg, "the plan is written after everything it contains"))
}

// ruleNoVaultCallInStreamLoop (round-3 seed C10-6): the engine never calls the vault while it is still consuming a
// result stream of the same vault. The sqlite vault has one connection, which the producer of a Search/List stream
// holds until the stream is drained; a Read from inside the consuming loop waits for that connection while the
// producer waits for the consumer: with more results than the stream buffers, start-up recovery hangs for ever.
// One obligation per loop that ranges over a chan storage.Stream[…] in the engine and API packages; reported is a
// call in the loop body (directly or through repository functions) that reaches a method of package storage.
func ruleNoVaultCallInStreamLoop(r *Run, rule string) {
	g := r.P.CallGraph()
	n := 0
	for _, fn := range r.P.sortedFuncs() {
		rel := relPkg(fn.Pkg.PkgPath)
		if fn.Decl.Body == nil || (rel != "" && rel != pkgExec) {
			continue
		}
		if strings.HasSuffix(r.P.Fset.Position(fn.Decl.Pos()).Filename, "_test.go") {
			continue
		}
		info := fn.Pkg.TypesInfo
		ast.Inspect(fn.Decl.Body, func(x ast.Node) bool {
			rs, ok := x.(*ast.RangeStmt)
			if !ok {
				return true
			}
			tv, ok := info.Types[rs.X]
			if !ok {
				return true
			}
			ch, isCh := tv.Type.Underlying().(*types.Chan)
			if !isCh || !strings.HasPrefix(ShortType(ch.Elem()), "storage.Stream") {
				return true
			}
			n++
			r.Funcs[fn.Key] = true
			bad := ""
			var bpos token.Pos = rs.Pos()
			ast.Inspect(rs.Body, func(y ast.Node) bool {
				c, ok := y.(*ast.CallExpr)
				if !ok || bad != "" {
					return true
				}
				f, ok := calleeFunc(info, c)
				if !ok {
					return true
				}
				k := FuncKey(f)
				if strings.HasPrefix(k, "workflow/storage.") {
					bad, bpos = "the loop that consumes a vault result stream calls "+ShortFn(k)+" before the stream is drained", c.Pos()
					return true
				}
				if r.P.Funcs[k] != nil {
					reach := g.Reach([]string{k}, func(e CallEdge) bool { return r.P.Funcs[e.Callee] != nil || strings.HasPrefix(e.Callee, "workflow/storage.") })
					for t := range reach {
						if strings.HasPrefix(t, "workflow/storage.") && bad == "" {
							bad, bpos = "the loop that consumes a vault result stream calls "+ShortFn(k)+", which reaches "+ShortFn(t)+", before the stream is drained", c.Pos()
						}
					}
				}
				return true
			})
			if bad != "" {
				bad += ": the producer of the stream holds the vault's only connection (sqlite) until the stream is drained, so with more results than the stream buffers both sides wait for each other — recovery at start-up never finishes"
			}
			r.Check(rule, "stream-drained-before-vault-call:"+ShortFn(fn.Key), bpos, bad == "", "%s", orOK(bad, "nothing in the loop body reaches the vault"))
			return true
		})
	}
	if n == 0 {
		r.Unresolved(rule, "a loop consuming a vault result stream")
	}
}

// ruleRunContextDetached (round-3 seed C01-6): the context a plan executes under is detached from the context of the
// caller of Start. Check groups are launched with Group.Go(req.Ctx, …), which runs nothing when that context is
// already done while Wait still answers nil, so under a caller-cancellable context a cancelled (or timed-out) Start
// context makes every later check group "pass" without having run, and the sequences — launched under
// WithoutCancel — still execute. Decided on runPlan: the Ctx of the statemachine.Request it builds is, through
// local definitions, context.WithCancel(context.WithoutCancel(…)) (or WithoutCancel directly).
func ruleRunContextDetached(r *Run, rule string) {
	fn := r.fnByKey(rule, pkgExec+".Plans.runPlan")
	if fn == nil {
		return
	}
	info := fn.Pkg.TypesInfo
	var ctxExpr ast.Expr
	ast.Inspect(fn.Decl.Body, func(x ast.Node) bool {
		cl, ok := x.(*ast.CompositeLit)
		if !ok || ctxExpr != nil {
			return true
		}
		if tv, ok := info.Types[cl]; !ok || !isRequestType(tv.Type) {
			return true
		}
		if v := keyValue(cl, "Ctx"); v != nil {
			ctxExpr = v
		}
		return true
	})
	if ctxExpr == nil {
		// the body of the submitted literal may have been moved into a helper: find the literal there and map its Ctx
		// back to the argument runPlan passes
		ast.Inspect(fn.Decl.Body, func(x ast.Node) bool {
			c, ok := x.(*ast.CallExpr)
			if !ok || ctxExpr != nil {
				return true
			}
			f, ok := calleeFunc(info, c)
			if !ok {
				return true
			}
			h := r.P.Funcs[FuncKey(f)]
			if h == nil || h.Decl.Body == nil || h.Pkg != fn.Pkg {
				return true
			}
			var inner ast.Expr
			ast.Inspect(h.Decl.Body, func(y ast.Node) bool {
				cl, ok := y.(*ast.CompositeLit)
				if ok && inner == nil {
					if tv, ok := info.Types[cl]; ok && isRequestType(tv.Type) {
						inner = keyValue(cl, "Ctx")
					}
				}
				return inner == nil
			})
			if inner == nil {
				return true
			}
			po := ObjOf(info, inner)
			idx := 0
			for _, fld := range h.Decl.Type.Params.List {
				for _, nm := range fld.Names {
					if info.ObjectOf(nm) == po && po != nil && idx < len(c.Args) {
						ctxExpr = c.Args[idx]
					}
					idx++
				}
			}
			return true
		})
	}
	if ctxExpr == nil {
		r.Unresolved(rule, "runPlan builds a statemachine.Request with a Ctx")
		return
	}
	isCtxCall := func(e ast.Expr, name string) (*ast.CallExpr, bool) {
		c, ok := ast.Unparen(e).(*ast.CallExpr)
		if !ok {
			return nil, false
		}
		f, ok := calleeFunc(info, c)
		if !ok {
			return nil, false
		}
		k := FuncKey(f)
		return c, strings.HasSuffix(k, "context."+name)
	}
	// resolve through single local definitions
	def := func(e ast.Expr) ast.Expr {
		for d := 0; d < 4; d++ {
			o := ObjOf(info, e)
			if o == nil {
				return e
			}
			var rhs ast.Expr
			cnt := 0
			ast.Inspect(fn.Decl.Body, func(x ast.Node) bool {
				as, ok := x.(*ast.AssignStmt)
				if !ok {
					return true
				}
				for i, l := range as.Lhs {
					if ObjOf(info, l) == o {
						cnt++
						if len(as.Rhs) == len(as.Lhs) {
							rhs = as.Rhs[i]
						} else if len(as.Rhs) == 1 {
							rhs = as.Rhs[0]
						}
					}
				}
				return true
			})
			if cnt != 1 || rhs == nil {
				return e
			}
			e = rhs
		}
		return e
	}
	e := def(ctxExpr)
	detached := false
	if c, ok := isCtxCall(e, "WithCancel"); ok && len(c.Args) == 1 {
		e = def(c.Args[0])
	}
	if _, ok := isCtxCall(e, "WithoutCancel"); ok {
		detached = true
	}
	r.Check(rule, "runPlan:plan-context-detached-from-caller", ctxExpr.Pos(), detached,
		"the plan executes under %s, which is not derived from context.WithoutCancel: when the caller of Start cancels its context (or it times out) the check groups launched with Group.Go(req.Ctx, …) silently do not run and count as passed, while the sequences still execute", ExprStr(def(ctxExpr)))
}

// ruleJobSubmittedDetached (D41): the job that runs the plan — and that alone releases the waiter registered just before —
// is submitted to the pool under a context the caller of Start cannot cancel. Pool.Submit drops a job whose context is
// already done: Start had returned nil, the plan never ran, Wait blocked for ever and every later Start was refused as
// "already running".
func ruleJobSubmittedDetached(r *Run, rule string) {
	fn := r.fnByKey(rule, pkgExec+".Plans.runPlan")
	if fn == nil {
		return
	}
	info := fn.Pkg.TypesInfo
	var ctxParam types.Object
	if ps := fn.Decl.Type.Params.List; len(ps) > 0 && len(ps[0].Names) > 0 {
		ctxParam = info.ObjectOf(ps[0].Names[0])
	}
	n := 0
	bad := ""
	var bpos token.Pos = fn.Decl.Pos()
	ast.Inspect(fn.Decl.Body, func(x ast.Node) bool {
		c, ok := x.(*ast.CallExpr)
		if !ok || len(c.Args) < 2 {
			return true
		}
		f, ok := calleeFunc(info, c)
		if !ok {
			return true
		}
		k := FuncKey(f)
		if !strings.HasSuffix(k, "Pool.Submit") && k != keyGroupGo {
			return true
		}
		if LitArg(c) == nil {
			return true
		}
		n++
		if ObjOf(info, c.Args[0]) == ctxParam && ctxParam != nil && bad == "" {
			bad, bpos = "runPlan submits the job that runs the plan under its caller's context ("+ExprStr(c.Args[0])+"): a context that is done by then makes the pool drop the job, the waiter registered before is never released", c.Pos()
		}
		return true
	})
	if n == 0 {
		r.Unresolved(rule, "runPlan submits a literal to the pool")
		return
	}
	r.Check(rule, "runPlan:job-submitted-under-detached-context", bpos, bad == "", "%s", orOK(bad, "the job is submitted under a context derived in runPlan"))
}

// ruleRejectedStartNoWrite (round-3 seed C12-5): a Start that is refused changes nothing in the store. On every path of
// Plans.Start that returns an error, no call reaches a mutating method of the vault (Update*, Create, Delete) — the
// seed "closed out" a plan whose submission was too old on the refusing path, and the age test comes before the
// state validators, so the refused second Start of a long finished plan rewrote its stored result as Failed.
func ruleRejectedStartNoWrite(r *Run, rule string) {
	fn := r.fnByKey(rule, execKey("Plans.Start"))
	if fn == nil {
		return
	}
	fl, paths, ok := r.flowPaths(rule, fn)
	if !ok {
		return
	}
	paths = OwnOnly(paths)
	info := fl.Info
	g := r.P.CallGraph()
	mutates := func(k string) string {
		isMut := func(c string) bool {
			if !strings.HasPrefix(c, "workflow/storage.") {
				return false
			}
			name := c[strings.LastIndex(c, ".")+1:]
			return strings.HasPrefix(name, "Update") || name == "Create" || name == "Delete"
		}
		if isMut(k) {
			return k
		}
		if r.P.Funcs[k] == nil {
			return ""
		}
		for t := range g.Reach([]string{k}, func(e CallEdge) bool {
			return (r.P.Funcs[e.Callee] != nil && !e.Async && strings.HasPrefix(e.Callee, "internal/")) || strings.HasPrefix(e.Callee, "workflow/storage.")
		}) {
			if isMut(t) {
				return t
			}
		}
		return ""
	}
	bad := ""
	var bpos token.Pos = fn.Decl.Pos()
	n := 0
	for i := range paths {
		p := &paths[i]
		if p.Exit != ExitReturn {
			continue
		}
		var ret *Event
		for j := range p.Ev {
			if p.Ev[j].Kind == EvReturn && !p.Ev[j].Deferred {
				ret = &p.Ev[j]
			}
		}
		if ret == nil || len(ret.Rhs) != 1 || ValueKey(info, ret.Rhs[0]) == "nil" {
			continue
		}
		n++
		for _, e := range p.Ev {
			if e.Kind != EvCall || e.Deferred {
				continue
			}
			if m := mutates(CalleeKey(e)); m != "" && bad == "" {
				bad, bpos = "a path of Start that returns an error (exit guard "+ExitGuardKey(fl, p)+") calls "+ShortFn(CalleeKey(e))+", which reaches "+ShortFn(m)+": a refused Start rewrites the stored plan", e.Pos
			}
		}
	}
	if n == 0 {
		r.Unresolved(rule, "Plans.Start path returning an error")
		return
	}
	r.Check(rule, "Plans.Start:refused-start-writes-nothing", bpos, bad == "", "%s", orOK(bad, "no mutating vault call on any refusing path"))
}
