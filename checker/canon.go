package main

import (
	"go/ast"
	"go/constant"
	"go/token"
	"go/types"
	"os"
)

// The canonicaliser rewrites (a private copy of) every function body of the repository into the
// idioms the rules are written against, preserving behaviour:
//
//	L  the canonical ascending index loop        for i := 0; i < len(X); i++ { v := X[i]; … }
//	   becomes                                    for i, v := range X { … }
//	S  an if / else-if chain of equality tests of one pure expression against constants becomes a switch
//	N  negations are pushed inward (De Morgan, !(a == b) → a != b) and a constant operand of a
//	   comparison is moved to the right (7 != v → v != 7)
//	A  a local variable defined once from a pure expression and never written again is replaced, where
//	   it is read, by that expression ("origin" substitution: status := a.State.Status; if status == X)
//
// Positions are those of the original source. The original declarations stay untouched in
// pkg.Syntax (the SSA view of the thorough tier is built from them).
var canonOff = os.Getenv("COERLINT_NOCANON") != ""

// aliasVars are the variables replaced by their defining expression. The replacement has "value at
// definition time" semantics, which is what a rule asks about; the path facts may use it only while
// nothing the expression reads has been written since the definition (facts.go, staleAlias).
var aliasVars = map[types.Object]bool{}

// pureGetters are methods without arguments that only read their receiver.
var pureGetters = map[string]bool{
	"reflect.Value.Kind": true, "reflect.Type.Kind": true, "reflect.Value.Elem": true, "reflect.Type.Elem": true, "reflect.Value.Type": true, "reflect.Value.Len": true, "reflect.Value.NumField": true,
	"reflect.Type.NumField": true, "reflect.Value.IsNil": true, "reflect.Value.IsValid": true, "reflect.Value.CanSet": true,
	"github.com/google/uuid.UUID.Version": true,
	"workflow.Plan.Type":                  true, "workflow.Block.Type": true, "workflow.Checks.Type": true, "workflow.Sequence.Type": true, "workflow.Action.Type": true,
	"workflow.Object.Type": true, "workflow.iface.Type": true,
}

type canon struct {
	p      *Prog
	fn     *Func
	info   *types.Info
	tables map[*types.Var]*ast.CompositeLit // locals defined once from an array/slice literal and never written
}

func (p *Prog) canonicaliseAll() {
	if canonOff {
		return
	}
	for _, fn := range p.sortedFuncs() {
		if fn.Decl.Body == nil {
			continue
		}
		c := &canon{p: p, fn: fn, info: fn.Pkg.TypesInfo}
		c.run()
	}
}

func (c *canon) run() {
	fn := c.fn
	orig := fn.Decl
	// 1. private copy
	cl := &cloner{info: c.info}
	body := cl.Block(orig.Body)
	c.findTables(body)
	// 2. structural rewrites, in place on the copy
	body.List = c.stmts(body.List)
	// 3. alias substitution (second copy)
	if al := c.aliases(body); len(al) > 0 {
		cl2 := &cloner{info: c.info, subst: al, markAlias: true}
		body = cl2.Block(body)
	}
	nd := *orig
	nd.Body = body
	fn.Decl = &nd
}

// findTables: locals defined exactly once from an array/slice composite literal, never assigned, indexed-assigned or address-taken.
func (c *canon) findTables(body *ast.BlockStmt) {
	c.tables = map[*types.Var]*ast.CompositeLit{}
	defs := map[*types.Var]int{}
	disq := map[types.Object]bool{}
	root := func(e ast.Expr) types.Object {
		e = ast.Unparen(e)
		for {
			switch x := e.(type) {
			case *ast.IndexExpr:
				e = ast.Unparen(x.X)
				continue
			case *ast.SelectorExpr:
				e = ast.Unparen(x.X)
				continue
			}
			break
		}
		return ObjOf(c.info, e)
	}
	ast.Inspect(body, func(n ast.Node) bool {
		switch x := n.(type) {
		case *ast.AssignStmt:
			for i, l := range x.Lhs {
				if id, ok := l.(*ast.Ident); ok && x.Tok == token.DEFINE && len(x.Rhs) == len(x.Lhs) {
					if v, ok := c.info.Defs[id].(*types.Var); ok {
						defs[v]++
						if cl, ok := ast.Unparen(x.Rhs[i]).(*ast.CompositeLit); ok {
							c.tables[v] = cl
						}
						continue
					}
				}
				if o := root(l); o != nil {
					disq[o] = true
				}
			}
		case *ast.UnaryExpr:
			if x.Op == token.AND {
				if o := root(x.X); o != nil {
					disq[o] = true
				}
			}
		case *ast.SliceExpr:
			if o := root(x.X); o != nil {
				disq[o] = true // a slice of the array aliases it
			}
		}
		return true
	})
	for v := range c.tables {
		if defs[v] != 1 || disq[v] {
			delete(c.tables, v)
		}
	}
}

// ---------------------------------------------------------------------------------------------
// statements

func (c *canon) stmts(list []ast.Stmt) []ast.Stmt {
	list = c.splitBoolReturns(list)
	list = c.assertGuardToTypeSwitch(list)
	for i, s := range list {
		list[i] = c.stmt(s)
		if f, ok := list[i].(*ast.ForStmt); ok {
			var prev ast.Stmt
			if i > 0 {
				prev = list[i-1]
			}
			if rs := c.recvLoopToRange(f, prev); rs != nil {
				list[i] = rs
			}
		}
	}
	return list
}

// unrollLiteralRange: a loop over a short table written as a literal is the sequence of its iterations:
//
//	for _, c := range [N]T{{a1, b1}, …} { …c.f… }   →   { …a1… } { …a2… } …
//
// (the table may be a local defined once from such a literal). Only when the body neither breaks nor
// continues the loop and does not write the loop variables.
func (c *canon) unrollLiteralRange(rs *ast.RangeStmt) ast.Stmt {
	if rs.Tok != token.DEFINE && rs.Key != nil {
		return nil
	}
	var lit *ast.CompositeLit
	switch x := ast.Unparen(rs.X).(type) {
	case *ast.CompositeLit:
		lit = x
	case *ast.Ident:
		if v, ok := c.info.Uses[x].(*types.Var); ok && c.tables != nil {
			lit = c.tables[v]
		}
	}
	if lit == nil || len(lit.Elts) == 0 || len(lit.Elts) > 8 {
		return nil
	}
	if tv, ok := c.info.Types[lit]; !ok {
		return nil
	} else {
		switch tv.Type.Underlying().(type) {
		case *types.Array, *types.Slice:
		default:
			return nil
		}
	}
	for _, el := range lit.Elts {
		if _, keyed := el.(*ast.KeyValueExpr); keyed {
			return nil
		}
	}
	// no break/continue of this loop, no goto/labels, loop variables not written
	var keyObj, valObj types.Object
	if id, ok := rs.Key.(*ast.Ident); ok && id.Name != "_" {
		keyObj = c.info.Defs[id]
	}
	if id, ok := rs.Value.(*ast.Ident); ok && id.Name != "_" {
		valObj = c.info.Defs[id]
	}
	bad := false
	var walk func(n ast.Node, inner bool)
	walk = func(n ast.Node, inner bool) {
		ast.Inspect(n, func(m ast.Node) bool {
			if bad || m == nil {
				return false
			}
			switch x := m.(type) {
			case *ast.FuncLit:
				return false
			case *ast.ForStmt, *ast.RangeStmt, *ast.SwitchStmt, *ast.TypeSwitchStmt, *ast.SelectStmt:
				if m != n {
					walk(m, true)
					return false
				}
			case *ast.BranchStmt:
				if x.Label != nil || x.Tok == token.GOTO || x.Tok == token.CONTINUE && !innerLoop(n, inner) || (x.Tok == token.BREAK && !inner) {
					bad = true
				}
			case *ast.LabeledStmt:
				bad = true
			case *ast.AssignStmt:
				for _, l := range x.Lhs {
					if o := ObjOf(c.info, l); o != nil && (o == keyObj || o == valObj) {
						bad = true
					}
				}
			case *ast.UnaryExpr:
				if x.Op == token.AND {
					if o := ObjOf(c.info, x.X); o != nil && (o == keyObj || o == valObj) {
						bad = true
					}
				}
			}
			return true
		})
	}
	walk(rs.Body, false)
	if bad {
		return nil
	}
	out := &ast.BlockStmt{Lbrace: rs.For, Rbrace: rs.End()}
	for k, el := range lit.Elts {
		el := el
		cl := &cloner{info: c.info, subst: map[types.Object]ast.Expr{}}
		if valObj != nil {
			cl.subst[valObj] = el
			if ecl, ok := ast.Unparen(el).(*ast.CompositeLit); ok {
				if tv, ok := c.info.Types[ecl]; ok {
					if st, ok := tv.Type.Underlying().(*types.Struct); ok {
						cl.fieldSubst = map[types.Object]func(string) ast.Expr{valObj: func(field string) ast.Expr {
							for i, f := range ecl.Elts {
								if kv, ok := f.(*ast.KeyValueExpr); ok {
									if id, ok := kv.Key.(*ast.Ident); ok && id.Name == field {
										return kv.Value
									}
									continue
								}
								if i < st.NumFields() && st.Field(i).Name() == field {
									return f
								}
							}
							return nil
						}}
					}
				}
			}
		}
		if keyObj != nil {
			idx := &ast.BasicLit{ValuePos: rs.For, Kind: token.INT, Value: itoa(k)}
			c.info.Types[idx] = types.TypeAndValue{Type: types.Typ[types.Int], Value: constant.MakeInt64(int64(k))}
			cl.subst[keyObj] = idx
		}
		out.List = append(out.List, cl.Block(rs.Body))
	}
	return out
}

// innerLoop: a continue inside a nested construct binds to a nested loop only if that construct is a loop.
func innerLoop(n ast.Node, inner bool) bool {
	if !inner {
		return false
	}
	switch n.(type) {
	case *ast.ForStmt, *ast.RangeStmt:
		return true
	}
	return false
}

// assertGuardToTypeSwitch: `v, ok := E.(T); if !ok { B; return }; REST` becomes
// `switch v := E.(type) { case T: REST; default: B; return }` (ok must not be read in B or REST).
func (c *canon) assertGuardToTypeSwitch(list []ast.Stmt) []ast.Stmt {
	for i := 0; i+1 < len(list); i++ {
		as, ok := list[i].(*ast.AssignStmt)
		if !ok || as.Tok != token.DEFINE || len(as.Lhs) != 2 || len(as.Rhs) != 1 {
			continue
		}
		ta, ok := ast.Unparen(as.Rhs[0]).(*ast.TypeAssertExpr)
		if !ok || ta.Type == nil {
			continue
		}
		vid, ok1 := as.Lhs[0].(*ast.Ident)
		okid, ok2 := as.Lhs[1].(*ast.Ident)
		if !ok1 || !ok2 || vid.Name == "_" || c.info.Defs[okid] == nil || c.info.Defs[vid] == nil {
			continue
		}
		is, ok := list[i+1].(*ast.IfStmt)
		if !ok || is.Init != nil || is.Else != nil || len(is.Body.List) == 0 {
			continue
		}
		u, ok := ast.Unparen(is.Cond).(*ast.UnaryExpr)
		if !ok || u.Op != token.NOT || ObjOf(c.info, u.X) != c.info.Defs[okid] {
			continue
		}
		// the guard must leave: its last statement is a return or a panic
		switch last := is.Body.List[len(is.Body.List)-1].(type) {
		case *ast.ReturnStmt:
		case *ast.ExprStmt:
			call, isCall := last.X.(*ast.CallExpr)
			if !isCall || !NoReturnCall(c.info, call) {
				continue
			}
		default:
			continue
		}
		rest := list[i+2:]
		used := false
		for _, st := range append(append([]ast.Stmt{}, rest...), is.Body) {
			ast.Inspect(st, func(n ast.Node) bool {
				if id, ok := n.(*ast.Ident); ok && c.info.Uses[id] == c.info.Defs[okid] {
					used = true
				}
				return !used
			})
		}
		if used || hasFreeBreak(rest) || hasFreeBreak(is.Body.List) {
			continue
		}
		assign := &ast.AssignStmt{Lhs: []ast.Expr{vid}, TokPos: as.TokPos, Tok: token.DEFINE,
			Rhs: []ast.Expr{&ast.TypeAssertExpr{X: ta.X, Lparen: ta.Lparen, Type: nil, Rparen: ta.Rparen}}}
		cc := &ast.CaseClause{Case: as.Pos(), List: []ast.Expr{ta.Type}, Colon: as.Pos(), Body: rest}
		c.info.Implicits[cc] = c.info.Defs[vid]
		def := &ast.CaseClause{Case: is.If, Colon: is.If, Body: is.Body.List}
		ts := &ast.TypeSwitchStmt{Switch: as.Pos(), Assign: assign, Body: &ast.BlockStmt{Lbrace: as.Pos(), List: []ast.Stmt{cc, def}, Rbrace: is.End()}}
		return append(append([]ast.Stmt{}, list[:i]...), ts)
	}
	return list
}

// splitBoolReturns: `return <comparison or &&/||/! expression>` (one bool result) becomes
// `if <expr> { return true }; return false` — the spelled-out form the tidy-up replaces.
func (c *canon) splitBoolReturns(list []ast.Stmt) []ast.Stmt {
	var out []ast.Stmt
	changed := false
	for _, s := range list {
		rs, ok := s.(*ast.ReturnStmt)
		if !ok || len(rs.Results) != 1 {
			out = append(out, s)
			continue
		}
		e := ast.Unparen(rs.Results[0])
		isOp := false
		switch x := e.(type) {
		case *ast.BinaryExpr:
			switch x.Op {
			case token.LAND, token.LOR, token.EQL, token.NEQ, token.LSS, token.GTR, token.LEQ, token.GEQ:
				isOp = true
			}
		case *ast.UnaryExpr:
			isOp = x.Op == token.NOT
		}
		tv, has := c.info.Types[e]
		if !isOp || !has || tv.Value != nil {
			out = append(out, s)
			continue
		}
		if b, isBasic := tv.Type.Underlying().(*types.Basic); !isBasic || b.Info()&types.IsBoolean == 0 {
			out = append(out, s)
			continue
		}
		mk := func(name string) *ast.Ident {
			id := &ast.Ident{NamePos: rs.Return, Name: name}
			c.info.Uses[id] = types.Universe.Lookup(name)
			c.info.Types[id] = types.TypeAndValue{Type: tv.Type, Value: constantBool(name == "true")}
			return id
		}
		ifs := &ast.IfStmt{If: rs.Return, Cond: e, Body: &ast.BlockStmt{Lbrace: rs.Return, List: []ast.Stmt{&ast.ReturnStmt{Return: rs.Return, Results: []ast.Expr{mk("true")}}}, Rbrace: rs.End()}}
		out = append(out, ifs, &ast.ReturnStmt{Return: rs.Return, Results: []ast.Expr{mk("false")}})
		changed = true
	}
	if !changed {
		return list
	}
	return out
}

func constantBool(b bool) constant.Value { return constant.MakeBool(b) }

// recvLoopToRange: the spelled-out forms of `for v := range ch`:
//
//	for { v, ok := <-ch; if !ok { break }; BODY }             → for v := range ch { BODY }
//	for open := true; open; { v, open = <-ch }                → for v = range ch { }
//	var v T; for open := true; open && v == nil; { v, open = <-ch }   → for v = range ch { if v != nil { break } }
//
// (the last one only directly after the declaration that makes v the zero value).
func (c *canon) recvLoopToRange(f *ast.ForStmt, prev ast.Stmt) ast.Stmt {
	recvOf := func(s ast.Stmt) (v ast.Expr, okID *ast.Ident, ch ast.Expr, tok token.Token, good bool) {
		as, isAs := s.(*ast.AssignStmt)
		if !isAs || len(as.Lhs) != 2 || len(as.Rhs) != 1 {
			return
		}
		u, isU := ast.Unparen(as.Rhs[0]).(*ast.UnaryExpr)
		if !isU || u.Op != token.ARROW || !c.pureExpr(u.X) {
			return
		}
		id, isID := as.Lhs[1].(*ast.Ident)
		if !isID {
			return
		}
		return as.Lhs[0], id, u.X, as.Tok, true
	}
	isBlank := func(e ast.Expr) bool { id, ok := e.(*ast.Ident); return ok && id.Name == "_" }
	// form 1
	if f.Init == nil && f.Cond == nil && f.Post == nil && len(f.Body.List) >= 2 {
		v, okID, ch, tok, good := recvOf(f.Body.List[0])
		if good && tok == token.DEFINE {
			if is, isIf := f.Body.List[1].(*ast.IfStmt); isIf && is.Init == nil && is.Else == nil && len(is.Body.List) == 1 {
				if bs, isBr := is.Body.List[0].(*ast.BranchStmt); isBr && bs.Tok == token.BREAK && bs.Label == nil {
					if u, isU := ast.Unparen(is.Cond).(*ast.UnaryExpr); isU && u.Op == token.NOT && ObjOf(c.info, u.X) == c.info.Defs[okID] && c.info.Defs[okID] != nil {
						rest := f.Body.List[2:]
						used := false
						for _, st := range rest {
							ast.Inspect(st, func(n ast.Node) bool {
								if id, ok := n.(*ast.Ident); ok && c.info.Uses[id] == c.info.Defs[okID] {
									used = true
								}
								return !used
							})
						}
						if !used {
							rs := &ast.RangeStmt{For: f.For, TokPos: f.For, Tok: token.DEFINE, Range: f.For, X: ch, Body: &ast.BlockStmt{Lbrace: f.Body.Lbrace, List: rest, Rbrace: f.Body.Rbrace}}
							if !isBlank(v) {
								rs.Key = v
							} else {
								rs.Tok = token.ILLEGAL
							}
							return rs
						}
					}
				}
			}
		}
	}
	// forms 2 and 3
	init, isInit := f.Init.(*ast.AssignStmt)
	if !isInit || init.Tok != token.DEFINE || len(init.Lhs) != 1 || len(init.Rhs) != 1 || f.Post != nil || len(f.Body.List) != 1 {
		return nil
	}
	openID, isID := init.Lhs[0].(*ast.Ident)
	if !isID || ValueKey(c.info, init.Rhs[0]) != "true" {
		return nil
	}
	openObj := c.info.Defs[openID]
	v, okID, ch, tok, good := recvOf(f.Body.List[0])
	if !good || tok != token.ASSIGN || openObj == nil || c.info.Uses[okID] != openObj {
		return nil
	}
	cond := ast.Unparen(f.Cond)
	if ObjOf(c.info, cond) == openObj {
		rs := &ast.RangeStmt{For: f.For, TokPos: f.For, Tok: token.ASSIGN, Range: f.For, X: ch, Body: &ast.BlockStmt{Lbrace: f.Body.Lbrace, Rbrace: f.Body.Rbrace}}
		if !isBlank(v) {
			rs.Key = v
		} else {
			rs.Tok = token.ILLEGAL
		}
		return rs
	}
	be, isBin := cond.(*ast.BinaryExpr)
	if !isBin || be.Op != token.LAND || isBlank(v) {
		return nil
	}
	var other ast.Expr
	switch {
	case ObjOf(c.info, be.X) == openObj:
		other = be.Y
	case ObjOf(c.info, be.Y) == openObj:
		other = be.X
	default:
		return nil
	}
	x, op, isNil := IsNilCompare(c.info, other)
	vobj := ObjOf(c.info, v)
	if !isNil || op != token.EQL || vobj == nil || ObjOf(c.info, x) != vobj {
		return nil
	}
	// v must be the zero value when the loop starts: declared without a value right before it
	ds, isDecl := prev.(*ast.DeclStmt)
	if !isDecl {
		return nil
	}
	zero := false
	if gd, ok := ds.Decl.(*ast.GenDecl); ok && gd.Tok == token.VAR {
		for _, sp := range gd.Specs {
			if vs, ok := sp.(*ast.ValueSpec); ok && len(vs.Values) == 0 {
				for _, nm := range vs.Names {
					if c.info.Defs[nm] == vobj {
						zero = true
					}
				}
			}
		}
	}
	if !zero {
		return nil
	}
	neq := &ast.BinaryExpr{X: x, OpPos: other.Pos(), Op: token.NEQ, Y: ast.Unparen(other).(*ast.BinaryExpr).Y}
	if ValueKey(c.info, neq.Y) != "nil" {
		neq.Y = ast.Unparen(other).(*ast.BinaryExpr).X
	}
	c.reg(other, neq)
	brk := &ast.IfStmt{If: other.Pos(), Cond: neq, Body: &ast.BlockStmt{Lbrace: other.Pos(), List: []ast.Stmt{&ast.BranchStmt{TokPos: other.Pos(), Tok: token.BREAK}}, Rbrace: other.End()}}
	return &ast.RangeStmt{For: f.For, Key: v, TokPos: f.For, Tok: token.ASSIGN, Range: f.For, X: ch, Body: &ast.BlockStmt{Lbrace: f.Body.Lbrace, List: []ast.Stmt{brk}, Rbrace: f.Body.Rbrace}}
}

func (c *canon) block(b *ast.BlockStmt) {
	if b != nil {
		b.List = c.stmts(b.List)
	}
}

func (c *canon) stmt(s ast.Stmt) ast.Stmt {
	switch x := s.(type) {
	case *ast.BlockStmt:
		c.block(x)
	case *ast.LabeledStmt:
		x.Stmt = c.stmt(x.Stmt)
	case *ast.IfStmt:
		x.Cond = c.cond(x.Cond)
		c.block(x.Body)
		if x.Else != nil {
			x.Else = c.stmt(x.Else)
		}
		if sw := c.ifChainToSwitch(x); sw != nil {
			return sw
		}
		if ts := c.commaOkToTypeSwitch(x); ts != nil {
			return ts
		}
	case *ast.ForStmt:
		if x.Cond != nil {
			x.Cond = c.cond(x.Cond)
		}
		c.block(x.Body)
		if rs := c.indexLoopToRange(x); rs != nil {
			return rs
		}
	case *ast.RangeStmt:
		c.block(x.Body)
		if u := c.unrollLiteralRange(x); u != nil {
			return u
		}
	case *ast.SwitchStmt:
		c.block(x.Body)
		c.taglessToTagSwitch(x)
	case *ast.TypeSwitchStmt:
		c.block(x.Body)
	case *ast.SelectStmt:
		c.block(x.Body)
	case *ast.CaseClause:
		x.Body = c.stmts(x.Body)
	case *ast.CommClause:
		x.Body = c.stmts(x.Body)
	}
	// function literals inside expressions
	c.lits(s)
	return s
}

// lits canonicalises the bodies of the function literals that occur directly in the expressions of s.
func (c *canon) lits(s ast.Stmt) {
	visit := func(e ast.Node) {
		if e == nil {
			return
		}
		ast.Inspect(e, func(n ast.Node) bool {
			switch x := n.(type) {
			case *ast.FuncLit:
				c.block(x.Body)
				return false
			case *ast.BlockStmt:
				return false // nested statements are handled by stmt()
			}
			return true
		})
	}
	switch x := s.(type) {
	case *ast.ExprStmt:
		visit(x.X)
	case *ast.AssignStmt:
		for _, e := range x.Rhs {
			visit(e)
		}
		for _, e := range x.Lhs {
			visit(e)
		}
	case *ast.ReturnStmt:
		for _, e := range x.Results {
			visit(e)
		}
	case *ast.GoStmt:
		visit(x.Call)
	case *ast.DeferStmt:
		visit(x.Call)
	case *ast.SendStmt:
		visit(x.Value)
	case *ast.DeclStmt:
		visit(x.Decl)
	case *ast.IfStmt:
		if x.Init != nil {
			c.lits(x.Init)
		}
		visit(x.Cond)
	case *ast.SwitchStmt:
		if x.Init != nil {
			c.lits(x.Init)
		}
		if x.Tag != nil {
			visit(x.Tag)
		}
	case *ast.ForStmt:
		if x.Init != nil {
			c.lits(x.Init)
		}
	case *ast.RangeStmt:
		visit(x.X)
	}
}

// ---------------------------------------------------------------------------------------------
// N: conditions

func (c *canon) typeOf(e ast.Expr) types.TypeAndValue { return c.info.Types[e] }

func (c *canon) isConst(e ast.Expr) bool {
	if tv, ok := c.info.Types[e]; ok && tv.Value != nil {
		return true
	}
	if tv, ok := c.info.Types[e]; ok && tv.IsNil() {
		return true
	}
	return false
}

var cFlipOp = map[token.Token]token.Token{token.EQL: token.EQL, token.NEQ: token.NEQ, token.LSS: token.GTR, token.GTR: token.LSS, token.LEQ: token.GEQ, token.GEQ: token.LEQ}
var cNegOp = map[token.Token]token.Token{token.EQL: token.NEQ, token.NEQ: token.EQL, token.LSS: token.GEQ, token.GTR: token.LEQ, token.LEQ: token.GTR, token.GEQ: token.LSS}

func (c *canon) reg(old, new ast.Expr) ast.Expr {
	if tv, ok := c.info.Types[old]; ok {
		c.info.Types[new] = tv
	}
	return new
}

// cond returns the canonical form of a boolean expression.
func (c *canon) cond(e ast.Expr) ast.Expr {
	switch x := e.(type) {
	case *ast.ParenExpr:
		x.X = c.cond(x.X)
		return x
	case *ast.UnaryExpr:
		if x.Op != token.NOT {
			return e
		}
		inner := ast.Unparen(x.X)
		switch y := inner.(type) {
		case *ast.UnaryExpr:
			if y.Op == token.NOT { // !!a
				return c.cond(y.X)
			}
		case *ast.BinaryExpr:
			switch y.Op {
			case token.LAND, token.LOR:
				op := token.LOR
				if y.Op == token.LOR {
					op = token.LAND
				}
				l := c.cond(c.reg(y.X, &ast.UnaryExpr{OpPos: y.X.Pos(), Op: token.NOT, X: c.paren(y.X)}))
				r := c.cond(c.reg(y.Y, &ast.UnaryExpr{OpPos: y.Y.Pos(), Op: token.NOT, X: c.paren(y.Y)}))
				n := &ast.BinaryExpr{X: c.parenIf(l, op), OpPos: y.OpPos, Op: op, Y: c.parenIf(r, op)}
				return c.reg(x, n)
			case token.EQL, token.NEQ, token.LSS, token.GTR, token.LEQ, token.GEQ:
				if y.Op != token.EQL && y.Op != token.NEQ && !c.isInteger(y.X) {
					return e // !(a < b) is not a >= b for floats (NaN)
				}
				n := &ast.BinaryExpr{X: y.X, OpPos: y.OpPos, Op: cNegOp[y.Op], Y: y.Y}
				return c.cond(c.reg(x, n))
			}
		}
		return e
	case *ast.BinaryExpr:
		switch x.Op {
		case token.LAND, token.LOR:
			x.X = c.cond(x.X)
			x.Y = c.cond(x.Y)
			return x
		case token.EQL, token.NEQ, token.LSS, token.GTR, token.LEQ, token.GEQ:
			if c.isConst(x.X) && !c.isConst(x.Y) {
				n := &ast.BinaryExpr{X: x.Y, OpPos: x.OpPos, Op: cFlipOp[x.Op], Y: x.X}
				return c.reg(x, n)
			}
		}
	}
	return e
}

func (c *canon) isInteger(e ast.Expr) bool {
	tv, ok := c.info.Types[e]
	if !ok {
		return false
	}
	b, ok := tv.Type.Underlying().(*types.Basic)
	return ok && b.Info()&types.IsInteger != 0
}

func (c *canon) paren(e ast.Expr) ast.Expr {
	if needsParen(e) {
		return c.reg(e, &ast.ParenExpr{Lparen: e.Pos(), X: e, Rparen: e.End()})
	}
	return e
}

// parenIf parenthesises an || operand placed under &&.
func (c *canon) parenIf(e ast.Expr, parent token.Token) ast.Expr {
	if b, ok := e.(*ast.BinaryExpr); ok && parent == token.LAND && b.Op == token.LOR {
		return c.reg(e, &ast.ParenExpr{Lparen: e.Pos(), X: e, Rparen: e.End()})
	}
	return e
}

// ---------------------------------------------------------------------------------------------
// S: if-chains

// pureExpr: identifiers, field selections, len/cap, conversions, pure getters, operators, literals.
func (c *canon) pureExpr(e ast.Expr) bool {
	switch x := ast.Unparen(e).(type) {
	case *ast.Ident:
		switch c.info.ObjectOf(x).(type) {
		case *types.Var, *types.Const, *types.Nil:
			return true
		}
		return false
	case *ast.BasicLit:
		return true
	case *ast.SelectorExpr:
		if s := c.info.Selections[x]; s != nil {
			return s.Kind() == types.FieldVal && c.pureExpr(x.X)
		}
		switch c.info.Uses[x.Sel].(type) { // package-qualified
		case *types.Var, *types.Const:
			return true
		}
		return false
	case *ast.BinaryExpr:
		return c.pureExpr(x.X) && c.pureExpr(x.Y)
	case *ast.UnaryExpr:
		return (x.Op == token.NOT || x.Op == token.SUB) && c.pureExpr(x.X)
	case *ast.CallExpr:
		if tv, ok := c.info.Types[x.Fun]; ok && tv.IsType() && len(x.Args) == 1 {
			return c.pureExpr(x.Args[0])
		}
		if id, ok := x.Fun.(*ast.Ident); ok {
			if b, isB := c.info.Uses[id].(*types.Builtin); isB && (b.Name() == "len" || b.Name() == "cap") && len(x.Args) == 1 {
				return c.pureExpr(x.Args[0])
			}
		}
		if sel, ok := x.Fun.(*ast.SelectorExpr); ok && len(x.Args) == 0 {
			if f, ok := c.info.Uses[sel.Sel].(*types.Func); ok && pureGetters[FuncKey(f)] {
				return c.pureExpr(sel.X)
			}
		}
	}
	return false
}

// eqTests splits `T == A || T == B` into (T, [A B]).
func (c *canon) eqTests(e ast.Expr) (tag ast.Expr, vals []ast.Expr, ok bool) {
	e = ast.Unparen(e)
	be, isBin := e.(*ast.BinaryExpr)
	if !isBin {
		return nil, nil, false
	}
	switch be.Op {
	case token.LOR:
		t1, v1, ok1 := c.eqTests(be.X)
		t2, v2, ok2 := c.eqTests(be.Y)
		if !ok1 || !ok2 || ExprStr(t1) != ExprStr(t2) {
			return nil, nil, false
		}
		return t1, append(v1, v2...), true
	case token.EQL:
		if !c.isConst(be.Y) || c.typeOf(be.Y).IsNil() || !c.pureExpr(be.X) || c.isConst(be.X) {
			return nil, nil, false
		}
		if tv := c.typeOf(be.Y); tv.Value != nil && tv.Value.Kind() == constant.Bool {
			return nil, nil, false
		}
		return be.X, []ast.Expr{be.Y}, true
	}
	return nil, nil, false
}

// hasFreeBreak: an unlabeled break in body that is not enclosed by an inner loop/switch/select.
func hasFreeBreak(list []ast.Stmt) bool {
	found := false
	var walk func(n ast.Node) bool
	walk = func(n ast.Node) bool {
		switch x := n.(type) {
		case *ast.ForStmt, *ast.RangeStmt, *ast.SwitchStmt, *ast.TypeSwitchStmt, *ast.SelectStmt, *ast.FuncLit:
			return false
		case *ast.BranchStmt:
			if x.Tok == token.BREAK && x.Label == nil {
				found = true
			}
		}
		return !found
	}
	for _, s := range list {
		ast.Inspect(s, walk)
	}
	return found
}

func (c *canon) ifChainToSwitch(first *ast.IfStmt) ast.Stmt {
	type arm struct {
		pos  token.Pos
		vals []ast.Expr
		body *ast.BlockStmt
	}
	var arms []arm
	var tag ast.Expr
	var def *ast.BlockStmt
	cur := first
	for {
		if cur.Init != nil {
			return nil
		}
		t, vals, ok := c.eqTests(cur.Cond)
		if !ok {
			return nil
		}
		if tag == nil {
			tag = t
		} else if ExprStr(tag) != ExprStr(t) {
			return nil
		}
		if hasFreeBreak(cur.Body.List) {
			return nil
		}
		arms = append(arms, arm{cur.If, vals, cur.Body})
		switch e := cur.Else.(type) {
		case nil:
		case *ast.IfStmt:
			cur = e
			continue
		case *ast.BlockStmt:
			if hasFreeBreak(e.List) {
				return nil
			}
			def = e
		case *ast.SwitchStmt:
			// an inner chain already converted: merge when it switches on the same tag
			if e.Init != nil || e.Tag == nil || ExprStr(e.Tag) != ExprStr(tag) {
				return nil
			}
			for _, cc := range e.Body.List {
				k := cc.(*ast.CaseClause)
				b := &ast.BlockStmt{Lbrace: k.Colon, List: k.Body, Rbrace: k.End()}
				if k.List == nil {
					def = b
				} else {
					arms = append(arms, arm{k.Case, k.List, b})
				}
			}
		default:
			return nil
		}
		break
	}
	if len(arms) < 2 {
		return nil
	}
	sw := &ast.SwitchStmt{Switch: first.If, Tag: tag, Body: &ast.BlockStmt{Lbrace: first.Body.Lbrace, Rbrace: first.End()}}
	for _, a := range arms {
		sw.Body.List = append(sw.Body.List, &ast.CaseClause{Case: a.pos, List: a.vals, Colon: a.body.Lbrace, Body: a.body.List})
	}
	if def != nil {
		sw.Body.List = append(sw.Body.List, &ast.CaseClause{Case: def.Lbrace, List: nil, Colon: def.Lbrace, Body: def.List})
	}
	return sw
}

// taglessToTagSwitch: `switch { case T == A: … case T == B || T == C: … }` over one pure T becomes `switch T { case A: … case B, C: … }`.
func (c *canon) taglessToTagSwitch(sw *ast.SwitchStmt) {
	if sw.Tag != nil || len(sw.Body.List) == 0 {
		return
	}
	var tag ast.Expr
	lists := make([][]ast.Expr, len(sw.Body.List))
	for i, cl := range sw.Body.List {
		cc := cl.(*ast.CaseClause)
		for _, e := range cc.List {
			t, vals, ok := c.eqTests(c.cond(e))
			if !ok {
				return
			}
			if tag == nil {
				tag = t
			} else if ExprStr(tag) != ExprStr(t) {
				return
			}
			lists[i] = append(lists[i], vals...)
		}
		for _, st := range cc.Body {
			if bs, ok := st.(*ast.BranchStmt); ok && bs.Tok == token.FALLTHROUGH {
				return
			}
		}
	}
	if tag == nil {
		return
	}
	sw.Tag = tag
	for i, cl := range sw.Body.List {
		if cc := cl.(*ast.CaseClause); cc.List != nil {
			cc.List = lists[i]
		}
	}
}

// T: `if x, ok := E.(T); ok { A } else { B }` becomes `switch x := E.(type) { case T: A; default: B }`
// (ok must not be read in A or B).
func (c *canon) commaOkToTypeSwitch(is *ast.IfStmt) ast.Stmt {
	init, ok := is.Init.(*ast.AssignStmt)
	if !ok || init.Tok != token.DEFINE || len(init.Lhs) != 2 || len(init.Rhs) != 1 {
		return nil
	}
	ta, ok := ast.Unparen(init.Rhs[0]).(*ast.TypeAssertExpr)
	if !ok || ta.Type == nil {
		return nil
	}
	xid, ok1 := init.Lhs[0].(*ast.Ident)
	okid, ok2 := init.Lhs[1].(*ast.Ident)
	if !ok1 || !ok2 || xid.Name == "_" {
		return nil
	}
	okObj := c.info.Defs[okid]
	if okObj == nil || ObjOf(c.info, is.Cond) != okObj {
		return nil
	}
	if hasFreeBreak(is.Body.List) {
		return nil
	}
	used := false
	check := func(n ast.Node) {
		if n == nil {
			return
		}
		ast.Inspect(n, func(m ast.Node) bool {
			if id, ok := m.(*ast.Ident); ok && c.info.Uses[id] == okObj {
				used = true
			}
			return !used
		})
	}
	check(is.Body)
	var def *ast.BlockStmt
	switch e := is.Else.(type) {
	case nil:
	case *ast.BlockStmt:
		if hasFreeBreak(e.List) {
			return nil
		}
		check(e)
		def = e
	default:
		return nil
	}
	if used {
		return nil
	}
	assign := &ast.AssignStmt{Lhs: []ast.Expr{xid}, TokPos: init.TokPos, Tok: token.DEFINE,
		Rhs: []ast.Expr{&ast.TypeAssertExpr{X: ta.X, Lparen: ta.Lparen, Type: nil, Rparen: ta.Rparen}}}
	cc := &ast.CaseClause{Case: is.If, List: []ast.Expr{ta.Type}, Colon: is.Body.Lbrace, Body: is.Body.List}
	if o := c.info.Defs[xid]; o != nil {
		c.info.Implicits[cc] = o
	}
	ts := &ast.TypeSwitchStmt{Switch: is.If, Assign: assign, Body: &ast.BlockStmt{Lbrace: is.Body.Lbrace, List: []ast.Stmt{cc}, Rbrace: is.End()}}
	if def != nil {
		ts.Body.List = append(ts.Body.List, &ast.CaseClause{Case: def.Lbrace, Colon: def.Lbrace, Body: def.List})
	}
	return ts
}

// ---------------------------------------------------------------------------------------------
// L: index loops

func chainOnly(e ast.Expr) bool {
	switch x := ast.Unparen(e).(type) {
	case *ast.Ident:
		return true
	case *ast.SelectorExpr:
		return chainOnly(x.X)
	}
	return false
}

func (c *canon) indexLoopToRange(f *ast.ForStmt) ast.Stmt {
	init, ok := f.Init.(*ast.AssignStmt)
	if !ok || init.Tok != token.DEFINE || len(init.Lhs) != 1 || len(init.Rhs) != 1 {
		return nil
	}
	iv, ok := init.Lhs[0].(*ast.Ident)
	if !ok {
		return nil
	}
	iobj := c.info.Defs[iv]
	if v, isC := ConstInt(c.info, init.Rhs[0]); !isC || v != 0 || iobj == nil {
		return nil
	}
	cond, ok := ast.Unparen(f.Cond).(*ast.BinaryExpr)
	if !ok {
		return nil
	}
	var bound ast.Expr
	switch {
	case cond.Op == token.LSS && ObjOf(c.info, cond.X) == iobj:
		bound = cond.Y
	case cond.Op == token.GTR && ObjOf(c.info, cond.Y) == iobj:
		bound = cond.X
	default:
		return nil
	}
	lc, ok := ast.Unparen(bound).(*ast.CallExpr)
	if !ok || len(lc.Args) != 1 {
		return nil
	}
	if id, ok := lc.Fun.(*ast.Ident); !ok || id.Name != "len" {
		return nil
	}
	X := lc.Args[0]
	if !chainOnly(X) {
		return nil
	}
	if tv, ok := c.info.Types[X]; !ok {
		return nil
	} else if _, isSlice := tv.Type.Underlying().(*types.Slice); !isSlice {
		if _, isArr := tv.Type.Underlying().(*types.Array); !isArr {
			return nil
		}
	}
	switch post := f.Post.(type) {
	case *ast.IncDecStmt:
		if post.Tok != token.INC || ObjOf(c.info, post.X) != iobj {
			return nil
		}
	case *ast.AssignStmt:
		if post.Tok != token.ADD_ASSIGN || len(post.Lhs) != 1 || ObjOf(c.info, post.Lhs[0]) != iobj {
			return nil
		}
		if v, isC := ConstInt(c.info, post.Rhs[0]); !isC || v != 1 {
			return nil
		}
	default:
		return nil
	}
	// the body must not write the index or the collection variable itself
	xkey := chainKey(X)
	bad := false
	writes := func(l ast.Expr) {
		root := ast.Unparen(l)
		if ObjOf(c.info, root) == iobj {
			bad = true
		}
		k := chainKey(root)
		if k != "" && (k == xkey || hasPrefixDot(xkey, k)) {
			bad = true
		}
	}
	ast.Inspect(f.Body, func(n ast.Node) bool {
		switch x := n.(type) {
		case *ast.AssignStmt:
			for _, l := range x.Lhs {
				writes(l)
			}
		case *ast.IncDecStmt:
			writes(x.X)
		case *ast.UnaryExpr:
			if x.Op == token.AND && ObjOf(c.info, x.X) == iobj {
				bad = true
			}
		case *ast.RangeStmt:
			if x.Tok == token.ASSIGN {
				if x.Key != nil {
					writes(x.Key)
				}
				if x.Value != nil {
					writes(x.Value)
				}
			}
		}
		return !bad
	})
	if bad {
		return nil
	}
	rs := &ast.RangeStmt{For: f.For, Key: iv, TokPos: init.TokPos, Tok: token.DEFINE, Range: f.For, X: X, Body: f.Body}
	// lift `v := X[i]` at the head of the body to the range value
	if len(f.Body.List) > 0 {
		if as, ok := f.Body.List[0].(*ast.AssignStmt); ok && as.Tok == token.DEFINE && len(as.Lhs) == 1 && len(as.Rhs) == 1 {
			if vid, ok := as.Lhs[0].(*ast.Ident); ok && vid.Name != "_" && c.info.Defs[vid] != nil {
				if ie, ok := ast.Unparen(as.Rhs[0]).(*ast.IndexExpr); ok && ExprStr(ie.X) == ExprStr(X) && ObjOf(c.info, ie.Index) == iobj {
					rs.Value = vid
					rs.Body = &ast.BlockStmt{Lbrace: f.Body.Lbrace, List: f.Body.List[1:], Rbrace: f.Body.Rbrace}
				}
			}
		}
	}
	return rs
}

func hasPrefixDot(s, prefix string) bool {
	return len(s) > len(prefix) && s[:len(prefix)] == prefix && s[len(prefix)] == '.'
}

// ---------------------------------------------------------------------------------------------
// A: aliases

// aliases finds the local variables of the function that are defined exactly once, from a pure
// expression of the same type, and never written, address-taken or used as a pointer receiver.
func (c *canon) aliases(body *ast.BlockStmt) map[types.Object]ast.Expr {
	defs := map[types.Object]int{}
	rhs := map[types.Object]ast.Expr{}
	disq := map[types.Object]bool{}
	rootObj := func(e ast.Expr) types.Object {
		e = ast.Unparen(e)
		for {
			switch x := e.(type) {
			case *ast.SelectorExpr:
				e = ast.Unparen(x.X)
				continue
			case *ast.IndexExpr:
				e = ast.Unparen(x.X)
				continue
			case *ast.StarExpr:
				e = ast.Unparen(x.X)
				continue
			}
			break
		}
		return ObjOf(c.info, e)
	}
	define := func(id *ast.Ident, r ast.Expr) {
		if o := c.info.Defs[id]; o != nil {
			defs[o]++
			if r != nil {
				rhs[o] = r
			}
		} else if o := c.info.Uses[id]; o != nil {
			disq[o] = true // redeclared in a multi-define: a write
		}
	}
	ast.Inspect(body, func(n ast.Node) bool {
		switch x := n.(type) {
		case *ast.AssignStmt:
			for i, l := range x.Lhs {
				if x.Tok == token.DEFINE {
					if id, ok := l.(*ast.Ident); ok {
						var r ast.Expr
						if len(x.Rhs) == len(x.Lhs) {
							r = x.Rhs[i]
						}
						define(id, r)
						continue
					}
				}
				if o := rootObj(l); o != nil {
					disq[o] = true
				}
			}
		case *ast.IncDecStmt:
			if o := rootObj(x.X); o != nil {
				disq[o] = true
			}
		case *ast.ValueSpec:
			for i, id := range x.Names {
				var r ast.Expr
				if len(x.Values) == len(x.Names) && x.Type == nil {
					r = x.Values[i]
				}
				define(id, r)
			}
		case *ast.RangeStmt:
			for _, kv := range []ast.Expr{x.Key, x.Value} {
				if kv == nil {
					continue
				}
				if o := rootObj(kv); o != nil {
					disq[o] = true
				}
				if id, ok := kv.(*ast.Ident); ok {
					if o := c.info.Defs[id]; o != nil {
						disq[o] = true
					}
				}
			}
		case *ast.ForStmt:
			if as, ok := x.Init.(*ast.AssignStmt); ok {
				for _, l := range as.Lhs {
					if id, ok := l.(*ast.Ident); ok {
						if o := c.info.Defs[id]; o != nil {
							disq[o] = true
						}
					}
				}
			}
		case *ast.UnaryExpr:
			if x.Op == token.AND {
				if o := rootObj(x.X); o != nil {
					disq[o] = true
				}
			}
		case *ast.SelectorExpr:
			// x.M() with a pointer-receiver method on an addressable non-pointer x takes &x
			if s := c.info.Selections[x]; s != nil && s.Kind() == types.MethodVal {
				if f, ok := s.Obj().(*types.Func); ok {
					if sig, ok := f.Type().(*types.Signature); ok && sig.Recv() != nil {
						if _, ptrRecv := sig.Recv().Type().(*types.Pointer); ptrRecv {
							if tv, ok := c.info.Types[x.X]; ok {
								if _, isPtr := tv.Type.Underlying().(*types.Pointer); !isPtr {
									if o := rootObj(x.X); o != nil {
										disq[o] = true
									}
								}
							}
						}
					}
				}
			}
		case *ast.TypeSwitchStmt:
			if as, ok := x.Assign.(*ast.AssignStmt); ok {
				for _, l := range as.Lhs {
					if id, ok := l.(*ast.Ident); ok {
						if o := c.info.Defs[id]; o != nil {
							disq[o] = true
						}
					}
				}
			}
		case *ast.CommClause:
			if as, ok := x.Comm.(*ast.AssignStmt); ok {
				for _, l := range as.Lhs {
					if id, ok := l.(*ast.Ident); ok {
						if o := c.info.Defs[id]; o != nil {
							disq[o] = true
						}
					}
				}
			}
		}
		return true
	})
	out := map[types.Object]ast.Expr{}
	for o, n := range defs {
		r := rhs[o]
		if n != 1 || disq[o] || r == nil || o.Name() == "_" {
			continue
		}
		v, ok := o.(*types.Var)
		if !ok {
			continue
		}
		if _, isLit := ast.Unparen(r).(*ast.BasicLit); isLit || c.isConst(r) {
			continue
		}
		if !c.pureExpr(r) {
			continue
		}
		tv, ok := c.info.Types[r]
		if !ok || !types.Identical(tv.Type, v.Type()) {
			continue
		}
		if _, isFunc := v.Type().Underlying().(*types.Signature); isFunc {
			continue
		}
		// the expression must not read a variable that is written somewhere in the function after
		// being read here, unless it is rooted in a parameter/receiver/never-written local (origin semantics
		// tolerates later writes to fields, not to the variables the expression is spelled with)
		okVars := true
		ast.Inspect(r, func(n ast.Node) bool {
			if id, ok := n.(*ast.Ident); ok {
				if u, ok := c.info.Uses[id].(*types.Var); ok && !u.IsField() && u.Pkg() != nil && u.Parent() != u.Pkg().Scope() {
					if writtenAfter(c.info, body, u, r.Pos()) {
						okVars = false
					}
				}
			}
			return okVars
		})
		if !okVars {
			continue
		}
		out[o] = r
		aliasVars[o] = true
	}
	return out
}

// writtenAfter: the variable itself (not a field of it) is assigned at a source position after pos, or
// anywhere inside a loop that encloses pos (where "after" can come round again).
func writtenAfter(info *types.Info, body *ast.BlockStmt, v *types.Var, pos token.Pos) bool {
	var writes []token.Pos
	note := func(e ast.Expr) {
		if id, ok := ast.Unparen(e).(*ast.Ident); ok && (info.Uses[id] == v || info.Defs[id] == v) {
			writes = append(writes, id.Pos())
		}
	}
	var loops [][2]token.Pos
	ast.Inspect(body, func(n ast.Node) bool {
		switch x := n.(type) {
		case *ast.AssignStmt:
			for _, l := range x.Lhs {
				if id, ok := ast.Unparen(l).(*ast.Ident); ok && info.Defs[id] == v && x.Tok == token.DEFINE {
					continue // the definition itself
				}
				note(l)
			}
		case *ast.IncDecStmt:
			note(x.X)
		case *ast.UnaryExpr:
			if x.Op == token.AND {
				note(x.X)
			}
		case *ast.RangeStmt:
			if x.Key != nil {
				note(x.Key)
			}
			if x.Value != nil {
				note(x.Value)
			}
			if x.Pos() <= pos && pos <= x.End() {
				loops = append(loops, [2]token.Pos{x.Pos(), x.End()})
			}
		case *ast.ForStmt:
			if as, ok := x.Init.(*ast.AssignStmt); ok {
				for _, l := range as.Lhs {
					note(l)
				}
			}
			if x.Pos() <= pos && pos <= x.End() {
				loops = append(loops, [2]token.Pos{x.Pos(), x.End()})
			}
		}
		return true
	})
	for _, w := range writes {
		if w > pos {
			return true
		}
		for _, l := range loops {
			if l[0] <= w && w <= l[1] {
				return true
			}
		}
	}
	return false
}
