package main

import (
	"go/ast"
	"go/token"
	"go/types"
)

// stripConv removes parentheses and type conversions (int64(x)) around an expression.
func stripConv(info *types.Info, e ast.Expr) ast.Expr {
	for {
		e = ast.Unparen(e)
		c, ok := e.(*ast.CallExpr)
		if !ok || len(c.Args) != 1 {
			return e
		}
		if tv, ok := info.Types[c.Fun]; ok && tv.IsType() {
			e = c.Args[0]
			continue
		}
		return e
	}
}

func flipOp(op token.Token) token.Token {
	switch op {
	case token.LSS:
		return token.GTR
	case token.GTR:
		return token.LSS
	case token.LEQ:
		return token.GEQ
	case token.GEQ:
		return token.LEQ
	}
	return op
}

func negOp(op token.Token) token.Token {
	switch op {
	case token.LSS:
		return token.GEQ
	case token.GTR:
		return token.LEQ
	case token.LEQ:
		return token.GTR
	case token.GEQ:
		return token.LSS
	case token.EQL:
		return token.NEQ
	case token.NEQ:
		return token.EQL
	}
	return op
}

func isCmpOp(op token.Token) bool {
	switch op {
	case token.LSS, token.GTR, token.LEQ, token.GEQ, token.EQL, token.NEQ:
		return true
	}
	return false
}

// Cmp is a comparison normalised as `A op B` (A on the left).
type Cmp struct {
	Expr *ast.BinaryExpr
	Op   token.Token
	A, B ast.Expr // stripped of conversions
}

// FindCmps finds every comparison under root (including literals) one side of
// which satisfies isA; if isB is non-nil the other side must satisfy it.
func FindCmps(info *types.Info, root ast.Node, isA, isB func(ast.Expr) bool) []Cmp {
	var out []Cmp
	ast.Inspect(root, func(n ast.Node) bool {
		be, ok := n.(*ast.BinaryExpr)
		if !ok || !isCmpOp(be.Op) {
			return true
		}
		x, y := stripConv(info, be.X), stripConv(info, be.Y)
		switch {
		case isA(x) && (isB == nil || isB(y)):
			out = append(out, Cmp{Expr: be, Op: be.Op, A: x, B: y})
		case isA(y) && (isB == nil || isB(x)):
			out = append(out, Cmp{Expr: be, Op: flipOp(be.Op), A: y, B: x})
		}
		return true
	})
	return out
}

// LowerBoundOf: if the comparison A op k (k constant) is equivalent to A >= m
// when true, returns m; if equivalent to A < m (so that its negation is A >= m), neg is true.
func (c Cmp) constBound(info *types.Info) (k int64, ok bool) {
	return ConstInt(info, c.B)
}

// impliesGE reports whether the truth (truth=true) or falsity of the comparison
// A op k implies A >= m, returning m.
func (c Cmp) ImpliesGE(info *types.Info, truth bool) (m int64, ok bool) {
	k, isC := c.constBound(info)
	if !isC {
		return 0, false
	}
	op := c.Op
	if !truth {
		op = negOp(op)
	}
	switch op {
	case token.GEQ:
		return k, true
	case token.GTR:
		return k + 1, true
	case token.EQL:
		return k, true
	}
	return 0, false
}

// conjuncts splits a && b && c.
func conjuncts(e ast.Expr) []ast.Expr {
	e = ast.Unparen(e)
	if be, ok := e.(*ast.BinaryExpr); ok && be.Op == token.LAND {
		return append(conjuncts(be.X), conjuncts(be.Y)...)
	}
	return []ast.Expr{e}
}

// parentMap builds the child→parent relation under root.
func parentMap(root ast.Node) map[ast.Node]ast.Node {
	parents := map[ast.Node]ast.Node{}
	var stack []ast.Node
	ast.Inspect(root, func(n ast.Node) bool {
		if n == nil {
			stack = stack[:len(stack)-1]
			return true
		}
		if len(stack) > 0 {
			parents[n] = stack[len(stack)-1]
		}
		stack = append(stack, n)
		return true
	})
	return parents
}

// containsNode reports whether inner lies within outer.
func containsNode(outer, inner ast.Node) bool {
	return outer != nil && inner != nil && outer.Pos() <= inner.Pos() && inner.End() <= outer.End()
}
