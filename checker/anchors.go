package main

import (
	_ "embed"
	"encoding/json"
	"fmt"
	"go/types"
	"os"
	"sort"
	"strings"
)

// Rename tolerance. anchors.json records, for every function of the repository as confirmed on the
// pinned tree, its signature. When a function a rule is anchored on has disappeared under its name
// and exactly one function of the same package with the same receiver and the same signature has
// appeared under a name the table does not know, that function is taken to be the renamed anchor:
// it is analysed under the old key (every rule table keeps working) and the alias is reported as a
// note. Anything less clear-cut (two candidates, changed signature) stays UNRESOLVED.
//
//go:embed anchors.json
var anchorsJSON []byte

var keyAlias = map[string]string{} // key as written in the source now → key the rules know

func sigString(f *types.Func) string {
	sig := f.Type().(*types.Signature)
	s := types.TypeString(sig, qual)
	if sig.Recv() != nil {
		s = "(" + types.TypeString(sig.Recv().Type(), qual) + ")" + s
	}
	return s
}

func pkgOfKey(key string) string {
	// "rel/pkg.Recv.Name" | "rel/pkg.Name": the package is everything before the first '.' after the last '/'
	i := strings.LastIndex(key, "/")
	j := strings.Index(key[i+1:], ".")
	if j < 0 {
		return key
	}
	return key[:i+1+j]
}

// resolveRenames fills keyAlias; it must run before any key is handed out.
// anchorTable is the content of anchors.json.
type anchorTable struct {
	Funcs  map[string]string      `json:"funcs"`  // function key → receiver and signature
	Types  map[string]string      `json:"types"`  // "rel/pkg.Name" → underlying type
	Fields map[string][]anchorFld `json:"fields"` // struct type key → fields in order
}

type anchorFld struct {
	Name string `json:"name"`
	Type string `json:"type"`
}

var typeAlias = map[*types.TypeName]string{} // type as named now → name the rules know
var fieldAlias = map[*types.Var]string{}     // field as named now → name the rules know

func qual(p *types.Package) string { return p.Path() }

// resolveTypeAndFieldRenames: the same idea for named types (identical underlying type, one unknown
// name in the package) and for struct fields (same struct, same field type, one unknown name; the
// same position when there are several of that type). Runs before resolveRenames.
func (p *Prog) resolveTypeAndFieldRenames(tab *anchorTable) []string {
	var notes []string
	for _, pkg := range p.All {
		rel := relPkg(pkg.PkgPath)
		if rel == "" {
			rel = "coercion"
		}
		scope := pkg.Types.Scope()
		known := func(name string) bool { _, ok := tab.Types[rel+"."+name]; return ok }
		// types
		var missing []string
		for k := range tab.Types {
			if pkgOfKey(k) == rel {
				name := k[len(rel)+1:]
				if scope.Lookup(name) == nil {
					missing = append(missing, name)
				}
			}
		}
		sort.Strings(missing)
		var weak []*types.TypeName
		for _, old := range missing {
			var cands []*types.TypeName
			for _, n := range scope.Names() {
				tn, ok := scope.Lookup(n).(*types.TypeName)
				if !ok || known(n) || tn.IsAlias() {
					continue
				}
				if types.TypeString(tn.Type().Underlying(), qual) == tab.Types[rel+"."+old] {
					cands = append(cands, tn)
				} else if st, ok := tn.Type().Underlying().(*types.Struct); ok {
					// a struct renamed together with some of its fields: same field types in order, most names kept
					of := tab.Fields[rel+"."+old]
					if len(of) > 0 && len(of) == st.NumFields() {
						same, names := true, 0
						for i := range of {
							if types.TypeString(st.Field(i).Type(), qual) != of[i].Type {
								same = false
							}
							if st.Field(i).Name() == of[i].Name {
								names++
							}
						}
						// (with a unique candidate the names do not matter; with several, most names must have been kept)
						if same {
							if names*2 >= len(of) {
								cands = append([]*types.TypeName{tn}, cands...)
							} else {
								weak = append(weak, tn)
							}
						}
					}
				}
			}
			if len(cands) == 0 && len(weak) == 1 {
				cands = weak
			}
			weak = nil
			if len(cands) == 1 {
				typeAlias[cands[0]] = old
				notes = append(notes, fmt.Sprintf("type %s.%s no longer exists; %s has the same definition and is analysed in its place", rel, old, cands[0].Name()))
			}
		}
		// fields
		for _, n := range scope.Names() {
			tn, ok := scope.Lookup(n).(*types.TypeName)
			if !ok {
				continue
			}
			st, ok := tn.Type().Underlying().(*types.Struct)
			if !ok {
				continue
			}
			name := n
			if a, ok := typeAlias[tn]; ok {
				name = a
			}
			oldFields, ok := tab.Fields[rel+"."+name]
			if !ok {
				continue
			}
			oldNames := map[string]bool{}
			for _, f := range oldFields {
				oldNames[f.Name] = true
			}
			cur := map[string]bool{}
			for i := 0; i < st.NumFields(); i++ {
				cur[st.Field(i).Name()] = true
			}
			for oi, of := range oldFields {
				if cur[of.Name] {
					continue
				}
				var cands []int
				for i := 0; i < st.NumFields(); i++ {
					f := st.Field(i)
					if oldNames[f.Name()] {
						continue
					}
					if _, taken := fieldAlias[f]; taken {
						continue
					}
					if types.TypeString(f.Type(), qual) == of.Type {
						cands = append(cands, i)
					}
				}
				pick := -1
				if len(cands) == 1 {
					pick = cands[0]
				} else {
					for _, c := range cands {
						if c == oi {
							pick = c
						}
					}
				}
				if pick >= 0 {
					fieldAlias[st.Field(pick)] = of.Name
					notes = append(notes, fmt.Sprintf("field %s.%s.%s no longer exists; %s has the same type and is analysed in its place", rel, name, of.Name, st.Field(pick).Name()))
				}
			}
		}
	}
	return notes
}

// FieldName is the name of a struct field as the rules know it.
func FieldName(v *types.Var) string {
	if a, ok := fieldAlias[v.Origin()]; ok {
		return a
	}
	return v.Name()
}

func loadAnchorTable() *anchorTable {
	var tab anchorTable
	if err := json.Unmarshal(anchorsJSON, &tab); err != nil {
		return nil
	}
	return &tab
}

func (p *Prog) resolveRenames(current map[string]*types.Func) []string {
	tab := loadAnchorTable()
	if tab == nil || len(tab.Funcs) == 0 {
		return nil
	}
	anchors := tab.Funcs
	var notes []string
	var missing []string
	for k := range anchors {
		if _, ok := current[k]; !ok {
			missing = append(missing, k)
		}
	}
	sort.Strings(missing)
	for _, k := range missing {
		var cands []string
		for ck, f := range current {
			if _, known := anchors[ck]; known {
				continue
			}
			if pkgOfKey(ck) == pkgOfKey(k) && sigString(f) == anchors[k] {
				cands = append(cands, ck)
			}
		}
		if len(cands) == 1 {
			if _, taken := keyAlias[cands[0]]; !taken {
				keyAlias[cands[0]] = k
				notes = append(notes, fmt.Sprintf("%s no longer exists; %s has the same receiver and signature and is analysed in its place", k, cands[0]))
				continue
			}
		}
		// a function turned into a method (or a method moved to another receiver) under the same name: the
		// signature changes (a parameter became the receiver), the name is the evidence — if it is unique
		name := k[lastDot(k)+1:]
		var byName []string
		for ck := range current {
			if _, known := anchors[ck]; known {
				continue
			}
			if pkgOfKey(ck) == pkgOfKey(k) && ck[lastDot(ck)+1:] == name {
				byName = append(byName, ck)
			}
		}
		if len(byName) == 1 {
			if _, taken := keyAlias[byName[0]]; !taken {
				keyAlias[byName[0]] = k
				notes = append(notes, fmt.Sprintf("%s no longer exists; %s carries its name (a function that became a method, or changed receiver) and is analysed in its place", k, byName[0]))
			}
		}
	}
	return notes
}

func writeAnchors(p *Prog, path string) error {
	out := anchorTable{Funcs: map[string]string{}, Types: map[string]string{}, Fields: map[string][]anchorFld{}}
	for k, fn := range p.Funcs {
		out.Funcs[k] = sigString(fn.Obj)
	}
	for _, pkg := range p.All {
		rel := relPkg(pkg.PkgPath)
		if rel == "" {
			rel = "coercion"
		}
		scope := pkg.Types.Scope()
		for _, n := range scope.Names() {
			tn, ok := scope.Lookup(n).(*types.TypeName)
			if !ok || tn.IsAlias() {
				continue
			}
			out.Types[rel+"."+n] = types.TypeString(tn.Type().Underlying(), qual)
			if st, ok := tn.Type().Underlying().(*types.Struct); ok {
				var fs []anchorFld
				for i := 0; i < st.NumFields(); i++ {
					fs = append(fs, anchorFld{st.Field(i).Name(), types.TypeString(st.Field(i).Type(), qual)})
				}
				out.Fields[rel+"."+n] = fs
			}
		}
	}
	b, _ := json.MarshalIndent(out, "", " ")
	return os.WriteFile(path, append(b, '\n'), 0o644)
}
