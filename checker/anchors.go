package main

import (
	_ "embed"
	"encoding/json"
	"fmt"
	"go/types"
	"os"
	"sort"
	"strings"
)

// Rename tolerance. anchors.json records, for every function of the repository as confirmed on the
// pinned tree, its signature. When a function a rule is anchored on has disappeared under its name
// and exactly one function of the same package with the same receiver and the same signature has
// appeared under a name the table does not know, that function is taken to be the renamed anchor:
// it is analysed under the old key (every rule table keeps working) and the alias is reported as a
// note. Anything less clear-cut (two candidates, changed signature) stays UNRESOLVED.
//
//go:embed anchors.json
var anchorsJSON []byte

var keyAlias = map[string]string{} // key as written in the source now → key the rules know

func sigString(f *types.Func) string {
	sig := f.Type().(*types.Signature)
	q := func(p *types.Package) string { return p.Path() }
	s := types.TypeString(sig, q)
	if sig.Recv() != nil {
		s = "(" + types.TypeString(sig.Recv().Type(), q) + ")" + s
	}
	return s
}

func pkgOfKey(key string) string {
	// "rel/pkg.Recv.Name" | "rel/pkg.Name": the package is everything before the first '.' after the last '/'
	i := strings.LastIndex(key, "/")
	j := strings.Index(key[i+1:], ".")
	if j < 0 {
		return key
	}
	return key[:i+1+j]
}

// resolveRenames fills keyAlias; it must run before any key is handed out.
func (p *Prog) resolveRenames(current map[string]*types.Func) []string {
	var anchors map[string]string
	if err := json.Unmarshal(anchorsJSON, &anchors); err != nil || len(anchors) == 0 {
		return nil
	}
	var notes []string
	var missing []string
	for k := range anchors {
		if _, ok := current[k]; !ok {
			missing = append(missing, k)
		}
	}
	sort.Strings(missing)
	for _, k := range missing {
		var cands []string
		for ck, f := range current {
			if _, known := anchors[ck]; known {
				continue
			}
			if pkgOfKey(ck) == pkgOfKey(k) && sigString(f) == anchors[k] {
				cands = append(cands, ck)
			}
		}
		if len(cands) == 1 {
			if _, taken := keyAlias[cands[0]]; !taken {
				keyAlias[cands[0]] = k
				notes = append(notes, fmt.Sprintf("%s no longer exists; %s has the same receiver and signature and is analysed in its place", k, cands[0]))
			}
		}
	}
	return notes
}

func writeAnchors(p *Prog, path string) error {
	out := map[string]string{}
	for k, fn := range p.Funcs {
		out[k] = sigString(fn.Obj)
	}
	b, _ := json.MarshalIndent(out, "", " ")
	return os.WriteFile(path, append(b, '\n'), 0o644)
}
