package main

import (
	"golang.org/x/tools/go/packages"
	"go/ast"
	"go/token"
	"go/types"
	"sort"
	"strings"
)

const pkgClone = "workflow/utils/clone"

func cloneKey(name string) string { return pkgClone + "." + name }

func init() {
	register(PropInfo{
		ID: "C17",
		Explanation: "Static decision of the structural clauses of C17 (DESIGN.md section 4, C17): (R1) kind coverage of the reflective scrubber clone.Secure: for every container position (struct field, pointer element, slice element, map element, interface element) every kind of {Struct, Ptr, Slice, Map, Interface} that can occur there is dispatched, the function chosen for a kind accepts the value it is handed (its own entry assertion on Kind() must not contradict the call site), and a secure-tagged field is overwritten before and instead of the dispatch; (R2) every non-nil result of clone.Plan/Block/Checks/Sequence/Action passes the scrub statement, which scrubs the freshly built result, and nothing reference-typed in a clone is shared with the original (scrubbing the clone must not scrub the original); (R3) reports.Render scrubs the plan before the first template is executed with a scrubber that covers every kind on the type paths from *workflow.Plan to Action.Req and Attempt.Resp; (R4) registry.findSecrets keeps scanning after a nested struct and descends by type. Decides kind coverage, not the absence of secret bytes for all shapes.",
		NotDecided:  []string{"absence of the secret bytes in output for all type shapes (a data property)", "arrays (excepted by the statement)"},
		Assumptions: []string{"reflect semantics of Kind/Elem/Set"},
		Rules:       rulesC17,
	})
	register(PropInfo{
		ID: "C18",
		Explanation: "Static decision of the structural clauses of C18 (DESIGN.md section 4, C18): (R1) definition coverage: each clone function assigns every definition field of its type (computed from go/types minus the engine-owned fields and Key) from the same field of the source, children in an in-order loop; (R2) no aliasing: no slice/map/pointer/interface field of a result is assigned directly from the source — only make+copy, deep.MustCopy, a clone call or the cloneState/cloneAttempts/cloneErr helpers, whose own bodies are checked the same way; (R3) engine-owned fields (ID, State, Attempts, Reason, SubmitTime) are assigned only on the keepState branch, which covers all of them; (R4) a clone function returns nil only for a nil input or under the remove-completed option.",
		NotDecided:  []string{"structural equality clone vs. original as data", "that Submit accepts the clone (follows from R3 + C16 only modulo values)"},
		Assumptions: []string{"deep.MustCopy returns a deep copy"},
		Rules:       rulesC18,
	})
}

// ---------------------------------------------------------------------------
// K9: kind dispatch of clone/secure.go

type kcase struct {
	kinds        []string
	callee       string   // first same-package callee in the case body ("" if none)
	arg          ast.Expr // its first argument
	pos          token.Pos
	allCallees   []string
	callArgs     map[string]ast.Expr
}

type kdispatch struct {
	fn      *Func
	subject ast.Expr // E in `switch E.Kind()`
	cases   []kcase
	pos     token.Pos
}

func isReflectKindCall(info *types.Info, e ast.Expr) (ast.Expr, bool) {
	c, ok := ast.Unparen(e).(*ast.CallExpr)
	if !ok || len(c.Args) != 0 {
		return nil, false
	}
	sel, ok := c.Fun.(*ast.SelectorExpr)
	if !ok || sel.Sel.Name != "Kind" {
		return nil, false
	}
	if tv, ok := info.Types[sel.X]; ok && (TypeKey(tv.Type) == "reflect.Value" || TypeKey(tv.Type) == "reflect.Type") {
		return sel.X, true
	}
	return nil, false
}

func kindName(info *types.Info, e ast.Expr) string {
	v := ValueKey(info, e)
	if strings.HasPrefix(v, "reflect.") {
		k := strings.TrimPrefix(v, "reflect.")
		if k == "Pointer" {
			k = "Ptr"
		}
		return k
	}
	return ""
}

func kindDispatches(p *Prog, fn *Func) []kdispatch {
	info := fn.Pkg.TypesInfo
	var out []kdispatch
	caseOf := func(pos token.Pos, kinds []string, body []ast.Stmt) kcase {
		kc := kcase{pos: pos, kinds: kinds, callArgs: map[string]ast.Expr{}}
		for _, st := range body {
			ast.Inspect(st, func(m ast.Node) bool {
				c, ok := m.(*ast.CallExpr)
				if !ok {
					return true
				}
				if f, ok := calleeFunc(info, c); ok && p.DeclOf(f) != nil && p.DeclOf(f).Pkg == fn.Pkg && len(c.Args) >= 1 {
					name := f.Name()
					kc.allCallees = append(kc.allCallees, name)
					if _, seen := kc.callArgs[name]; !seen {
						kc.callArgs[name] = c.Args[0]
					}
					if kc.callee == "" && name != "noAddrStruct" {
						kc.callee, kc.arg = name, c.Args[0]
					}
				}
				return true
			})
		}
		return kc
	}
	// kindTests splits `E.Kind() == K1 || E.Kind() == K2` into (E, [K1 K2]).
	var kindTests func(e ast.Expr) (ast.Expr, []string, bool)
	kindTests = func(e ast.Expr) (ast.Expr, []string, bool) {
		be, ok := ast.Unparen(e).(*ast.BinaryExpr)
		if !ok {
			return nil, nil, false
		}
		switch be.Op {
		case token.LOR:
			s1, k1, ok1 := kindTests(be.X)
			s2, k2, ok2 := kindTests(be.Y)
			if ok1 && ok2 && ExprStr(s1) == ExprStr(s2) {
				return s1, append(k1, k2...), true
			}
		case token.EQL:
			for _, pair := range [][2]ast.Expr{{be.X, be.Y}, {be.Y, be.X}} {
				if subj, ok := isReflectKindCall(info, pair[0]); ok {
					if k := kindName(info, pair[1]); k != "" {
						return subj, []string{k}, true
					}
				}
			}
		}
		return nil, nil, false
	}
	add := func(subj ast.Expr, pos token.Pos, kc kcase) {
		// tests of the same subject anywhere in the function form one dispatch
		for i := range out {
			if ExprStr(out[i].subject) == ExprStr(subj) {
				out[i].cases = append(out[i].cases, kc)
				return
			}
		}
		out = append(out, kdispatch{fn: fn, subject: subj, pos: pos, cases: []kcase{kc}})
	}
	ast.Inspect(fn.Decl.Body, func(n ast.Node) bool {
		switch x := n.(type) {
		case *ast.SwitchStmt:
			if x.Tag == nil {
				return true
			}
			subj, ok := isReflectKindCall(info, x.Tag)
			if !ok {
				return true
			}
			for _, cl := range x.Body.List {
				cc := cl.(*ast.CaseClause)
				var kinds []string
				for _, e := range cc.List {
					if k := kindName(info, e); k != "" {
						kinds = append(kinds, k)
					}
				}
				if len(kinds) > 0 {
					add(subj, x.Pos(), caseOf(cc.Pos(), kinds, cc.Body))
				}
			}
		case *ast.IfStmt:
			// `if E.Kind() == K [|| …] { … }` written as a plain if (chains of them are switches after canonicalisation)
			if subj, kinds, ok := kindTests(x.Cond); ok {
				add(subj, x.Pos(), caseOf(x.Pos(), kinds, x.Body.List))
			}
			// the dispatch as data: `if h, ok := table[E.Kind()]; ok { h(v) }` with table a map from reflect.Kind
			// to handler functions, or `if _, ok := table[E.Kind()]; ok { … }` as a membership test
			if as, ok := x.Init.(*ast.AssignStmt); ok && len(as.Lhs) == 2 && len(as.Rhs) == 1 && ObjOf(info, x.Cond) != nil && ObjOf(info, x.Cond) == ObjOf(info, as.Lhs[1]) {
				if ie, ok := ast.Unparen(as.Rhs[0]).(*ast.IndexExpr); ok {
					if subj, ok := isReflectKindCall(info, ie.Index); ok {
						if tv, isVar := ObjOf(info, ie.X).(*types.Var); isVar {
							table := kindTable(p, tv)
							h := ObjOf(info, as.Lhs[0])
							var keys []string
							for k := range table {
								keys = append(keys, k)
							}
							sort.Strings(keys)
							usedAsCallee := false
							var arg ast.Expr
							if h != nil {
								ast.Inspect(x.Body, func(m ast.Node) bool {
									if c, ok := m.(*ast.CallExpr); ok && ObjOf(info, c.Fun) == h && len(c.Args) >= 1 {
										usedAsCallee, arg = true, c.Args[0]
									}
									return true
								})
							}
							if usedAsCallee {
								for _, k := range keys {
									kc := kcase{pos: x.Pos(), kinds: []string{k}, callArgs: map[string]ast.Expr{table[k]: arg}, callee: table[k], arg: arg, allCallees: []string{table[k]}}
									add(subj, x.Pos(), kc)
								}
							} else if len(keys) > 0 {
								add(subj, x.Pos(), caseOf(x.Pos(), keys, x.Body.List))
							}
						}
					}
				}
			}
		}
		return true
	})
	return out
}

// kindTable: the entries of a map[reflect.Kind]func(...) variable: kind → name of the handler function, taken
// from the one composite literal it is given (in its declaration or in an init function).
func kindTable(p *Prog, v *types.Var) map[string]string {
	out := map[string]string{}
	n := 0
	for _, pkg := range p.All {
		if pkg.Types != v.Pkg() {
			continue
		}
		info := pkg.TypesInfo
		take := func(e ast.Expr) {
			cl, ok := ast.Unparen(e).(*ast.CompositeLit)
			if !ok {
				n += 2 // assigned something else: not a fixed table
				return
			}
			n++
			for _, el := range cl.Elts {
				if kv, ok := el.(*ast.KeyValueExpr); ok {
					k := kindName(info, kv.Key)
					if f, ok := ObjOf(info, kv.Value).(*types.Func); ok && k != "" {
						out[k] = f.Name()
					}
				}
			}
		}
		for _, f := range pkg.Syntax {
			ast.Inspect(f, func(m ast.Node) bool {
				switch x := m.(type) {
				case *ast.ValueSpec:
					for i, nm := range x.Names {
						if info.Defs[nm] == v && i < len(x.Values) {
							take(x.Values[i])
						}
					}
				case *ast.AssignStmt:
					for i, l := range x.Lhs {
						if o := ObjOf(info, l); o == v && len(x.Rhs) == len(x.Lhs) {
							take(x.Rhs[i])
						} else if ie, ok := ast.Unparen(l).(*ast.IndexExpr); ok && ObjOf(info, ie.X) == v {
							n += 2 // entries added elsewhere
						}
					}
				}
				return true
			})
		}
	}
	if n != 1 {
		return map[string]string{}
	}
	return out
}

// entryKindAssert: `if P.Kind() != reflect.K [|| …] { panic }` at the start of a function.
func entryKindAssert(fn *Func) (param types.Object, kind string) {
	info := fn.Pkg.TypesInfo
	for _, st := range fn.Decl.Body.List {
		is, ok := st.(*ast.IfStmt)
		if !ok {
			continue
		}
		panics := false
		ast.Inspect(is.Body, func(n ast.Node) bool {
			if c, ok := n.(*ast.CallExpr); ok {
				if id, ok := c.Fun.(*ast.Ident); ok && id.Name == "panic" {
					panics = true
				}
			}
			return true
		})
		if !panics {
			continue
		}
		var found bool
		ast.Inspect(is.Cond, func(n ast.Node) bool {
			be, ok := n.(*ast.BinaryExpr)
			if !ok || be.Op != token.NEQ || found {
				return true
			}
			if subj, ok := isReflectKindCall(info, be.X); ok {
				if o := ObjOf(info, subj); o != nil {
					if k := kindName(info, be.Y); k != "" {
						param, kind, found = o, k, true
					}
				}
			}
			return true
		})
		if found {
			return
		}
	}
	return nil, ""
}

func rulesC17(r *Run) {
	r.Kind("R1", "K9")
	ruleSecureKinds(r, "R1")
	ruleSecureNoSkip(r, "R1")
	ruleScrubberReadsNoSharedState(r, "R1")
	ruleTimeExemptionOnElement(r, "R1") // untagged data is left intact
	ruleScrubLoopsRunToEnd(r, "R1")
	ruleScrubbedCopyStoredBack(r, "R1")
	r.Expect("R1", 32)

	r.Kind("R2", "K3")
	ruleCloneScrub(r, "R2")
	ruleCloneAliasing(r, "R2", []string{"cloneAttempts", "cloneErr", "Action"})
	r.Expect("R2", 8)

	r.Kind("R3", "K4+K9")
	ruleRenderScrubs(r, "R3")
	r.Expect("R3", 2)

	r.Kind("R4", "K9")
	ruleFindSecrets(r, "R4")
	r.Expect("R4", 3)
}

var allKinds = []string{"Struct", "Ptr", "Slice", "Map", "Interface"}

func ruleSecureKinds(r *Run, rule string) {
	positions := []struct {
		fn, what string
		impossible map[string]bool
	}{
		{"secureStruct", "struct field", nil},
		{"securePtr", "pointer element", nil},
		{"secureSlice", "slice element", nil},
		{"secureMap", "map element", nil},
		{"secureInterface", "interface element", map[string]bool{"Interface": true}},
		{"securePtrOrRef", "reference dispatcher", map[string]bool{"Struct": true}},
	}
	funcs := map[string]*Func{}
	disp := map[string]kdispatch{}
	for _, p := range positions {
		fn := r.fnByKey(rule, cloneKey(p.fn))
		if fn == nil {
			continue
		}
		funcs[p.fn] = fn
		ds := kindDispatches(r.P, fn)
		if len(ds) == 0 {
			r.Undecided(rule, "dispatch:"+p.fn, fn.Decl.Pos(), "%s has no `switch X.Kind()` dispatch (unrecognised idiom)", p.fn)
			continue
		}
		disp[p.fn] = ds[len(ds)-1]
	}
	// what securePtrOrRef forwards
	orRef := map[string]bool{}
	if d, ok := disp["securePtrOrRef"]; ok {
		for _, c := range d.cases {
			for _, k := range c.kinds {
				if c.callee != "" {
					orRef[k] = true
				}
			}
		}
	}
	for _, p := range positions {
		d, ok := disp[p.fn]
		if !ok {
			continue
		}
		handled := map[string]bool{}
		for _, c := range d.cases {
			for _, k := range c.kinds {
				if c.callee == "" {
					continue
				}
				if c.callee == "securePtrOrRef" && !orRef[k] {
					continue // forwarded to a dispatcher that drops it
				}
				handled[k] = true
			}
		}
		for _, k := range allKinds {
			if p.impossible[k] {
				continue
			}
			r.Evals++
			r.Check(rule, "kind:"+p.fn+":"+k, d.pos, handled[k], "%s (%s position) does not descend into values of kind %s: a secure-tagged field nested below a %s at that position survives clone/Secure (e.g. %s)", p.fn, p.what, k, k, kindExample(p.fn, k))
		}
	}
	// callee accepts what it is handed
	paramKinds := map[string]map[string]bool{} // function → kinds its first parameter can have
	for name, fn := range funcs {
		if _, k := entryKindAssert(fn); k != "" {
			paramKinds[name] = map[string]bool{k: true}
		}
	}
	// from callers (arg == subject): two rounds
	for round := 0; round < 2; round++ {
		for _, d := range disp {
			for _, c := range d.cases {
				for callee, arg := range c.callArgs {
					if _, has := funcs[callee]; !has {
						continue
					}
					if _, asserted := entryKindAssert(funcs[callee]); asserted != "" {
						continue
					}
					if ExprStr(arg) == ExprStr(d.subject) {
						if paramKinds[callee] == nil {
							paramKinds[callee] = map[string]bool{}
						}
						for _, k := range c.kinds {
							paramKinds[callee][k] = true
						}
					}
				}
			}
		}
	}
	var names []string
	for n := range disp {
		names = append(names, n)
	}
	sort.Strings(names)
	for _, name := range names {
		d := disp[name]
		for _, c := range d.cases {
			var callees []string
			for cal := range c.callArgs {
				callees = append(callees, cal)
			}
			sort.Strings(callees)
			for _, callee := range callees {
				arg := c.callArgs[callee]
				cf, ok := funcs[callee]
				if !ok {
					continue
				}
				_, req := entryKindAssert(cf)
				if req == "" {
					continue
				}
				r.Evals++
				var argKinds []string
				switch {
				case ExprStr(arg) == ExprStr(d.subject):
					argKinds = c.kinds
				case ExprStr(d.subject) == ExprStr(arg)+".Elem()":
					// the dispatch is on the element, the argument is the container itself
					for k := range paramKinds[name] {
						argKinds = append(argKinds, k)
					}
				default:
					continue // a freshly built value (noAddrStruct, Addr): not judged
				}
				sort.Strings(argKinds)
				bad := ""
				for _, k := range argKinds {
					if k != req {
						bad = k
					}
				}
				r.Check(rule, "handoff:"+name+"→"+callee+":"+strings.Join(c.kinds, "|"), c.pos, bad == "" && len(argKinds) > 0,
					"in %s, case %s hands %s (kind %s) to %s, whose own entry assertion panics unless Kind() == %s: a field of that shape (e.g. a *[]T, *map or *any) makes clone/Secure panic", name, strings.Join(c.kinds, ","), ExprStr(arg), strings.Join(argKinds, ","), callee, req)
			}
		}
	}
	// secure-tagged field: overwritten before and instead of the dispatch
	if fn := funcs["secureStruct"]; fn != nil {
		fl, paths, ok := r.flowPaths(rule, fn)
		if ok {
			bad := ""
			n := 0
			all := append(append([]Path{}, paths...), fl.Truncated()...)
			for i := range all {
				p := &all[i]
				for j, e := range p.Ev {
					if e.Kind != EvBranch || e.Cond == nil || !e.Taken || !callsHasTag(fl.Info, e.Cond, "secure") {
						continue
					}
					n++
					set, dispatched := false, false
					for x := j + 1; x < len(p.Ev); x++ {
						a := p.Ev[x]
						if a.Kind == EvBranch && forConds[a.Cond] {
							break
						}
						if a.Kind == EvCall {
							k := CalleeKey(a)
							if k == "reflect.Value.SetString" || k == "reflect.Value.Set" || k == "reflect.Value.SetZero" {
								set = true
							}
						}
						if a.Kind == EvBranch && a.Tag != nil {
							if _, isK := isReflectKindCall(fl.Info, a.Tag); isK {
								dispatched = true
							}
						}
						if a.Kind == EvReturn {
							break
						}
					}
					complete := false
					for x := j + 1; x < len(p.Ev); x++ {
						if (p.Ev[x].Kind == EvBranch && forConds[p.Ev[x].Cond]) || p.Ev[x].Kind == EvReturn {
							complete = true
							break
						}
					}
					if complete && (!set || dispatched) && bad == "" {
						bad = "a secure-tagged field is overwritten=" + boolStr(set) + " and then still dispatched by kind=" + boolStr(dispatched) + ": the tag must zero the field and skip the descent"
					}
				}
			}
			indexForConds(fn.Decl)
			if n == 0 {
				r.Fail(rule, "secureStruct:secure-tag-overwrites", fn.Decl.Pos(), "secureStruct has no branch on the `secure` tag")
			} else {
				r.Check(rule, "secureStruct:secure-tag-overwrites", fn.Decl.Pos(), bad == "", "%s", orOK(bad, "secure ⇒ SetString/Set(zero), continue"))
			}
		}
	}
	// a nil/absent element must not end the walk over its siblings
	for _, name := range []string{"secureSlice", "secureMap", "secureStruct"} {
		fn := funcs[name]
		if fn == nil {
			continue
		}
		bad := ""
		ast.Inspect(fn.Decl.Body, func(n ast.Node) bool {
			var body *ast.BlockStmt
			switch x := n.(type) {
			case *ast.ForStmt:
				body = x.Body
			case *ast.RangeStmt:
				body = x.Body
			}
			if body == nil {
				return true
			}
			ast.Inspect(body, func(m ast.Node) bool {
				if _, isLit := m.(*ast.FuncLit); isLit {
					return false
				}
				if rs, ok := m.(*ast.ReturnStmt); ok && bad == "" {
					bad = "the element loop of " + name + " contains a `return` (" + r.P.Pos(rs.Pos()) + "): scrubbing stops at that element and every later element keeps its secrets (use continue)"
				}
				return true
			})
			return true
		})
		r.Check(rule, "element-loop-runs-to-end:"+name, fn.Decl.Pos(), bad == "", "%s", orOK(bad, "no return inside the element loop"))
	}
}

func kindExample(fn, k string) string {
	pos := map[string]string{"secureStruct": "field F ", "securePtr": "*", "secureSlice": "[]", "secureMap": "map[string]", "secureInterface": "any holding ", "securePtrOrRef": ""}[fn]
	el := map[string]string{"Struct": "T", "Ptr": "*T", "Slice": "[]T", "Map": "map[string]T", "Interface": "any"}[k]
	return pos + el
}

// ruleCloneScrub: every non-nil result of the five clone functions passes the scrub statement.
func ruleCloneScrub(r *Run, rule string) {
	for _, name := range []string{"Plan", "Checks", "Block", "Sequence", "Action"} {
		fn := r.fnByKey(rule, cloneKey(name))
		if fn == nil {
			continue
		}
		fl, paths, ok := r.flowPaths(rule, fn)
		if !ok {
			continue
		}
		info := fl.Info
		bad := ""
		var bpos token.Pos = fn.Decl.Pos()
		n := 0
		for i := range paths {
			p := &paths[i]
			if p.Exit != ExitReturn {
				continue
			}
			var ret *Event
			for j := range p.Ev {
				if p.Ev[j].Kind == EvReturn {
					ret = &p.Ev[j]
				}
			}
			if ret == nil || len(ret.Results()) != 1 || ValueKey(info, ret.Results()[0]) == "nil" {
				continue
			}
			res := ObjOf(info, ret.Results()[0])
			n++
			tested, scrubbed, optedOut := false, false, false
			for _, e := range p.Ev {
				if e.Kind == EvBranch && e.Cond != nil && strings.Contains(ExprStr(e.Cond), "keepSecrets") {
					tested = true
					if !e.Taken {
						optedOut = true
					}
				}
				if IsCall(e, cloneKey("Secure")) && len(e.Call.Args) == 1 {
					if res != nil && ObjOf(info, e.Call.Args[0]) == res {
						scrubbed = true
					} else if bad == "" {
						bad, bpos = "clone."+name+" scrubs "+ExprStr(e.Call.Args[0])+" instead of the result it returns: the original would be scrubbed and the clone would keep its secrets", e.Pos
					}
				}
			}
			if (!tested || (!scrubbed && !optedOut)) && bad == "" {
				bad, bpos = "clone."+name+" returns a non-nil result on a path that never reaches the scrub statement `if !keepSecrets && callNum == 1 { Secure(result) }` (guard "+ExitGuardKey(fl, p)+"): secure-tagged request/response values leave through that path", ret.Pos
			}
		}
		if n == 0 {
			r.Unresolved(rule, "clone."+name+" non-nil return")
			continue
		}
		r.Check(rule, "clone-scrubs:"+name, bpos, bad == "", "%s", orOK(bad, "every non-nil return is preceded by the scrub statement on the returned value"))
	}
}

// ---------------------------------------------------------------------------
// C18

var engineOwned = map[string]bool{"ID": true, "State": true, "Attempts": true, "Reason": true, "SubmitTime": true}

func isRefType(t types.Type) bool {
	switch t.Underlying().(type) {
	case *types.Slice, *types.Map, *types.Pointer, *types.Interface, *types.Chan:
		return true
	}
	return false
}

type cloneAssign struct {
	field string
	expr  ast.Expr
	pos   token.Pos
	keep  bool // inside the keepState branch
}

// cloneAssigns collects the assignments to fields of the result (literal keys and later X.F = …).
func cloneAssigns(fn *Func, resType string) []cloneAssign {
	info := fn.Pkg.TypesInfo
	var out []cloneAssign
	parents := parentMap(fn.Decl.Body)
	underKeep := func(n ast.Node) bool {
		for p := parents[n]; p != nil; p = parents[p] {
			if is, ok := p.(*ast.IfStmt); ok && strings.Contains(ExprStr(is.Cond), "keepState") && containsNode(is.Body, n) {
				return true
			}
		}
		return false
	}
	ast.Inspect(fn.Decl.Body, func(n ast.Node) bool {
		switch x := n.(type) {
		case *ast.CompositeLit:
			if tv, ok := info.Types[x]; ok && ShortType(tv.Type) == resType {
				for _, el := range x.Elts {
					if kv, ok := el.(*ast.KeyValueExpr); ok {
						out = append(out, cloneAssign{field: kv.Key.(*ast.Ident).Name, expr: kv.Value, pos: kv.Pos(), keep: underKeep(x)})
					}
				}
			}
		case *ast.AssignStmt:
			for i, l := range x.Lhs {
				e := ast.Unparen(l)
				// X.F[i] = … counts as an assignment to F
				if ie, ok := e.(*ast.IndexExpr); ok {
					e = ast.Unparen(ie.X)
				}
				sel, ok := e.(*ast.SelectorExpr)
				if !ok {
					continue
				}
				if tv, ok := info.Types[sel.X]; ok && ShortType(tv.Type) == resType {
					var rhs ast.Expr
					if len(x.Rhs) == len(x.Lhs) {
						rhs = x.Rhs[i]
					} else if len(x.Rhs) == 1 {
						rhs = x.Rhs[0]
					}
					out = append(out, cloneAssign{field: sel.Sel.Name, expr: rhs, pos: x.Pos(), keep: underKeep(x)})
				}
			}
		}
		return true
	})
	return out
}

// srcFieldOf: the field of the source parameter an expression reads (directly or through one local).
func srcFieldOf(fn *Func, e ast.Expr, srcType string, depth int) (field string, direct bool) {
	info := fn.Pkg.TypesInfo
	e = ast.Unparen(e)
	if sel, ok := e.(*ast.SelectorExpr); ok {
		if tv, ok := info.Types[sel.X]; ok && ShortType(tv.Type) == srcType {
			if _, isParam := ast.Unparen(sel.X).(*ast.Ident); isParam {
				return sel.Sel.Name, true
			}
		}
	}
	found := ""
	ast.Inspect(e, func(n ast.Node) bool {
		if sel, ok := n.(*ast.SelectorExpr); ok && found == "" {
			if tv, ok := info.Types[sel.X]; ok && ShortType(tv.Type) == srcType {
				found = sel.Sel.Name
			}
		}
		return found == ""
	})
	if found != "" {
		return found, false
	}
	if depth < 2 {
		if id, ok := e.(*ast.Ident); ok {
			obj := info.ObjectOf(id)
			// a range value over src.F
			var viaRange string
			ast.Inspect(fn.Decl.Body, func(n ast.Node) bool {
				if rs, ok := n.(*ast.RangeStmt); ok && rs.Value != nil && info.ObjectOf(rs.Value.(*ast.Ident)) == obj {
					if f, _ := srcFieldOf(fn, rs.X, srcType, depth+1); f != "" {
						viaRange = f
					}
				}
				return true
			})
			if viaRange != "" {
				return viaRange, false
			}
			if def := localDef(info, fn.Decl.Body, e); def != nil {
				f, _ := srcFieldOf(fn, def, srcType, depth+1)
				if f != "" {
					return f, false
				}
				// make([]byte, len(p.Meta)) + copy(meta, p.Meta)
				var viaCopy string
				ast.Inspect(fn.Decl.Body, func(n ast.Node) bool {
					if c, ok := n.(*ast.CallExpr); ok {
						if cid, ok := c.Fun.(*ast.Ident); ok && cid.Name == "copy" && len(c.Args) == 2 && ObjOf(info, c.Args[0]) == obj {
							if f, _ := srcFieldOf(fn, c.Args[1], srcType, depth+1); f != "" {
								viaCopy = f
							}
						}
					}
					return true
				})
				return viaCopy, false
			}
		}
		// a call whose argument reads the source: Checks(ctx, p.PreChecks, …), deep.MustCopy(a.Req)
		if c, ok := e.(*ast.CallExpr); ok {
			for _, a := range c.Args {
				if f, _ := srcFieldOf(fn, a, srcType, depth+1); f != "" {
					return f, false
				}
			}
		}
	}
	return "", false
}

var cloneSubjects = []struct{ fn, typ string }{
	{"Plan", "workflow.Plan"}, {"Checks", "workflow.Checks"}, {"Block", "workflow.Block"}, {"Sequence", "workflow.Sequence"}, {"Action", "workflow.Action"},
}

func rulesC18(r *Run) {
	r.Kind("R1", "K7")
	r.Kind("R2", "K7")
	r.Kind("R3", "K2")
	r.Kind("R4", "K2")
	// R5 (D37): the scrub pass every default clone runs leaves what it is not meant to touch as it was
	r.Kind("R5", "K9")
	ruleTimeExemptionOnElement(r, "R5")
	r.Expect("R5", 3)
	for _, s := range cloneSubjects {
		fn := r.fnByKey("R1", cloneKey(s.fn))
		if fn == nil {
			continue
		}
		st, _ := r.P.StructOf("workflow", strings.TrimPrefix(s.typ, "workflow."))
		if st == nil {
			r.Unresolved("R1", s.typ)
			continue
		}
		assigns := cloneAssigns(fn, s.typ)
		byField := map[string][]cloneAssign{}
		for _, a := range assigns {
			byField[a.field] = append(byField[a.field], a)
		}
		var missing, crossed []string
		for i := 0; i < st.NumFields(); i++ {
			f := st.Field(i)
			if !f.Exported() || engineOwned[f.Name()] || f.Name() == "Key" {
				continue
			}
			r.Evals++
			as := byField[f.Name()]
			if len(as) == 0 {
				missing = append(missing, f.Name())
				continue
			}
			for _, a := range as {
				if a.expr == nil {
					continue
				}
				src, _ := srcFieldOf(fn, a.expr, s.typ, 0)
				if src != "" && src != f.Name() {
					crossed = append(crossed, f.Name()+" ← "+src)
				}
			}
		}
		r.Check("R1", "clone-definition:"+s.fn, fn.Decl.Pos(), len(missing) == 0 && len(crossed) == 0, "clone.%s does not carry over definition fields %v; fields filled from a different source field: %v", s.fn, missing, crossed)
		// children cloned in an in-order loop
		for i := 0; i < st.NumFields(); i++ {
			f := st.Field(i)
			sl, ok := f.Type().(*types.Slice)
			if !ok || !workflowObjTypes[ShortType(sl.Elem())] {
				continue
			}
			okLoop := false
			ast.Inspect(fn.Decl.Body, func(n ast.Node) bool {
				switch x := n.(type) {
				case *ast.RangeStmt:
					if _, m := FieldPath(fn.Pkg.TypesInfo, x.X, s.typ, f.Name()); m {
						okLoop = true
					}
				case *ast.ForStmt:
					if ok, _ := inOrderLoopOver(fn.Pkg.TypesInfo, x, ast.NewIdent("_"), s.typ, f.Name()); ok || strings.Contains(ExprStr(x.Cond), "len(") && strings.Contains(ExprStr(x.Cond), "."+f.Name()+")") {
						if p, isInc := x.Post.(*ast.IncDecStmt); isInc && p.Tok == token.INC {
							okLoop = true
						}
					}
				}
				return true
			})
			r.Check("R1", "clone-order:"+s.fn+"."+f.Name(), fn.Decl.Pos(), okLoop, "clone.%s must clone %s in an ascending loop over the source list (order is part of the definition)", s.fn, f.Name())
		}

		// ---- R2 aliasing
		ruleAliasingIn(r, "R2", fn, s.typ, s.typ, "clone."+s.fn)

		// ---- R3 engine-owned only under keepState
		var outside, uncovered []string
		for i := 0; i < st.NumFields(); i++ {
			f := st.Field(i)
			if !engineOwned[f.Name()] {
				continue
			}
			as := byField[f.Name()]
			kept := false
			for _, a := range as {
				if a.keep {
					kept = true
				} else {
					outside = append(outside, f.Name())
				}
			}
			if !kept {
				uncovered = append(uncovered, f.Name())
			}
		}
		r.Check("R3", "engine-owned-only-with-keepState:"+s.fn, fn.Decl.Pos(), len(outside) == 0, "clone.%s assigns engine-owned fields %v outside the keepState branch: a default clone of a plan that already ran would carry them and be refused by Submit (or resume foreign state)", s.fn, outside)
		r.Check("R3", "keepState-covers-engine-owned:"+s.fn, fn.Decl.Pos(), len(uncovered) == 0, "with state retention clone.%s does not preserve %v", s.fn, uncovered)

		// ---- R4 nil results
		ruleNilOnlyWhenRemoving(r, "R4", fn, s.fn)
	}
	// helpers
	for _, h := range []struct{ fn, res, src string }{{"cloneState", "workflow.State", "workflow.State"}, {"cloneAttempts", "workflow.Attempt", "workflow.Attempt"}, {"cloneErr", "plugins.Error", "plugins.Error"}} {
		fn := r.fnByKey("R2", cloneKey(h.fn))
		if fn == nil {
			continue
		}
		ruleAliasingIn(r, "R2", fn, h.res, h.src, h.fn)
		// coverage of the helper's type
		parts := strings.SplitN(h.res, ".", 2)
		pkgRel := map[string]string{"workflow": "workflow", "plugins": "plugins"}[parts[0]]
		st, _ := r.P.StructOf(pkgRel, parts[1])
		if st == nil {
			continue
		}
		got := map[string]bool{}
		for _, a := range cloneAssigns(fn, h.res) {
			got[a.field] = true
		}
		var missing []string
		for i := 0; i < st.NumFields(); i++ {
			f := st.Field(i)
			if f.Exported() && !got[f.Name()] && !(h.fn == "cloneState" && f.Name() == "ETag") {
				missing = append(missing, f.Name())
			}
		}
		r.Check("R1", "clone-helper-coverage:"+h.fn, fn.Decl.Pos(), len(missing) == 0, "%s does not copy %v", h.fn, missing)
	}
	ruleLoopOverwrite(r, "R1")
	r.Expect("R1", 13)
	r.Expect("R2", 8)
	r.Expect("R3", 10)
	r.Expect("R4", 5)
}

var acceptedCopiers = map[string]bool{
	"github.com/brunoga/deep.MustCopy": true, "github.com/brunoga/deep.Copy": true,
	cloneKey("Plan"): true, cloneKey("Checks"): true, cloneKey("Block"): true, cloneKey("Sequence"): true, cloneKey("Action"): true,
	cloneKey("cloneState"): true, cloneKey("cloneAttempts"): true, cloneKey("cloneErr"): true,
}

// ruleAliasingIn: no reference-typed field of the result is assigned a value that is (or may be) shared with the source.
func ruleAliasingIn(r *Run, rule string, fn *Func, resType, srcType, label string) {
	info := fn.Pkg.TypesInfo
	var bad []string
	var bpos token.Pos = fn.Decl.Pos()
	n := 0
	for _, a := range cloneAssigns(fn, resType) {
		if a.expr == nil {
			continue
		}
		tv, ok := info.Types[a.expr]
		if !ok || !isRefType(tv.Type) {
			continue
		}
		n++
		r.Evals++
		e := ast.Unparen(a.expr)
		okCopy := false
		switch x := e.(type) {
		case *ast.CallExpr:
			if f, ok := calleeFunc(info, x); ok && acceptedCopiers[FuncKey(f)] {
				okCopy = true
			}
			if id, ok := x.Fun.(*ast.Ident); ok && (id.Name == "make" || (id.Name == "append" && freshAppend(info, x, fn.Decl.Body))) {
				okCopy = true
			}
		case *ast.Ident:
			if ValueKey(info, x) == "nil" {
				okCopy = true
				break
			}
			// a local built by make/clone call/append
			if def := localDef(info, fn.Decl.Body, x); def != nil {
				if c, ok := ast.Unparen(def).(*ast.CallExpr); ok {
					if id, ok := c.Fun.(*ast.Ident); ok && (id.Name == "make" || (id.Name == "append" && freshAppend(info, c, fn.Decl.Body))) {
						okCopy = true
					}
					if f, ok := calleeFunc(info, c); ok && acceptedCopiers[FuncKey(f)] {
						okCopy = true
					}
				}
				if u, ok := ast.Unparen(def).(*ast.UnaryExpr); ok && u.Op == token.AND {
					okCopy = true
				}
			}
		case *ast.UnaryExpr:
			if x.Op == token.AND {
				okCopy = true // &T{…}: a fresh value (its own fields are judged separately)
			}
		case *ast.CompositeLit:
			okCopy = true
		}
		if !okCopy {
			src, _ := srcFieldOf(fn, a.expr, srcType, 0)
			bad = append(bad, a.field+" = "+ExprStr(a.expr))
			bpos = a.pos
			_ = src
		}
	}
	// a conditional deep copy: every path that sets the field must use an accepted copier — covered above
	// because every assignment site is judged, not just one.
	sort.Strings(bad)
	r.Check(rule, "no-aliasing:"+label, bpos, len(bad) == 0, "%s assigns reference-typed fields without copying them: %v — the clone shares that memory with the original, so writing to (or scrubbing) one changes the other", label, bad)
	_ = n
}

// ruleCloneAliasing is the C17 view of the same rule for the values the scrubber then overwrites in place.
func ruleCloneAliasing(r *Run, rule string, fns []string) {
	for _, name := range fns {
		fn := r.fnByKey(rule, cloneKey(name))
		if fn == nil {
			continue
		}
		res := map[string]string{"cloneAttempts": "workflow.Attempt", "cloneErr": "plugins.Error", "Action": "workflow.Action"}[name]
		ruleAliasingIn(r, rule, fn, res, res, name)
	}
}

// ruleNilOnlyWhenRemoving: return nil only for a nil input, under removeCompleted, or (Sequence) with no actions.
func ruleNilOnlyWhenRemoving(r *Run, rule string, fn *Func, name string) {
	fl, paths, ok := r.flowPaths(rule, fn)
	if !ok {
		return
	}
	info := fl.Info
	bad := ""
	var bpos token.Pos = fn.Decl.Pos()
	for i := range paths {
		p := &paths[i]
		if p.Exit != ExitReturn {
			continue
		}
		var ret *Event
		for j := range p.Ev {
			if p.Ev[j].Kind == EvReturn {
				ret = &p.Ev[j]
			}
		}
		if ret == nil || len(ret.Rhs) != 1 || ValueKey(info, ret.Rhs[0]) != "nil" {
			continue
		}
		// nil may be returned only for a nil input or under the remove-completed option (for a Sequence also
		// when no action is left): assume none of these and the path must be impossible
		params := map[types.Object]bool{}
		for _, f := range fn.Decl.Type.Params.List {
			for _, nm := range f.Names {
				params[info.ObjectOf(nm)] = true
			}
		}
		atom := func(e ast.Expr) (string, bool, bool) {
			e = ast.Unparen(e)
			if x, op, ok := IsNilCompare(info, e); ok && params[ObjOf(info, x)] {
				return "input-nil", op == token.NEQ, true
			}
			if _, m := FieldPath(info, e, "", "removeCompleted"); m {
				return "removing", false, true
			}
			if be, ok := e.(*ast.BinaryExpr); ok && name == "Sequence" {
				if lc, ok := ast.Unparen(be.X).(*ast.CallExpr); ok && len(lc.Args) == 1 {
					if id, ok := lc.Fun.(*ast.Ident); ok && id.Name == "len" && mentionsField(info, lc.Args[0], "Actions") {
						if k, isC := ConstInt(info, be.Y); isC && k == 0 {
							switch be.Op {
							case token.EQL:
								return "no-actions-left", false, true
							case token.NEQ, token.GTR:
								return "no-actions-left", true, true
							}
						}
					}
				}
			}
			return "", false, false
		}
		excused := PathRefuted(fl, p, -1, map[string]bool{"input-nil": false, "removing": false, "no-actions-left": false}, atom)
		if !excused && bad == "" {
			bad, bpos = "clone."+name+" returns nil on a path that is neither the nil-input guard nor under the remove-completed option (guard "+ExitGuardKey(fl, p)+"): part of the definition silently disappears from the clone", ret.Pos
		}
	}
	r.Check(rule, "nil-only-when-removing:"+name, bpos, bad == "", "%s", orOK(bad, "nil only for nil input / removeCompleted"))
}

// ---------------------------------------------------------------------------
// C17-R3, R4

func ruleRenderScrubs(r *Run, rule string) {
	fn := r.fnByKey(rule, "workflow/utils/html/reports.Render")
	if fn == nil {
		return
	}
	fl, paths, ok := r.flowPaths(rule, fn)
	if !ok {
		return
	}
	scrubbers := map[string]bool{cloneKey("Secure"): true, "workflow.Secure": true}
	bad := ""
	used := ""
	n := 0
	for i := range paths {
		p := &paths[i]
		ti, si := -1, -1
		for j, e := range p.Ev {
			if e.Kind == EvCall && strings.HasSuffix(CalleeKey(e), ".ExecuteTemplate") && ti < 0 {
				ti = j
			}
			if e.Kind == EvCall && scrubbers[CalleeKey(e)] && si < 0 {
				si = j
				used = CalleeKey(e)
				// the argument is Render's plan parameter
			}
		}
		if ti < 0 {
			continue
		}
		n++
		if (si < 0 || si > ti) && bad == "" {
			bad = "a template is executed on a path where the plan has not been scrubbed first"
		}
	}
	_ = fl
	if n == 0 {
		r.Unresolved(rule, "Render executes a template")
		return
	}
	r.Check(rule, "Render:scrub-before-templates", fn.Decl.Pos(), bad == "", "%s", orOK(bad, "scrubbed by "+ShortFn(used)+" before the first ExecuteTemplate"))
	// coverage of the scrubber along the type paths Plan → Action.Req / Attempt.Resp
	need := []string{"Ptr", "Struct", "Slice", "Interface"}
	switch used {
	case cloneKey("Secure"):
		r.Pass(rule, "Render:scrubber-reaches-req-resp", fn.Decl.Pos(), "Render uses clone.Secure, whose kind coverage is decided by C17-R1")
	case "workflow.Secure":
		sf := r.fnByKey(rule, "workflow.secure")
		if sf == nil {
			return
		}
		handled := map[string]bool{}
		ast.Inspect(sf.Decl.Body, func(nn ast.Node) bool {
			be, ok := nn.(*ast.BinaryExpr)
			if ok && be.Op == token.EQL {
				if _, isK := isReflectKindCall(sf.Pkg.TypesInfo, be.X); isK {
					// only recursion conditions count: the comparison must guard a recursive call
					handled[kindName(sf.Pkg.TypesInfo, be.Y)] = true
				}
			}
			return true
		})
		// a kind is only covered if the recursion descends through it: workflow.secure recurses on
		// struct fields and pointers to structs only
		var missing []string
		for _, k := range need {
			if !handled[k] || k == "Slice" || k == "Interface" {
				if !(handled[k] && recursesThrough(sf, k)) {
					missing = append(missing, k)
				}
			}
		}
		r.Check(rule, "Render:scrubber-reaches-req-resp", sf.Decl.Pos(), len(missing) == 0,
			"reports.Render scrubs with workflow.Secure, which descends only into struct-typed fields (and takes Addr() of pointer fields): on the type path *Plan → Blocks([]) → *Block → Sequences([]) → *Sequence → Actions([]) → *Action → Req(any) / Attempts([]) → *Attempt → Resp(any) it does not handle kinds %v, so it never reaches a request or response and every secure-tagged value is rendered into actions/<id>.html", missing)
	default:
		r.Fail(rule, "Render:scrubber-reaches-req-resp", fn.Decl.Pos(), "Render does not pass the plan through a known scrubber")
	}
}

func recursesThrough(fn *Func, kind string) bool {
	// the recursion condition mentions the kind together with a recursive call in its body
	info := fn.Pkg.TypesInfo
	found := false
	ast.Inspect(fn.Decl.Body, func(n ast.Node) bool {
		is, ok := n.(*ast.IfStmt)
		if !ok {
			return true
		}
		mentions := false
		ast.Inspect(is.Cond, func(m ast.Node) bool {
			if be, ok := m.(*ast.BinaryExpr); ok && be.Op == token.EQL && kindName(info, be.Y) == kind {
				mentions = true
			}
			return true
		})
		if mentions && callsFunc(info, is.Body, FuncKey(fn.Obj)) {
			found = true
		}
		return true
	})
	return found
}

func ruleFindSecrets(r *Run, rule string) {
	fn := r.fnByKey(rule, "plugins/registry.findSecrets")
	if fn == nil {
		return
	}
	info := fn.Pkg.TypesInfo
	self := FuncKey(fn.Obj)
	for _, f := range r.P.sortedFuncs() {
		if f.Pkg == fn.Pkg {
			indexForConds(f.Decl)
		}
	}
	// (a) the recursive call inside the field loop is tested, only a failure returns
	// (the recursion may live in a same-package helper findSecrets delegates to)
	recFn, recKey := fn, self
	for _, e := range r.P.CallGraph().Callees(self) {
		if h := r.P.Funcs[e.Callee]; h != nil && h.Pkg == fn.Pkg && h != fn && h.Decl.Body != nil && callsFunc(h.Pkg.TypesInfo, h.Decl.Body, e.Callee) {
			recFn, recKey = h, e.Callee
		}
	}
	fl, paths, ok := r.flowPaths(rule, recFn)
	if ok {
		bad := ""
		n := 0
		all := append(append([]Path{}, paths...), fl.Truncated()...)
		for i := range all {
			p := &all[i]
			for ci, e := range p.Ev {
				if !IsCall(e, recKey) {
					continue
				}
				// only calls inside a loop iteration matter
				inLoop := false
				for x := ci - 1; x >= 0; x-- {
					if p.Ev[x].Kind == EvRange || (p.Ev[x].Kind == EvBranch && forConds[p.Ev[x].Cond]) {
						inLoop = true
						break
					}
				}
				if !inLoop {
					continue
				}
				n++
				u := UseOfResult(fl, p, ci)
				if u.Kind == "direct-return" && bad == "" {
					bad = "the recursive findSecrets call is returned directly from inside the field loop: scanning stops after the first nested struct, so a secret-looking field declared after it (or in a second nested struct) is never examined"
				}
				if (u.Verdict == "untested" || u.Kind == "discarded") && bad == "" && p.Exit == ExitReturn {
					bad = "the result of the recursive findSecrets call is ignored"
				}
			}
		}
		if n == 0 {
			bad = "findSecrets does not recurse into nested types"
		}
		r.Check(rule, "findSecrets:keeps-scanning-after-nested", fn.Decl.Pos(), bad == "", "%s", orOK(bad, "recursive result tested; only a failure returns"))
		// (a') round-4 seed C17-7: no field is passed over before the descent. An iteration of the field loop that goes on to the
		// next field without having handed the field's type to the recursion must be impossible for an embedded struct of an
		// unexported type (its exported fields are promoted, encoded and rendered like any other) and, for any other field, must
		// rest on a test that established the field unexported — never on a tag, a name or a kind.
		indexForConds(recFn.Decl)
		isHdr := func(e Event) bool {
			return (e.Kind == EvRange && e.Depth == 0) || (e.Kind == EvBranch && e.Depth == 0 && forConds[e.Cond])
		}
		embAtom := func(e ast.Expr) (string, bool, bool) {
			e = ast.Unparen(e)
			if c, ok := e.(*ast.CallExpr); ok {
				if sel, ok := ast.Unparen(c.Fun).(*ast.SelectorExpr); ok && sel.Sel.Name == "IsExported" {
					return "exported", false, true
				}
			}
			if sel, ok := e.(*ast.SelectorExpr); ok && sel.Sel.Name == "Anonymous" {
				return "anonymous", false, true
			}
			if sel, ok := e.(*ast.SelectorExpr); ok && sel.Sel.Name == "PkgPath" {
				return "", false, false
			}
			return "", false, false
		}
		badSkip := ""
		var skipPos token.Pos = recFn.Decl.Pos()
		iters := 0
		// the field loop is the loop some iteration of which descends
		fieldLoop := map[token.Pos]bool{}
		for i := range all {
			p := &all[i]
			var open []token.Pos
			for _, e := range p.Ev {
				if isHdr(e) {
					if e.Taken {
						open = append(open, e.Pos)
					}
					continue
				}
				if IsCall(e, recKey) && len(open) > 0 {
					fieldLoop[open[len(open)-1]] = true
				}
			}
		}
		for i := range all {
			p := &all[i]
			for j, h := range p.Ev {
				if !isHdr(h) || !h.Taken || !fieldLoop[h.Pos] {
					continue
				}
				end := -1
				for x := j + 1; x < len(p.Ev); x++ {
					if isHdr(p.Ev[x]) && p.Ev[x].Pos == h.Pos {
						end = x
						break
					}
				}
				if end < 0 {
					continue
				}
				iters++
				descended, unexp := false, false
				guard := ""
				for x := j + 1; x < end; x++ {
					e := p.Ev[x]
					if IsCall(e, recKey) {
						descended = true
					}
					if e.Kind == EvBranch && e.Cond != nil {
						guard = ExprStr(e.Cond)
						for _, l := range EventLiterals(fl.Info, e) {
							if c, ok := ast.Unparen(l.X).(*ast.CallExpr); ok {
								if sel, ok := ast.Unparen(c.Fun).(*ast.SelectorExpr); ok && sel.Sel.Name == "IsExported" && l.Val == "true" && !l.Eq {
									unexp = true
								}
							}
						}
					}
				}
				if descended || badSkip != "" {
					continue
				}
				if !unexp {
					badSkip, skipPos = "a field is passed over without its type being examined (last test: "+guard+"): a secret-looking name in the type behind it is never reported, the plugin is registered and the value is stored and rendered unscrubbed", p.Ev[end-1].Pos
				} else if !PathRefutedRange(fl, p, j+1, end, map[string]bool{"exported": false, "anonymous": true}, embAtom) {
					badSkip, skipPos = "an embedded struct whose type is not exported is passed over with the unexported fields (last test: "+guard+"): its exported fields are promoted — encoded, stored and rendered — so a secret-looking one among them is never reported", p.Ev[end-1].Pos
				}
			}
		}
		if iters == 0 {
			r.Unresolved(rule, "field loop iterations of "+ShortFn(recKey))
		} else {
			r.Check(rule, "findSecrets:no-field-passed-over", skipPos, badSkip == "", "%s", orOK(badSkip, "every field's type reaches the descent"))
		}
	}
	// (b) Register checks both Request() and Response() and a failure rejects
	reg := r.Fn(rule, "plugins/registry", "Register", "Register")
	if reg != nil {
		rfl, rp, ok := r.flowPaths(rule, reg)
		if ok {
			bad := ""
			seen := map[string]bool{}
			for i := range rp {
				p := &rp[i]
				if p.Exit != ExitReturn {
					continue
				}
				var ret *Event
				for j := range p.Ev {
					if p.Ev[j].Kind == EvReturn {
						ret = &p.Ev[j]
					}
				}
				if ret == nil {
					continue
				}
				isNil, _ := ReturnsNilLast(rfl.Info, *ret)
				okReq, okResp := false, false
				for ci, e := range p.Ev {
					if !IsCall(e, self) || len(e.Call.Args) < 1 {
						continue
					}
					// where the examined value comes from: p.Request() / p.Response(), directly or through a local
					src := ""
					if c, ok := ast.Unparen(OriginOnPath(rfl.Info, p, ci, e.Call.Args[0])).(*ast.CallExpr); ok {
						if f, ok := calleeFunc(rfl.Info, c); ok {
							src = FuncKey(f)
						}
					}
					v := UseOfResult(rfl, p, ci).Verdict
					if src == "plugins.Plugin.Request" {
						seen["req"] = true
						okReq = v == "nil"
					}
					if src == "plugins.Plugin.Response" {
						seen["resp"] = true
						okResp = v == "nil"
					}
				}
				if isNil && (!okReq || !okResp) && bad == "" {
					bad = "Register accepts a plugin on a path where findSecrets passed for Request()=" + boolStr(okReq) + ", Response()=" + boolStr(okResp)
				}
			}
			if !seen["req"] || !seen["resp"] {
				bad = orOK(bad, "Register does not run findSecrets on both Request() and Response()")
			}
			r.Check(rule, "Register:request-and-response-checked", reg.Decl.Pos(), bad == "", "%s", orOK(bad, "both checked; a finding rejects the plugin"))
		}
	}
	// (c) the descent is by type: kinds tested on a reflect.Type, covering Ptr/Slice/Map/Struct
	onType := map[string]bool{}
	onValue := map[string]bool{}
	ast.Inspect(fn.Decl.Body, func(n ast.Node) bool {
		be, ok := n.(*ast.BinaryExpr)
		if !ok || (be.Op != token.EQL && be.Op != token.NEQ) {
			return true
		}
		subj, isK := isReflectKindCall(info, be.X)
		if !isK {
			return true
		}
		k := kindName(info, be.Y)
		if tv, ok := info.Types[subj]; ok && TypeKey(tv.Type) == "reflect.Type" {
			onType[k] = true
		} else {
			onValue[k] = true
		}
		return true
	})
	ast.Inspect(fn.Decl.Body, func(n ast.Node) bool {
		sw, ok := n.(*ast.SwitchStmt)
		if !ok || sw.Tag == nil {
			return true
		}
		subj, isK := isReflectKindCall(info, sw.Tag)
		if !isK {
			return true
		}
		tv, ok := info.Types[subj]
		for _, cl := range sw.Body.List {
			for _, e := range cl.(*ast.CaseClause).List {
				if ok && TypeKey(tv.Type) == "reflect.Type" {
					onType[kindName(info, e)] = true
				} else {
					onValue[kindName(info, e)] = true
				}
			}
		}
		return true
	})
	// helpers in the same package reached from findSecrets
	helperReach := r.P.CallGraph().Reach([]string{self}, func(e CallEdge) bool { return pkgOfKey(e.Callee) == pkgOfKey(self) })
	var helperKeys []string
	for k := range helperReach {
		helperKeys = append(helperKeys, k)
	}
	sort.Strings(helperKeys)
	for _, hk := range helperKeys {
		if h := r.P.Funcs[hk]; h != nil && h.Pkg == fn.Pkg && h != fn && h.Decl.Body != nil {
			hinfo := h.Pkg.TypesInfo
			ast.Inspect(h.Decl.Body, func(n ast.Node) bool {
				switch x := n.(type) {
				case *ast.BinaryExpr:
					if subj, isK := isReflectKindCall(hinfo, x.X); isK {
						if tv, ok := hinfo.Types[subj]; ok && TypeKey(tv.Type) == "reflect.Type" {
							onType[kindName(hinfo, x.Y)] = true
						}
					}
				case *ast.SwitchStmt:
					if x.Tag != nil {
						if subj, isK := isReflectKindCall(hinfo, x.Tag); isK {
							if tv, ok := hinfo.Types[subj]; ok && TypeKey(tv.Type) == "reflect.Type" {
								for _, cl := range x.Body.List {
									for _, ce := range cl.(*ast.CaseClause).List {
										onType[kindName(hinfo, ce)] = true
									}
								}
							}
						}
					}
				}
				return true
			})
		}
	}
	var missing []string
	for _, k := range []string{"Struct", "Ptr", "Slice", "Map"} {
		if !onType[k] {
			missing = append(missing, k)
		}
	}
	r.Check(rule, "findSecrets:descends-by-type", fn.Decl.Pos(), len(missing) == 0,
		"findSecrets inspects the (empty) value Request()/Response() returns and descends by the field's VALUE kind (%v): a nil *T field ends the descent (Elem() of a nil pointer is invalid) and slice/map element types are never looked at, so a secret-looking field nested behind a pointer, slice or map is accepted without a secure/ignore tag. Kinds not handled on reflect.Type: %v", sortedKeys(onValue), missing)
}

// ruleLoopOverwrite: inside a loop of the clone package, a field of a loop-invariant destination
// must not be plainly reassigned in every iteration (only the last iteration would survive):
// it has to accumulate (append / mention itself), be indexed by the loop variable, or the
// destination has to advance.
func ruleLoopOverwrite(r *Run, rule string) {
	pkg := r.P.Pkgs[pkgClone]
	if pkg == nil {
		r.Unresolved(rule, pkgClone)
		return
	}
	info := pkg.TypesInfo
	bad := ""
	var bpos token.Pos
	n := 0
	for _, fn := range r.P.sortedFuncs() {
		if fn.Pkg != pkg || fn.Decl.Body == nil || strings.HasSuffix(r.P.Fset.Position(fn.Decl.Pos()).Filename, "secure.go") {
			continue
		}
		ast.Inspect(fn.Decl.Body, func(nd ast.Node) bool {
			var body *ast.BlockStmt
			var loopVars []types.Object
			switch x := nd.(type) {
			case *ast.ForStmt:
				body = x.Body
				if as, ok := x.Init.(*ast.AssignStmt); ok {
					for _, l := range as.Lhs {
						if o := ObjOf(info, l); o != nil {
							loopVars = append(loopVars, o)
						}
					}
				}
			case *ast.RangeStmt:
				body = x.Body
				for _, e := range []ast.Expr{x.Key, x.Value} {
					if e != nil {
						if o := ObjOf(info, e); o != nil {
							loopVars = append(loopVars, o)
						}
					}
				}
			}
			if body == nil {
				return true
			}
			n++
			// objects assigned (as plain identifiers) or declared inside the loop
			local := map[types.Object]bool{}
			for _, v := range loopVars {
				local[v] = true
			}
			ast.Inspect(body, func(m ast.Node) bool {
				if as, ok := m.(*ast.AssignStmt); ok {
					for _, l := range as.Lhs {
						if id, ok := ast.Unparen(l).(*ast.Ident); ok {
							if o := info.ObjectOf(id); o != nil {
								local[o] = true
							}
						}
					}
				}
				return true
			})
			ast.Inspect(body, func(m ast.Node) bool {
				as, ok := m.(*ast.AssignStmt)
				if !ok || as.Tok != token.ASSIGN {
					return true
				}
				for i, l := range as.Lhs {
					sel, ok := ast.Unparen(l).(*ast.SelectorExpr)
					if !ok {
						continue // indexed or plain identifiers are fine
					}
					root := ast.Unparen(sel.X)
					for {
						if s2, ok := root.(*ast.SelectorExpr); ok {
							root = ast.Unparen(s2.X)
							continue
						}
						break
					}
					ro := ObjOf(info, root)
					if ro == nil || local[ro] {
						continue // the destination advances or is per-iteration
					}
					var rhs ast.Expr
					if len(as.Rhs) == len(as.Lhs) {
						rhs = as.Rhs[i]
					} else if len(as.Rhs) == 1 {
						rhs = as.Rhs[0]
					}
					if rhs != nil && strings.Contains(ExprStr(rhs), ExprStr(l)) {
						continue // accumulates (append(x.F, …))
					}
					// does the right-hand side depend on the iteration at all?
					dep := false
					for o := range local {
						if rhs != nil && mentionsObj(info, rhs, o) {
							dep = true
						}
					}
					if dep && bad == "" {
						bad, bpos = fn.Obj.Name()+" assigns "+ExprStr(l)+" = "+ExprStr(rhs)+" in every iteration of a loop while the destination does not advance: only the last iteration survives (a chain or list is cut down to one element)", as.Pos()
					}
				}
				return true
			})
			return true
		})
	}
	if n == 0 {
		r.Unresolved(rule, "loops in the clone package")
		return
	}
	r.Check(rule, "clone:no-loop-overwrite", bpos, bad == "", "%s", orOK(bad, "no loop overwrites a fixed destination"))
}

// ruleSecureNoSkip: in secureStruct every exported field is either overwritten (secure tag) or reaches the
// kind dispatch / a descent; the only field that may be passed over before that is an unexported one.
// (A guard such as `if tags.hasTag("ignore") { continue }` hides every secure-tagged value nested below it.)
func ruleSecureNoSkip(r *Run, rule string) {
	fn := r.fnByKey(rule, cloneKey("secureStruct"))
	if fn == nil {
		return
	}
	fl, paths, ok := r.flowPaths(rule, fn)
	if !ok {
		return
	}
	info := fl.Info
	indexForConds(fn.Decl)
	isHeader := func(e Event) bool {
		return (e.Kind == EvRange && e.Depth == 0) || (e.Kind == EvBranch && e.Depth == 0 && forConds[e.Cond])
	}
	mentionsKind := func(e ast.Expr) bool {
		found := false
		if e == nil {
			return false
		}
		ast.Inspect(e, func(n ast.Node) bool {
			if x, ok := n.(ast.Expr); ok {
				// the kind of the field's VALUE (the kind of a StructField's type is part of the embedded-struct test)
				if recv, isK := isReflectKindCall(info, x); isK {
					if tv, ok := info.Types[recv]; ok && TypeKey(tv.Type) == "reflect.Value" {
						found = true
					}
				}
			}
			return !found
		})
		return found
	}
	bad, badEmb := "", ""
	var bpos, posEmb = fn.Decl.Pos(), fn.Decl.Pos()
	n := 0
	all := append(append([]Path{}, paths...), fl.Truncated()...)
	for i := range all {
		p := &all[i]
		for j, h := range p.Ev {
			if !isHeader(h) || !h.Taken {
				continue
			}
			// the iteration: up to the next header event of the same loop
			end := -1
			for x := j + 1; x < len(p.Ev); x++ {
				if isHeader(p.Ev[x]) && p.Ev[x].Pos == h.Pos {
					end = x
					break
				}
			}
			if end < 0 {
				continue // the path leaves the function (or is cut) inside this iteration
			}
			n++
			handled, unexported := false, false
			guard := ""
			for x := j + 1; x < end; x++ {
				e := p.Ev[x]
				switch e.Kind {
				case EvCall:
					k := CalleeKey(e)
					if k == "reflect.Value.SetString" || k == "reflect.Value.Set" || k == "reflect.Value.SetZero" {
						handled = true
					}
					if strings.HasPrefix(k, pkgClone+".secure") {
						handled = true
					}
				case EvBranch:
					if e.Cond == nil {
						continue
					}
					if mentionsKind(e.Cond) || mentionsKind(e.Tag) {
						// the dispatch on the field's own kind (the test of the secure-tagged field's String kind comes after the tag)
						if !strings.Contains(ExprStr(e.Cond), "reflect.String") || e.Tag != nil {
							handled = true
						}
					}
					for _, l := range EventLiterals(info, e) {
						if c, ok := ast.Unparen(l.X).(*ast.CallExpr); ok {
							if sel, ok := ast.Unparen(c.Fun).(*ast.SelectorExpr); ok && sel.Sel.Name == "IsExported" && l.Val == "true" && !l.Eq {
								unexported = true
							}
						}
					}
					guard = ExprStr(e.Cond)
				}
			}
			if !handled && !unexported && bad == "" {
				bad, bpos = "an exported field without the secure tag is passed over before its kind is examined (last test: "+guard+"): every secure-tagged value nested below such a field survives clone/Secure and is rendered", p.Ev[end-1].Pos
			}
			// D42: "not exported" does not justify passing over an embedded struct — the exported fields of an embedded
			// struct of an unexported type are promoted, encoded and rendered like any other. Assume such a field and
			// refute: the iteration that passes it over must be impossible.
			if !handled && unexported && badEmb == "" {
				embAtom := func(e ast.Expr) (string, bool, bool) {
					e = ast.Unparen(e)
					if c, ok := e.(*ast.CallExpr); ok {
						if sel, ok := ast.Unparen(c.Fun).(*ast.SelectorExpr); ok && sel.Sel.Name == "IsExported" {
							return "exported", false, true
						}
					}
					if sel, ok := e.(*ast.SelectorExpr); ok && sel.Sel.Name == "Anonymous" {
						return "anonymous", false, true
					}
					if be, ok := e.(*ast.BinaryExpr); ok && (be.Op == token.EQL || be.Op == token.NEQ) {
						for _, pair := range [][2]ast.Expr{{be.X, be.Y}, {be.Y, be.X}} {
							if _, isK := isReflectKindCall(info, pair[0]); isK && strings.HasSuffix(ExprStr(pair[1]), "reflect.Struct") {
								return "struct-kind", be.Op == token.NEQ, true
							}
						}
					}
					return "", false, false
				}
				if !PathRefutedRange(fl, p, j+1, end, map[string]bool{"exported": false, "anonymous": true, "struct-kind": true}, embAtom) {
					badEmb, posEmb = "an embedded struct whose type is not exported is passed over with the unexported fields (last test: "+guard+"): its exported fields are promoted — encoded, stored and rendered — so a secure-tagged one among them survives clone/Secure", p.Ev[end-1].Pos
				}
			}
		}
	}
	if n == 0 {
		r.Unresolved(rule, "secureStruct field loop iterations")
		return
	}
	r.Check(rule, "secureStruct:no-field-skipped", bpos, bad == "", "%s", orOK(bad, "only unexported fields are passed over; tagged ones are overwritten, the others dispatched by kind"))
	r.Check(rule, "secureStruct:embedded-struct-not-skipped", posEmb, badEmb == "", "%s", orOK(badEmb, "an embedded struct is examined whatever the name of its type"))
}

// callsHasTag: the expression calls tags.hasTag with a constant argument of this value (literal or named constant).
func callsHasTag(info *types.Info, e ast.Expr, tag string) bool {
	found := false
	ast.Inspect(e, func(n ast.Node) bool {
		if c, ok := n.(*ast.CallExpr); ok && len(c.Args) == 1 {
			if sel, ok := ast.Unparen(c.Fun).(*ast.SelectorExpr); ok && sel.Sel.Name == "hasTag" {
				if v, ok := ConstString(info, c.Args[0]); ok && v == tag {
					found = true
				}
			}
		}
		return !found
	})
	return found
}

// ruleTimeExemptionOnElement (D37): the scrubber leaves time.Time alone ("don't mess with time.Time") — it must decide that
// about the value it is about to rebuild, not about its container. In every kind dispatch `switch X.Kind()` of the clone
// package, a time.Time exemption inside `case reflect.Struct` (a type assertion Y.Interface().(time.Time) or a
// comparison of Y.Type()) tests Y = X, or the interface value X was unpacked from (X := Y.Elem(): Y.Interface() is
// then X's value). secureSlice and secureMap tested the slice/map: the guard never fired, the element was rebuilt
// from its exported fields, and every time in a []time.Time or map[K]time.Time came out zero.
func ruleTimeExemptionOnElement(r *Run, rule string) {
	pkg := r.P.Pkgs[pkgClone]
	if pkg == nil {
		r.Unresolved(rule, "package clone")
		return
	}
	info := pkg.TypesInfo
	n, nEx := 0, 0
	for _, fn := range r.P.sortedFuncs() {
		if fn.Pkg != pkg || fn.Orig == nil || fn.Orig.Body == nil {
			continue
		}
		if strings.HasSuffix(r.P.Fset.Position(fn.Decl.Pos()).Filename, "_test.go") {
			continue
		}
		body := fn.Orig.Body
		// single definitions of locals: X := <expr>
		defs := map[types.Object]ast.Expr{}
		ast.Inspect(body, func(x ast.Node) bool {
			if as, ok := x.(*ast.AssignStmt); ok && as.Tok == token.DEFINE && len(as.Lhs) == len(as.Rhs) {
				for i, l := range as.Lhs {
					if o := ObjOf(info, l); o != nil {
						defs[o] = as.Rhs[i]
					}
				}
			}
			return true
		})
		ast.Inspect(body, func(x ast.Node) bool {
			sw, ok := x.(*ast.SwitchStmt)
			if !ok || sw.Tag == nil {
				return true
			}
			subj, isK := isReflectKindCall(info, sw.Tag)
			if !isK {
				return true
			}
			for _, c := range sw.Body.List {
				cc := c.(*ast.CaseClause)
				isStruct := false
				for _, v := range cc.List {
					if strings.HasSuffix(ExprStr(v), "reflect.Struct") {
						isStruct = true
					}
				}
				if !isStruct {
					continue
				}
				// a statement of the case that passes the struct over (if … { continue / return }) may only do so for
				// time.Time (round-3 seed C17-5: "any type with MarshalText" also exempts user structs with secure fields)
				for _, st := range cc.Body {
					is, ok := st.(*ast.IfStmt)
					if !ok || len(is.Body.List) != 1 || is.Else != nil {
						continue
					}
					skips := false
					switch b := is.Body.List[0].(type) {
					case *ast.BranchStmt:
						skips = b.Tok == token.CONTINUE
					case *ast.ReturnStmt:
						skips = true
					}
					if !skips {
						continue
					}
					isTimeTest := false
					ast.Inspect(is, func(y ast.Node) bool {
						switch v := y.(type) {
						case *ast.TypeAssertExpr:
							if v.Type != nil && ExprStr(v.Type) == "time.Time" {
								isTimeTest = true
							}
						case *ast.BinaryExpr:
							if v.Op == token.EQL {
								for _, side := range []ast.Expr{v.X, v.Y} {
									if o := ObjOf(info, side); o != nil {
										if vs := pkgVarInit(pkg, o); vs != nil && strings.Contains(ExprStr(vs), "time.Time") {
											isTimeTest = true
										}
									}
									if strings.Contains(ExprStr(side), "time.Time{}") {
										isTimeTest = true
									}
								}
							}
						}
						return true
					})
					nEx++
					r.Check(rule, "struct-exempt-only-if-time:"+ShortFn(fn.Key)+":"+ExprStr(subj), is.Pos(), isTimeTest,
						"in %s a struct value is passed over unscrubbed on the condition %s, which is not the time.Time test: any struct for which it holds keeps its secure-tagged fields", ShortFn(fn.Key), ExprStr(is.Cond))
				}
				for _, st := range cc.Body {
					ast.Inspect(st, func(y ast.Node) bool {
						var tested ast.Expr
						viaType := false // the test compares Y.Type(): the type of an interface-kind value is the interface type, not that of what it holds
						switch v := y.(type) {
						case *ast.TypeAssertExpr:
							if v.Type != nil && ExprStr(v.Type) == "time.Time" {
								if call, ok := ast.Unparen(v.X).(*ast.CallExpr); ok {
									if sel, ok := ast.Unparen(call.Fun).(*ast.SelectorExpr); ok && sel.Sel.Name == "Interface" {
										tested = sel.X
									}
								}
							}
						case *ast.BinaryExpr:
							if v.Op == token.EQL || v.Op == token.NEQ {
								for _, pair := range [][2]ast.Expr{{v.X, v.Y}, {v.Y, v.X}} {
									if call, ok := ast.Unparen(pair[0]).(*ast.CallExpr); ok && len(call.Args) == 0 {
										if sel, ok := ast.Unparen(call.Fun).(*ast.SelectorExpr); ok && sel.Sel.Name == "Type" && strings.Contains(strings.ToLower(ExprStr(pair[1])), "time") {
											tested = sel.X
											viaType = true
										}
									}
								}
							}
						}
						if tested == nil {
							return true
						}
						n++
						okT := ExprStr(tested) == ExprStr(subj)
						if !okT {
							// X := Y.Elem() with the test on Y (an interface value: Y.Interface() is X's value)
							if o := ObjOf(info, subj); o != nil && defs[o] != nil {
								d := ExprStr(defs[o])
								if (d == ExprStr(tested)+".Elem()" && !viaType) || d == ExprStr(tested) {
									okT = true
								}
							}
						}
						r.Check(rule, "time-exemption-tests-the-dispatched-value:"+ShortFn(fn.Key)+":"+ExprStr(subj), y.Pos(), okT,
							"in %s the kind dispatch is on %s but the time.Time exemption tests %s: the guard decides about another value (the container), so a time.Time element is never recognised, gets rebuilt from its exported fields and comes out zero", ShortFn(fn.Key), ExprStr(subj), ExprStr(tested))
						return true
					})
				}
			}
			return true
		})
	}
	if n == 0 && nEx == 0 {
		r.Unresolved(rule, "time.Time exemptions in the kind dispatches of package clone")
	}
}

// pkgVarInit: the initialiser of a package-level variable.
func pkgVarInit(pkg *packages.Package, o types.Object) ast.Expr {
	var out ast.Expr
	for _, f := range pkg.Syntax {
		for _, d := range f.Decls {
			gd, ok := d.(*ast.GenDecl)
			if !ok {
				continue
			}
			for _, sp := range gd.Specs {
				vs, ok := sp.(*ast.ValueSpec)
				if !ok {
					continue
				}
				for i, nm := range vs.Names {
					if pkg.TypesInfo.ObjectOf(nm) == o && i < len(vs.Values) {
						out = vs.Values[i]
					}
				}
			}
		}
	}
	return out
}

// freshAppend: append(dst, …) yields memory of its own only when dst cannot lend its backing array: nil, a conversion
// of nil, an empty literal, a make(…) result, a local built that way, or a full slice expression with zero capacity
// (x[:0:0]). append(x[:0], x...) — round-3 seed C18-6 — copies x onto itself and returns x's own array.
func freshAppend(info *types.Info, c *ast.CallExpr, body *ast.BlockStmt) bool {
	if len(c.Args) == 0 {
		return false
	}
	d := ast.Unparen(c.Args[0])
	if ValueKey(info, d) == "nil" {
		return true
	}
	switch x := d.(type) {
	case *ast.CompositeLit:
		return len(x.Elts) == 0
	case *ast.CallExpr:
		if id, ok := ast.Unparen(x.Fun).(*ast.Ident); ok {
			if b, ok := info.ObjectOf(id).(*types.Builtin); ok && b.Name() == "make" {
				return true
			}
		}
		if len(x.Args) == 1 && ValueKey(info, x.Args[0]) == "nil" {
			return true // []T(nil)
		}
		// append(append(nil…)…)
		if id, ok := ast.Unparen(x.Fun).(*ast.Ident); ok && id.Name == "append" {
			return freshAppend(info, x, body)
		}
	case *ast.SelectorExpr:
		// a field of an object built in this function (np.Blocks = append(np.Blocks, nb)): the result's own slice
		root := ast.Expr(x)
		for {
			sel, ok := ast.Unparen(root).(*ast.SelectorExpr)
			if !ok {
				break
			}
			root = sel.X
		}
		if id, ok := ast.Unparen(root).(*ast.Ident); ok && body != nil {
			if o := info.ObjectOf(id); o != nil && body.Pos() <= o.Pos() && o.Pos() <= body.End() {
				return true
			}
		}
		return false
	case *ast.SliceExpr:
		if x.Slice3 && x.Max != nil {
			if k, ok := ConstInt(info, x.Max); ok && k == 0 {
				return true
			}
		}
		return false
	case *ast.Ident:
		// a local declared without a value (`var out []T`) or built by make
		if o, ok := info.ObjectOf(x).(*types.Var); ok && !o.IsField() && o.Parent() != nil && o.Pkg() != nil && o.Parent() != o.Pkg().Scope() {
			return true // a local accumulator; what it was built from is judged where it is defined
		}
	}
	return false
}

// ruleScrubLoopsRunToEnd (second mutation sweep): the scrubber looks at every field, element and map entry. In the functions of
// the clone package that Secure reaches, no `break` leaves a loop over fields/elements/keys and no `return` sits inside
// one (a break that belongs to a switch or select inside the loop is not a break of the loop; function literals are
// separate). `continue` → `break` behind the unexported-field test, or behind the time.Time exemption, left every later
// field or entry unscrubbed and passed every test.
func ruleScrubLoopsRunToEnd(r *Run, rule string) {
	pkg := r.P.Pkgs[pkgClone]
	if pkg == nil {
		r.Unresolved(rule, "package clone")
		return
	}
	g := r.P.CallGraph()
	reach := g.Reach([]string{cloneKey("Secure")}, func(e CallEdge) bool { return strings.HasPrefix(e.Callee, pkgClone+".") })
	reach[cloneKey("Secure")] = ""
	n := 0
	var keys []string
	for k := range reach {
		keys = append(keys, k)
	}
	sort.Strings(keys)
	for _, k := range keys {
		fn := r.P.Funcs[k]
		if fn == nil || fn.Orig == nil || fn.Orig.Body == nil {
			continue
		}
		// walk with a stack of break targets
		var visit func(n ast.Node, loops int, target []string) string
		visit = func(node ast.Node, loops int, target []string) string {
			bad := ""
			ast.Inspect(node, func(x ast.Node) bool {
				if x == nil || bad != "" {
					return false
				}
				if x == node {
					return true
				}
				switch v := x.(type) {
				case *ast.FuncLit:
					return false
				case *ast.ForStmt:
					bad = visit(v.Body, loops+1, append(append([]string{}, target...), "loop"))
					return false
				case *ast.RangeStmt:
					bad = visit(v.Body, loops+1, append(append([]string{}, target...), "loop"))
					return false
				case *ast.SwitchStmt:
					bad = visit(v.Body, loops, append(append([]string{}, target...), "switch"))
					return false
				case *ast.TypeSwitchStmt:
					bad = visit(v.Body, loops, append(append([]string{}, target...), "switch"))
					return false
				case *ast.SelectStmt:
					bad = visit(v.Body, loops, append(append([]string{}, target...), "switch"))
					return false
				case *ast.BranchStmt:
					if v.Tok == token.BREAK && v.Label == nil && len(target) > 0 && target[len(target)-1] == "loop" {
						bad = "a break leaves the loop at line " + itoa(r.P.Fset.Position(v.Pos()).Line)
					}
					if v.Tok == token.BREAK && v.Label != nil && loops > 0 {
						bad = "a labelled break at line " + itoa(r.P.Fset.Position(v.Pos()).Line)
					}
					if v.Tok == token.GOTO && loops > 0 {
						bad = "a goto inside a loop at line " + itoa(r.P.Fset.Position(v.Pos()).Line)
					}
				case *ast.ReturnStmt:
					if loops > 0 {
						bad = "a return inside the loop at line " + itoa(r.P.Fset.Position(v.Pos()).Line)
					}
				}
				return true
			})
			return bad
		}
		hasLoop := false
		ast.Inspect(fn.Orig.Body, func(x ast.Node) bool {
			switch x.(type) {
			case *ast.ForStmt, *ast.RangeStmt:
				hasLoop = true
			}
			return !hasLoop
		})
		if !hasLoop {
			continue
		}
		n++
		bad := visit(fn.Orig.Body, 0, nil)
		r.Check(rule, "scrub-loop-runs-to-end:"+ShortFn(k), fn.Decl.Pos(), bad == "", "in %s %s: the fields, elements or entries behind that point are never examined, their secure-tagged values survive", ShortFn(k), bad)
	}
	if n == 0 {
		r.Unresolved(rule, "loops in the functions Secure reaches")
	}
}

// ruleScrubbedCopyStoredBack (second mutation sweep): where the scrubber has to work on a COPY — a struct held by value in a map,
// slice or interface cannot be changed in place, so it is rebuilt with noAddrStruct or reflect.New — the scrubbed copy
// is stored back (SetMapIndex / Set) in the same case of the kind dispatch. Without the store the original, unscrubbed
// value stays where it was.
func ruleScrubbedCopyStoredBack(r *Run, rule string) {
	pkg := r.P.Pkgs[pkgClone]
	if pkg == nil {
		r.Unresolved(rule, "package clone")
		return
	}
	info := pkg.TypesInfo
	n := 0
	for _, fn := range r.P.sortedFuncs() {
		if fn.Pkg != pkg || fn.Orig == nil || fn.Orig.Body == nil || !strings.HasPrefix(fn.Obj.Name(), "secure") {
			continue
		}
		ord := 0
		ast.Inspect(fn.Orig.Body, func(x ast.Node) bool {
			cc, ok := x.(*ast.CaseClause)
			if !ok {
				return true
			}
			// the copies made in this case
			var copies []types.Object
			for _, st := range cc.Body {
				ast.Inspect(st, func(y ast.Node) bool {
					as, ok := y.(*ast.AssignStmt)
					if !ok || len(as.Lhs) != 1 || len(as.Rhs) != 1 {
						return true
					}
					rhs := ExprStr(as.Rhs[0])
					if strings.HasPrefix(rhs, "noAddrStruct(") || strings.HasPrefix(rhs, "reflect.New(") {
						if o := ObjOf(info, as.Lhs[0]); o != nil {
							copies = append(copies, o)
						}
					}
					return true
				})
			}
			if len(copies) == 0 {
				return true
			}
			n++
			ord++
			stored := false
			for _, st := range cc.Body {
				ast.Inspect(st, func(y ast.Node) bool {
					c, ok := y.(*ast.CallExpr)
					if !ok {
						return true
					}
					sel, ok := ast.Unparen(c.Fun).(*ast.SelectorExpr)
					if !ok || (sel.Sel.Name != "SetMapIndex" && sel.Sel.Name != "Set") {
						return true
					}
					// the receiver must not be the copy itself (cp.Set(elem) fills the copy, it does not store it)
					for _, cp := range copies {
						if ObjOf(info, rootIdent(sel.X)) == cp {
							return true
						}
					}
					for _, a := range c.Args {
						for _, cp := range copies {
							if mentionsObj(info, a, cp) {
								stored = true
							}
						}
					}
					return true
				})
			}
			r.Check(rule, "scrubbed-copy-stored-back:"+ShortFn(fn.Key)+"#"+itoa(ord), cc.Pos(), stored,
				"in %s a case of the kind dispatch scrubs a copy of the value (noAddrStruct / reflect.New) and never stores the copy back with Set or SetMapIndex: the unscrubbed original stays in the map, slice or interface", ShortFn(fn.Key))
			return true
		})
	}
	if n == 0 {
		r.Unresolved(rule, "kind-dispatch cases that scrub a copy")
	}
}

// ruleScrubberReadsNoSharedState (round-4 seed C17-8): whether a field is scrubbed is decided by the tag of THAT field of THAT type.
// The functions Secure reaches may compare with a package-level value (timeType) but keep nothing between calls: a cache keyed
// by anything less than the reflect.Type itself (a name — anonymous and function-local types share theirs) answers for one
// type with the tags of another, and a secure-tagged field goes unscrubbed. The scrubber only reads the package-level variables
// of package clone (a comparison with timeType, a dispatch table filled once): it assigns none, and calls no pointer-receiver
// method on one.
func ruleScrubberReadsNoSharedState(r *Run, rule string) {
	pkg := r.P.Pkgs[pkgClone]
	if pkg == nil {
		r.Unresolved(rule, "package clone")
		return
	}
	info := pkg.TypesInfo
	reach := r.P.CallGraph().Reach([]string{cloneKey("Secure")}, func(e CallEdge) bool { return strings.HasPrefix(e.Callee, pkgClone+".") })
	reach[cloneKey("Secure")] = ""
	bad := ""
	var bpos token.Pos
	n := 0
	for k := range reach {
		fn := r.P.Funcs[k]
		if fn == nil || fn.Decl.Body == nil || fn.Pkg != pkg {
			continue
		}
		n++
		var stack []ast.Node
		ast.Inspect(fn.Decl.Body, func(x ast.Node) bool {
			if x == nil {
				stack = stack[:len(stack)-1]
				return true
			}
			stack = append(stack, x)
			id, ok := x.(*ast.Ident)
			if !ok {
				return true
			}
			v, isVar := info.Uses[id].(*types.Var)
			if !isVar || v.Pkg() != pkg.Types || v.Parent() != pkg.Types.Scope() {
				return true
			}
			// reading is fine (a comparison with timeType, a dispatch table filled once); keeping state is not: the variable is
			// assigned, indexed on the left of an assignment, incremented, has its address taken, or a pointer-receiver
			// method (sync.Map.Load/Store, a mutex) is called on it
			okUse := true
			for k := len(stack) - 2; k >= 0 && okUse; k-- {
				switch a := stack[k].(type) {
				case *ast.AssignStmt:
					for _, l := range a.Lhs {
						if containsNode(l, id) {
							okUse = false
						}
					}
				case *ast.IncDecStmt:
					okUse = false
				case *ast.UnaryExpr:
					if a.Op == token.AND {
						okUse = false
					}
				case *ast.SelectorExpr:
					if ast.Unparen(a.X) == ast.Expr(id) {
						if sel := info.Selections[a]; sel != nil && sel.Kind() == types.MethodVal {
							if f, ok := sel.Obj().(*types.Func); ok {
								if sig, ok := f.Type().(*types.Signature); ok && sig.Recv() != nil {
									if _, ptr := sig.Recv().Type().(*types.Pointer); ptr {
										okUse = false
									}
								}
							}
						}
					}
				case *ast.IndexExpr, *ast.ParenExpr:
					continue
				}
				if _, isStmt := stack[k].(ast.Stmt); isStmt {
					break
				}
			}
			if !okUse && (bad == "" || id.Pos() < bpos) {
				bad, bpos = ShortFn(k)+" keeps state in the package-level variable "+v.Name()+": what the scrubber decides about a field must depend on that field's own tag, not on state kept between calls (a cache keyed by a type's name answers for anonymous or same-named local types with the tags of another type)", id.Pos()
			}
			return true
		})
	}
	if n == 0 {
		r.Unresolved(rule, "functions Secure reaches in package clone")
		return
	}
	if bpos == 0 {
		if f := r.P.Funcs[cloneKey("Secure")]; f != nil {
			bpos = f.Decl.Pos()
		}
	}
	r.Check(rule, "scrubber-keeps-no-state", bpos, bad == "", "%s", orOK(bad, "package-level variables are only read"))
}
