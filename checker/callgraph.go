package main

import (
	"go/ast"
	"go/token"
	"go/types"
	"sort"

	"golang.org/x/tools/go/types/typeutil"
)

// CallEdge is one call or reference from a declared function (or a literal inside it).
type CallEdge struct {
	Caller string // key of the enclosing declared function
	Callee string // FuncKey of the callee (declared function or interface method)
	Pos    token.Pos
	Ref    bool          // function value referenced, not called
	Async  bool          // site is inside a literal launched asynchronously (Submit/Go/go)
	InLit  *ast.FuncLit  // innermost literal containing the site, if any
	Call   *ast.CallExpr // nil for refs
}

// CallGraph is the declaration-granular call graph of the repository.
type CallGraph struct {
	Edges   []CallEdge
	byCalle map[string][]int
	byCalr  map[string][]int
	priv    map[[2]string]int
}

// asyncLaunchers are the higher-order callees that run their literal argument
// on another goroutine (DESIGN.md section 2).
var asyncLaunchers = map[string]bool{
	"github.com/gostdlib/base/concurrency/worker.Pool.Submit":  true,
	"github.com/gostdlib/base/concurrency/sync.Group.Go":     true,
	"github.com/gostdlib/base/concurrency/worker.Limited.Submit": true,
}

func (p *Prog) CallGraph() *CallGraph {
	if p.cg != nil {
		return p.cg
	}
	g := &CallGraph{byCalle: map[string][]int{}, byCalr: map[string][]int{}}
	for _, fn := range p.sortedFuncs() {
		if fn.Decl.Body == nil {
			continue
		}
		info := fn.Pkg.TypesInfo
		calledFun := map[ast.Expr]bool{}
		asyncLit := map[*ast.FuncLit]bool{}
		// first pass: classify literals
		ast.Inspect(fn.Decl.Body, func(n ast.Node) bool {
			switch x := n.(type) {
			case *ast.GoStmt:
				if fl, ok := x.Call.Fun.(*ast.FuncLit); ok {
					asyncLit[fl] = true
				}
			case *ast.CallExpr:
				if f, ok := typeutil.Callee(info, x).(*types.Func); ok && asyncLaunchers[FuncKey(f)] {
					for _, a := range x.Args {
						if fl, ok := ast.Unparen(a).(*ast.FuncLit); ok {
							asyncLit[fl] = true
						}
					}
				}
			}
			return true
		})
		var litStack []*ast.FuncLit
		var visit func(n ast.Node) bool
		var stack []ast.Node
		visit = func(n ast.Node) bool {
			if n == nil {
				top := stack[len(stack)-1]
				stack = stack[:len(stack)-1]
				if _, ok := top.(*ast.FuncLit); ok {
					litStack = litStack[:len(litStack)-1]
				}
				return true
			}
			stack = append(stack, n)
			if fl, ok := n.(*ast.FuncLit); ok {
				litStack = append(litStack, fl)
			}
			var inLit *ast.FuncLit
			async := false
			if len(litStack) > 0 {
				inLit = litStack[len(litStack)-1]
				for _, l := range litStack {
					if asyncLit[l] {
						async = true
					}
				}
			}
			switch x := n.(type) {
			case *ast.CallExpr:
				calledFun[ast.Unparen(x.Fun)] = true
				if ie, ok := ast.Unparen(x.Fun).(*ast.IndexExpr); ok {
					calledFun[ast.Unparen(ie.X)] = true
				}
				if f, ok := typeutil.Callee(info, x).(*types.Func); ok {
					g.add(CallEdge{Caller: fn.Key, Callee: FuncKey(f), Pos: x.Pos(), Async: async, InLit: inLit, Call: x})
				}
			case *ast.SelectorExpr:
				if calledFun[x] {
					break
				}
				if s := info.Selections[x]; s != nil && (s.Kind() == types.MethodVal || s.Kind() == types.MethodExpr) {
					g.add(CallEdge{Caller: fn.Key, Callee: FuncKey(s.Obj().(*types.Func)), Pos: x.Pos(), Ref: true, Async: async, InLit: inLit})
				} else if s == nil {
					if f, ok := info.Uses[x.Sel].(*types.Func); ok {
						g.add(CallEdge{Caller: fn.Key, Callee: FuncKey(f), Pos: x.Pos(), Ref: true, Async: async, InLit: inLit})
					}
				}
			case *ast.Ident:
				if calledFun[x] {
					break
				}
				// skip the Sel of selector expressions (handled above)
				if len(stack) >= 2 {
					if se, ok := stack[len(stack)-2].(*ast.SelectorExpr); ok && se.Sel == x {
						break
					}
				}
				if f, ok := info.Uses[x].(*types.Func); ok {
					g.add(CallEdge{Caller: fn.Key, Callee: FuncKey(f), Pos: x.Pos(), Ref: true, Async: async, InLit: inLit})
				}
			}
			return true
		}
		ast.Inspect(fn.Decl.Body, visit)
	}
	// package-level initialisers: a function referenced (or called) from `var x = …` is reachable
	// from the package's initialisation; the pseudo caller "<pkg>.<init>" makes every who-may-call
	// rule see that route.
	for _, pkg := range p.All {
		info := pkg.TypesInfo
		rel := relPkg(pkg.PkgPath)
		if rel == "" {
			rel = "coercion"
		}
		for _, f := range pkg.Syntax {
			for _, d := range f.Decls {
				gd, ok := d.(*ast.GenDecl)
				if !ok || gd.Tok != token.VAR {
					continue
				}
				for _, sp := range gd.Specs {
					vs, ok := sp.(*ast.ValueSpec)
					if !ok {
						continue
					}
					for _, v := range vs.Values {
						ast.Inspect(v, func(n ast.Node) bool {
							switch x := n.(type) {
							case *ast.FuncLit:
								return false // bodies of literals stored in variables are not analysed as callers here
							case *ast.CallExpr:
								if fo, ok := typeutil.Callee(info, x).(*types.Func); ok {
									g.add(CallEdge{Caller: rel + ".<init>", Callee: FuncKey(fo), Pos: x.Pos(), Call: x})
								}
							case *ast.SelectorExpr:
								if s := info.Selections[x]; s != nil && (s.Kind() == types.MethodVal || s.Kind() == types.MethodExpr) {
									g.add(CallEdge{Caller: rel + ".<init>", Callee: FuncKey(s.Obj().(*types.Func)), Pos: x.Pos(), Ref: true})
								} else if s == nil {
									if fo, ok := info.Uses[x.Sel].(*types.Func); ok {
										g.add(CallEdge{Caller: rel + ".<init>", Callee: FuncKey(fo), Pos: x.Pos(), Ref: true})
									}
								}
							case *ast.Ident:
								if fo, ok := info.Uses[x].(*types.Func); ok {
									g.add(CallEdge{Caller: rel + ".<init>", Callee: FuncKey(fo), Pos: x.Pos(), Ref: true})
								}
							}
							return true
						})
					}
				}
			}
		}
	}
	p.cg = g
	return g
}

func (g *CallGraph) add(e CallEdge) {
	i := len(g.Edges)
	g.Edges = append(g.Edges, e)
	g.byCalle[e.Callee] = append(g.byCalle[e.Callee], i)
	g.byCalr[e.Caller] = append(g.byCalr[e.Caller], i)
}

// Callers returns the edges whose callee is key (calls and references).
func (g *CallGraph) Callers(key string) []CallEdge {
	var out []CallEdge
	for _, i := range g.byCalle[key] {
		out = append(out, g.Edges[i])
	}
	return out
}

// Callees returns the edges leaving a declared function.
func (g *CallGraph) Callees(key string) []CallEdge {
	var out []CallEdge
	for _, i := range g.byCalr[key] {
		out = append(out, g.Edges[i])
	}
	return out
}

// Reach returns every function reachable from the given keys; follow decides
// whether an edge is followed.
func (g *CallGraph) Reach(from []string, follow func(CallEdge) bool) map[string]string {
	parent := map[string]string{}
	for _, f := range from {
		parent[f] = ""
	}
	work := append([]string{}, from...)
	for len(work) > 0 {
		k := work[0]
		work = work[1:]
		for _, e := range g.Callees(k) {
			if follow != nil && !follow(e) {
				continue
			}
			if _, seen := parent[e.Callee]; seen {
				continue
			}
			parent[e.Callee] = k
			work = append(work, e.Callee)
		}
	}
	return parent
}

// Chain renders the discovered route to key.
func Chain(parent map[string]string, key string) string {
	s := key
	for k := parent[key]; k != ""; k = parent[k] {
		s = k + " → " + s
	}
	return s
}

func (p *Prog) sortedFuncs() []*Func {
	var out []*Func
	for _, f := range p.Funcs {
		out = append(out, f)
	}
	sort.Slice(out, func(i, j int) bool { return out[i].Key < out[j].Key })
	return out
}

// CallersWithin checks callers(key) ⊆ allowed (declaration-granular) and records
// one obligation per call/reference site.
func (r *Run) CallersWithin(rule, key string, allowed ...string) {
	g := r.P.CallGraph()
	ok := map[string]bool{}
	for _, a := range allowed {
		ok[a] = true
	}
	edges := g.Callers(key)
	if len(edges) == 0 {
		r.Unresolved(rule, "callers-of:"+key)
		return
	}
	seen := map[string]bool{}
	for _, e := range edges {
		r.Evals++
		k := "callers(" + key + ")∋" + e.Caller
		if seen[k] {
			continue
		}
		seen[k] = true
		kind := "calls"
		if e.Ref {
			kind = "references"
		}
		// a private helper of an allowed caller (a piece the caller was split into) is that caller
		good := ok[e.Caller]
		for _, a := range allowed {
			if !good && g.PrivateTo(e.Caller, a) {
				good = true
			}
		}
		r.Check(rule, k, e.Pos, good, "%s %s %s; allowed callers: %v", e.Caller, kind, key, allowed)
	}
}

// PrivateTo reports whether function x is a private helper of function a: x is a itself, or x is
// unexported and every call or reference site of x lies in a or in another private helper of a. For
// every rule that asks "who does this", such a helper is part of a — splitting a function into
// pieces must not change a verdict. Exported functions and functions nobody calls are private to
// nobody but themselves.
func (g *CallGraph) PrivateTo(x, a string) bool {
	if x == a {
		return true
	}
	if g.priv == nil {
		g.priv = map[[2]string]int{}
	}
	k := [2]string{x, a}
	switch g.priv[k] {
	case 1:
		return true
	case 2:
		return false
	case 3:
		return true // being computed: a recursive edge does not decide
	}
	g.priv[k] = 3
	name := x
	if i := lastDot(x); i >= 0 {
		name = x[i+1:]
	}
	exported := name != "" && name[0] >= 'A' && name[0] <= 'Z'
	callers := g.Callers(x)
	ok := !exported && len(callers) > 0 && pkgOfKey(x) == pkgOfKey(a)
	n := 0
	for _, e := range callers {
		if !ok {
			break
		}
		if e.Caller == x {
			continue
		}
		n++
		if !g.PrivateTo(e.Caller, a) {
			ok = false
		}
	}
	if n == 0 {
		ok = false
	}
	if ok {
		g.priv[k] = 1
	} else {
		g.priv[k] = 2
	}
	return ok
}

func lastDot(s string) int {
	for i := len(s) - 1; i >= 0; i-- {
		if s[i] == '.' {
			return i
		}
	}
	return -1
}

// OnlyCalledFrom reports whether every call or reference site of the (unexported) function lies in one of
// the allowed functions or in an unexported helper of which the same holds: a helper shared by the
// functions a table allows is covered by that table.
func (g *CallGraph) OnlyCalledFrom(key string, allowed func(string) bool) bool {
	return g.onlyCalledFrom(key, allowed, map[string]bool{})
}

func (g *CallGraph) onlyCalledFrom(key string, allowed func(string) bool, busy map[string]bool) bool {
	if allowed(key) {
		return true
	}
	if busy[key] {
		return true
	}
	busy[key] = true
	name := key
	if i := lastDot(key); i >= 0 {
		name = key[i+1:]
	}
	if name == "" || (name[0] >= 'A' && name[0] <= 'Z') {
		return false
	}
	callers := g.Callers(key)
	if len(callers) == 0 {
		return false
	}
	for _, e := range callers {
		if e.Caller == key {
			continue
		}
		if !g.onlyCalledFrom(e.Caller, allowed, busy) {
			return false
		}
	}
	return true
}
